(* C12, part H: state that a TRANSFORM INSTANCE keeps across records.
   A transform object lives as long as its pipeline; whatever it remembers from one record is still there when the
   next record comes, while the record's strings are gone: for records above the pooling threshold they lie in a
   pooled buffer that Release hands back and the next NewRecord of that size class overwrites.

   The only transform of slog-agent with such state (the documented percentage counters of "drop" aside) is
   transform/tparsetime: parseRFC3339Timestamp keeps  timezoneCache map[string]*time.Location  keyed by the zone
   suffix of the record's "time" value.  Modelled here on the heap of Model/Memory.v (records, pooled buffers):

     [pt_zone_keep]  KeepCopy: the key is a copy (the code after "fix: parseTime keeps its own copy of a timezone
                     string used as cache key");  KeepRef: timezoneCache[tzStr] = location with tzStr a substring of
                     the record (the code before): the key reads whatever the buffer holds NOW.
                     A Go map files an entry by the hash of the key bytes at insertion (bucket, tophash) and compares
                     the bytes of the candidates it finds there: [pt_hash] is that filing function.
     [pt_last_keep]  None: the code.  Some k: a "last value" shortcut in front of the parser (remember the last
                     successfully parsed string and its result); Some KeepRef is the independently seeded change.

   The timestamp of a record is kept in r_ts as  unix * 10^9 + nsec  ([pt_ts_code]).  No proofs in this file. *)
From SV Require Import Model.Common Model.Memory Model.MemoryStores Model.ParseTime.
Open Scope nat_scope.

(* Go substring s[a:a+n]: the same backing bytes *)
Definition mem_stored_sub (s : mem_stored) (a n : nat) : mem_stored :=
  match s with
  | StBytes b => StBytes (firstn n (skipn a b))
  | StBuf buf off _ => StBuf buf (off + a) n
  end.

Record pt_zone := { pz_key : mem_stored; pz_slot : N; pz_off : Z }.

Record pt_state := {
  ps_zones : list pt_zone;                       (* timezoneCache, in order of insertion *)
  ps_last : option (mem_stored * Z * Z)          (* last value shortcut: string, unix, nsec *)
}.

Definition pt_init : pt_state := {| ps_zones := []; ps_last := None |}.

Record pt_config := {
  pt_local_off : Z;                 (* offset of time.Local, used when the string has no zone *)
  pt_hash : bytes -> N;
  pt_zone_keep : mem_keep;
  pt_last_keep : option mem_keep
}.

Definition pt_keep_str (k : mem_keep) (b : bytes) (ref : mem_stored) : mem_stored :=
  match k with KeepCopy => StBytes b | KeepRef => ref end.

(* map lookup: entries filed where the key hashes to, compared by the bytes they read now *)
Fixpoint pt_zone_find (g : mem_gstate) (zs : list pt_zone) (slot : N) (tz : bytes) : option Z :=
  match zs with
  | [] => None
  | z :: zs' =>
    if (pz_slot z =? slot)%N && bytes_eqb (mem_stored_read g (pz_key z)) tz then Some (pz_off z)
    else pt_zone_find g zs' slot tz
  end.

(* parseRFC3339Timestamp up to the zone: (time.Date fields as seconds without offset, nanoseconds, zone string) *)
Definition pt_head (t : bytes) : outcome (Z * Z * bytes) :=
  if (length t <? 19)%nat then Err 1%N else
  c4 <- idx t 4 ;; c7 <- idx t 7 ;; c10 <- idx t 10 ;; c13 <- idx t 13 ;; c16 <- idx t 16 ;;
  if negb ((c4 =? 45) && (c7 =? 45) && (c10 =? 84) && (c13 =? 58) && (c16 =? 58))%N then Err 1%N else
  year <- atoi4 t 0 ;; month <- atoi2 t 5 ;; day <- atoi2 t 8 ;;
  hour <- atoi2 t 11 ;; mi <- atoi2 t 14 ;; sec <- atoi2 t 17 ;;
  let (frac, tz) := split_frac_tz (skipn 19 t) in
  nsec <- parse_fraction_nanos frac ;;
  Ok (go_date_unix year month day hour mi sec, nsec, tz).

(* the location: time.Local, a cached zone, or time.Parse + a new cache entry *)
Definition pt_locate (cfg : pt_config) (g : mem_gstate) (zones : list pt_zone) (tz : bytes) (tzref : mem_stored)
  : outcome Z * list pt_zone :=
  match tz with
  | [] => (Ok (pt_local_off cfg), zones)
  | _ =>
    match pt_zone_find g zones (pt_hash cfg tz) tz with
    | Some o => (Ok o, zones)
    | None =>
      match parse_tz tz with
      | Ok o => (Ok o, zones ++ [{| pz_key := pt_keep_str (pt_zone_keep cfg) tz tzref; pz_slot := pt_hash cfg tz; pz_off := o |}])
      | Err e => (Err e, zones)
      | Panic s => (Panic s, zones)
      end
    end
  end.

Definition pt_parse (cfg : pt_config) (g : mem_gstate) (zones : list pt_zone) (t : bytes) (tref : mem_stored)
  : outcome (Z * Z) * list pt_zone :=
  match pt_head t with
  | Ok (base, nsec, tz) =>
    match pt_locate cfg g zones tz (mem_stored_sub tref (length t - length tz) (length tz)) with
    | (Ok o, zs) => (Ok ((base - o)%Z, nsec), zs)
    | (Err e, zs) => (Err e, zs)
    | (Panic s, zs) => (Panic s, zs)
    end
  | Err e => (Err e, zones)
  | Panic s => (Panic s, zones)
  end.

Definition pt_last_hit (cfg : pt_config) (g : mem_gstate) (st : pt_state) (v : bytes) : option (Z * Z) :=
  match pt_last_keep cfg, ps_last st with
  | Some _, Some (k, u, n) => if bytes_eqb (mem_stored_read g k) v then Some (u, n) else None
  | _, _ => None
  end.

(* parseTimeTransform.Transform on a value [v] that the record holds as [ref] *)
Definition pt_apply (cfg : pt_config) (g : mem_gstate) (st : pt_state) (v : bytes) (ref : mem_stored)
  : pt_state * tp_result :=
  match v with
  | [] => (st, TpSkip)
  | _ =>
    match pt_last_hit cfg g st v with
    | Some (u, n) => (st, TpSet u n)
    | None =>
      match pt_parse cfg g (ps_zones st) v ref with
      | (Ok (u, n), zs) =>
        ({| ps_zones := zs;
            ps_last := match pt_last_keep cfg with Some k => Some (pt_keep_str k v ref, u, n) | None => ps_last st end |},
         TpSet u n)
      | (Err _, zs) => ({| ps_zones := zs; ps_last := ps_last st |}, TpError)
      | (Panic s, zs) => ({| ps_zones := zs; ps_last := ps_last st |}, TpPanic s)
      end
    end
  end.

Definition pt_ts_code (u n : Z) : Z := (u * 1000000000 + n)%Z.

Definition pt_set_ts (g : mem_gstate) (h : nat) (ts : Z) : mem_gstate :=
  match nth_error (g_slots g) h with
  | Some s =>
    let r := sl_rec s in
    {| g_slots := mem_upd_slot g h {| sl_rec := {| r_fields := r_fields r; r_rawlen := r_rawlen r; r_ts := ts;
                                                   r_unesc := r_unesc r; r_backbuf := r_backbuf r; r_refc := r_refc r |};
                                      sl_state := sl_state s |};
       g_bufs := g_bufs g; g_cfg := g_cfg g; g_dirty := g_dirty g; g_next_rid := g_next_rid g;
       g_log := g_log g; g_status := g_status g; g_out := g_out g |}
  | None => g
  end.

(* the worker runs parseTime (key = field [key]) on the live record in slot h: new instance state, the result, the
   value it read (ghost) and the pipeline state with record.Timestamp set *)
Definition pt_transform (cfg : pt_config) (g : mem_gstate) (st : pt_state) (h key : nat)
  : option (pt_state * tp_result * bytes * mem_gstate) :=
  match mem_key_fields g h [key] with
  | Some [(v, ref)] =>
    let '(st', r) := pt_apply cfg g st v ref in
    Some (st', r, v, match r with TpSet u n => pt_set_ts g h (pt_ts_code u n) | _ => g end)
  | _ => None
  end.

(* ---- histories of the pipeline with a parseTime instance ----
   any interleaving of the events of Model/Memory.v (Parse with any pool choice, the other transformations, outputs
   and releases) with calls of parseTime on live records; the ghost log records (value read, result) *)
Inductive pt_event :=
| XMem (e : mem_event)
| XParseTime (h : nat).

Record pt_sys := { xs_g : mem_gstate; xs_st : pt_state; xs_log : list (bytes * tp_result) }.

Definition pt_sys_init (c : mem_config) : pt_sys := {| xs_g := mem_init c; xs_st := pt_init; xs_log := [] |}.

Definition pt_sys_step (c : mem_config) (cfg : pt_config) (key : nat) (s : pt_sys) (e : pt_event) : option pt_sys :=
  match e with
  | XMem ev =>
    match mem_step c (xs_g s) ev with
    | StepOk g' => Some {| xs_g := g'; xs_st := xs_st s; xs_log := xs_log s |}
    | StepStop _ => None
    end
  | XParseTime h =>
    match pt_transform cfg (xs_g s) (xs_st s) h key with
    | Some (st', r, v, g') => Some {| xs_g := g'; xs_st := st'; xs_log := xs_log s ++ [(v, r)] |}
    | None => None
    end
  end.

Fixpoint pt_sys_run (c : mem_config) (cfg : pt_config) (key : nat) (s : pt_sys) (evs : list pt_event) : option pt_sys :=
  match evs with
  | [] => Some s
  | e :: evs' =>
    match pt_sys_step c cfg key s e with
    | Some s' => pt_sys_run c cfg key s' evs'
    | None => None
    end
  end.
