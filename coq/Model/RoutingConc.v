(* C06 - the by-key-set orchestrator with its input sinks as concurrent processes.

   In the agent every input connection has its own sink (byKeySetOrchestrator.NewSink) and its own goroutine; the
   sinks call Accept at the same time.  Per record a sink does
        tempKeySet := keySetExtractor.Extract(record)          (base/fieldsetextractor.go: for i, loc := range locators
                                                                 { fieldSetBuffer[i] = loc.Get(record.Fields) })
        cache := workerMap.GetOrCreate(tempKeySet, ...)        (util/localcachedmap: AppendMergedKey reads the values;
                                                                 on a miss DeepCopyStrings reads them AGAIN, then the
                                                                 global map is consulted under its mutex)
   i.e. the key values of the record travel through the extractor's scratch slice [fieldSetBuffer] between the two
   calls.  NewSink gives every sink its own extractor (base.NewFieldSetExtractor: make([]string, n)).

   This model makes the scratch slices, the separate events and their interleaving explicit:
     - a process per sink with a program (the key tuples of the records it will accept, in order), a phase and its
       LocalCachedMap;
     - the steps of one record:  start -> n stores into the scratch (one per key field) -> read the scratch, merge,
       look up the local map (hit: the record is appended to that pipeline) -> on a miss: read the scratch again
       (the permanent copy), GlobalCachedMap.getOrCreate / newPipeline under the mutex (atomic), remember locally,
       append the record;
     - a schedule: the list of sink numbers that take the next step - any list.
   [shared] is the model parameter for the ownership of the scratch: false = one slice per sink (the code),
   true = all sinks use slice 0 (a struct copy of one FieldSetExtractor shares its slice).
   The two reads of the scratch are atomic over the n values (a finer read only adds behaviours to the shared variant;
   with own scratch nobody else writes it).  Flushing to the pipeline's channel is not modelled: "appended to
   pipeline i" is the log entry (sink, the record's own key tuple, i).
   No proofs in this file. *)
From SV Require Import Model.Common Model.Md5 Model.Routing Model.RoutingMem.
Open Scope N_scope.

Local Notation "' p <- e ;; f" := (obind e (fun p => f)) (at level 61, p pattern, e at next level, right associativity).

Inductive phase :=
| PIdle                                        (* between two records *)
| PExtract (t : list bytes) (j : nat)          (* Extract: fields 0..j-1 of the record with key values t are stored *)
| PLookup (t : list bytes)                     (* Extract returned; GetOrCreate not yet entered *)
| PCreate (t : list bytes) (mk : bytes).       (* local miss under merged key mk; before DeepCopyStrings *)

Record sproc := { sp_todo : list (list bytes); sp_phase : phase; sp_local : amap }.

(* (sink, the key values of the record itself, pipeline it was appended to); newest first *)
Definition entry := (nat * list bytes * nat)%type.

Record cstate := { c_g : gstate; c_procs : list sproc; c_scr : list (list bytes); c_log : list entry }.

(* which scratch slice sink s uses *)
Definition slot (shared : bool) (s : nat) : nat := if shared then O else s.

Definition with_proc (st : cstate) (s : nat) (p : sproc) : cstate :=
  {| c_g := c_g st; c_procs := set_nth (c_procs st) s p; c_scr := c_scr st; c_log := c_log st |}.

(* one step of sink s; n = number of key fields (locators).  A sink that does not exist or has nothing to do: no-op *)
Definition cstep (shared : bool) (parts : list tpart) (n : nat) (st : cstate) (s : nat) : outcome cstate :=
  match nth_error (c_procs st) s with
  | None => Ok st
  | Some p =>
    let b := slot shared s in
    let scr := nth b (c_scr st) [] in
    match sp_phase p with
    | PIdle =>
      match sp_todo p with
      | [] => Ok st
      | t :: r => Ok (with_proc st s {| sp_todo := r; sp_phase := PExtract t O; sp_local := sp_local p |})
      end
    | PExtract t j =>
      if Nat.ltb j n then
        Ok {| c_g := c_g st;
              c_procs := set_nth (c_procs st) s {| sp_todo := sp_todo p; sp_phase := PExtract t (S j); sp_local := sp_local p |};
              c_scr := set_nth (c_scr st) b (set_nth scr j (nth j t []));
              c_log := c_log st |}
      else Ok (with_proc st s {| sp_todo := sp_todo p; sp_phase := PLookup t; sp_local := sp_local p |})
    | PLookup t =>
      let mk := merged_key scr in
      match lookup mk (sp_local p) with
      | Some i =>
        Ok {| c_g := c_g st;
              c_procs := set_nth (c_procs st) s {| sp_todo := sp_todo p; sp_phase := PIdle; sp_local := sp_local p |};
              c_scr := c_scr st; c_log := (s, t, i) :: c_log st |}
      | None => Ok (with_proc st s {| sp_todo := sp_todo p; sp_phase := PCreate t mk; sp_local := sp_local p |})
      end
    | PCreate t mk =>
      '(g', i) <- global_get_or_create parts (c_g st) scr mk ;;
      Ok {| c_g := g';
            c_procs := set_nth (c_procs st) s {| sp_todo := sp_todo p; sp_phase := PIdle; sp_local := (mk, i) :: sp_local p |};
            c_scr := c_scr st; c_log := (s, t, i) :: c_log st |}
    end
  end.

Fixpoint run_sched (shared : bool) (parts : list tpart) (n : nat) (st : cstate) (sched : list nat) : outcome cstate :=
  match sched with
  | [] => Ok st
  | s :: r =>
    match cstep shared parts n st s with
    | Ok st' => run_sched shared parts n st' r
    | Err e => Err e
    | Panic x => Panic x
    end
  end.

(* one process per program; every sink slot has a scratch of n empty strings (make([]string, n)) *)
Definition c_init (g0 : gstate) (n : nat) (progs : list (list (list bytes))) : cstate :=
  {| c_g := g0;
     c_procs := map (fun pr => {| sp_todo := pr; sp_phase := PIdle; sp_local := [] |}) progs;
     c_scr := repeat (repeat [] n) (length progs);
     c_log := [] |}.

(* a sink has finished its program *)
Definition proc_done (p : sproc) : bool :=
  match sp_phase p, sp_todo p with PIdle, [] => true | _, _ => false end.

Definition all_done (st : cstate) : bool := forallb proc_done (c_procs st).

(* ---------------------------------------------------------------------------------------------- *)
(* the schedules used by the correspondence run (kind 8): a pseudo-random one, then every sink to its end *)

(* sink s takes k steps in a row (the steps of a sink that does not exist or has finished are no-ops: not executed) *)
Fixpoint run_rep (shared : bool) (parts : list tpart) (n : nat) (st : cstate) (s k : nat) : outcome cstate :=
  match k with
  | O => Ok st
  | S k' =>
    match nth_error (c_procs st) s with
    | None => Ok st
    | Some p =>
      if proc_done p then Ok st else
      match cstep shared parts n st s with
      | Ok st' => run_rep shared parts n st' s k'
      | Err e => Err e
      | Panic x => Panic x
      end
    end
  end.

(* a 16-bit linear congruential generator (cheap in binary arithmetic: the modulus is a mask) *)
Definition lcg_next (x : N) : N := N.land (x * 25173 + 13849) 65535.
Definition lcg_pick (x nprocs : N) : nat := N.to_nat ((N.shiftr x 7) mod nprocs).

(* [fuel] picks: sink (x >> 7) mod nprocs takes [burst] steps *)
Fixpoint run_lcg (shared : bool) (parts : list tpart) (n : nat) (nprocs : N) (burst : nat) (fuel : nat) (x : N) (st : cstate)
  : outcome cstate :=
  match fuel with
  | O => Ok st
  | S f =>
    let x' := lcg_next x in
    match run_rep shared parts n st (lcg_pick x' nprocs) burst with
    | Ok st' => run_lcg shared parts n nprocs burst f x' st'
    | Err e => Err e
    | Panic p => Panic p
    end
  end.

(* sinks s, s+1, .. each take k steps *)
Fixpoint run_drain (shared : bool) (parts : list tpart) (n : nat) (st : cstate) (s count k : nat) : outcome cstate :=
  match count with
  | O => Ok st
  | S c =>
    match run_rep shared parts n st s k with
    | Ok st' => run_drain shared parts n st' (S s) c k
    | Err e => Err e
    | Panic p => Panic p
    end
  end.

(* the same as explicit schedules (Proofs/RoutingConcProofs.v: run_lcg_is_sched, run_drain_is_sched) *)
Fixpoint lcg_sched (nprocs : N) (burst : nat) (fuel : nat) (x : N) : list nat :=
  match fuel with
  | O => []
  | S f => let x' := lcg_next x in repeat (lcg_pick x' nprocs) burst ++ lcg_sched nprocs burst f x'
  end.

Fixpoint drain_sched (s count k : nat) : list nat :=
  match count with
  | O => []
  | S c => repeat s k ++ drain_sched (S s) c k
  end.

(* ---------------------------------------------------------------------------------------------- *)
(* correspondence kind 8: several goroutines, each with its own connections (sinks) one after the other, accept
   records at the same time.
     sargs: template, n key names, then the programs of the goroutines one after the other (n values per record)
     zargs: n, number of goroutines G, accepts per goroutine, repetitions of the program per Accept,
            accepts per connection (0 = one connection), schedule seed, burst, then the G program lengths (records)
   Output: the pipelines that exist (sorted, distinct), the distinct (record's key tuple > pipeline) pairs (sorted),
   the number of records appended. *)

Fixpoint tuple_eqb (a b : list bytes) : bool :=
  match a, b with
  | [], [] => true
  | x :: a', y :: b' => bytes_eqb x y && tuple_eqb a' b'
  | _, _ => false
  end.

Fixpoint route_mem (t : list bytes) (i : nat) (l : list (list bytes * nat)) : bool :=
  match l with
  | [] => false
  | (t', i') :: r => (Nat.eqb i i' && tuple_eqb t t') || route_mem t i r
  end.

Fixpoint distinct_routes (log : list entry) (acc : list (list bytes * nat)) : list (list bytes * nat) :=
  match log with
  | [] => acc
  | (_, t, i) :: r => distinct_routes r (if route_mem t i acc then acc else (t, i) :: acc)
  end.

Fixpoint uniq_sorted (l : list bytes) : list bytes :=
  match l with
  | x :: ((y :: _) as r) => if bytes_eqb x y then uniq_sorted r else x :: uniq_sorted r
  | _ => l
  end.

Definition sorted_distinct (l : list bytes) : list bytes := uniq_sorted (sort_by (fun x => x) l).

Fixpoint repeat_app {A} (l : list A) (k : nat) : list A :=
  match k with O => [] | S k' => l ++ repeat_app l k' end.

(* the connections of one goroutine: [accepts] Accept calls, a new connection after every [per] (0: never) *)
Fixpoint conn_progs (fuel : nat) (prog : list (list bytes)) (rep accepts per : nat) : list (list (list bytes)) :=
  match fuel with
  | O => []
  | S f =>
    if Nat.eqb accepts 0 then [] else
    if (Nat.eqb per 0 || Nat.leb accepts per)%bool then [repeat_app prog (rep * accepts)] else
    repeat_app prog (rep * per) :: conn_progs f prog rep (accepts - per) per
  end.

Fixpoint split_progs (n : nat) (lens : list Z) (vals : list bytes) : option (list (list (list bytes))) :=
  match lens with
  | [] => match vals with [] => Some [] | _ => None end
  | z :: r =>
    let k := (nat_of_Z z * n)%nat in
    if ((z <? 0)%Z || Nat.ltb (length vals) k)%bool then None else
    match tuples_of n (firstn k vals), split_progs n r (skipn k vals) with
    | Some p, Some ps => Some (p :: ps)
    | _, _ => None
    end
  end.

Definition gt_ : N := 62.

Definition conc_out (st : cstate) : bytes :=
  let pipes := g_pipes (c_g st) in
  let routes := distinct_routes (c_log st) [] in
  str_ok ++ colon :: join 59 (sorted_distinct (map (pipe_out false) pipes)) ++ 35 ::
  join 59 (sorted_distinct (map (fun ti => hex_tuple (fst ti) ++ gt_ ::
                                   match nth_error pipes (snd ti) with Some p => pipe_out false p | None => dash end) routes))
  ++ 35 :: dec_nat (length (c_log st)).

Definition total_records (progs : list (list (list bytes))) : nat := fold_right (fun p a => (length p + a)%nat) O progs.

Definition longest (progs : list (list (list bytes))) : nat := fold_right (fun p a => Nat.max (length p) a) O progs.

(* the run of kind 8 for a given ownership of the scratch *)
Definition conc_exec (shared : bool) (parts : list tpart) (n : nat) (progs : list (list (list bytes))) (seed : N) (burst : nat)
  : outcome cstate :=
  let nprocs := length progs in
  let steps := (total_records progs * (n + 4))%nat in
  match run_lcg shared parts n (N.of_nat nprocs) burst (S (Nat.div steps burst)) seed (c_init g_init n progs) with
  | Ok st => run_drain shared parts n st O nprocs (longest progs * (n + 4))%nat
  | Err e => Err e
  | Panic p => Panic p
  end.

Definition run_conc (c : case) : bytes :=
  match c_zargs c, c_sargs c with
  | zn :: zg :: za :: zr :: zp :: zseed :: zb :: zlens, tmpl :: rest =>
    if negb (in_range zn 1 8 && in_range zg 1 16 && in_range za 0 100000 && in_range zr 1 1000 && in_range zp 0 100000
             && in_range zseed 0 2147483647 && in_range zb 1 1000)%bool then str_badcase else
    let n := nat_of_Z zn in
    if negb (Nat.eqb (length zlens) (nat_of_Z zg)) then str_badcase else
    if Nat.ltb (length rest) n then str_badcase else
    let names := firstn n rest in
    match split_progs n zlens (skipn n rest) with
    | None => str_badcase
    | Some gprogs =>
      match parse_template names tmpl with
      | None => str_err_tmpl
      | Some parts =>
        let accepts := nat_of_Z za in
        let progs := flat_map (fun pr => conn_progs (S accepts) pr (nat_of_Z zr) accepts (nat_of_Z zp)) gprogs in
        match conc_exec false parts n progs (Z.to_N zseed) (nat_of_Z zb) with
        | Ok st => if all_done st then conc_out st else str_badcase
        | _ => str_panic
        end
      end
    end
  | _, _ => str_badcase
  end.

Definition run_case_C06 (c : case) : bytes :=
  match c_kind c with
  | 8 => run_conc c
  | _ => run_case_C06_mem c
  end.
