(* C15: the oracle table used to EXECUTE the model in the correspondence run.
   Go's regexp and gobwas/glob are not modelled in general (they are Section variables of the
   interpreter and universally quantified in the theorems).  To run replace / extract / !!regex /
   !!glob nodes at all, the generator restricts itself to a tiny fragment whose meaning is
   written down here:
     regex :  ['^'] piece* ['$'],  piece = literal | '(' literal ')' ['?'] | '(?P<name>' literal ')' ['?']
                                         | '(' ['?P<name>'] ("[0-9]*" | "[a-z]*") ')'   (greedy star group: can capture "")
              literal over [A-Za-z0-9 =:_/-]; leftmost-first (backtracking) semantics;
              at least one mandatory non-empty piece (so that no match is empty)
     glob  :  literal characters and '*' (any sequence), full match
   Anything else "does not compile" here; the generator only emits "(" as an invalid pattern.
   No proofs in this file, and nothing is proved about it: modelled, not verified. *)
From SV Require Import Model.Common Model.Template Model.Extractor.
Open Scope N_scope.

Definition lit_char (c : N) : bool :=
  is_word c || (c =? 32) || (c =? 61) || (c =? 58) || (c =? 47) || (c =? 45).

Inductive piece := PcLit (s : bytes) | PcGroup (name : bytes) (s : bytes) (opt : bool)
  | PcStar (name : bytes) (cls : N).   (* '(' [name] "[0-9]*" ')' (cls 0) or "[a-z]*" (cls 1): greedy, may capture "" *)

Definition star_char (cls c : N) : bool :=
  if cls =? 0 then (48 <=? c) && (c <=? 57) else (97 <=? c) && (c <=? 122).

(* pieces up to an optional trailing '$' *)
Fixpoint parse_pieces (fuel : nat) (s : bytes) : option (list piece * bool) :=
  match fuel with
  | O => None
  | S f =>
    match s with
    | [] => Some ([], false)
    | [36] => Some ([], true)
    | 40 :: t =>
      (* group: "(?P<name>lit)" or "(lit)" *)
      let '(name, body) :=
        match t with
        | 63 :: 80 :: 60 :: t1 =>
          let (nm, r) := span is_word t1 in
          match r with 62 :: r' => (Some nm, r') | _ => (None, t1) end
        | _ => (Some [], t)
        end in
      match name with
      | None => None
      | Some nm =>
        let (l, r) := span lit_char body in
        match l, r with
        | [], 91 :: 48 :: 45 :: 57 :: 93 :: 42 :: 41 :: r2 =>
          match parse_pieces f r2 with
          | Some (ps, e) => Some (PcStar nm 0 :: ps, e)
          | None => None
          end
        | [], 91 :: 97 :: 45 :: 122 :: 93 :: 42 :: 41 :: r2 =>
          match parse_pieces f r2 with
          | Some (ps, e) => Some (PcStar nm 1 :: ps, e)
          | None => None
          end
        | _ :: _, 41 :: r1 =>
          let (opt, r2) := match r1 with 63 :: r2 => (true, r2) | _ => (false, r1) end in
          match parse_pieces f r2 with
          | Some (ps, e) => Some (PcGroup nm l opt :: ps, e)
          | None => None
          end
        | _, _ => None
        end
      end
    | c :: _ =>
      if lit_char c then
        let (l, r) := span lit_char s in
        match parse_pieces f r with
        | Some (ps, e) => Some (PcLit l :: ps, e)
        | None => None
        end
      else None
    end
  end.

Definition mandatory (p : piece) : bool :=
  match p with PcLit (_ :: _) => true | PcGroup _ (_ :: _) false => true | _ => false end.

(* (anchored at start, pieces, anchored at end) *)
Definition parse_re (pat : bytes) : option (bool * list piece * bool) :=
  let (anch, body) := match pat with 94 :: t => (true, t) | _ => (false, pat) end in
  match parse_pieces (S (length body)) body with
  | Some (ps, e) => if existsb mandatory ps then Some (anch, ps, e) else None
  | None => None
  end.

(* match the pieces at the head of v (which starts at offset pos); captures in group order *)
Fixpoint m_pieces (ps : list piece) (endanch : bool) (v : bytes) (pos : nat) : option (list (Z * Z) * nat) :=
  match ps with
  | [] => if endanch && (match v with [] => false | _ => true end) then None else Some ([], pos)
  | PcLit s :: ps' =>
    if is_prefix s v then m_pieces ps' endanch (skipn (length s) v) (pos + length s) else None
  | PcGroup _ s opt :: ps' =>
    let with_group :=
      if is_prefix s v then
        match m_pieces ps' endanch (skipn (length s) v) (pos + length s) with
        | Some (caps, e) => Some ((Z.of_nat pos, Z.of_nat (pos + length s)) :: caps, e)
        | None => None
        end
      else None in
    match with_group with
    | Some x => Some x
    | None =>
      if opt then
        match m_pieces ps' endanch v pos with
        | Some (caps, e) => Some (((-1)%Z, (-1)%Z) :: caps, e)
        | None => None
        end
      else None
    end
  | PcStar _ cls :: ps' =>
    (* greedy star with backtracking: the longest run first, then shorter ones down to the empty capture *)
    (fix try (k : nat) : option (list (Z * Z) * nat) :=
       match m_pieces ps' endanch (skipn k v) (pos + k) with
       | Some (caps, e) => Some ((Z.of_nat pos, Z.of_nat (pos + k)) :: caps, e)
       | None => match k with O => None | S k' => try k' end
       end) (length (fst (span (star_char cls) v)))
  end.

(* leftmost match of the pieces in v (offsets are relative to the whole value: pos) *)
Fixpoint re_search (ps : list piece) (endanch only_here : bool) (v : bytes) (pos : nat)
  : option (nat * nat * list (Z * Z)) :=
  match m_pieces ps endanch v pos with
  | Some (caps, e) => Some (pos, e, caps)
  | None =>
    if only_here then None else
    match v with
    | [] => None
    | _ :: t => re_search ps endanch false t (S pos)
    end
  end.

Definition tiny_re_compiles (pat : bytes) : bool :=
  match parse_re pat with Some _ => true | None => false end.

Definition tiny_re_find (pat v : bytes) : option (list (Z * Z)) :=
  match parse_re pat with
  | Some (anch, ps, e) =>
    match re_search ps e anch v O with
    | Some (a, b, caps) => Some ((Z.of_nat a, Z.of_nat b) :: caps)
    | None => None
    end
  | None => None
  end.

Definition tiny_re_match (pat v : bytes) : bool :=
  match tiny_re_find pat v with Some _ => true | None => false end.

Definition tiny_re_names (pat : bytes) : list bytes :=
  match parse_re pat with
  | Some (_, ps, _) =>
    [] :: flat_map (fun p => match p with PcGroup nm _ _ => [nm] | PcStar nm _ => [nm] | PcLit _ => [] end) ps
  | None => [[]]
  end.

(* ReplaceAllString with a replacement free of '$'; matches are non-empty *)
Fixpoint re_replace_loop (fuel : nat) (ps : list piece) (endanch anch : bool) (repl v : bytes) (at_start : bool)
  : bytes :=
  match fuel with
  | O => v
  | S f =>
    if anch && negb at_start then v else
    match re_search ps endanch anch v O with
    | Some (a, b, _) => firstn a v ++ repl ++ re_replace_loop f ps endanch anch repl (skipn b v) false
    | None => v
    end
  end.

Definition tiny_re_replace (pat repl v : bytes) : bytes :=
  match parse_re pat with
  | Some (anch, ps, e) => re_replace_loop (S (length v)) ps e anch repl v true
  | None => v
  end.

(* glob: literals and '*' *)
Definition tiny_glob_compiles (pat : bytes) : bool :=
  forallb (fun c => lit_char c || (c =? 42)) pat.

Fixpoint glob_m (p v : bytes) : bool :=
  match p with
  | [] => match v with [] => true | _ => false end
  | 42 :: p' =>
    (fix star (v : bytes) : bool :=
       glob_m p' v || match v with [] => false | _ :: v' => star v' end) v
  | c :: p' => match v with c' :: v' => (c =? c') && glob_m p' v' | [] => false end
  end.

Definition tiny_glob_match (pat v : bytes) : bool := glob_m pat v.
