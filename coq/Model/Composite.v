(* Model of input/sysloginput/compositeparser.go (compositeParser.Parse, what sysloginput.Config.NewParser and
   the listener's createParser return): syslogParser.Parse, then the input's extraction transforms
   (bsupport.RunTransforms), and on base.DROP the re-count CountRecordPassToDrop followed by
   LogAllocator.Release.  Brought inside the model here, because the accounting of a message that an
   extraction drops depends on them:
     - the record as the allocator sees it (base/logallocator.go): the reference count set by NewRecord
       (initialRefCount = number of outputs) and Release, which - when the count reaches zero - clears the
       fields and sets RawLength to 0 before the record is recycled;
     - base/loginputcounterset.go CountRecordPassToDrop, which reads record.RawLength;
     - the extraction transforms themselves: transform/tdrop (match, percentage with its two running
       totals, the custom counters "label" / "!label") and transform/tdelfields; bsupport.RunTransforms
       (first DROP ends the run).
   The order of the two statements of the drop path is a parameter ([release_first]): the code has
   count-then-release; release-then-count is the variant refuted in Proofs/CompositeProofs.v.
   No proofs in this file. *)
From SV Require Import Model.Common Model.Utf8 Model.Parser.
Open Scope N_scope.

(* ---------- base.LogAllocator: a record with its reference count ---------- *)

Record cell := { c_rec : record; c_refs : Z }.

Definition site_refcount : N := 6.       (* logger.Panic("negative reference count in record") *)

(* NewRecord: record._refCount += initialRefCount, on a new or recycled record (count 0) *)
Definition new_cell (refs0 : Z) (r : record) : cell := {| c_rec := r; c_refs := refs0 |}.

(* what Release leaves in a record it recycles: every field "", RawLength 0 (Unescaped is not reset) *)
Definition cleared (r : record) : record :=
  {| f_facility := []; f_level := []; f_time := []; f_host := []; f_app := []; f_pid := [];
     f_source := []; f_extradata := []; f_log := []; raw_length := 0; unescaped := unescaped r |}.

(* LogAllocator.Release *)
Definition release (c : cell) : outcome cell :=
  let n := (c_refs c - 1)%Z in
  if (n <? 0)%Z then Panic site_refcount
  else if (0 <? n)%Z then Ok {| c_rec := c_rec c; c_refs := n |}
  else Ok {| c_rec := cleared (c_rec c); c_refs := 0 |}.

(* ---------- LogInputCounterSet.CountRecordPassToDrop ----------
   unwrittenValue-- / -= on uint64 in Go.  It is only called right after CountRecordPass of the same
   record, so the subtraction never goes below zero when the length is the one that was added
   (pass_to_drop_after_pass in the proofs); N subtraction (which stops at 0) stands for it. *)
Definition count_pass_to_drop (c : counters) (rawlen : nat) : counters :=
  {| passed_n := passed_n c - 1; passed_bytes := passed_bytes c - N.of_nat rawlen;
     dropped_n := dropped_n c + 1; dropped_bytes := dropped_bytes c + N.of_nat rawlen;
     overflow_n := overflow_n c; overflow_bytes := overflow_bytes c |}.

(* ---------- logCustomCounterHost: counters by label (RegisterCustomCounter / CountRecord) ---------- *)

Definition labelled := list (bytes * (N * N)).

Fixpoint lab_count (l : labelled) (label : bytes) (len : nat) : labelled :=
  match l with
  | [] => [(label, (1, N.of_nat len))]
  | (k, (n, b)) :: rest =>
    if bytes_eqb k label then (k, (n + 1, b + N.of_nat len)) :: rest else (k, (n, b)) :: lab_count rest label len
  end.

Fixpoint lab_get (l : labelled) (label : bytes) : N * N :=
  match l with
  | [] => (0, 0)
  | (k, v) :: rest => if bytes_eqb k label then v else lab_get rest label
  end.

(* ---------- record fields by index ----------
   0 facility 1 level 2 time 3 host 4 app 5 pid 6 source 7 extradata 8 log; any other index: a field of the
   schema that the parser does not own (always "") *)
Definition get_field (r : record) (i : nat) : bytes :=
  match i with
  | 0%nat => f_facility r | 1%nat => f_level r | 2%nat => f_time r | 3%nat => f_host r | 4%nat => f_app r
  | 5%nat => f_pid r | 6%nat => f_source r | 7%nat => f_extradata r | 8%nat => f_log r | _ => []
  end.

Definition set_field (r : record) (i : nat) (v : bytes) : record :=
  {| f_facility := if (i =? 0)%nat then v else f_facility r;
     f_level := if (i =? 1)%nat then v else f_level r;
     f_time := if (i =? 2)%nat then v else f_time r;
     f_host := if (i =? 3)%nat then v else f_host r;
     f_app := if (i =? 4)%nat then v else f_app r;
     f_pid := if (i =? 5)%nat then v else f_pid r;
     f_source := if (i =? 6)%nat then v else f_source r;
     f_extradata := if (i =? 7)%nat then v else f_extradata r;
     f_log := if (i =? 8)%nat then v else f_log r;
     raw_length := raw_length r;
     unescaped := unescaped r |}.

(* ---------- the extraction transforms ---------- *)

(* transform/tdrop: match (field = value, all of them), percentage, metricLabel, totalMatched, totalDropped;
   transform/tdelfields: keys *)
Inductive xform :=
| XDrop (conds : list (nat * bytes)) (pct : Z) (label : bytes) (matched dropped : Z)
| XDel (keys : list nat).

(* bmatch.LogMatcher.Match with "equals" value matchers *)
Definition xmatch (conds : list (nat * bytes)) (r : record) : bool :=
  forallb (fun kv => bytes_eqb (get_field r (fst kv)) (snd kv)) conds.

Definition bang_label (label : bytes) : bytes := 33 :: label.     (* "!" + metricLabel *)

(* Transform(record): (DROP?, the transform afterwards, the record afterwards, custom counters afterwards) *)
Definition run_xform (x : xform) (r : record) (lab : labelled) : bool * xform * record * labelled :=
  match x with
  | XDel keys => (false, x, fold_left (fun r0 k => set_field r0 k []) keys r, lab)
  | XDrop conds pct label m d =>
    if negb (xmatch conds r) then (false, x, r, lab)
    else if (pct =? 100)%Z then (true, x, r, lab_count lab label (raw_length r))
    else if ((0 <? m) && (Z.quot (100 * d) m <? pct))%Z
         then (true, XDrop conds pct label (m + 1) (d + 1), r, lab_count lab label (raw_length r))
    else (false, XDrop conds pct label (m + 1) d, r, lab_count lab (bang_label label) (raw_length r))
  end.

(* bsupport.RunTransforms: the first DROP ends the run *)
Fixpoint run_transforms (xs : list xform) (r : record) (lab : labelled) : bool * list xform * record * labelled :=
  match xs with
  | [] => (false, [], r, lab)
  | x :: rest =>
    match run_xform x r lab with
    | (true, x', r', lab') => (true, x' :: rest, r', lab')
    | (false, x', r', lab') =>
      match run_transforms rest r' lab' with
      | (d, rest', r'', lab'') => (d, x' :: rest', r'', lab'')
      end
    end
  end.

(* state of the extraction step of one composite parser: the transforms (with their running totals) and
   the custom counters of the input's counter set *)
Definition xstate : Type := list xform * labelled.

Definition extract_transforms (x : xstate) (r : record) : bool * record * xstate :=
  match run_transforms (fst x) r (snd x) with
  | (d, xs', r', lab') => (d, r', (xs', lab'))
  end.

(* ---------- compositeParser.Parse ----------
   [extract]: the extraction step (any function; [extract_transforms] for the transforms above);
   [refs0]: initialRefCount of the allocator (number of outputs, at least 1);
   [release_first = false]: the code (CountRecordPassToDrop(record); Release(record));
   [release_first = true]: the two statements swapped. *)
Definition composite_parse {X : Type} (release_first : bool) (refs0 : Z)
                           (extract : X -> record -> bool * record * X)
                           (cfg : config) (cnt : counters) (x : X) (input : bytes)
                           : outcome (option record) * counters * X :=
  match parse cfg cnt input with
  | (Ok (Some r), c1) =>
    match extract x r with
    | (true, r', x') =>
      let cl := new_cell refs0 r' in
      if release_first then
        match release cl with
        | Ok cl' => (Ok None, count_pass_to_drop c1 (raw_length (c_rec cl')), x')
        | Err e => (Err e, c1, x')
        | Panic s => (Panic s, c1, x')
        end
      else
        let c2 := count_pass_to_drop c1 (raw_length (c_rec cl)) in
        match release cl with
        | Ok _ => (Ok None, c2, x')
        | Err e => (Err e, c2, x')
        | Panic s => (Panic s, c2, x')
        end
    | (false, r', x') => (Ok (Some r'), c1, x')
    end
  | (other, c1) => (other, c1, x)
  end.

(* a sequence of messages through one composite parser: counters, transform totals and custom counters
   are carried from one call to the next *)
Fixpoint composite_stream {X : Type} (release_first : bool) (refs0 : Z)
                          (extract : X -> record -> bool * record * X)
                          (cfg : config) (cnt : counters) (x : X) (msgs : list bytes)
                          : list (outcome (option record) * counters * X) :=
  match msgs with
  | [] => []
  | m :: ms =>
    let r := composite_parse release_first refs0 extract cfg cnt x m in
    r :: composite_stream release_first refs0 extract cfg (snd (fst r)) (snd r) ms
  end.

(* ---------- correspondence entry point ----------
   kinds 0-2: Model/Parser.v.
   kind 3: a sequence of messages through ONE new composite parser (default level mapping) with nX extraction
           transforms, on an allocator for [outputs] outputs:
           zargs = [maxMsg; maxRec; minPool; reps; outputs; nX; (type, f1, f2, pct, labelId) * nX; i1; i2; ...]
           sargs = [head; unit; tail; (v1, v2) * nX; m1; m2; ...]
           type 0 = drop with match f1 = v1 (and f2 = v2 unless f2 < 0), percentage pct, metricLabel "L<labelId>";
           type 1 = delFields keys [f1] (and f2 unless f2 < 0).  Fields by index as in [get_field], 9 = "spare".
           message table and sequence as for kind 2 (minPool only selects the allocator path in Go).
           output "xseq:" + results joined by "/", each = the result as for kind 2 (record after the extraction)
           + ";" + for every drop transform "n.bytes.n!.bytes!" (custom counters of its label and of "!"label),
           joined by ","
   kind 4: the same arguments as kind 3, but the counters are read only ONCE, after the last message (no
           UpdateMetrics between the messages): output "xend:" + per message "ok:<record>" | "drop" | "err" | "panic"
           joined by "/" + ";" + the counters + ";" + the custom counters as above *)

Fixpoint decode_xforms (n : nat) (zs : list Z) (ss : list bytes) : list xform :=
  match n with
  | O => []
  | S k =>
    match zs, ss with
    | ty :: f1 :: f2 :: pct :: lid :: zs', v1 :: v2 :: ss' =>
      (if (ty =? 0)%Z
       then XDrop ((Z.to_nat f1, v1) :: (if (f2 <? 0)%Z then [] else [(Z.to_nat f2, v2)])) pct (76 :: dec_of_Z lid) 0 0
       else XDel (Z.to_nat f1 :: (if (f2 <? 0)%Z then [] else [Z.to_nat f2])))
      :: decode_xforms k zs' ss'
    | _, _ => []
    end
  end.

Definition str_xseq : bytes := [120;115;101;113].            (* "xseq" *)

Definition show_labels (xs : list xform) (lab : labelled) : bytes :=
  join comma
    (flat_map (fun x => match x with
                        | XDrop _ _ label _ _ =>
                          let a := lab_get lab label in
                          let b := lab_get lab (bang_label label) in
                          [dec_N (fst a) ++ 46 :: dec_N (snd a) ++ 46 :: dec_N (fst b) ++ 46 :: dec_N (snd b)]
                        | XDel _ => []
                        end) xs).

Definition show_xresult (res : outcome (option record) * counters * xstate) : bytes :=
  match res with
  | (o, c, (xs, lab)) => show_result true (o, c) ++ 59 :: show_labels xs lab
  end.

Definition str_xend : bytes := [120;101;110;100].            (* "xend" *)

Definition show_outcome (o : outcome (option record)) : bytes :=
  match o with
  | Ok (Some r) => str_ok ++ colon :: show_record true r
  | Ok None => str_drop
  | Err _ => str_err
  | Panic _ => str_panic
  end.

(* counters and extraction state after the last message of a stream (the initial ones for no message) *)
Definition stream_last (rs : list (outcome (option record) * counters * xstate)) (c0 : counters) (x0 : xstate)
  : counters * xstate :=
  last (map (fun r => (snd (fst r), snd r)) rs) (c0, x0).

Definition run_case_C09 (c : case) : bytes :=
  match c_kind c with
  | 4 =>
    let mm := Z.to_N (zarg c 0) in
    let mr := Z.to_N (zarg c 1) in
    match new_parser mm mr [] with
    | Ok cfg =>
      let nx := Z.to_nat (zarg c 5) in
      let xs := decode_xforms nx (skipn 6 (c_zargs c)) (skipn 3 (c_sargs c)) in
      let table := (sarg c 0 ++ repeat_app (sarg c 1) (Z.to_nat (zarg c 3)) (sarg c 2)) :: skipn (3 + 2 * nx) (c_sargs c) in
      let msgs := map (fun i => nth (Z.to_nat i) table []) (skipn (6 + 5 * nx) (c_zargs c)) in
      let rs := composite_stream false (zarg c 4) extract_transforms cfg counters_zero (xs, []) msgs in
      match stream_last rs counters_zero (xs, []) with
      | (cf, (xsf, labf)) =>
        str_xend ++ colon :: join 47 (map (fun r => show_outcome (fst (fst r))) rs)
                 ++ 59 :: show_counters cf ++ 59 :: show_labels xsf labf
      end
    | _ => str_cfgerr
    end
  | 3 =>
    let mm := Z.to_N (zarg c 0) in
    let mr := Z.to_N (zarg c 1) in
    match new_parser mm mr [] with
    | Ok cfg =>
      let nx := Z.to_nat (zarg c 5) in
      let xs := decode_xforms nx (skipn 6 (c_zargs c)) (skipn 3 (c_sargs c)) in
      let table := (sarg c 0 ++ repeat_app (sarg c 1) (Z.to_nat (zarg c 3)) (sarg c 2)) :: skipn (3 + 2 * nx) (c_sargs c) in
      let msgs := map (fun i => nth (Z.to_nat i) table []) (skipn (6 + 5 * nx) (c_zargs c)) in
      str_xseq ++ colon :: join 47 (map show_xresult
        (composite_stream false (zarg c 4) extract_transforms cfg counters_zero (xs, []) msgs))
    | _ => str_cfgerr
    end
  | _ => run_case_C09_parser c
  end.
