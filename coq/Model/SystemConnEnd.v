(* SystemConnEnd.v — the END of a client connection, in the order of the code, as explicit steps on the state of
   Model/System.v, and the graceful stop of an agent whose client connections are still OPEN.

   Anchor: input/tcplistener/tcplinelistener.go runConnection

       for { readErr := mlineReader.Read() ... (periodic: mlineReader.Flush(); recvChan.Flush()) ...
             // error handling
             mlineReader.FlushAll()                                     <- OpFlushAll
             if IsNetworkClosed(readErr) && stopRequest.Peek() { log }  <- the STOP path (closed by connAborter)
             else { log }                                               <- the PEER path (EOF, reset, read error)
             break }
       recvChan.Flush()                                                 <- OpFlush
       (deferred) recvChan.Close(); connAborter.Signal()                <- OpClose

   and base/bsupport/logparsingreceiver.go: Accept appends the parsed record to bufferedLogs (the sink batch) and
   only calls sendBuffer when the batch is full; Flush = sendBuffer; Close closes the DOWNSTREAM sink (which flushes
   the per-key buffers of the connection) and does NOT send bufferedLogs: whatever the batch or the line reader
   still hold when Close runs is garbage.

   Model/System.v has the atomic event [EConnEnd k] for all of this.  Here the three operations are separate state
   transformers, the ending of a connection is a PROGRAM (a list of operations) per path, and [vstep] is the
   transition function of the agent parameterised by the two programs.  The faithful programs are
   [OpFlushAll; OpFlush; OpClose] on both paths; Proofs/SystemConnEndProofs.v shows that they compose to [EConnEnd]
   (so every theorem about runs of Model/System.v is a theorem about the code-order ending) and that the variants
   which skip or misplace an operation lose records.

   The second half is the executable prediction for case kind 3 ("stop with open connections"): the model runs
   the scenario of the case line through [vstep] down to the Stopped state and prints, per (connection, pipeline),
   how many kept records are in a final location.  No proofs in this file. *)
From Coq Require Import List NArith ZArith Bool Arith PeanoNat.
From SV Require Import Model.Common Model.System Model.SystemAccept.
Import ListNotations.
Open Scope nat_scope.

(* ---------- the three operations of the ending of connection k ---------- *)

Inductive end_op := OpFlushAll | OpFlush | OpClose.

(* mlineReader.FlushAll(): everything the line reader still buffers (the last record of a burst is only known to be
   complete now) is parsed and appended to the sink batch *)
Definition op_flush_all (k : nat) (s : state) : state :=
  let (cb, cb') := partition (on_conn k) (conn_buf s) in
  set_in s (open_conns s) (ingested s) cb' (sink_batch s ++ cb) (key_buf s) (chans s) (pipes s) (lost s).

(* recvChan.Flush(): sendBuffer — the whole batch goes to the per-key buffers of the orchestrator sink (pipelines
   are created on demand there) *)
Definition op_flush (k : nat) (s : state) : state :=
  let (sb, sb') := partition (on_conn k) (sink_batch s) in
  set_in s (open_conns s) (ingested s) (conn_buf s) sb' (key_buf s ++ sb) (chans s) (add_pipes sb (pipes s)) (lost s).

(* recvChan.Close(): the downstream sink flushes every per-key buffer of the connection into its pipeline channel;
   the connection is gone; what the batch and the line reader still hold is DISCARDED *)
Definition op_close (k : nat) (s : state) : state :=
  let (kb, kb') := partition (on_conn k) (key_buf s) in
  let (_, sb') := partition (on_conn k) (sink_batch s) in
  let (_, cb') := partition (on_conn k) (conn_buf s) in
  set_in s (remove_nat k (open_conns s)) (ingested s) cb' sb' kb' (chans s ++ singleton_batches kb) (pipes s) (lost s).

Definition run_op (o : end_op) (k : nat) (s : state) : state :=
  match o with
  | OpFlushAll => op_flush_all k s
  | OpFlush => op_flush k s
  | OpClose => op_close k s
  end.

Definition run_end (prog : list end_op) (k : nat) (s : state) : state :=
  fold_left (fun st o => run_op o k st) prog s.

(* ---------- the agent with the two ending programs as parameters ---------- *)

Record end_variant := mkVariant { stop_path : list end_op; peer_path : list end_op }.

Definition faithful_prog : list end_op := [OpFlushAll; OpFlush; OpClose].
Definition faithful : end_variant := mkVariant faithful_prog faithful_prog.

(* the seeded change C01/5: `return` right after FlushAll on the stop path (the deferred Close still runs) *)
Definition no_flush_on_stop : end_variant := mkVariant [OpFlushAll; OpClose] faithful_prog.
(* further variants of the same mechanism *)
Definition no_flush_all_on_stop : end_variant := mkVariant [OpFlush; OpClose] faithful_prog.
Definition flush_before_flush_all : end_variant := mkVariant [OpFlush; OpFlushAll; OpClose] [OpFlush; OpFlushAll; OpClose].

Inductive vevent :=
| VE (e : event)                (* any event of Model/System.v; [EConnEnd k] = the connection ends on the PEER path *)
| VConnEndStop (k : nat).       (* the connection is closed by the stop request: STOP path *)

Definition erase (ve : vevent) : event :=
  match ve with VE e => e | VConnEndStop k => EConnEnd k end.

Definition vstep (v : end_variant) (s : state) (ve : vevent) : option state :=
  match ve with
  | VE (EConnEnd k) =>
    if mem_nat k (open_conns s) then Some (run_end (peer_path v) k s) else None
  | VE e => step s e
  | VConnEndStop k =>
    (* stopRequest.Peek(): the stop has been requested and the inputs have not finished stopping *)
    if mem_nat k (open_conns s) && gphase_eqb (phase s) Stopping then Some (run_end (stop_path v) k s) else None
  end.

Fixpoint vsteps (v : end_variant) (s : state) (ves : list vevent) : option state :=
  match ves with
  | [] => Some s
  | e :: r => match vstep v s e with Some s' => vsteps v s' r | None => None end
  end.

Definition vno_timeout (ves : list vevent) : bool := no_timeout (map erase ves).

Definition is_stop_end (ve : vevent) : bool := match ve with VConnEndStop _ => true | _ => false end.
Definition no_stop_end (ves : list vevent) : bool := forallb (fun ve => negb (is_stop_end ve)) ves.

(* ---------- kind 3: a graceful stop with open connections, executed by the model ----------

   Z = seed, flags, batch, nconn, end mode of each connection, nrec, (conn, class, app, source, phase)...
     flags bit 0: two key fields (the other bits configure the upstream and the second generation of the real run);
     batch: defs.IntermediateBufferMaxNumLogs (records per sink batch);
     end mode: 0 open until the stop (closed by the stop request), 1 FIN / 2 RST sent just before the stop request
               (races with it), 3 FIN well before the stop (the agent has seen the end of the connection);
     class as in kind 1; phase 0: sent early, handed on by a periodic flush before the burst; 1: the burst right
     before the stop.
   The schedule chosen by the model: open; read the early records; periodic flush of every connection; read the
   burst (the line reader keeps the last record of each connection, the others are parsed into the batch, a full
   batch is sent on); mode-3 connections end; stop request; the other connections end on their path; inputs
   stopped; every pipeline drains (worker, final chunk, Destroy, save, client hand-back) in a greedy order; Stopped.
   Output "ok:s=<conn/pipeline:kept records in a final location;...>,f=<filtered>,m=<malformed>". *)

Definition try_ev (v : end_variant) (acc : state * list vevent) (mk : state -> vevent) : state * list vevent :=
  let ve := mk (fst acc) in
  if is_flush_timeout (erase ve) then acc      (* the scenario runner never takes the channel-timeout branch *)
  else match vstep v (fst acc) ve with
       | Some s' => (s', ve :: snd acc)
       | None => acc
       end.

(* attempt the events in order; the ones that are not enabled are skipped; taken events newest first *)
Definition try_all (v : end_variant) (acc : state * list vevent) (mks : list (state -> vevent)) : state * list vevent :=
  fold_left (try_ev v) mks acc.

Definition konst (ve : vevent) : state -> vevent := fun _ => ve.

Definition drain_candidates (s : state) : list (state -> vevent) :=
  flat_map (fun p =>
    [ konst (VE (EWorkerTake p)); konst (VE (EWorkerStep p));
      (fun st => VE (EWorkerStop p (S (lastid st)) AMem));
      konst (VE (EDestroy p)); konst (VE (EFeederBreak p));
      konst (VE (ESave p WQueue true)); konst (VE (ESave p WHand true));
      konst (VE (EClientStop p)); konst (VE (EHandback p true)); konst (VE (EClientDone p));
      konst (VE (ESave p WWindow true)); konst (VE (EFeederEnd p)) ]) (pipes s)
  ++ [konst (VE EStopped)].

Fixpoint drain (v : end_variant) (fuel : nat) (acc : state * list vevent) : state * list vevent :=
  match fuel with
  | O => acc
  | S f =>
    let acc' := try_all v acc (drain_candidates (fst acc)) in
    if Nat.eqb (length (snd acc')) (length (snd acc)) then acc' else drain v f acc'
  end.

Record stop_case := mkStopCase {
  sc_twokeys : bool;
  sc_batch : nat;
  sc_modes : list nat;                 (* per connection *)
  sc_recs : list (list nat)            (* conn, class, app, source, phase *)
}.

Definition decode_stop_case (zs : list Z) : option stop_case :=
  match zs with
  | [] => None
  | _seed :: zs' =>
    match rd_list rd_nat 3 zs' with
    | Some ([flags; batch; nconn], r) =>
      match rd_list rd_nat nconn r with
      | Some (modes, r1) =>
        match rd_counted (rd_list rd_nat 5) r1 with
        | Some (recs, []) => Some (mkStopCase (Nat.odd flags) batch modes recs)
        | _ => None
        end
      | None => None
      end
    | _ => None
    end
  end.

(* tokens of the plan records of one phase, in plan order; the sequence number is the index in the plan (plus an
   offset for the burst, which is read after all early records) *)
Fixpoint plan_toks (twokeys : bool) (ph : nat) (i : nat) (recs : list (list nat)) : list tok :=
  match recs with
  | [] => []
  | [conn; cls; app; src; p] :: r =>
    let rest := plan_toks twokeys ph (S i) r in
    if Nat.eqb p ph && negb (Nat.eqb cls 2)
    then mkTok conn i (plan_pipe twokeys app src) (negb (Nat.eqb cls 1)) 0%N :: rest
    else rest
  | _ :: r => plan_toks twokeys ph (S i) r
  end.

Definition count_malformed (recs : list (list nat)) : nat :=
  length (filter (fun r => match r with [_; 2; _; _; _] => true | _ => false end) recs).

Definition conn_ids (n : nat) : list nat := seq 0 n.

Definition all_plan_pipes (twokeys : bool) : list nat :=
  flat_map (fun a => map (fun x => plan_pipe twokeys a x) [0; 1]) [0; 1; 2].

(* periodic flush of connection k (read timeout): mlineReader.Flush (everything framed), recvChan.Flush (sendBuffer,
   then Tick: the per-key buffers are handed to their channels) *)
Definition periodic_flush (n : nat) (k : nat) : list (state -> vevent) :=
  repeat (konst (VE (EFrame k))) n ++ [konst (VE (ESinkSend k))]
  ++ map (fun p => konst (VE (EKeyFlush k p))) (all_plan_pipes true ++ all_plan_pipes false).

(* reading a burst on connection k: all but the last record are framed into the batch; a full batch is sent on *)
Definition burst_read (batch : nat) (k : nat) (toks : list tok) : list (state -> vevent) :=
  let mine := filter (on_conn k) toks in
  let framed := pred (length mine) in
  repeat (konst (VE (EFrame k))) framed
  ++ (if Nat.leb batch framed then [konst (VE (ESinkSend k))] else []).

Definition mode_of (c : stop_case) (k : nat) : nat := nth k (sc_modes c) 0.

Definition stop_schedule (c : stop_case) : list (state -> vevent) :=
  let n := length (sc_modes c) in
  let early := plan_toks (sc_twokeys c) 0 0 (sc_recs c) in
  let burst := plan_toks (sc_twokeys c) 1 (length (sc_recs c)) (sc_recs c) in
  map (fun k => konst (VE (EConnOpen k))) (conn_ids n)
  ++ map (fun t => konst (VE (EIngest t))) early
  ++ flat_map (periodic_flush (length early)) (conn_ids n)
  ++ map (fun t => konst (VE (EIngest t))) burst
  ++ flat_map (fun k => burst_read (sc_batch c) k burst) (conn_ids n)
  ++ flat_map (fun k => if Nat.eqb (mode_of c k) 3 then [konst (VE (EConnEnd k))] else []) (conn_ids n)
  ++ [konst (VE EStopReq)]
  ++ flat_map (fun k => match mode_of c k with
                        | 0 => [konst (VConnEndStop k)]
                        | 3 => []
                        | _ => [konst (VE (EConnEnd k))]
                        end) (conn_ids n)
  ++ [konst (VE EInputsStopped)].

Definition run_stop_scenario (v : end_variant) (c : stop_case) : state * list vevent :=
  let acc := try_all v (init, []) (stop_schedule c) in
  drain v (4 * length (sc_recs c) + 40) acc.

Definition safe_streams (s : state) : list ((nat * nat) * nat) :=
  fold_left (fun acc t => if t_keep t && in_toks t (safe s) then bump (t_conn t, t_pipe t) acc else acc)
            (rev (ingested s)) [].

Definition str_not_stopped : bytes := str [101;114;114;58;110;111;116;45;115;116;111;112;112;101;100]. (* "err:not-stopped" *)

Definition render_stop_result (c : stop_case) (s : state) : bytes :=
  if gphase_eqb (phase s) Stopped then
    str [111;107;58;115;61] ++ render_streams (safe_streams s)
    ++ str [44;102;61] ++ dec_nat (length (filtered s)) ++ str [44;109;61] ++ dec_nat (count_malformed (sc_recs c))
  else str_not_stopped.

Definition run_stop_case_with (v : end_variant) (c : case) : bytes :=
  match decode_stop_case (c_zargs c) with
  | None => bad_case_output
  | Some sc => render_stop_result sc (fst (run_stop_scenario v sc))
  end.

Definition run_stop_case : case -> bytes := run_stop_case_with faithful.

(* the correspondence entry point of C01 (kinds 1 and 2: Model/SystemAccept.v) *)
Definition run_case_C01 (c : case) : bytes :=
  if N.eqb (c_kind c) 3 then run_stop_case c
  else SystemAccept.run_case_C01 c.
