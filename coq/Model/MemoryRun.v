(* C12: correspondence entry point for Model/Memory.v.
   Decodes a case (kind, byte strings, integers) into a configuration, inputs and a
   schedule, runs the model and prints the observables the Go harness prints for
   the real code.  No proofs in this file.

   kind 1  zargs [n]            pool class of Get(n), size of the buffer, class used by Put
   kind 11 zargs [L]            class used by Put for a buffer of arbitrary length L
   kind 2  zargs [nOut; minPool; maxFields; ops...]   allocator script (NewRecord / fill / Release)
   kind 3  pipeline: see mem_decode_pipeline
   kind 4  oracle-only cases (long-lived vs fresh on configurations outside the model): echo
   kind 5  pipeline as kind 3 whose first transformation is  parseTime key: time  (a transform instance with state
           across records, Model/MemoryXfState.v): see pt_case_pipeline *)
From SV Require Import Model.Common Model.Memory Model.MemoryStores Model.ParseTime Model.MemoryXfState.
Open Scope N_scope.

Definition mem_hash (s : bytes) : N := fold_left (fun h b => (h * 131 + b + 1) mod 1000000007) s 7.

Definition mem_dec_nat (n : nat) : bytes := dec_of_N (N.of_nat n).
Definition mem_dot : N := 46.
Definition mem_semi : N := 59.
Definition mem_slash : N := 47.

Definition mem_res_class (o : outcome N) : bytes :=
  match o with Ok c => dec_of_N c | Panic _ => str_panic | Err _ => str_err end.

(* ---------------- kind 1 / 11 ---------------- *)
Definition mem_case_class (n : N) : bytes :=
  [99;108;115;58] (* "cls:" *) ++
  match mem_get_class n with
  | Ok c => dec_of_N c ++ comma :: dec_of_N (mem_class_size c) ++ comma :: mem_res_class (mem_put_class (mem_class_size c))
  | _ => str_panic
  end.

Definition mem_case_put (l : N) : bytes := [112;117;116;58] (* "put:" *) ++ mem_res_class (mem_put_class l).

(* ---------------- pool choices used when replaying a schedule ----------------
   The real sync.Pool may hand out any pooled object or a new one; the observables printed
   below do not depend on the choice (that is the content of the isolation theorem), so the
   replay takes the most recently created candidate. *)
Fixpoint mem_last_index {A} (f : A -> bool) (l : list A) (i : nat) (best : option nat) : option nat :=
  match l with
  | [] => best
  | x :: l' => mem_last_index f l' (S i) (if f x then Some i else best)
  end.

Definition mem_pick_slot (g : mem_gstate) : option nat :=
  mem_last_index (fun s => match sl_state s with SInPool => true | _ => false end) (g_slots g) 0 None.

Definition mem_pick_buf (g : mem_gstate) (cl : N) : option nat :=
  mem_last_index (fun b => b_free b && (b_class b =? cl)) (g_bufs g) 0 None.

Definition mem_choice_for (c : mem_config) (g : mem_gstate) (input : bytes) : option nat * option nat :=
  let n := N.of_nat (length input) in
  (mem_pick_slot g,
   if p_min_pool (c_params c) <? n then
     match mem_get_class n with Ok cl => mem_pick_buf g cl | _ => None end
   else None).

(* the slot a Parse event will use *)
Definition mem_slot_of_choice (g : mem_gstate) (cs : option nat) : nat :=
  match cs with Some h => h | None => length (g_slots g) end.

(* ---------------- observations of a record struct ---------------- *)
Definition mem_bit (b : bool) : N := if b then 49 else 48.

Definition mem_fields_empty (r : mem_rstruct) : bool :=
  forallb (fun s => match s with MEmpty => true | MStr _ _ _ => false end) (r_fields r).

Definition mem_backbuf_len (g : mem_gstate) (r : mem_rstruct) : nat :=
  match r_backbuf r with Some b => length (b_data (nth b (g_bufs g) mem_dummy_buf)) | None => 0 end.

(* "<fields all empty><RawLength = 0><Timestamp zero><no backing buffer>" *)
Definition mem_mask (r : mem_rstruct) : bytes :=
  [mem_bit (mem_fields_empty r); mem_bit (r_rawlen r =? 0)%Z; mem_bit (r_ts r =? 0)%Z;
   mem_bit (match r_backbuf r with None => true | Some _ => false end)].

Definition mem_slot_rec (g : mem_gstate) (h : nat) : mem_rstruct :=
  match nth_error (g_slots g) h with Some s => sl_rec s | None => mem_new_struct 0 end.

(* ---------------- kind 2: allocator script ----------------
   ops: 1 len      NewRecord(input of len bytes) -> next handle; prints  N<rc>,<backbuf len>,<mask>
        2 h u      fill handle h as parser and transforms would (every field set, RawLength 77,
                   Timestamp set, Unescaped = u);            prints  F<rc>,<mask>,<u>
        3 h        Release(handle h);                       prints  R<rc>,<mask>,<unescaped>  or  Rpanic
                   (the flag is printed as - when the handle was never filled: NewRecord leaves in it
                   whatever the struct's previous use left, which depends on the pool's choice) *)
Definition mem_script_cfg (nout : nat) (minpool : N) (maxfields : nat) : mem_config :=
  {| c_params := {| p_min_pool := minpool; p_max_msg := 1048576; p_max_rec := 1048832 |};
     c_nfields := maxfields; c_maxfields := maxfields; c_level_sites := None; c_cfg_init := [];
     c_extract := []; c_transforms := []; c_outputs := repeat {| oc_env := []; oc_hidden := []; oc_rewrite := [] |} nout;
     c_trunc_mode := TruncCopy; c_rw_sets_flag := false |}.

Definition mem_with_slots (g : mem_gstate) (slots : list mem_slot) (bufs : list mem_buf) : mem_gstate :=
  {| g_slots := slots; g_bufs := bufs; g_cfg := g_cfg g; g_dirty := g_dirty g; g_next_rid := g_next_rid g;
     g_log := g_log g; g_status := g_status g; g_out := g_out g |}.

Fixpoint mem_script (fuel : nat) (c : mem_config) (g : mem_gstate) (handles : list nat) (filled : list Z) (ops : list Z) (acc : bytes) : bytes :=
  match fuel with
  | O => acc
  | S f =>
    match ops with
    | 1%Z :: len :: ops' =>
      let input := repeat 65 (Z.to_nat len) in
      let '(cs, cb) := mem_choice_for c g input in
      match mem_new_record c g cs cb input with
      | inl (Some (h, r, bufs, cpy, slots)) =>
        let l := {| l_rid := g_next_rid g; l_n := length input; l_copy := cpy; l_fresh := []; l_phase := PhParsed |} in
        let g1 := mem_with_slots g (mem_list_set slots h {| sl_rec := r; sl_state := SLive l |}) bufs in
        let g2 := {| g_slots := g_slots g1; g_bufs := g_bufs g1; g_cfg := g_cfg g1; g_dirty := g_dirty g1;
                     g_next_rid := S (g_next_rid g1); g_log := g_log g1; g_status := g_status g1; g_out := g_out g1 |} in
        mem_script f c g2 (handles ++ [h]) filled ops'
          (acc ++ 78 :: dec_of_Z (r_refc r) ++ comma :: mem_dec_nat (mem_backbuf_len g2 r) ++ comma :: mem_mask r ++ [mem_semi])
      | _ => acc ++ [78] ++ str_panic
      end
    | 2%Z :: hz :: u :: ops' =>
      let h := nth (Z.to_nat hz) handles 0%nat in
      match nth_error (g_slots g) h with
      | Some s =>
        let r := sl_rec s in
        let rid := match sl_state s with SLive l => l_rid l | _ => 0%nat end in
        let r' := {| r_fields := map (fun _ => MStr (Fresh rid 0) 0 1) (r_fields r); r_rawlen := 77; r_ts := 1234567;
                     r_unesc := negb (u =? 0)%Z; r_backbuf := r_backbuf r; r_refc := r_refc r |} in
        let g1 := mem_with_slots g (mem_list_set (g_slots g) h {| sl_rec := r'; sl_state := sl_state s |}) (g_bufs g) in
        mem_script f c g1 handles (hz :: filled) ops'
          (acc ++ 70 :: dec_of_Z (r_refc r') ++ comma :: mem_mask r' ++ comma :: mem_bit (r_unesc r') :: [mem_semi])
      | None => acc
      end
    | 3%Z :: hz :: ops' =>
      let h := nth (Z.to_nat hz) handles 0%nat in
      match mem_release g h with
      | StepOk g1 =>
        let r := mem_slot_rec g1 h in
        mem_script f c g1 handles filled ops'
          (acc ++ 82 :: dec_of_Z (r_refc r) ++ comma :: mem_mask r ++ comma ::
               (if existsb (Z.eqb hz) filled then mem_bit (r_unesc r) else 45) :: [mem_semi])
      | StepStop _ => acc ++ 82 :: str_panic
      end
    | _ => acc
    end
  end.

Definition mem_case_script (zs : list Z) : bytes :=
  match zs with
  | nout :: minpool :: maxfields :: ops =>
    let c := mem_script_cfg (Z.to_nat nout) (Z.to_N minpool) (Z.to_nat maxfields) in
    [97;108;58] (* "al:" *) ++ mem_script (length ops) c (mem_init c) [] [] ops []
  | _ => bad_case_output
  end.

(* ---------------- kind 3: pipeline ----------------
   sargs = L literals (configuration strings, site i = literal i) followed by R record inputs
   zargs = [L; R; nOut; minPool; maxMsg; maxRec; levelMapping(0/1: literals 0..7 are the level names); truncMode(0 in place,1 copy);
            gc (when the harness forces garbage collections: no observable effect, ignored here)]
           ++ R fallback timestamps ++ [nBatches] ++ batch sizes
           ++ program(extractions) ++ program(transformations) ++ nOut output configurations
   program  = [count] ++ ops
     1 dst site | 2 dst src hasSlice hasA a hasB b | 3 dst nparts (kind v)* | 4 key hasDflt dflt npairs (fromLit toSite)*
     5 key maxlen suffixLit | 6 key | 7 nkeys key* | 8 nconds cond* nbody simpleop* | 9 nconds cond*
   cond     = op f v   (0 eq literal v | 1 not literal v | 2 any | 3 length greater than v)
   output   = nenv env* nhidden hidden* nrw (field ninline (f nameLit)* unescape)*                                   *)

Definition mem_rd := list Z -> option (list Z).

Definition mem_take1 (zs : list Z) : option (Z * list Z) :=
  match zs with z :: zs' => Some (z, zs') | [] => None end.

Fixpoint mem_take_n (n : nat) (zs : list Z) : option (list Z * list Z) :=
  match n with
  | O => Some ([], zs)
  | S n' => match zs with
            | z :: zs' => match mem_take_n n' zs' with Some (a, r) => Some (z :: a, r) | None => None end
            | [] => None
            end
  end.

Definition mem_zn (z : Z) : nat := Z.to_nat z.

Section Decode.
Variable lits : list bytes.
Definition lit (z : Z) : bytes := nth (mem_zn z) lits [].

Definition mem_dec_cond (zs : list Z) : option (mem_cond * list Z) :=
  match zs with
  | op :: f :: v :: zs' =>
    Some (match op with
          | 0%Z => CEq (mem_zn f) (lit v)
          | 1%Z => CNot (mem_zn f) (lit v)
          | 2%Z => CAny (mem_zn f)
          | _ => CLenGt (mem_zn f) (mem_zn v)
          end, zs')
  | _ => None
  end.

Fixpoint mem_dec_many {A} (dec : list Z -> option (A * list Z)) (n : nat) (zs : list Z) : option (list A * list Z) :=
  match n with
  | O => Some ([], zs)
  | S n' =>
    match dec zs with
    | Some (a, zs1) => match mem_dec_many dec n' zs1 with Some (l, zs2) => Some (a :: l, zs2) | None => None end
    | None => None
    end
  end.

Definition mem_dec_counted {A} (dec : list Z -> option (A * list Z)) (zs : list Z) : option (list A * list Z) :=
  match zs with
  | n :: zs' => mem_dec_many dec (mem_zn n) zs'
  | [] => None
  end.

Definition mem_dec_nat1 (zs : list Z) : option (nat * list Z) :=
  match zs with z :: zs' => Some (mem_zn z, zs') | [] => None end.

Definition mem_dec_part (zs : list Z) : option (mem_part * list Z) :=
  match zs with
  | k :: v :: zs' => Some ((if (k =? 0)%Z then PLit (mem_zn v) else PField (mem_zn v)), zs')
  | _ => None
  end.

Definition mem_dec_pair (zs : list Z) : option ((bytes * nat) * list Z) :=
  match zs with
  | a :: b :: zs' => Some ((lit a, mem_zn b), zs')
  | _ => None
  end.

Definition mem_dec_stx (zs : list Z) : option (mem_stx * list Z) :=
  match zs with
  | 1%Z :: dst :: site :: zs' => Some (TAddLit (mem_zn dst) (mem_zn site), zs')
  | 2%Z :: dst :: src :: hs :: ha :: a :: hb :: b :: zs' =>
    Some (TAddRef (mem_zn dst) (mem_zn src)
            (if (hs =? 0)%Z then None
             else Some (if (ha =? 0)%Z then None else Some a, if (hb =? 0)%Z then None else Some b)), zs')
  | 3%Z :: dst :: zs' =>
    match mem_dec_counted mem_dec_part zs' with
    | Some (ps, zs2) => Some (TAddCat (mem_zn dst) ps, zs2)
    | None => None
    end
  | 4%Z :: key :: hd :: d :: zs' =>
    match mem_dec_counted mem_dec_pair zs' with
    | Some (ps, zs2) => Some (TMapValue (mem_zn key) ps (if (hd =? 0)%Z then None else Some (mem_zn d)), zs2)
    | None => None
    end
  | 5%Z :: key :: ml :: sf :: zs' => Some (TTruncate (mem_zn key) (mem_zn ml) (lit sf), zs')
  | 6%Z :: key :: zs' => Some (TUnescape (mem_zn key), zs')
  | 7%Z :: zs' =>
    match mem_dec_counted mem_dec_nat1 zs' with
    | Some (ks, zs2) => Some (TDelFields ks, zs2)
    | None => None
    end
  | _ => None
  end.

Definition mem_dec_tx (zs : list Z) : option (mem_tx * list Z) :=
  match zs with
  | 8%Z :: zs' =>
    match mem_dec_counted mem_dec_cond zs' with
    | Some (cs, zs1) =>
      match mem_dec_counted mem_dec_stx zs1 with
      | Some (body, zs2) => Some (TIf cs body, zs2)
      | None => None
      end
    | None => None
    end
  | 9%Z :: zs' =>
    match mem_dec_counted mem_dec_cond zs' with
    | Some (cs, zs1) => Some (TDrop cs, zs1)
    | None => None
    end
  | _ => match mem_dec_stx zs with Some (t, zs') => Some (TSimple t, zs') | None => None end
  end.

Definition mem_dec_inl (zs : list Z) : option ((nat * bytes) * list Z) :=
  match zs with
  | f :: nm :: zs' => Some ((mem_zn f, lit nm), zs')
  | _ => None
  end.

Definition mem_dec_rw (zs : list Z) : option ((nat * mem_rw) * list Z) :=
  match zs with
  | f :: zs' =>
    match mem_dec_counted mem_dec_inl zs' with
    | Some (il, u :: zs2) => Some ((mem_zn f, {| rw_inline := il; rw_unescape := negb (u =? 0)%Z |}), zs2)
    | _ => None
    end
  | [] => None
  end.

Definition mem_dec_out (zs : list Z) : option (mem_outcfg * list Z) :=
  match mem_dec_counted mem_dec_nat1 zs with
  | Some (env, zs1) =>
    match mem_dec_counted mem_dec_nat1 zs1 with
    | Some (hid, zs2) =>
      match mem_dec_counted mem_dec_rw zs2 with
      | Some (rws, zs3) => Some ({| oc_env := env; oc_hidden := hid; oc_rewrite := rws |}, zs3)
      | None => None
      end
    | None => None
    end
  | None => None
  end.
End Decode.

(* 13 named fields: the 12 of the schema the allocator and the parser were created for plus one appended by a
   configuration reload (index 12); LogRecord.Fields has 14 entries (schema maxFields) *)
Definition mem_nfields : nat := 13.
Definition mem_maxfields : nat := 14.

Record mem_pipe_case := {
  pc_cfg : mem_config;
  pc_inputs : list (bytes * Z);
  pc_batches : list nat
}.

Definition mem_decode_pipeline (ss : list bytes) (zs : list Z) : option mem_pipe_case :=
  match zs with
  | l :: r :: nout :: minpool :: maxmsg :: maxrec :: lm :: tm :: _gc :: zs0 =>
    let lits := firstn (mem_zn l) ss in
    let inputs := firstn (mem_zn r) (skipn (mem_zn l) ss) in
    match mem_take_n (mem_zn r) zs0 with
    | Some (tss, nb :: zs1) =>
      match mem_take_n (mem_zn nb) zs1 with
      | Some (bs, zs2) =>
        match mem_dec_counted (mem_dec_tx lits) zs2 with
        | Some (ex, zs3) =>
          match mem_dec_counted (mem_dec_tx lits) zs3 with
          | Some (tr, zs4) =>
            match mem_dec_many (mem_dec_out lits) (mem_zn nout) zs4 with
            | Some (outs, _) =>
              Some {| pc_cfg := {| c_params := {| p_min_pool := Z.to_N minpool; p_max_msg := Z.to_N maxmsg; p_max_rec := Z.to_N maxrec |};
                                   c_nfields := mem_nfields; c_maxfields := mem_maxfields;
                                   c_level_sites := if (lm =? 0)%Z then None else Some 0%nat;
                                   c_cfg_init := lits; c_extract := ex; c_transforms := tr; c_outputs := outs;
                                   c_trunc_mode := if (tm =? 0)%Z then TruncInPlace else TruncCopy;
                                   c_rw_sets_flag := false |};
                      pc_inputs := combine inputs tss;
                      pc_batches := map mem_zn bs |}
            | None => None
            end
          | None => None
          end
        | None => None
        end
      | None => None
      end
    | _ => None
    end
  | _ => None
  end.

(* ---- printing ---- *)
Definition mem_print_kv (kv : nat * bytes) : bytes :=
  mem_dec_nat (fst kv) ++ mem_dot :: mem_dec_nat (length (snd kv)) ++ mem_dot :: dec_of_N (mem_hash (snd kv)).

Definition mem_print_decoded (d : mem_decoded) : bytes :=
  116 :: dec_of_Z (d_ts d) ++ [91] ++ join comma (map mem_print_kv (d_fields d)) ++ [93;91]
      ++ join comma (map mem_print_kv (d_env d)) ++ [93].

(* hash over all field values of a live record (reads through the model's memory) *)
Definition mem_fields_digest (g : mem_gstate) (h : nat) : bytes :=
  match nth_error (g_slots g) h with
  | Some {| sl_rec := r; sl_state := SLive l |} =>
    match mem_local_of g r l with
    | Some (m, lr) =>
      dec_of_N (mem_hash (concat (map (fun s => mem_dec_nat (mem_elen s) ++ mem_semi :: mem_read m s) (lr_fields lr))))
    | None => [63]
    end
  | _ => [63]
  end.

Definition mem_is_live (g : mem_gstate) (h : nat) : bool :=
  match nth_error (g_slots g) h with
  | Some {| sl_rec := _; sl_state := SLive _ |} => true
  | _ => false
  end.

Definition mem_stop_text (s : mem_stop) : bytes :=
  match s with
  | NotEnabled => [33;110;111;116;101;110;97;98;108;101;100]      (* "!notenabled" *)
  | Dangling => [33;100;97;110;103;108;105;110;103]               (* "!dangling" *)
  | Fault => [33;102;97;117;108;116]                              (* "!fault" *)
  | GoPanic _ | NegativeRefCount | PoolIndexPanic => [33;112;97;110;105;99]   (* "!panic" *)
  end.

(* Parse phase of one batch: returns the state, the printed parse observations (in input order), and the
   live slots with the index of their text *)
Fixpoint mem_batch_parse (c : mem_config) (g : mem_gstate) (ins : list (bytes * Z)) (acc : list (bytes * option nat))
  : mem_gstate * list (bytes * option nat) * option mem_stop :=
  match ins with
  | [] => (g, acc, None)
  | (input, ts) :: ins' =>
    let '(cs, cb) := mem_choice_for c g input in
    let h := mem_slot_of_choice g cs in
    match mem_step c g (EvParse cs cb input ts) with
    | StepOk g1 =>
      if mem_is_live g1 h then
        let r := mem_slot_rec g1 h in
        let txt := 80 :: mem_dec_nat (mem_backbuf_len g1 r) ++ comma :: dec_of_Z (r_refc r) ++ comma :: mem_bit (r_unesc r)
                      :: comma :: mem_fields_digest g1 h in
        mem_batch_parse c g1 ins' (acc ++ [(txt, Some h)])
      else mem_batch_parse c g1 ins' (acc ++ [([78], None)])
    | StepStop s => (g, acc ++ [(mem_stop_text s, None)], Some s)
    end
  end.

(* worker phase for one record: transform, then every output *)
Fixpoint mem_do_outputs (c : mem_config) (g : mem_gstate) (h : nat) (k : nat) (n : nat) (acc : bytes)
  : mem_gstate * bytes * option mem_stop :=
  match n with
  | O => (g, acc, None)
  | S n' =>
    let rc := r_refc (mem_slot_rec g h) in
    match mem_step c g (EvOutput h) with
    | StepOk g1 =>
      let d := match last (g_out g1) (0%nat, 0%nat, {| d_ts := 0; d_fields := []; d_env := [] |}) with (_, _, d) => d end in
      mem_do_outputs c g1 h (S k) n'
        (acc ++ mem_slash :: 79 :: mem_dec_nat k ++ colon :: dec_of_Z rc ++ colon :: mem_print_decoded d)
    | StepStop s => (g, acc ++ mem_stop_text s, Some s)
    end
  end.

Definition mem_final_text (g : mem_gstate) (h : nat) : bytes :=
  let r := mem_slot_rec g h in
  mem_slash :: 70 :: dec_of_Z (r_refc r) ++ comma :: mem_mask r.

Fixpoint mem_batch_work (c : mem_config) (g : mem_gstate) (items : list (bytes * option nat)) (acc : list bytes)
  : mem_gstate * list bytes * option mem_stop :=
  match items with
  | [] => (g, acc, None)
  | (txt, None) :: items' => mem_batch_work c g items' (acc ++ [txt])
  | (txt, Some h) :: items' =>
    match mem_step c g (EvTransform h) with
    | StepOk g1 =>
      if mem_is_live g1 h && match nth_error (g_slots g1) h with
                             | Some {| sl_rec := _; sl_state := SLive l |} => match l_phase l with PhOut _ => true | _ => false end
                             | _ => false end
      then
        match mem_do_outputs c g1 h 0 (length (c_outputs c)) [] with
        | (g2, otxt, None) => mem_batch_work c g2 items' (acc ++ [txt ++ otxt ++ mem_final_text g2 h])
        | (g2, otxt, Some s) => (g2, acc ++ [txt ++ otxt], Some s)
        end
      else mem_batch_work c g1 items' (acc ++ [txt ++ mem_slash :: 68 :: mem_final_text g1 h])
    | StepStop s => (g, acc ++ [txt ++ mem_stop_text s], Some s)
    end
  end.

Fixpoint mem_run_batches (c : mem_config) (g : mem_gstate) (ins : list (bytes * Z)) (batches : list nat) (acc : list bytes)
  : list bytes * option mem_stop :=
  match batches with
  | [] => (acc, None)
  | b :: batches' =>
    match mem_batch_parse c g (firstn b ins) [] with
    | (g1, items, None) =>
      match mem_batch_work c g1 items [] with
      | (g2, txts, None) => mem_run_batches c g2 (skipn b ins) batches' (acc ++ txts)
      | (_, txts, Some s) => (acc ++ txts, Some s)
      end
    | (_, items, Some s) => (acc ++ map fst items, Some s)
    end
  end.

(* "crash:process-died": what the harness prints when the process running the pipeline dies *)
Definition mem_crash_text : bytes := [99;114;97;115;104;58;112;114;111;99;101;115;115;45;100;105;101;100].

Definition mem_case_pipeline (ss : list bytes) (zs : list Z) : bytes :=
  match mem_decode_pipeline ss zs with
  | Some pc =>
    match mem_run_batches (pc_cfg pc) (mem_init (pc_cfg pc)) (pc_inputs pc) (pc_batches pc) [] with
    | (txts, None) => [112;108;58] (* "pl:" *) ++ join mem_semi txts
    | (_, Some Fault) | (_, Some (GoPanic _)) | (_, Some NegativeRefCount) | (_, Some PoolIndexPanic) => mem_crash_text
    | (txts, Some s) => [112;108;58] ++ join mem_semi txts ++ mem_stop_text s
    end
  | None => bad_case_output
  end.

(* ---------------- kind 5: pipeline with a parseTime instance ----------------
   Same arguments as kind 3.  The worker runs parseTime (on field 2, "time") before the other transformations; the
   instance state is threaded through the whole stream.  Timestamps are unix * 10^9 + nsec; printed as the Fluentd
   EventTime holds them: t<seconds mod 2^32>[n<nanoseconds>]. *)
Definition pt_case_cfg : pt_config :=
  {| pt_local_off := 0; pt_hash := fun _ => 0; pt_zone_keep := KeepCopy; pt_last_keep := None |}.
Definition pt_time_field : nat := 2.
Definition pt_giga : Z := 1000000000.

Definition pt_print_decoded (d : mem_decoded) : bytes :=
  let sec := ((d_ts d / pt_giga) mod 4294967296)%Z in
  let nsec := (d_ts d mod pt_giga)%Z in
  116 :: dec_of_Z sec ++ (if (nsec =? 0)%Z then [] else 110 :: dec_of_Z nsec) ++ [91]
      ++ join comma (map mem_print_kv (d_fields d)) ++ [93;91]
      ++ join comma (map mem_print_kv (d_env d)) ++ [93].

Fixpoint pt_do_outputs (c : mem_config) (g : mem_gstate) (h : nat) (k : nat) (n : nat) (acc : bytes)
  : mem_gstate * bytes * option mem_stop :=
  match n with
  | O => (g, acc, None)
  | S n' =>
    let rc := r_refc (mem_slot_rec g h) in
    match mem_step c g (EvOutput h) with
    | StepOk g1 =>
      let d := match last (g_out g1) (0%nat, 0%nat, {| d_ts := 0; d_fields := []; d_env := [] |}) with (_, _, d) => d end in
      pt_do_outputs c g1 h (S k) n'
        (acc ++ mem_slash :: 79 :: mem_dec_nat k ++ colon :: dec_of_Z rc ++ colon :: pt_print_decoded d)
    | StepStop s => (g, acc ++ mem_stop_text s, Some s)
    end
  end.

Fixpoint pt_batch_work (c : mem_config) (g : mem_gstate) (st : pt_state) (items : list (bytes * option nat)) (acc : list bytes)
  : mem_gstate * pt_state * list bytes * option mem_stop :=
  match items with
  | [] => (g, st, acc, None)
  | (txt, None) :: items' => pt_batch_work c g st items' (acc ++ [txt])
  | (txt, Some h) :: items' =>
    match pt_transform pt_case_cfg g st h pt_time_field with
    | None => (g, st, acc ++ [txt ++ mem_stop_text NotEnabled], Some NotEnabled)
    | Some (_, TpPanic s, _, _) => (g, st, acc ++ [txt ++ mem_stop_text (GoPanic s)], Some (GoPanic s))
    | Some (st1, _, _, g0) =>
      match mem_step c g0 (EvTransform h) with
      | StepOk g1 =>
        if mem_is_live g1 h && match nth_error (g_slots g1) h with
                               | Some {| sl_rec := _; sl_state := SLive l |} => match l_phase l with PhOut _ => true | _ => false end
                               | _ => false end
        then
          match pt_do_outputs c g1 h 0 (length (c_outputs c)) [] with
          | (g2, otxt, None) => pt_batch_work c g2 st1 items' (acc ++ [txt ++ otxt ++ mem_final_text g2 h])
          | (g2, otxt, Some s) => (g2, st1, acc ++ [txt ++ otxt], Some s)
          end
        else pt_batch_work c g1 st1 items' (acc ++ [txt ++ mem_slash :: 68 :: mem_final_text g1 h])
      | StepStop s => (g, st1, acc ++ [txt ++ mem_stop_text s], Some s)
      end
    end
  end.

Fixpoint pt_run_batches (c : mem_config) (g : mem_gstate) (st : pt_state) (ins : list (bytes * Z)) (batches : list nat) (acc : list bytes)
  : list bytes * option mem_stop :=
  match batches with
  | [] => (acc, None)
  | b :: batches' =>
    match mem_batch_parse c g (firstn b ins) [] with
    | (g1, items, None) =>
      match pt_batch_work c g1 st items [] with
      | (g2, st2, txts, None) => pt_run_batches c g2 st2 (skipn b ins) batches' (acc ++ txts)
      | (_, _, txts, Some s) => (acc ++ txts, Some s)
      end
    | (_, items, Some s) => (acc ++ map fst items, Some s)
    end
  end.

Definition pt_case_pipeline (ss : list bytes) (zs : list Z) : bytes :=
  match mem_decode_pipeline ss zs with
  | Some pc =>
    let ins := map (fun it => (fst it, (snd it * pt_giga)%Z)) (pc_inputs pc) in
    match pt_run_batches (pc_cfg pc) (mem_init (pc_cfg pc)) pt_init ins (pc_batches pc) [] with
    | (txts, None) => [112;116;58] (* "pt:" *) ++ join mem_semi txts
    | (_, Some Fault) | (_, Some (GoPanic _)) | (_, Some NegativeRefCount) | (_, Some PoolIndexPanic) => mem_crash_text
    | (txts, Some s) => [112;116;58] ++ join mem_semi txts ++ mem_stop_text s
    end
  | None => bad_case_output
  end.

Definition run_case_C12 (c : case) : bytes :=
  match c_kind c with
  | 1 => mem_case_class (Z.to_N (zarg c 0))
  | 11 => mem_case_put (Z.to_N (zarg c 0))
  | 2 => mem_case_script (c_zargs c)
  | 3 => mem_case_pipeline (c_sargs c) (c_zargs c)
  | 4 => [105;115;111;58] (* "iso:" *) ++ dec_of_Z (zarg c 0)
  | 5 => pt_case_pipeline (c_sargs c) (c_zargs c)
  | _ => bad_case_output
  end.
