(* Model/RecoveryOrder.v — C05: the START of a pipeline's hybrid buffer over a backlog of chunk files, at event
   granularity, interleaved with the pipeline worker that delivers newly created chunks.

   Model/System.v treats a restart as ONE atomic event (ERestart: the queue of every pipeline := its chunk files in
   id order).  That is an abstraction of this code (buffer/hybridbuffer/bufferer.go, orchestrate/obase/pipelines.go):

     PrepareSequentialPipeline:   bufferer.Start(); consumer.Start(); ...; procWorker.Start()
     bufferer.Start:              buf.recoverExistingChunks()        <- returns only when the loop below has ended
                                  go buf.feeder.Run()
     recoverExistingChunks:       for _, chunk := range ScanChunks() {            (sorted by id: chunkoperator.go)
                                    select { case inputChannel <- chunk: ...       one chunk queued per iteration
                                             default: break RECOVERY_LOOP } }      queue full: the rest is skipped
     bufferer.Accept (called by the pipeline worker for every chunk it closes):
                                  select { case inputChannel <- chunk: ; default: dropped }
     outputFeeder.Run:            for { chunk := <-inputChannel; load; outputChannel <- chunk }
     consumer (forwarder client): takes chunks from outputChannel in order and transmits them

   The same happens at a configuration reload (run/reloadable.go reload: old orchestrator shut down, new one started
   over the queue directories, the client connections survive and deliver records at once).

   Here recovery is a sequence of steps (one per chunk file) and the event list decides how they interleave with
   Accept, the feeder and the consumer.  What keeps a new chunk behind the recovered ones is only that Start returns
   (and therefore the worker is started) after the recovery loop has ended.  [rvariant] makes this a parameter:

     rv_accept_waits = true    Accept is possible only when the recovery loop has ended      (the code as it is)
                     = false   Start returns after listing the directory; the loop runs in the feeder goroutine
                               (NOT the code in the repository: the seeded change C05/4 = C03/5)
     rv_feeder_waits = true    the feeder's main loop starts after the recovery loop          (the code as it is)
                     = false   `go feeder.Run()` before the loop (a harmless reordering)

   A chunk carries its id and the stamps (connection, sequence number) of its records; a pipeline serves one key set,
   so a stream (connection, key set) is the records of one connection here.
   No proofs in this file.  The last part is the replay used by the correspondence (run_case_C05, kinds 7 and 8). *)
From Coq Require Import List NArith ZArith Bool Arith PeanoNat.
From SV Require Import Model.Common.
Import ListNotations.
Open Scope nat_scope.

Record rchunk := RC { rc_id : nat; rc_toks : list (nat * nat) }.

Record rvariant := RV { rv_accept_waits : bool; rv_feeder_waits : bool }.
Definition rv_real : rvariant := RV true true.
Definition rv_seeded : rvariant := RV false true.
Definition rv_feeder_first : rvariant := RV true false.

Record rcfg := RCFG {
  rg_qcap : nat;     (* defs.BufferMaxNumChunksInQueue: capacity of inputChannel *)
  rg_wcap : nat      (* defs.BufferMaxNumChunksInMemory: capacity of outputChannel *)
}.

Record rstate := RS {
  r_todo : list rchunk;      (* listed by ScanChunks, not yet queued by the recovery loop *)
  r_queue : list rchunk;     (* inputChannel *)
  r_fhand : list rchunk;     (* the chunk the feeder has taken from the queue (at most one) *)
  r_window : list rchunk;    (* outputChannel *)
  r_out : list rchunk;       (* history: chunks taken by the consumer = transmission order, oldest first *)
  r_skipped : list rchunk;   (* history: "too many chunk files, skip" (the files stay) *)
  r_dropped : list rchunk;   (* history: queue overflow in Accept / load failure in the feeder *)
  r_clock : nat;             (* the last chunk id handed out *)
  r_seen : list (nat * nat)  (* stamps that bound what has arrived so far: every record in a chunk has a stamp of
                                its connection here with at least its sequence number *)
}.

Definition rinit (backlog : list rchunk) (clock : nat) (seen : list (nat * nat)) : rstate :=
  RS backlog [] [] [] [] [] [] clock seen.

Inductive revent :=
| RRecover                                      (* one iteration of RECOVERY_LOOP *)
| RAccept (id : nat) (toks : list (nat * nat))  (* the pipeline worker closes a chunk: bufferer.Accept *)
| RFeederTake                                   (* chunk := <-inputChannel *)
| RFeederLoadFail                               (* LoadOrDropChunk fails / zero length: dropped, the loop goes on *)
| RFeederPush                                   (* outputChannel <- chunk *)
| RConsume.                                     (* the consumer receives from outputChannel *)

Definition recovering (s : rstate) : bool := match r_todo s with [] => false | _ => true end.

(* a new record of connection k has a sequence number above every earlier record of k (arrival index) *)
Definition tok_fresh (seen : list (nat * nat)) (t : nat * nat) : bool :=
  forallb (fun u => negb (Nat.eqb (fst u) (fst t)) || Nat.ltb (snd u) (snd t)) seen.

Fixpoint toks_fresh (seen : list (nat * nat)) (toks : list (nat * nat)) : bool :=
  match toks with
  | [] => true
  | t :: r => tok_fresh seen t && toks_fresh (t :: seen) r
  end.

Definition rstep (g : rcfg) (v : rvariant) (s : rstate) (e : revent) : option rstate :=
  match e with
  | RRecover =>
    match r_todo s with
    | [] => None
    | c :: rest =>
      if Nat.ltb (length (r_queue s)) (rg_qcap g)
      then Some (RS rest (r_queue s ++ [c]) (r_fhand s) (r_window s) (r_out s) (r_skipped s) (r_dropped s) (r_clock s) (r_seen s))
      else Some (RS [] (r_queue s) (r_fhand s) (r_window s) (r_out s) (r_skipped s ++ c :: rest) (r_dropped s) (r_clock s) (r_seen s))
    end
  | RAccept id toks =>
    if (negb (rv_accept_waits v) || negb (recovering s)) && Nat.ltb (r_clock s) id && toks_fresh (r_seen s) toks then
      if Nat.ltb (length (r_queue s)) (rg_qcap g)
      then Some (RS (r_todo s) (r_queue s ++ [RC id toks]) (r_fhand s) (r_window s) (r_out s) (r_skipped s) (r_dropped s)
                    id (rev toks ++ r_seen s))
      else Some (RS (r_todo s) (r_queue s) (r_fhand s) (r_window s) (r_out s) (r_skipped s) (r_dropped s ++ [RC id toks])
                    id (rev toks ++ r_seen s))
    else None
  | RFeederTake =>
    if negb (rv_feeder_waits v) || negb (recovering s) then
      match r_fhand s, r_queue s with
      | [], c :: rest => Some (RS (r_todo s) rest [c] (r_window s) (r_out s) (r_skipped s) (r_dropped s) (r_clock s) (r_seen s))
      | _, _ => None
      end
    else None
  | RFeederLoadFail =>
    match r_fhand s with
    | [c] => Some (RS (r_todo s) (r_queue s) [] (r_window s) (r_out s) (r_skipped s) (r_dropped s ++ [c]) (r_clock s) (r_seen s))
    | _ => None
    end
  | RFeederPush =>
    match r_fhand s with
    | [c] =>
      if Nat.ltb (length (r_window s)) (rg_wcap g)
      then Some (RS (r_todo s) (r_queue s) [] (r_window s ++ [c]) (r_out s) (r_skipped s) (r_dropped s) (r_clock s) (r_seen s))
      else None
    | _ => None
    end
  | RConsume =>
    match r_window s with
    | c :: rest => Some (RS (r_todo s) (r_queue s) (r_fhand s) rest (r_out s ++ [c]) (r_skipped s) (r_dropped s) (r_clock s) (r_seen s))
    | [] => None
    end
  end.

Fixpoint rsteps (g : rcfg) (v : rvariant) (s : rstate) (es : list revent) : option rstate :=
  match es with
  | [] => Some s
  | e :: r => match rstep g v s e with Some s' => rsteps g v s' r | None => None end
  end.

(* everything that is or was on its way to the upstream, in the order in which it will be / was transmitted *)
Definition rpending (s : rstate) : list rchunk := r_window s ++ r_fhand s ++ r_queue s ++ r_todo s.
Definition rchain (s : rstate) : list rchunk := r_out s ++ rpending s.

Definition rids (l : list rchunk) : list nat := map rc_id l.
Definition rtoks (l : list rchunk) : list (nat * nat) := flat_map rc_toks l.
Definition rseqs (k : nat) (l : list (nat * nat)) : list nat := map snd (filter (fun t => Nat.eqb (fst t) k) l).

(* ---------- replay for the correspondence ---------- *)

Definition rdec (n : nat) : bytes := dec_of_N (N.of_nat n).

(* maximal runs of consecutive numbers: [0;1;2;5;3;4] -> [(0,2);(5,5);(3,4)] *)
Fixpoint ranges_acc (lo hi : nat) (l : list nat) : list (nat * nat) :=
  match l with
  | [] => [(lo, hi)]
  | x :: r => if Nat.eqb x (S hi) then ranges_acc lo x r else (lo, hi) :: ranges_acc x x r
  end.
Definition ranges (l : list nat) : list (nat * nat) :=
  match l with [] => [] | x :: r => ranges_acc x x r end.

Definition render_ranges (l : list nat) : bytes :=
  join 44 (map (fun ab => rdec (fst ab) ++ [45%N] ++ rdec (snd ab)) (ranges l)).

Fixpoint seq_from (a n : nat) : list nat := match n with 0 => [] | S n' => a :: seq_from (S a) n' end.

(* chunk number i (0-based, creation order) has id i+1 and holds record i of connection 0 *)
Definition nth_chunk (i : nat) : rchunk := RC (S i) [(0, i)].

(* the records 0 .. created-1 of connection 0 have arrived *)
Definition seen_upto (created : nat) : list (nat * nat) := match created with 0 => [] | S m => [(0, m)] end.

Fixpoint rep {A} (n : nat) (l : list A) : list A := match n with 0 => [] | S n' => l ++ rep n' l end.

(* the schedule of one life: the recovery loop, then k new chunks, then everything through feeder and consumer.
   mode 1: the consumer runs while the new chunks are accepted *)
Definition life_events (mode nb first k : nat) : list revent :=
  let accepts := map (fun i => RAccept (S i) [(0, i)]) (seq_from first k) in
  let cycle := [RFeederTake; RFeederPush; RConsume] in
  if Nat.eqb mode 1
  then rep nb [RRecover] ++ flat_map (fun a => a :: cycle) accepts ++ rep nb cycle
  else rep nb [RRecover] ++ accepts ++ rep (nb + k) cycle.

(* lives one after the other: everything transmitted in a life is handed back (never acknowledged), saved and
   recovered by the next life together with the k new chunks of that life *)
Fixpoint run_lives (g : rcfg) (v : rvariant) (mode : nat) (rounds : nat) (backlog : list rchunk) (created k : nat)
  : option (list (list nat)) :=
  match rounds with
  | 0 => Some []
  | S r =>
    match rsteps g v (rinit backlog created (seen_upto created)) (life_events mode (length backlog) created k) with
    | Some s =>
      match run_lives g v mode r (r_out s) (created + k) k with
      | Some rest => Some (map (fun c => pred (rc_id c)) (r_out s) :: rest)
      | None => None
      end
    | None => None
    end
  end.

Definition str_rec : bytes := [111;107;58;114;101;99;58]%N.        (* "ok:rec:" *)
Definition str_live : bytes := [111;107;58;108;105;118;101;58]%N.   (* "ok:live:" *)
Definition str_sched : bytes := [101;114;114;58;115;99;104;101;100;117;108;101]%N.  (* "err:schedule" *)

Definition znat (z : Z) : nat := Z.to_nat z.

(* kind 7: Z = seed, backlog n, new chunks per life k, window w, lives, mode *)
Definition run_recovery_case (zs : list Z) : bytes :=
  match zs with
  | [_; n; k; w; rounds; mode] =>
    if ((0 <=? n) && (n <=? 20000) && (0 <=? k) && (k <=? 64) && (1 <=? w) && (w <=? 100000)
        && (1 <=? rounds) && (rounds <=? 8) && (0 <=? mode) && (mode <=? 2))%Z then
      let n' := znat n in let k' := znat k in
      let g := RCFG (n' + znat rounds * k' + 64) (znat w) in
      match run_lives g rv_real (znat mode) (znat rounds) (map nth_chunk (seq_from 0 n')) n' k' with
      | Some lives => str_rec ++ join 59 (map render_ranges lives)
      | None => str_sched
      end
    else bad_case_output
  | _ => bad_case_output
  end.

(* kind 8: Z = seed, backlog records n, records sent at / after the restart m, mode (0 restart, 1 reload).
   One record per chunk, one connection; output = first-delivery order of the stream *)
Definition run_live_restart_case (zs : list Z) : bytes :=
  match zs with
  | [_; n; m; mode] =>
    if ((1 <=? n) && (n <=? 20000) && (1 <=? m) && (m <=? 2000) && (0 <=? mode) && (mode <=? 1))%Z then
      let n' := znat n in let m' := znat m in
      let g := RCFG (3 * (n' + m')) 2 in
      let backlog := map nth_chunk (seq_from 0 n') in
      match rsteps g rv_real (rinit backlog n' (seen_upto n')) (life_events 1 n' n' m') with
      | Some s => str_live ++ render_ranges (rseqs 0 (rtoks (r_out s)))
      | None => str_sched
      end
    else bad_case_output
  | _ => bad_case_output
  end.
