(* C05 case functions: (kind 1) prediction of the per-stream first-delivery order from the record plan,
   (kind 2) the trace acceptor of Model/SystemAccept.v plus the boolean order check on the final state.
   No proofs in this file. *)
From Coq Require Import List NArith ZArith Bool Arith PeanoNat.
From SV Require Import Model.Common Model.System Model.SystemAccept Model.RecoveryOrder Model.FeederLoad.
Import ListNotations.
Open Scope nat_scope.

(* ---------- first deliveries (boolean versions of the notions used by the theorems) ---------- *)

Definition memn (x : nat) (l : list nat) : bool := existsb (Nat.eqb x) l.

Fixpoint fo (seen : list nat) (l : list nat) : list nat :=
  match l with
  | [] => []
  | x :: r => if memn x seen then fo seen r else x :: fo (x :: seen) r
  end.

Definition first_occ (l : list nat) : list nat := fo [] l.

Fixpoint incrb (l : list nat) : bool :=
  match l with
  | [] => true
  | x :: r => forallb (fun y => Nat.ltb x y) r && incrb r
  end.

Definition sqb (k p : nat) (l : list tok) : list nat := map t_seq (filter (on_cp k p) l).

Definition deliveredb (k p : nat) (s : state) : list nat :=
  flat_map (fun c => sqb k p (c_toks c)) (rev (filter (fun c => Nat.eqb (c_pipe c) p) (received s))).

Definition streams_of (s : state) : list (nat * nat) :=
  fold_right (fun t acc => if existsb (stamp_eqb (t_conn t, t_pipe t)) acc then acc else (t_conn t, t_pipe t) :: acc) [] (ingested s).

Definition order_check (s : state) : bool :=
  forallb (fun kp => incrb (first_occ (deliveredb (fst kp) (snd kp) s))) (streams_of s).

Definition run_trace_case_ord (c : case) : bytes :=
  match decode_trace (c_zargs c) with
  | None => str_reject
  | Some tr =>
    match accept tr with
    | Some s => render_summary s ++ str [44;111;114;100;61] ++ (if order_check s then [49%N] else [48%N])   (* ",ord=" *)
    | None => str_reject
    end
  end.

(* ---------- kind 1: per stream, the sequence numbers of the records that must be delivered, in arrival order ----------
   The sequence number of a record is its index on its connection (malformed and filtered records included). *)

Fixpoint count_conn (k : nat) (seen : list nat) : nat :=
  match seen with [] => 0 | x :: r => (if Nat.eqb x k then 1 else 0) + count_conn k r end.

Fixpoint push_stream (key : nat * nat) (q : nat) (l : list ((nat * nat) * list nat)) : list ((nat * nat) * list nat) :=
  match l with
  | [] => [(key, [q])]
  | (key', qs) :: r =>
    if stamp_eqb key key' then (key', qs ++ [q]) :: r
    else if stream_lt key key' then (key, [q]) :: l
    else (key', qs) :: push_stream key q r
  end.

Fixpoint plan_streams (twokeys : bool) (recs : list (list nat)) (seen : list nat) (acc : list ((nat * nat) * list nat))
  : list ((nat * nat) * list nat) :=
  match recs with
  | [] => acc
  | [conn; cls; app; src] :: r =>
    let q := count_conn conn seen in
    let acc' := match cls with
                | 1 | 2 => acc
                | _ => push_stream (conn, plan_pipe twokeys app src) q acc
                end in
    plan_streams twokeys r (conn :: seen) acc'
  | _ :: r => plan_streams twokeys r seen acc
  end.

Definition render_order (l : list ((nat * nat) * list nat)) : bytes :=
  join 59 (map (fun e => dec_nat (fst (fst e)) ++ [47%N] ++ dec_nat (snd (fst e)) ++ [58%N] ++ join 44 (map dec_nat (snd e))) l).

Definition run_order_plan_case (c : case) : bytes :=
  match decode_plan (c_zargs c) with
  | None => bad_case_output
  | Some (twokeys, recs) => str [111;107;58] ++ render_order (plan_streams twokeys recs [] [])
  end.

Definition run_case_C05 (c : case) : bytes :=
  if N.eqb (c_kind c) 1 then run_order_plan_case c
  else if N.eqb (c_kind c) 2 then run_trace_case_ord c
  else if N.eqb (c_kind c) 3 then str [111;107;58;98;117;114;115;116]   (* "ok:burst": judged by the Go oracle only *)
  else if N.eqb (c_kind c) 4 then str [111;107;58;111;118;101;114;102;108;111;119]   (* "ok:overflow": idem *)
  else if N.eqb (c_kind c) 5 then str [111;107;58;98;97;99;107;108;111;103]            (* "ok:backlog": idem *)
  else if N.eqb (c_kind c) 6 then str [111;107;58;115;116;97;108;108]                  (* "ok:stall": idem *)
  else if N.eqb (c_kind c) 7 then run_recovery_case (c_zargs c)        (* Model/RecoveryOrder.v: transmission order per life *)
  else if N.eqb (c_kind c) 8 then run_live_restart_case (c_zargs c)    (* idem: first-delivery order of the stream *)
  else if N.eqb (c_kind c) 9 then run_loadfail_case (c_zargs c)        (* Model/FeederLoad.v: transmission order with load failures *)
  else bad_case_output.
