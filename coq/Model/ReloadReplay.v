(* C17 - replay of a harness schedule on the LTS of Model/Reload.v, and the correspondence
   entry point [run_case_C17].

   The harness (harness/c17*.go) drives the real ReloadableOrchestrator with goroutines that park at
   the entry of every call into the recording downstream objects.  A schedule is a list of
   operations: start an API call on a connection goroutine / start reload(), release a parked
   goroutine once ("step"), or let it run on by itself ("finish" = release at every park).
   After every operation the system is settled in a fixed order (A: the reload goroutine takes the
   write lock if it can; B: all goroutines blocked at RLock() that can proceed run to their park point;
   C: one parked goroutine in "auto" mode is released; repeat).  The same procedure is implemented
   here on the model; the produced run is a list of events of [step].  No proofs in this file. *)
From SV Require Import Model.Common Model.Reload.
From SV Require Model.ReloadRecover.
From Coq Require Import Arith.
Local Open Scope nat_scope.

Inductive startop := SNew (n : nat) | SAcc (rs : list rec) | STick | SClose.

Record dstate := mkD {
  d_st : state;
  d_pend : list (nat * startop);  (* goroutines blocked at RLock() at the start of an API call, oldest first *)
  d_store : list nat;             (* lk = false: goroutines blocked at RLock() inside NewSink *)
  d_auto : list bool;             (* per connection goroutine: released automatically at every park *)
  d_rauto : bool;
  d_rok : bool;                   (* outcome of initiateReload for the reload in progress *)
  d_next : N;                     (* next record id *)
  d_trace : list bytes;           (* tokens, newest first *)
  d_evs : list event              (* the run produced so far, newest first *)
}.

Definition with_st (d : dstate) (st : state) (e : event) : dstate :=
  mkD st (d_pend d) (d_store d) (d_auto d) (d_rauto d) (d_rok d) (d_next d) (d_trace d) (e :: d_evs d).
Definition with_pend (d : dstate) (x : list (nat * startop)) : dstate :=
  mkD (d_st d) x (d_store d) (d_auto d) (d_rauto d) (d_rok d) (d_next d) (d_trace d) (d_evs d).
Definition with_store (d : dstate) (x : list nat) : dstate :=
  mkD (d_st d) (d_pend d) x (d_auto d) (d_rauto d) (d_rok d) (d_next d) (d_trace d) (d_evs d).
Definition with_auto (d : dstate) (x : list bool) : dstate :=
  mkD (d_st d) (d_pend d) (d_store d) x (d_rauto d) (d_rok d) (d_next d) (d_trace d) (d_evs d).
Definition with_rauto (d : dstate) (x : bool) : dstate :=
  mkD (d_st d) (d_pend d) (d_store d) (d_auto d) x (d_rok d) (d_next d) (d_trace d) (d_evs d).
Definition with_rok (d : dstate) (x : bool) : dstate :=
  mkD (d_st d) (d_pend d) (d_store d) (d_auto d) (d_rauto d) x (d_next d) (d_trace d) (d_evs d).
Definition with_next (d : dstate) (x : N) : dstate :=
  mkD (d_st d) (d_pend d) (d_store d) (d_auto d) (d_rauto d) (d_rok d) x (d_trace d) (d_evs d).
Definition tok (d : dstate) (t : bytes) : dstate :=
  mkD (d_st d) (d_pend d) (d_store d) (d_auto d) (d_rauto d) (d_rok d) (d_next d) (t :: d_trace d) (d_evs d).

(* ---------- tokens ---------- *)
Definition nd (n : nat) : bytes := dec_of_N (N.of_nat n).
Local Open Scope N_scope.
Definition c_a := 97. Definition c_b := 98. Definition c_c := 99. Definition c_d := 100. Definition c_f := 102.
Definition c_h := 104. Definition c_i := 105. Definition c_k := 107. Definition c_m := 109. Definition c_n := 110.
Definition c_o := 111. Definition c_p := 112. Definition c_r := 114. Definition c_s := 115. Definition c_t := 116.
Definition c_u := 117. Definition c_w := 119. Definition c_x := 120. Definition c_g := 103.
Definition c_R := 82. Definition c_us := 95. Definition c_dash := 45. Definition c_bang := 33. Definition c_slash := 47.
Definition c_eq := 61. Definition c_semi := 59. Definition c_dot := 46. Definition c_at := 64.
Local Open Scope nat_scope.

Definition conn_gate (c : cthread) : bytes :=
  match ct_pc c with
  | PNewIn g => c_n :: nd g ++ c_us :: nd (ct_num c)
  | PAccIn s _ => c_a :: nd s
  | PTickIn s => c_t :: nd s
  | PCloseIn s => c_c :: nd s
  | _ => []
  end.

(* where connection goroutine t is: parked at a gate / finished its call / panicked / waiting for the lock *)
Definition conn_tok (st : state) (t : nat) : bytes :=
  match get_thr st t with
  | Some c =>
    match ct_pc c with
    | PDead => c_x :: nd t
    | PIdle => c_f :: nd t
    | PNewMade _ => c_w :: nd t
    | _ => c_p :: nd t ++ conn_gate c
    end
  | None => [c_k]
  end.

Definition rl_tok (st : state) : bytes :=
  match st_rl st with
  | RIdle => [c_f; c_R]
  | RInit => [c_p; c_R; c_i]
  | RWantLock => [c_w; c_R]
  | RInClose j => c_p :: c_R :: c_c :: match slot st j with Some s => nd s | None => [c_dash] end
  | RInShutdown => c_p :: c_R :: c_h :: nd (st_cur st)
  | RInComplete => [c_p; c_R; c_m]
  | RInNew j => c_p :: c_R :: c_n :: nd (st_cur st) ++ c_us :: nd j
  end.

(* ---------- operations ---------- *)
Definition begin_ev (t : nat) (op : startop) : event :=
  match op with
  | SNew n => ENewBegin t n
  | SAcc rs => EAccBegin t rs
  | STick => ETickBegin t
  | SClose => ECloseBegin t
  end.

Definition needs_lock (lk : bool) (op : startop) : bool := match op with SNew _ => lk | _ => true end.

Definition h_ok (c : cthread) (op : startop) : bool :=
  match op, ct_h c with
  | SNew _, HNone => true
  | SNew _, _ => false
  | _, HOpen => true
  | _, _ => false
  end.

Definition pc_idle (c : cthread) : bool := match ct_pc c with PIdle => true | _ => false end.
Definition rl_wants (st : state) : bool := match st_rl st with RWantLock => true | _ => false end.
Definition in_pend (d : dstate) (t : nat) : bool := existsb (fun p => fst p =? t) (d_pend d).

(* start an API call on goroutine t; the boolean says whether the operation was accepted (not skipped) *)
Definition do_start (lk : bool) (d : dstate) (t : nat) (op : startop) (auto : bool) : dstate * bool :=
  match get_thr (d_st d) t with
  | Some c =>
    if pc_idle c && negb (in_pend d t) && h_ok c op && negb (needs_lock lk op && rl_wants (d_st d)) then
      let d1 := with_auto d (upd (d_auto d) t auto) in
      match step lk (d_st d1) (begin_ev t op) with
      | Some st' => (tok (with_st d1 st' (begin_ev t op)) (conn_tok st' t), true)
      | None => (tok (with_pend d1 (d_pend d1 ++ [(t, op)])) (c_b :: nd t), true)
      end
    else (tok d [c_k], false)
  | None => (tok d [c_k], false)
  end.

Definition do_reload (lk : bool) (d : dstate) (ok auto : bool) : dstate :=
  match step lk (d_st d) ERlBegin with
  | Some st' => tok (with_rok (with_rauto (with_st d st' ERlBegin) auto) ok) (rl_tok st')
  | None => tok d [c_k]
  end.

(* release the gate connection goroutine t is parked at; None = not parked *)
Definition release_conn (lk : bool) (d : dstate) (t : nat) : option dstate :=
  match get_thr (d_st d) t with
  | Some c =>
    match ct_pc c with
    | PNewIn _ =>
      if lk then
        match step lk (d_st d) (ENewEnd t) with
        | Some st' => Some (tok (with_st d st' (ENewEnd t)) (conn_tok st' t))
        | None => None
        end
      else if rl_wants (d_st d) then None
      else
        match step lk (d_st d) (ENewMade t) with
        | Some st1 =>
          let d1 := with_st d st1 (ENewMade t) in
          match step lk st1 (ENewEnd t) with
          | Some st2 => Some (tok (with_st d1 st2 (ENewEnd t)) (conn_tok st2 t))
          | None => Some (tok (with_store d1 (d_store d1 ++ [t])) (conn_tok st1 t))
          end
        | None => None
        end
    | PAccIn _ _ =>
      match step lk (d_st d) (EAccEnd t) with
      | Some st' => Some (tok (with_st d st' (EAccEnd t)) (conn_tok st' t)) | None => None end
    | PTickIn _ =>
      match step lk (d_st d) (ETickEnd t) with
      | Some st' => Some (tok (with_st d st' (ETickEnd t)) (conn_tok st' t)) | None => None end
    | PCloseIn _ =>
      match step lk (d_st d) (ECloseEnd t) with
      | Some st' => Some (tok (with_st d st' (ECloseEnd t)) (conn_tok st' t)) | None => None end
    | _ => None
    end
  | None => None
  end.

Definition release_reload (lk : bool) (d : dstate) : option dstate :=
  let e := match st_rl (d_st d) with RInit => Some (ERlInit (d_rok d))
           | RInClose _ | RInShutdown | RInComplete | RInNew _ => Some ERlStep
           | _ => None end in
  match e with
  | Some e =>
    match step lk (d_st d) e with
    | Some st' => Some (tok (with_st d st' e) (rl_tok st'))
    | None => None
    end
  | None => None
  end.

(* ---------- settling ---------- *)
(* B: every goroutine blocked at RLock() that can take it now runs to its park point *)
Fixpoint fire_pend (lk : bool) (d : dstate) (l : list (nat * startop)) (kept : list (nat * startop)) (fired : bool)
  : dstate * bool :=
  match l with
  | [] => (with_pend d (rev kept), fired)
  | (t, op) :: l' =>
    match step lk (d_st d) (begin_ev t op) with
    | Some st' => fire_pend lk (tok (with_st d st' (begin_ev t op)) (conn_tok st' t)) l' kept true
    | None => fire_pend lk d l' ((t, op) :: kept) fired
    end
  end.

Fixpoint fire_store (lk : bool) (d : dstate) (l : list nat) (kept : list nat) (fired : bool) : dstate * bool :=
  match l with
  | [] => (with_store d (rev kept), fired)
  | t :: l' =>
    match step lk (d_st d) (ENewEnd t) with
    | Some st' => fire_store lk (tok (with_st d st' (ENewEnd t)) (conn_tok st' t)) l' kept true
    | None => fire_store lk d l' (t :: kept) fired
    end
  end.

(* C: the first parked goroutine in auto mode (reload first, then connections in ascending order) *)
Fixpoint release_first_auto (lk : bool) (d : dstate) (ts : list nat) : option dstate :=
  match ts with
  | [] => None
  | t :: ts' =>
    if nth t (d_auto d) false then
      match release_conn lk d t with
      | Some d' => Some d'
      | None => release_first_auto lk d ts'
      end
    else release_first_auto lk d ts'
  end.

Definition settle_once (lk : bool) (d : dstate) : option dstate :=
  let a := if rl_wants (d_st d) then
             match step lk (d_st d) ERlLock with
             | Some st' => Some (tok (with_st d st' ERlLock) (rl_tok st'))
             | None => None
             end
           else None in
  match a with
  | Some d' => Some d'
  | None =>
    let (d1, f1) := fire_pend lk d (d_pend d) [] false in
    let (d2, f2) := fire_store lk d1 (d_store d1) [] false in
    if f1 || f2 then Some d2
    else
      match (if d_rauto d then release_reload lk d else None) with
      | Some d' => Some d'
      | None => release_first_auto lk d (seq 0 (length (st_thr (d_st d))))
      end
  end.

Fixpoint settle (fuel : nat) (lk : bool) (d : dstate) : dstate :=
  match fuel with
  | O => tok d [c_o]   (* out of fuel: never happens for the fuel given by [replay] *)
  | S f => match settle_once lk d with Some d' => settle f lk d' | None => d end
  end.

(* ---------- schedules ---------- *)
Inductive hop :=
| HNew (t n : nat) (auto : bool)
| HAcc (t k : nat) (auto : bool)
| HTick (t : nat) (auto : bool)
| HClose (t : nat) (auto : bool)
| HReload (kind : nat) (auto : bool)    (* kind 0: valid new configuration; 1: invalid; 2: incompatible *)
| HStep (who : nat)                      (* who = goroutine number, 1000 = the reload goroutine *)
| HFinish (who : nat)
| HBad.

Definition reload_who : nat := 1000.

Fixpoint fresh_recs (k : nat) (next : N) : list rec :=
  match k with O => [] | S k' => next :: fresh_recs k' (N.succ next) end.

Definition apply_op (lk : bool) (d : dstate) (op : hop) : dstate :=
  match op with
  | HNew t n auto => fst (do_start lk d t (SNew n) auto)
  | HAcc t k auto =>
    let (d', acc) := do_start lk d t (SAcc (fresh_recs k (d_next d))) auto in
    if acc then with_next d' (d_next d' + N.of_nat k)%N else d'
  | HTick t auto => fst (do_start lk d t STick auto)
  | HClose t auto => fst (do_start lk d t SClose auto)
  | HReload kind auto => do_reload lk d (kind =? 0) auto
  | HStep who =>
    match (if who =? reload_who then release_reload lk d else release_conn lk d who) with
    | Some d' => d'
    | None => tok d [c_k]
    end
  | HFinish who =>
    if who =? reload_who then tok (with_rauto d true) [c_u]
    else tok (with_auto d (upd (d_auto d) who true)) [c_u]
  | HBad => tok d [c_k]
  end.

Definition fuel_of (d : dstate) : nat :=
  64 + 8 * (length (st_thr (d_st d)) + length (st_table (d_st d))).

Fixpoint apply_ops (lk : bool) (d : dstate) (ops : list hop) : dstate :=
  match ops with
  | [] => d
  | op :: ops' =>
    let d1 := apply_op lk (tok d [c_slash]) op in
    apply_ops lk (settle (fuel_of d1) lk d1) ops'
  end.

Definition drain (lk : bool) (d : dstate) : dstate :=
  let d1 := tok (with_rauto (with_auto d (map (fun _ => true) (d_auto d))) true) [c_slash] in
  settle (fuel_of d1) lk d1.

Definition dinit (nthr maxn : nat) : dstate :=
  mkD (init nthr maxn) [] [] (repeat false nthr) false false 1%N [] [].

Definition replay (lk : bool) (nthr maxn : nat) (ops : list hop) : dstate :=
  drain lk (apply_ops lk (dinit nthr maxn) ops).

(* ---------- decoding of the case line ---------- *)
Definition zn (z : Z) : nat := Z.to_nat z.
Definition zb (z : Z) : bool := negb (Z.eqb z 0).

Fixpoint decode_ops (fuel : nat) (zs : list Z) : list hop :=
  match fuel with
  | O => []
  | S f =>
    match zs with
    | code :: a :: b :: m :: zs' =>
      (match zn code with
       | 1 => HNew (zn a) (zn b) (zb m)
       | 2 => HAcc (zn a) (zn b) (zb m)
       | 3 => HTick (zn a) (zb m)
       | 4 => HClose (zn a) (zb m)
       | 5 => HReload (zn a) (zb m)
       | 6 => HStep (zn a)
       | 7 => HFinish (zn a)
       | _ => HBad
       end) :: decode_ops f zs'
    | _ => []
    end
  end.

(* ---------- rendering of the projection ---------- *)
Definition bang (alive : bool) : bytes := if alive then [] else [c_bang].

Definition obs_tok (o : obs) : bytes :=
  match o with
  | OHand t r s g al => c_h :: nd t ++ c_r :: dec_of_N r ++ c_s :: nd s ++ c_g :: nd g ++ bang al
  | ODeliver r s g al => c_d :: c_r :: dec_of_N r ++ c_s :: nd s ++ c_g :: nd g ++ bang al
  | OPanic t site _ => c_x :: nd t ++ c_at :: nd site
  end.

Definition sink_tok (d : dsink) : bytes :=
  nd (ds_gen d) ++ c_dot :: nd (ds_num d) ++ c_dot :: nd (ds_addr d) ++ c_dot ::
  (if ds_closed d then [c_c] else [c_o]) ++ c_dot :: nd (length (ds_pending d)).

Definition slot_tok (o : option nat) : bytes := match o with Some s => nd s | None => [c_dash] end.

Definition thr_tok (d : dstate) (tc : nat * cthread) : bytes :=
  let (t, c) := tc in
  (match ct_h c with HNone => c_n | HOpen => c_o | HClosed => c_c end) ::
  (match ct_pc c with
   | PIdle => if in_pend d t then c_b else c_i
   | PDead => c_d
   | PNewMade _ => c_w
   | _ => c_p
   end) :: nil.

Fixpoint enum {A} (i : nat) (l : list A) : list (nat * A) :=
  match l with [] => [] | x :: l' => (i, x) :: enum (S i) l' end.

(* verdict of the run, computed from the observations only *)
Definition obs_dead (o : obs) : bool :=
  match o with OHand _ _ _ _ al => negb al | ODeliver _ _ _ al => negb al | OPanic _ _ _ => false end.
Definition obs_panic_site (o : obs) : nat := match o with OPanic _ site _ => site | _ => 0 end.

(* a sink that still buffers records although nothing will ever flush it into live pipelines *)
Definition sink_orphan (st : state) (sd : nat * dsink) : bool :=
  let (s, d) := sd in
  match ds_pending d with
  | [] => false
  | _ => negb (sink_alive st d && (ds_gen d =? st_cur st) &&
               match slot st (ds_num d) with Some s' => s' =? s | None => false end)
  end.

Definition verdict (st : state) : bytes :=
  let lg := st_log st in
  if existsb (fun o => 2 <=? obs_panic_site o) lg then str_panic
  else if existsb obs_dead lg then [c_d; 101%N; c_a; c_d]                  (* "dead" *)
  else if existsb (sink_orphan st) (enum 0 (st_sinks st)) then [108%N; c_o; c_s; c_t]   (* "lost" *)
  else if existsb (fun o => obs_panic_site o =? 1) lg then [c_o; c_o; c_b]   (* "oob" *)
  else str_ok.

Definition field (k : N) (v : bytes) : bytes := k :: c_eq :: v.

Definition render (d : dstate) : bytes :=
  let st := d_st d in
  verdict st ++ colon ::
  join c_semi [
    field 84%N (join comma (rev (d_trace d)));                         (* T= *)
    field 76%N (join comma (map obs_tok (rev (st_log st))));           (* L= *)
    field 70%N (nd (st_fails st));                                     (* F= *)
    field 83%N (nd (st_succs st));                                     (* S= *)
    field 67%N (nd (st_cur st));                                       (* C= *)
    field 71%N (map (fun b : bool => if b then 49%N else 48%N) (st_shut st));  (* G= *)
    field 75%N (join comma (map sink_tok (st_sinks st)));              (* K= *)
    field 66%N (join comma (map slot_tok (st_table st)));              (* B= *)
    field 72%N (join comma (map (thr_tok d) (enum 0 (st_thr st))))     (* H= *)
  ].

(* ---------- correspondence entry point ----------
   kind 0: zargs = nthr :: maxn :: quadruples (code, a, b, mode); the model replays the schedule with the
   current code version of NewSink (lk = true). *)
Definition run_scenario (lk : bool) (c : case) : bytes :=
  match c_zargs c with
  | nthr :: maxn :: ops =>
    render (replay lk (zn nthr) (zn maxn) (decode_ops (length ops) ops))
  | _ => bad_case_output
  end.

(* kind 2: end to end through the real Reloader: zargs = mode :: records per phase :: reload kinds
   (0 = valid file, other = invalid or incompatible file).  One connection that stays open, the reloads in
   between; the output is the verdict, the failure / success counters and the generation (= version of the
   configuration) that serves the connection at the end. *)
Definition e2e_ops (kinds : list Z) : list hop :=
  HNew 0 0 true :: HAcc 0 1 true ::
  flat_map (fun k => [HReload (if Z.eqb k 0 then 0 else 1) true; HAcc 0 1 true]) kinds ++
  [HTick 0 true; HClose 0 true].

Definition run_e2e (c : case) : bytes :=
  match c_zargs c with
  | _ :: _ :: kinds =>
    let st := d_st (replay true 1 1 (e2e_ops kinds)) in
    [101%N; 50%N; 101%N] ++                                      (* "e2e" *)
    (if bytes_eqb (verdict st) str_ok then [] else [c_dash; 108%N; c_o; c_s; c_t]) ++
    colon :: join c_semi [field 70%N (nd (st_fails st)); field 83%N (nd (st_succs st)); field 67%N (nd (st_cur st))]
  | _ => bad_case_output
  end.

(* kind 1: a trace observed on the REAL tcpLineListener in front of the REAL ReloadableOrchestrator
   (harness/c17_listener.go): the calls the listener made on its receiver - NewSink(number) / Accept /
   Flush / Close per connection, in the order observed - are replayed on the listener LTS [lstep].  The
   hidden events (abort signal, conn.Close() of the closer goroutine) are inserted where the observed
   call needs them: a NewSink with a descriptor number that is still in use means its previous owner's
   descriptor has been closed.  zargs = nthr :: maxn :: triples (code, t, x):
     1 open t n | 2 accept t k | 3 flush t | 4 close t | 5,6,7: outcomes observed by the harness (ignored here;
   the model predicts them). *)
Record tstate := mkT { t_ls : lstate; t_ok : bool; t_reuse : bool; t_next : N }.

Definition t_step (ts : tstate) (e : levent) : tstate :=
  if t_ok ts then
    match lstep true true (t_ls ts) e with
    | Some ls' => mkT ls' true (t_reuse ts) (t_next ts)
    | None => mkT (t_ls ts) false (t_reuse ts) (t_next ts)
    end
  else ts.

Definition owner_of (ls : lstate) (n : nat) : option nat :=
  let cands := filter (fun tc : nat * cthread =>
                 (ct_num (snd tc) =? n) && lt_started (lthr ls (fst tc)) && lt_fd (lthr ls (fst tc)))
               (enum 0 (st_thr (l_st ls))) in
  match cands with (t, _) :: _ => Some t | [] => None end.

Definition thr_parked (ls : lstate) (t : nat) : bool :=
  match get_thr (l_st ls) t with
  | Some c => match ct_pc c with PAccIn _ _ | PTickIn _ | PCloseIn _ | PNewIn _ => true | _ => false end
  | None => false
  end.

Definition t_abort_if_running (ts : tstate) (t : nat) : tstate :=
  let lt := lthr (t_ls ts) t in
  if lt_started lt && negb (lt_left lt) then t_step ts (LAbort t) else ts.

Definition t_call (ts : tstate) (code t x : nat) : tstate :=
  match code with
  | 1 =>
    let ts1 :=
      if nth x (l_fd (t_ls ts)) false then
        match owner_of (t_ls ts) x with
        | Some t' => t_step (t_abort_if_running ts t') (LFdClosed t')
        | None => ts
        end
      else ts in
    let reuse := negb (guard (l_st (t_ls ts1)) (ENewBegin t x)) in
    let ts2 := mkT (t_ls ts1) (t_ok ts1) (t_reuse ts1 || reuse) (t_next ts1) in
    let ts3 := t_step ts2 (LConnOpen t x) in
    if thr_parked (t_ls ts3) t then t_step ts3 (LApi (ENewEnd t)) else ts3
  | 2 =>
    let rs := fresh_recs x (t_next ts) in
    let ts1 := t_step (mkT (t_ls ts) (t_ok ts) (t_reuse ts) (t_next ts + N.of_nat x)%N) (LApi (EAccBegin t rs)) in
    if thr_parked (t_ls ts1) t then t_step ts1 (LApi (EAccEnd t)) else ts1
  | 3 =>
    let ts1 := t_step ts (LApi (ETickBegin t)) in
    if thr_parked (t_ls ts1) t then t_step ts1 (LApi (ETickEnd t)) else ts1
  | 4 =>
    let ts1 := t_step (t_abort_if_running ts t) (LApi (ECloseBegin t)) in
    if thr_parked (t_ls ts1) t then t_step ts1 (LApi (ECloseEnd t)) else ts1
  | _ => ts
  end.

Fixpoint t_calls (fuel : nat) (ts : tstate) (zs : list Z) : tstate :=
  match fuel with
  | O => ts
  | S f =>
    match zs with
    | code :: t :: x :: zs' => t_calls f (t_call ts (zn code) (zn t) (zn x)) zs'
    | _ => ts
    end
  end.

Definition obs_outcome_tok (o : obs) : list bytes :=
  match o with
  | OHand _ _ _ _ _ => []
  | ODeliver r s g al => [c_d :: c_r :: dec_of_N r ++ c_g :: nd g ++ bang al]
  | OPanic t site _ => [c_x :: nd t ++ c_at :: nd site]
  end.

Definition run_listener_trace (c : case) : bytes :=
  match c_zargs c with
  | nthr :: maxn :: evs =>
    let ts := t_calls (length evs) (mkT (linit (zn nthr) (zn maxn)) true false 1%N) evs in
    let st := l_st (t_ls ts) in
    verdict st ++ colon ::
    join c_semi [
      field 65%N (if t_ok ts then [c_a; c_c; c_c; 101%N; c_p; c_t] else [c_r; 101%N; 106%N; 101%N; c_c; c_t]);  (* A=accept|reject *)
      field 85%N (if t_reuse ts then [c_r; 101%N; c_u; c_s; 101%N] else [c_u; c_n; c_i; 113%N; c_u; 101%N]);   (* U=reuse|unique *)
      field 79%N (join comma (flat_map obs_outcome_tok (rev (st_log st))))                                       (* O= outcomes *)
    ]
  | _ => bad_case_output
  end.

Definition run_case_C17 (c : case) : bytes :=
  match c_kind c with
  | 0%N => run_scenario true c
  | 1%N => run_listener_trace c
  | 2%N => run_e2e c
  | 3%N => ReloadRecover.run_recover c   (* recovery of the pipelines of queued chunks: Model/ReloadRecover.v *)
  | 9%N => run_scenario false c     (* the original NewSink (documentation of defect #13; never generated by the harness) *)
  | _ => bad_case_output
  end.
