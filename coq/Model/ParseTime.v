(* Model of transform/tparsetime: rfc3339.go, atoi.go, tparsetime.go (after the
   two fix: commits: length guard and integer fraction).  Indexing goes through
   checked accessors that yield [Panic] exactly where Go would. *)
From SV Require Import Model.Common.
Open Scope Z_scope.

(* Go: int(s[i] - '0') on bytes: the subtraction wraps modulo 256 *)
Definition bsub0 (c : N) : Z := Z.of_N ((c + 256 - 48) mod 256).

Definition idx (t : bytes) (i : nat) : outcome N :=
  match nth_error t i with
  | Some c => Ok c
  | None => Panic (N.of_nat i)
  end.

Definition bind {A B} (o : outcome A) (f : A -> outcome B) : outcome B :=
  match o with
  | Ok a => f a
  | Err e => Err e
  | Panic s => Panic s
  end.
Notation "x <- e ;; f" := (bind e (fun x => f)) (at level 61, e at next level, right associativity).

Definition atoi2 (t : bytes) (i : nat) : outcome Z :=
  a <- idx t i ;; b <- idx t (i + 1) ;; Ok (bsub0 a * 10 + bsub0 b).

Definition atoi4 (t : bytes) (i : nat) : outcome Z :=
  a <- idx t i ;; b <- idx t (i + 1) ;; c <- idx t (i + 2) ;; d <- idx t (i + 3) ;;
  Ok (bsub0 a * 1000 + bsub0 b * 100 + bsub0 c * 10 + bsub0 d).

(* splitFractionAndTimezone: (fraction string including the dot, rest) *)
Fixpoint span_digits (s : bytes) : bytes * bytes :=
  match s with
  | c :: s' => if is_digit c then let (d, r) := span_digits s' in (c :: d, r) else ([], s)
  | [] => ([], [])
  end.

Definition split_frac_tz (s : bytes) : bytes * bytes :=
  match s with
  | 46%N :: (_ :: _) as s' => let (d, r) := span_digits s' in (46%N :: d, r)
  | _ => ([], s)
  end.

(* the loop of parseFractionNanos: nine iterations, missing digits count as 0 *)
Fixpoint frac_loop (n : nat) (ds : bytes) (acc : Z) : Z :=
  match n with
  | O => acc
  | S n' =>
    match ds with
    | [] => frac_loop n' [] (acc * 10)
    | d :: ds' => frac_loop n' ds' (acc * 10 + bsub0 d)
    end
  end.

Definition parse_fraction_nanos (frac : bytes) : outcome Z :=
  match frac with
  | [] => Ok 0
  | _ :: [] => Err 2%N
  | _ :: ds => Ok (frac_loop 9 ds 0)
  end.

(* time.Parse with layout "Z07:00" (colon) or "Z0700": offset in seconds east of UTC *)
Definition getnum2 (a b : N) : option Z :=
  if (is_digit a && is_digit b)%bool then Some (Z.of_N (a - 48) * 10 + Z.of_N (b - 48)) else None.

Definition tz_finish (sign : N) (h m : option Z) (rest : bytes) : outcome Z :=
  match h, m, rest with
  | Some hr, Some mm, [] =>
    if (hr >? 24) || (mm >? 60) then Err 3%N
    else if (sign =? 43)%N then Ok ((hr * 60 + mm) * 60)
    else if (sign =? 45)%N then Ok (- ((hr * 60 + mm) * 60))
    else Err 3%N
  | _, _, _ => Err 3%N
  end.

Definition has_colon (s : bytes) : bool := existsb (fun c => (c =? 58)%N) s.

Definition parse_tz (s : bytes) : outcome Z :=
  match s with
  | 90%N :: rest => match rest with [] => Ok 0 | _ => Err 3%N end
  | _ =>
    if has_colon s then
      match s with
      | sg :: h1 :: h2 :: c :: m1 :: m2 :: rest =>
        if (c =? 58)%N then tz_finish sg (getnum2 h1 h2) (getnum2 m1 m2) rest else Err 3%N
      | _ => Err 3%N
      end
    else
      match s with
      | sg :: h1 :: h2 :: m1 :: m2 :: rest => tz_finish sg (getnum2 h1 h2) (getnum2 m1 m2) rest
      | _ => Err 3%N
      end
  end.

(* time.Date for a fixed-offset zone, as seconds since the Unix epoch; every
   argument may be out of range (Go normalises; the result is linear in them) *)
Definition days_from_civil (y m d : Z) : Z :=
  let y' := if m <=? 2 then y - 1 else y in
  let era := y' / 400 in
  let yoe := y' - era * 400 in
  let mp := if m >? 2 then m - 3 else m + 9 in
  let doy := (153 * mp + 2) / 5 + d - 1 in
  let doe := yoe * 365 + yoe / 4 - yoe / 100 + doy in
  era * 146097 + doe - 719468.

Definition go_date_unix (year month day hour min sec : Z) : Z :=
  let m0 := month - 1 in
  let year' := year + m0 / 12 in
  let m' := m0 mod 12 + 1 in
  (days_from_civil year' m' 1 + (day - 1)) * 86400 + hour * 3600 + min * 60 + sec.

(* parseRFC3339Timestamp; [local_off] is the offset of time.Local (used when
   the string carries no zone).  Result: (unix seconds, nanoseconds). *)
Definition parse_rfc3339 (local_off : Z) (t : bytes) : outcome (Z * Z) :=
  if (length t <? 19)%nat then Err 1%N else
  c4 <- idx t 4 ;; c7 <- idx t 7 ;; c10 <- idx t 10 ;; c13 <- idx t 13 ;; c16 <- idx t 16 ;;
  if negb ((c4 =? 45) && (c7 =? 45) && (c10 =? 84) && (c13 =? 58) && (c16 =? 58))%N then Err 1%N else
  year <- atoi4 t 0 ;; month <- atoi2 t 5 ;; day <- atoi2 t 8 ;;
  hour <- atoi2 t 11 ;; mi <- atoi2 t 14 ;; sec <- atoi2 t 17 ;;
  let (frac, tz) := split_frac_tz (skipn 19 t) in
  nsec <- parse_fraction_nanos frac ;;
  off <- match tz with [] => Ok local_off | _ => parse_tz tz end ;;
  Ok (go_date_unix year month day hour mi sec - off, nsec).

(* parseTimeTransform.Transform: new timestamp and increment of the error counter *)
Inductive tp_result := TpSkip | TpSet (unix nsec : Z) | TpError | TpPanic (site : N).

Definition transform_parse_time (local_off : Z) (value : bytes) : tp_result :=
  match value with
  | [] => TpSkip
  | _ =>
    match parse_rfc3339 local_off value with
    | Ok (u, n) => TpSet u n
    | Err _ => TpError
    | Panic s => TpPanic s
    end
  end.

(* ---- correspondence entry point ----
   per-record output "skip" | "ok:<unix>,<nsec>" | "err" | "panic" *)
Definition show_tp (r : tp_result) : bytes :=
  match r with
  | TpSkip => [115;107;105;112]%N
  | TpSet u n => str_ok ++ colon :: dec_of_Z u ++ comma :: dec_of_Z n
  | TpError => str_err
  | TpPanic _ => str_panic
  end.

(* The transform over a stream of records through one instance: (result per record, error counter).
   The time-zone cache of the implementation is not state of the model: the result of a record
   does not depend on the records before it. *)
Definition transform_stream (local_off : Z) (vs : list bytes) : list tp_result * Z :=
  let rs := map (transform_parse_time local_off) vs in
  (rs, Z.of_nat (length (filter (fun r => match r with TpError => true | _ => false end) rs))).

(* kind 0: one value; kind 1: a sequence through one instance, "seq:" ++ results joined by ';' *)
Definition run_case_C13 (c : case) : bytes :=
  match c_kind c with
  | 1%N => [115;101;113;58]%N ++ join 59%N (map show_tp (fst (transform_stream 0 (c_sargs c))))
  | _ => show_tp (transform_parse_time 0 (sarg c 0))
  end.
