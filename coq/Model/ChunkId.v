(* Model of output/shared/chunkidgen.go: the chunk ID generator.

     type chunkIDGenerator struct { epochNano int64; sequence int32; suffix string }
     func (g) Generate() string {
         next := time.Now().UnixNano()
         if next > g.epochNano { g.epochNano = next; g.sequence = 0 } else { g.sequence++ }
         return fmt.Sprintf("%019d-%08d"+g.suffix, next, g.sequence)
     }

   The wall clock reading is an INPUT of the model ([now]).  The int32 increment
   wraps (written out).  fmt's %0<w>d is modelled by [pad_dec] (zero padding after
   the sign, never truncating); the suffix is assumed to contain no '%' (it is part
   of the format string in the Go code; both real suffixes are ".ff" and ".dd").
   No proofs in this file. *)
From SV Require Import Model.Common.
Open Scope Z_scope.

Record idgen := { g_epoch : Z; g_seq : Z }.

(* newChunkIDGenerator *)
Definition idgen_init : idgen := {| g_epoch := 0; g_seq := 0 |}.

(* int32 wrap-around of sequence++ *)
Definition wrap32 (z : Z) : Z := (z + 2 ^ 31) mod 2 ^ 32 - 2 ^ 31.

(* the state update and the two numbers that are formatted: (nextTimestamp, nextSequence) *)
Definition generate (now : Z) (g : idgen) : idgen * (Z * Z) :=
  if now >? g_epoch g
  then ({| g_epoch := now; g_seq := 0 |}, (now, 0))
  else let s := wrap32 (g_seq g + 1) in
       ({| g_epoch := g_epoch g; g_seq := s |}, (now, s)).

(* ---------- fmt.Sprintf("%0<w>d") ---------- *)

(* exactly [w] decimal digits of n, most significant first (n < 10^w) *)
Fixpoint fixed_dec (w : nat) (n : N) : bytes :=
  match w with
  | O => []
  | S w' => digit_char (n / 10 ^ N.of_nat w')%N :: fixed_dec w' (n mod 10 ^ N.of_nat w')%N
  end.

(* the same digits computed the way fmt does it: from the least significant digit, dividing by ten
   (Proofs/ChunkIdProofs.v: dec_lsb w n [] = fixed_dec w n for n < 10^w) *)
Fixpoint dec_lsb (w : nat) (n : N) (acc : bytes) : bytes :=
  match w with
  | O => acc
  | S w' => let (q, r) := N.div_eucl n 10 in dec_lsb w' q (digit_char r :: acc)
  end.

(* unsigned part: zero-padded to [w] digits, all digits when there are more *)
Definition pad_unsigned (w : nat) (n : N) : bytes :=
  if (n <? 10 ^ N.of_nat w)%N then dec_lsb w n [] else dec_of_N n.

(* %0<w>d : the sign counts towards the width and comes before the zeros *)
Definition pad_dec (w : nat) (z : Z) : bytes :=
  if z <? 0 then 45%N :: pad_unsigned (w - 1) (Z.to_N (- z))
  else pad_unsigned w (Z.to_N z).

Definition dash : N := 45%N.

(* "%019d-%08d" + suffix *)
Definition format_id (suffix : bytes) (p : Z * Z) : bytes :=
  pad_dec 19 (fst p) ++ dash :: pad_dec 8 (snd p) ++ suffix.

(* Generate *)
Definition generate_id (suffix : bytes) (now : Z) (g : idgen) : idgen * bytes :=
  let (g', p) := generate now g in (g', format_id suffix p).

(* the ids produced for a list of successive clock readings *)
Fixpoint gen_pairs (g : idgen) (nows : list Z) : list (Z * Z) :=
  match nows with
  | [] => []
  | now :: rest => let (g', p) := generate now g in p :: gen_pairs g' rest
  end.

Definition gen_ids (suffix : bytes) (g : idgen) (nows : list Z) : list bytes :=
  map (format_id suffix) (gen_pairs g nows).

(* ---------- byte-wise string order (Go's < on strings) ---------- *)

Fixpoint bytes_ltb (a b : bytes) : bool :=
  match a, b with
  | [], [] => false
  | [], _ :: _ => true
  | _ :: _, [] => false
  | x :: a', y :: b' => if (x <? y)%N then true else if (y <? x)%N then false else bytes_ltb a' b'
  end.

(* number of ids in [ids] that sort strictly before [id]: the canonical form of an id in the
   correspondence output (the values contain wall-clock time, the order does not) *)
Definition rank_of (id : bytes) (ids : list bytes) : nat :=
  length (filter (fun x => bytes_ltb x id) ids).

Fixpoint all_digits (s : bytes) : bool :=
  match s with
  | [] => true
  | c :: s' => is_digit c && all_digits s'
  end.

(* shape of a chunk id: 19 digits, '-', 8 digits, suffix *)
Definition id_shape_ok (suffix : bytes) (id : bytes) : bool :=
  all_digits (firstn 19 id) && (Nat.eqb (length (firstn 19 id)) 19)
  && bytes_eqb (firstn 1 (skipn 19 id)) [dash]
  && all_digits (firstn 8 (skipn 20 id)) && (Nat.eqb (length (firstn 8 (skipn 20 id))) 8)
  && bytes_eqb (skipn 28 id) suffix.

Fixpoint strictly_increasing (l : list bytes) : bool :=
  match l with
  | [] => true
  | a :: l' => match l' with
               | [] => true
               | b :: _ => bytes_ltb a b && strictly_increasing l'
               end
  end.
