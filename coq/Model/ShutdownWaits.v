(* C18 — two waits of the shutdown path whose wake-up must not depend on the waiter itself.

   A. The pipeline stop with a bounded chunk queue (buffer/hybridbuffer/bufferer.go Accept / Destroy, wired as in
      orchestrate/obase/pipelines.go): the processing worker hands every chunk to bufferer.Accept, ends when it has
      no more, and ONLY THEN (procWorker.Stopped().Next) bufferer.Destroy() runs, which raises inputClosed.
      Accept on a full queue (len(inputChannel) = defs.BufferMaxNumChunksInQueue) drops the chunk at once.
      [qg_block = true] is a VARIANT that is NOT the code of the repository (seeded to test this check): Accept waits
      on the full queue for room or for inputClosed.  The feeder making room (QRoom) is an ENVIRONMENT event: with
      an upstream that is down it never comes.

   B. The TCP listener at a stop request (input/tcplistener/tcplinelistener.go): a connection is accepted, its
      sink is created (receiver.NewSink, may take arbitrarily long), then launchConnectionCloser starts a goroutine
      that closes the connection when the stop request IS signalled (level-triggered: also when it already was).
      [lg_sweep = true] is a VARIANT (seeded): connections register in a table instead and ONE goroutine closes
      every registered connection once, when the stop request fires (edge-triggered).
      A reader of a connection ends only when the connection is closed (the client stays connected).

   The event list is the scheduler.  No proofs here.  The last part is the replay for run_case_C18 (kinds 3, 4). *)
From SV Require Import Model.Common.
Local Open Scope nat_scope.

(* ------------------------------------------------------------------------------------------ *)
(* A. pipeline stop, bounded queue                                                              *)

Record qcfg := QCFG {
  qg_cap : nat;      (* defs.BufferMaxNumChunksInQueue *)
  qg_block : bool    (* false = Accept as it is (drop on overflow); true = the variant that waits *)
}.

Inductive wpc :=
| WRun (k : nat)        (* the worker has k more chunks to hand over *)
| WBlocked (k : nat)    (* variant only: inside Accept, select { inputChannel <- chunk | <-inputClosed } *)
| WEnded                (* the worker has left its loop: procWorker.Stopped() *)
| WDestroyed.           (* bufferer.Destroy() has run: close(inputChannel); inputClosed.Signal() *)

Record qstate := QS {
  q_pc : wpc;
  q_len : nat;        (* len(inputChannel) *)
  q_closed : bool;    (* inputClosed *)
  q_kept : nat;       (* history: chunks put into the queue *)
  q_dropped : nat;    (* history: chunks counted dropped *)
  q_taken : nat       (* history: chunks the feeder took out of the queue *)
}.

Definition q_init (p : nat) : qstate := QS (WRun p) 0 false 0 0 0.

Inductive q_event :=
| QAccept      (* the worker calls Accept for its next chunk *)
| QWake        (* variant: the blocked Accept is woken (room or inputClosed) *)
| QEnd         (* the worker ends *)
| QDestroy     (* Destroy, chained to the end of the worker *)
| QRoom.       (* ENVIRONMENT: the feeder takes a chunk out of the queue *)

Definition q_own (e : q_event) : bool := match e with QRoom => false | _ => true end.

Definition q_step (cfg : qcfg) (s : qstate) (e : q_event) : option qstate :=
  match e, q_pc s with
  | QAccept, WRun (S k) =>
    if Nat.ltb (q_len s) (qg_cap cfg)
    then Some (QS (WRun k) (S (q_len s)) (q_closed s) (S (q_kept s)) (q_dropped s) (q_taken s))
    else if qg_block cfg
    then Some (QS (WBlocked k) (q_len s) (q_closed s) (q_kept s) (q_dropped s) (q_taken s))
    else Some (QS (WRun k) (q_len s) (q_closed s) (q_kept s) (S (q_dropped s)) (q_taken s))
  | QWake, WBlocked k =>
    if Nat.ltb (q_len s) (qg_cap cfg)
    then Some (QS (WRun k) (S (q_len s)) (q_closed s) (S (q_kept s)) (q_dropped s) (q_taken s))
    else if q_closed s
    then Some (QS (WRun k) (q_len s) (q_closed s) (q_kept s) (S (q_dropped s)) (q_taken s))
    else None
  | QEnd, WRun O => Some (QS WEnded (q_len s) (q_closed s) (q_kept s) (q_dropped s) (q_taken s))
  | QDestroy, WEnded => Some (QS WDestroyed (q_len s) true (q_kept s) (q_dropped s) (q_taken s))
  | QRoom, _ =>
    match q_len s, q_closed s with
    | S n, false => Some (QS (q_pc s) n false (q_kept s) (q_dropped s) (S (q_taken s)))
    | _, _ => None
    end
  | _, _ => None
  end.

Fixpoint q_run (cfg : qcfg) (s : qstate) (evs : list q_event) : option qstate :=
  match evs with
  | [] => Some s
  | e :: r => match q_step cfg s e with Some s' => q_run cfg s' r | None => None end
  end.

Fixpoint q_own_steps (evs : list q_event) : nat :=
  match evs with [] => 0 | e :: r => (if q_own e then 1 else 0) + q_own_steps r end.

(* what is left to do for the worker and the chain behind it *)
Definition q_measure (s : qstate) : nat :=
  match q_pc s with WRun k => k + 2 | WBlocked k => k + 3 | WEnded => 1 | WDestroyed => 0 end.

Definition q_remaining (s : qstate) : nat :=
  match q_pc s with WRun k => k | WBlocked k => S k | _ => 0 end.

(* ------------------------------------------------------------------------------------------ *)
(* B. listener stop                                                                             *)

Inductive cst :=
| CSetup      (* accepted, runConnection is inside receiver.NewSink *)
| CReg        (* closer goroutine launched (code) / registered in the table (variant); the reader runs *)
| CClosed.    (* conn.Close() done: the reader ends, the connection task ends *)

Record lcfg := LCFG { lg_sweep : bool }.

Record lstate := LS { l_conns : list cst; l_stop : bool; l_swept : bool }.

Definition l_init : lstate := LS [] false false.

Inductive l_event :=
| LAccept             (* ENVIRONMENT: a client connects; after the stop the accept loop closes it at once *)
| LStop               (* ENVIRONMENT: the stop request *)
| LRegister (i : nat) (* NewSink of connection i returns; closer launched / connection registered *)
| LCloser (i : nat)   (* code: the closer goroutine of connection i sees stopRequest and closes the connection *)
| LSweep.             (* variant: the listener-wide goroutine closes every registered connection, once *)

Definition l_own (e : l_event) : bool := match e with LAccept | LStop => false | _ => true end.

Fixpoint set_nth (l : list cst) (i : nat) (v : cst) : list cst :=
  match l, i with
  | [], _ => []
  | _ :: r, O => v :: r
  | x :: r, S i' => x :: set_nth r i' v
  end.

Definition sweep_one (c : cst) : cst := match c with CReg => CClosed | _ => c end.

Definition l_step (cfg : lcfg) (s : lstate) (e : l_event) : option lstate :=
  match e with
  | LAccept => Some (LS (l_conns s ++ [if l_stop s then CClosed else CSetup]) (l_stop s) (l_swept s))
  | LStop => if l_stop s then None else Some (LS (l_conns s) true (l_swept s))
  | LRegister i =>
    match nth_error (l_conns s) i with
    | Some CSetup => Some (LS (set_nth (l_conns s) i CReg) (l_stop s) (l_swept s))
    | _ => None
    end
  | LCloser i =>
    if lg_sweep cfg then None else
    match nth_error (l_conns s) i, l_stop s with
    | Some CReg, true => Some (LS (set_nth (l_conns s) i CClosed) true (l_swept s))
    | _, _ => None
    end
  | LSweep =>
    if lg_sweep cfg && l_stop s && negb (l_swept s)
    then Some (LS (map sweep_one (l_conns s)) true true)
    else None
  end.

Fixpoint l_run (cfg : lcfg) (s : lstate) (evs : list l_event) : option lstate :=
  match evs with
  | [] => Some s
  | e :: r => match l_step cfg s e with Some s' => l_run cfg s' r | None => None end
  end.

Fixpoint l_own_steps (evs : list l_event) : nat :=
  match evs with [] => 0 | e :: r => (if l_own e then 1 else 0) + l_own_steps r end.

Definition c_weight (c : cst) : nat := match c with CSetup => 2 | CReg => 1 | CClosed => 0 end.
Fixpoint l_measure (l : list cst) : nat := match l with [] => 0 | c :: r => c_weight c + l_measure r end.

Definition is_closed (c : cst) : bool := match c with CClosed => true | _ => false end.

(* the input reports Stopped(): the accept loop has ended (stop) and every connection task has ended *)
Definition l_stopped (s : lstate) : bool := l_stop s && forallb is_closed (l_conns s).

(* ------------------------------------------------------------------------------------------ *)
(* replay for the correspondence                                                                *)

Fixpoint repq (n : nat) (l : list q_event) : list q_event :=
  match n with O => [] | S n' => l ++ repq n' l end.

(* kind 3: capacity q, p chunks, the feeder made room [r] times (right after the queue was first full), then the stop *)
Definition replay_qfull (cfg : qcfg) (p r : nat) : option qstate :=
  let q := qg_cap cfg in
  let first := Nat.min p q in
  let rest := p - first in
  let r' := Nat.min r rest in
  q_run cfg (q_init p)
    (repq first [QAccept] ++ repq r' [QRoom; QAccept] ++ repq (rest - r') [QAccept] ++ [QEnd; QDestroy]).

(* kind 4: e connections established, l more inside NewSink at the stop request; afterwards the closers of the
   established connections run, NewSink returns for the others, their closers run *)
Definition replay_listener (cfg : lcfg) (e l : nat) : option lstate :=
  let early := seq 0 e in
  let late := seq e l in
  l_run cfg l_init
    (flat_map (fun i => [LAccept; LRegister i]) early ++ map (fun _ => LAccept) late ++ [LStop]
     ++ map LCloser early ++ flat_map (fun i => [LRegister i; LCloser i]) late).

Definition str_reject : bytes := [114;101;106;101;99;116]%N.

Local Open Scope Z_scope.

(* kind 3 zargs: d0 d1  q (>= 1: a channel without buffer hands over differently) w p  done files (observed; ignored)  dropped (observed)
   output: ok:done=<0|1>;kept=<chunks in the queue>;dropped=<n>   or  reject (no run of the model drops that many) *)
Definition run_qfull_case (c : case) : bytes :=
  let z := zarg c in
  let q := z 2%nat in let w := z 3%nat in let p := z 4%nat in let d := z 7%nat in
  if (q <? 1) || (w <? 0) || (p <? 0) || (d <? 0) || (100000 <? q) || (100000 <? w) || (100000 <? p)
  then bad_case_output else
  let over := Z.max 0 (p - q) in
  let mind := Z.max 0 (over - (w + 1)) in
  if (over <? d) || (d <? mind) then str_reject else
  match replay_qfull (QCFG (Z.to_nat q) false) (Z.to_nat p) (Z.to_nat (over - d)) with
  | None => str_reject
  | Some s =>
    str_ok ++ colon :: [100;111;110;101;61]%N ++ dec_of_Z (match q_pc s with WDestroyed => 1 | _ => 0 end)
    ++ 59%N :: [107;101;112;116;61]%N ++ dec_of_Z (Z.of_nat (q_kept s))
    ++ 59%N :: [100;114;111;112;112;101;100;61]%N ++ dec_of_Z (Z.of_nat (q_dropped s))
  end.

(* kind 4 zargs: d0 d1  e l  delay sending (ignored)  stopped closed (observed; ignored)
   output: ok:stopped=<0|1>;closed=<connections closed>;conns=<connections> *)
Definition run_listener_case (c : case) : bytes :=
  let z := zarg c in
  let e := z 2%nat in let l := z 3%nat in
  if (e <? 0) || (l <? 0) || (10000 <? e) || (10000 <? l) || (z 7%nat <? 0) then bad_case_output else
  match replay_listener (LCFG false) (Z.to_nat e) (Z.to_nat l) with
  | None => str_reject
  | Some s =>
    str_ok ++ colon :: [115;116;111;112;112;101;100;61]%N ++ dec_of_Z (if l_stopped s then 1 else 0)
    ++ 59%N :: [99;108;111;115;101;100;61]%N ++ dec_of_Z (Z.of_nat (length (filter is_closed (l_conns s))))
    ++ 59%N :: [99;111;110;110;115;61]%N ++ dec_of_Z (Z.of_nat (length (l_conns s)))
  end.
