(* Model of input/tcplistener/multilinereader.go (multiLineReader: Read, processBuffer,
   checkOverflow, Flush, FlushAll), of the part of tcplinelistener.go runConnection that
   turns read results into Flush / FlushAll calls, and of
   input/syslogprotocol/recordtest.go (TestRecordStart).

   State: the Go buffer is modelled by its valid prefix buffer[:offsetAppend] ([m_buf],
   so offsetAppend = length m_buf; bytes beyond offsetAppend are never read before they
   are overwritten), [m_search] = offsetSearch, [m_cap] = len(buffer), [m_limit] =
   softRecordLimit.  Every Go slice expression goes through [oslice] / [oidx], which
   yield [Panic site] exactly where Go would panic.  Loops carry fuel; running out of
   fuel is the outcome [OutOfFuel] (for the read loop it stands for the busy loop of
   Read() being called with an empty slice).  No proofs in this file. *)
From SV Require Import Model.Common.
Open Scope nat_scope.

Definition NL : N := 10%N.

Definition OutOfFuel {A} : outcome A := Err 1%N.

Definition bindo {A B} (o : outcome A) (f : A -> outcome B) : outcome B :=
  match o with
  | Ok a => f a
  | Err e => Err e
  | Panic s => Panic s
  end.
Notation "x <-- e ;; f" := (bindo e (fun x => f)) (at level 61, e at next level, right associativity).

(* s[a:b]; Go panics unless 0 <= a <= b <= len(s) *)
Definition oslice (site : N) (s : bytes) (a b : nat) : outcome bytes :=
  match slice s a b with
  | Some r => Ok r
  | None => Panic site
  end.

(* s[i] *)
Definition oidx (site : N) (s : bytes) (i : nat) : outcome N :=
  match nth_error s i with
  | Some c => Ok c
  | None => Panic site
  end.

(* bytes.IndexByte: index of the first c, None for -1 *)
Fixpoint index_byte (c : N) (s : bytes) : option nat :=
  match s with
  | [] => None
  | x :: s' => if N.eqb x c then Some 0 else option_map S (index_byte c s')
  end.

(* bytes.LastIndexByte: index of the last c, None for -1 *)
Fixpoint last_index_byte (c : N) (s : bytes) : option nat :=
  match s with
  | [] => None
  | x :: s' =>
    match last_index_byte c s' with
    | Some i => Some (S i)
    | None => if N.eqb x c then Some 0 else None
    end
  end.

(* ---------------- recordtest.go: TestRecordStart ---------------- *)

(* s[i+1] == '1' && s[i+2] == ' '   (the right operand is evaluated only if the left holds) *)
Definition trs_tail (s : bytes) (i : nat) : outcome bool :=
  a <-- oidx 21 s (i + 1) ;;
  if N.eqb a 49 then b <-- oidx 22 s (i + 2) ;; Ok (N.eqb b 32) else Ok false.

(* for i = 2; i < 4; i++ { ... } ; return s[i] == '>' && ...      [n] = iterations left *)
Fixpoint trs_loop (n : nat) (s : bytes) (i : nat) : outcome bool :=
  match n with
  | O => c <-- oidx 23 s i ;; if N.eqb c 62 then trs_tail s i else Ok false
  | S n' =>
    c <-- oidx 24 s i ;;
    if N.eqb c 62 then trs_tail s i
    else if negb (is_digit c) then Ok false
    else trs_loop n' s (i + 1)
  end.

Definition test_record_start (s : bytes) : outcome bool :=
  if length s <? 32 then Ok false else
  c0 <-- oidx 25 s 0 ;;
  if negb (N.eqb c0 60) then Ok false else
  c1 <-- oidx 26 s 1 ;;
  if negb (is_digit c1) then Ok false else
  trs_loop 2 s 2.

(* as a headTester; the panic case is excluded by a theorem (C08_test_total) *)
Definition trs (s : bytes) : bool :=
  match test_record_start s with
  | Ok b => b
  | _ => false
  end.

(* the tester of multilinereader_test.go, used with small buffers: len(s) > 0 && s[0] == '>' *)
Definition gt_test (s : bytes) : bool :=
  match s with
  | c :: _ => N.eqb c 62
  | [] => false
  end.

(* ---------------- multilinereader.go ---------------- *)

Record mlr := { m_cap : nat; m_limit : nat; m_buf : bytes; m_search : nat }.

Definition set_buf (st : mlr) (buf : bytes) (search : nat) : mlr :=
  {| m_cap := m_cap st; m_limit := m_limit st; m_buf := buf; m_search := search |}.

(* newMultiLineReader: buffer of util.MaxInt(minBufferSize, softRecordLimit*3) bytes *)
Definition new_mlr (min_buffer_size soft_record_limit : nat) : mlr :=
  {| m_cap := Nat.max min_buffer_size (soft_record_limit * 3);
     m_limit := soft_record_limit; m_buf := []; m_search := 0 |}.

Section Reader.
Variable test : bytes -> bool.   (* testRecordStart *)

(* checkOverflow *)
Definition check_overflow (st : mlr) : outcome (mlr * list bytes) :=
  if m_limit st <=? m_cap st - length (m_buf st) then Ok (st, []) else
  let buffer := m_buf st in
  let search_start := m_search st in
  let reset (out : list bytes) : outcome (mlr * list bytes) := Ok (set_buf st [] 0, out) in
  let whole := if test buffer then reset [buffer] else reset [] in
  if 0 <? search_start then
    next_record <-- oslice 5 buffer search_start (length buffer) ;;
    if test next_record then
      prev_record <-- oslice 6 buffer 0 (search_start - 1) ;;
      if test prev_record then reset [prev_record; next_record] else reset [next_record]
    else whole
  else whole.

(* the for loop of processBuffer over buffer = mlr.buffer[:bufferEnd];
   result (recordStart, searchStart, records consumed) *)
Fixpoint pb_loop (fuel : nat) (buffer : bytes) (record_start search_start : nat) (out : list bytes)
  : outcome (nat * nat * list bytes) :=
  match fuel with
  | O => OutOfFuel
  | S fuel' =>
    rest <-- oslice 1 buffer search_start (length buffer) ;;
    match index_byte NL rest with
    | None => Ok (record_start, search_start, out)
    | Some next_end_rel =>
      let next_end := next_end_rel + search_start in
      if (0 <? search_start) && (search_start <? next_end) then
        next_line <-- oslice 2 buffer search_start next_end ;;
        if test next_line then
          prev_record <-- oslice 3 buffer record_start (search_start - 1) ;;
          pb_loop fuel' buffer search_start (next_end + 1) (out ++ [prev_record])
        else pb_loop fuel' buffer record_start (next_end + 1) out
      else pb_loop fuel' buffer record_start (next_end + 1) out
    end
  end.

(* processBuffer(bufferEnd) with buffer = mlr.buffer[:bufferEnd] *)
Definition process_buffer (st : mlr) (buffer : bytes) : outcome (mlr * list bytes) :=
  r <-- pb_loop (S (length buffer)) buffer 0 (m_search st) [] ;;
  let '(record_start, search_start, out) := r in
  st' <-- (if 0 <? record_start then
             tail <-- oslice 4 buffer record_start (length buffer) ;;
             Ok (set_buf st tail (search_start - record_start))
           else Ok (set_buf st buffer search_start)) ;;
  r2 <-- check_overflow st' ;;
  let '(st'', out2) := r2 in
  Ok (st'', out ++ out2).

(* one call of Read() while the connection holds [frag]: the reader copies
   n = min(len(p), len(frag)) bytes into p = buffer[offsetAppend:]; returns what is left of frag *)
Definition read_once (st : mlr) (frag : bytes) : outcome (mlr * list bytes * bytes) :=
  if m_cap st <? length (m_buf st) then Panic 11 else
  let n := Nat.min (length frag) (m_cap st - length (m_buf st)) in
  if 0 <? n then
    r <-- process_buffer st (m_buf st ++ firstn n frag) ;;
    let '(st', out) := r in Ok (st', out, skipn n frag)
  else Ok (st, [], frag).

(* Read() is called until the fragment is consumed (TCP: what does not fit stays in the socket).
   If no byte can be taken (buffer full) the real loop spins forever: OutOfFuel. *)
Fixpoint read_frag (fuel : nat) (st : mlr) (frag : bytes) (out : list bytes) : outcome (mlr * list bytes) :=
  match frag with
  | [] => Ok (st, out)
  | _ :: _ =>
    match fuel with
    | O => OutOfFuel
    | S fuel' =>
      r <-- read_once st frag ;;
      let '(st', o, rest) := r in
      read_frag fuel' st' rest (out ++ o)
    end
  end.

Definition read (st : mlr) (frag : bytes) : outcome (mlr * list bytes) :=
  read_frag (length frag) st frag [].

(* Flush *)
Definition flush (st : mlr) : outcome (mlr * list bytes) :=
  let buffer := m_buf st in
  match last_index_byte NL buffer with
  | None => Ok (st, [])
  | Some n =>
    record <-- oslice 7 buffer 0 n ;;
    tail <-- oslice 8 buffer (n + 1) (length buffer) ;;
    Ok (set_buf st tail 0, if (0 <? length record) && test record then [record] else [])
  end.

(* FlushAll *)
Definition flush_all (st : mlr) : outcome (mlr * list bytes) :=
  let record := m_buf st in
  out <-- (if 0 <? length record then
             last <-- oidx 9 record (length record - 1) ;;
             record' <-- (if N.eqb last NL then oslice 10 record 0 (length record - 1) else Ok record) ;;
             Ok (if test record' then [record'] else [])
           else Ok []) ;;
  Ok (set_buf st [] 0, out).

(* ---------------- scripts ---------------- *)

Inductive op := OpRead (frag : bytes) | OpFlush | OpFlushAll.

Definition run_op (st : mlr) (o : op) : outcome (mlr * list bytes) :=
  match o with
  | OpRead frag => read st frag
  | OpFlush => flush st
  | OpFlushAll => flush_all st
  end.

Fixpoint run_ops (ops : list op) (st : mlr) (out : list bytes) : outcome (mlr * list bytes) :=
  match ops with
  | [] => Ok (st, out)
  | o :: ops' =>
    r <-- run_op st o ;;
    let '(st', o') := r in
    run_ops ops' st' (out ++ o')
  end.

(* the same run, also recording after every operation (records so far, offsetSearch,
   offsetAppend): the correspondence check compares the reader step by step *)
Fixpoint run_ops_tr (ops : list op) (st : mlr) (out : list bytes) (tr : list (nat * nat * nat))
  : outcome (mlr * list bytes * list (nat * nat * nat)) :=
  match ops with
  | [] => Ok (st, out, tr)
  | o :: ops' =>
    r <-- run_op st o ;;
    let '(st', o') := r in
    run_ops_tr ops' st' (out ++ o') (tr ++ [(length (out ++ o'), m_search st', length (m_buf st'))])
  end.

(* what the connection's reader returns, as runConnection sees it: data (and whether
   NetConnWrapper renewed the read deadline in that call), a timeout error, any other error *)
Inductive event := EvData (frag : bytes) (renewed : bool) | EvTimeout | EvClose.

(* runConnection: nil error -> continue (Flush if the deadline changed); timeout -> Flush;
   other error -> FlushAll and leave the loop.  A script that ends stands for a closed connection. *)
Fixpoint conn_ops (evs : list event) : list op :=
  match evs with
  | [] => [OpFlushAll]
  | EvData f renewed :: evs' => OpRead f :: (if renewed then [OpFlush] else []) ++ conn_ops evs'
  | EvTimeout :: evs' => OpFlush :: conn_ops evs'
  | EvClose :: _ => [OpFlushAll]
  end.

(* the same events as plain method calls (nothing is terminal): used to compare the
   reader's API beyond what runConnection can reach (calls after FlushAll) *)
Fixpoint api_ops (evs : list event) : list op :=
  match evs with
  | [] => []
  | EvData f renewed :: evs' => OpRead f :: (if renewed then [OpFlush] else []) ++ api_ops evs'
  | EvTimeout :: evs' => OpFlush :: api_ops evs'
  | EvClose :: evs' => OpFlushAll :: api_ops evs'
  end.

End Reader.

(* ---------------- util/netconnwrapper.go: NetConnWrapper.Read ----------------
   Times in milliseconds.  [w_deadline = None] is the zero time.Time (its distance to now
   saturates at the minimum Duration, so it is below every readTimeoutMin).  Read renews the
   deadline to now + readTimeoutMax when less than readTimeoutMin is left of it; runConnection
   sees a renewal as a changed ReadDeadline() and calls Flush. *)
Record ncw := { w_min : Z; w_max : Z; w_deadline : option Z }.

Definition wrap_net_conn (read_timeout : Z) : ncw :=
  {| w_min := read_timeout; w_max := (read_timeout * 2)%Z; w_deadline := None |}.

(* one Read at time [now]: new state and whether the deadline was renewed *)
Definition ncw_read (w : ncw) (now : Z) : ncw * bool :=
  if (0 <? w_min w)%Z then
    let renew := match w_deadline w with
                 | None => true
                 | Some d => (d - now <? w_min w)%Z
                 end in
    if renew then ({| w_min := w_min w; w_max := w_max w; w_deadline := Some (now + w_max w)%Z |}, true)
    else (w, false)
  else (w, false).

(* reads at the times now+g1, now+g1+g2, ... : the renewal flags *)
Fixpoint ncw_run (w : ncw) (now : Z) (gaps : list Z) : list bool :=
  match gaps with
  | [] => []
  | g :: gaps' =>
    let now' := (now + g)%Z in
    let '(w', r) := ncw_read w now' in
    r :: ncw_run w' now' gaps'
  end.

(* ---------------- correspondence entry point ----------------
   kind 0: connection script   kind 2: API script   kind 3: the same stream over a real TCP connection
     sargs = the data fragments in order
     zargs = [minBufferSize; softRecordLimit; tester (0 = TestRecordStart, 1 = first byte '>');
              event codes ...]    code 0 = data, 3 = data + deadline renewed (next fragment each),
                                  1 = timeout, 2 = close
     output  "ok:<records>:<r.s.a;r.s.a;...>:<hex>,<hex>,..."  |  "wedge"  |  "panic"
             with one triple (records so far . offsetSearch . offsetAppend) per operation
     kind 3: zargs = [ListenerLineBufferSize; InputLogMaxRecordBytes; tester; flush interval ms;
             gap after each fragment in ms ...]; the generator only emits scripts whose records do not
             depend on where the flushes fall, so the expected records are those of the tick-free
             script; output "tcp:<records>:<hex>,<hex>,..."
   kind 1: sargs = [s]; output "t:1" | "t:0" | "panic"  (TestRecordStart)
   kind 4: NetConnWrapper: zargs = [readTimeout ms; sleep before each Read in ms ...];
           output "w:" + one digit per Read, 1 = deadline renewed
   kind 5: burst of multi-line records over TCP after a pause; the verdict is the oracle's
           (at most two records may be cut by flushes that are due); output "burst"          *)

Fixpoint decode_events (codes : list Z) (frags : list bytes) : list event :=
  match codes with
  | [] => []
  | c :: codes' =>
    if (c =? 0)%Z then EvData (hd [] frags) false :: decode_events codes' (tl frags)
    else if (c =? 3)%Z then EvData (hd [] frags) true :: decode_events codes' (tl frags)
    else if (c =? 1)%Z then EvTimeout :: decode_events codes' frags
    else EvClose :: decode_events codes' frags
  end.

Definition str_wedge : bytes := [119;101;100;103;101]%N.
Definition str_tcp : bytes := [116;99;112]%N.
Definition dot : N := 46%N.
Definition semicolon : N := 59%N.

Definition dec_nat (n : nat) : bytes := dec_of_Z (Z.of_nat n).

Definition show_triple (t : nat * nat * nat) : bytes :=
  let '(r, s, a) := t in dec_nat r ++ dot :: dec_nat s ++ dot :: dec_nat a.

Definition show_result (r : outcome (mlr * list bytes * list (nat * nat * nat))) : bytes :=
  match r with
  | Ok (st, out, tr) =>
    str_ok ++ colon :: dec_nat (length out) ++ colon :: join semicolon (map show_triple tr) ++
    colon :: join comma (map hex out)
  | Err _ => str_wedge
  | Panic _ => str_panic
  end.

Definition tester_of (z : Z) : bytes -> bool := if (z =? 0)%Z then trs else gt_test.

Definition run_script (conn : bool) (c : case) : bytes :=
  let zs := c_zargs c in
  let st := new_mlr (Z.to_nat (nth 0 zs 0%Z)) (Z.to_nat (nth 1 zs 0%Z)) in
  let evs := decode_events (skipn 3 zs) (c_sargs c) in
  show_result (run_ops_tr (tester_of (nth 2 zs 0%Z)) (if conn then conn_ops evs else api_ops evs) st [] []).

Definition run_tcp (c : case) : bytes :=
  let zs := c_zargs c in
  let st := new_mlr (Z.to_nat (nth 0 zs 0%Z)) (Z.to_nat (nth 1 zs 0%Z)) in
  match run_ops (tester_of (nth 2 zs 0%Z)) (conn_ops (map (fun f => EvData f false) (c_sargs c))) st [] with
  | Ok (_, out) => str_tcp ++ colon :: dec_nat (length out) ++ colon :: join comma (map hex out)
  | Err _ => str_wedge
  | Panic _ => str_panic
  end.

Definition run_case_C08 (c : case) : bytes :=
  if (c_kind c =? 0)%N then run_script true c
  else if (c_kind c =? 2)%N then run_script false c
  else if (c_kind c =? 3)%N then run_tcp c
  else if (c_kind c =? 4)%N then
    [119;58]%N ++ map (fun b : bool => if b then 49%N else 48%N)
                      (ncw_run (wrap_net_conn (zarg c 0)) 0%Z (skipn 1 (c_zargs c)))
  else if (c_kind c =? 5)%N then [98;117;114;115;116]%N
  else
    match test_record_start (sarg c 0) with
    | Ok true => [116;58;49]%N
    | Ok false => [116;58;48]%N
    | Err _ => str_wedge
    | Panic _ => str_panic
    end.
