(* C07 follow-up (wave-2 misses 4 and 5): VARIANTS of two mechanisms of the pipeline, as executable definitions.
   They are not the model of /repo: they are what a plausible "hardening" of the code would be, and the theorems
   C07_..._variant_refuted show with concrete witnesses that the property does not survive them - i.e. that the
   for-all theorems really depend on the mechanism as it is.  No proofs in this file.

   1. input/syslogprotocol/recordtest.go TestRecordStart.  The model of the real function is Framing.test_record_start
      / Framing.trs (C08).  Variant: the byte after "<PRI>1 " must be a digit (the year of the timestamp).
   2. base/logprocesscounterset.go MetricLabelValues.  The model of the real function is
      Pipeline.metric_label_values true = map Utf8.to_valid_utf8.  Variant: the cleaned value is cut to n bytes by
      plain byte slicing (value[:n]). *)
From SV Require Import Model.Common.
From SV Require Model.Utf8 Model.Framing.
From SV Require Import Model.Pipeline.

(* ---------- 1. TestRecordStart with "&& isDigit(s[i+3])" ---------- *)

(* s[i+1] == '1' && s[i+2] == ' ' && isDigit(s[i+3]) *)
Definition trs_tail_digit (s : bytes) (i : nat) : outcome bool :=
  Framing.bindo (Framing.oidx 21 s (i + 1)) (fun a =>
  if N.eqb a 49 then
    Framing.bindo (Framing.oidx 22 s (i + 2)) (fun b =>
    if N.eqb b 32 then Framing.bindo (Framing.oidx 27 s (i + 3)) (fun c => Ok (is_digit c)) else Ok false)
  else Ok false).

Fixpoint trs_loop_digit (n : nat) (s : bytes) (i : nat) : outcome bool :=
  match n with
  | O => Framing.bindo (Framing.oidx 23 s i) (fun c => if N.eqb c 62 then trs_tail_digit s i else Ok false)
  | S n' =>
    Framing.bindo (Framing.oidx 24 s i) (fun c =>
    if N.eqb c 62 then trs_tail_digit s i
    else if negb (is_digit c) then Ok false
    else trs_loop_digit n' s (i + 1))
  end.

Definition test_record_start_digit (s : bytes) : outcome bool :=
  if (length s <? 32)%nat then Ok false else
  Framing.bindo (Framing.oidx 25 s 0) (fun c0 =>
  if negb (N.eqb c0 60) then Ok false else
  Framing.bindo (Framing.oidx 26 s 1) (fun c1 =>
  if negb (is_digit c1) then Ok false else
  trs_loop_digit 2 s 2)).

Definition trs_digit (s : bytes) : bool :=
  match test_record_start_digit s with
  | Ok b => b
  | _ => false
  end.

(* the records a connection hands to the parser when the reader uses [tester] to find record starts
   ([Pipeline.conn_records] = [conn_records_with Framing.trs]) *)
Definition conn_records_with (tester : bytes -> bool) (cfg : config) (evs : list Framing.event) : outcome (list bytes) :=
  match Framing.run_ops tester (Framing.conn_ops evs) (Framing.new_mlr (c_linebuf cfg) (record_limit cfg)) [] with
  | Ok (_, records) => Ok records
  | Err e => Err e
  | Panic s => Panic s
  end.

(* ---------- 2. MetricLabelValues with a byte cap applied after the clean-up ---------- *)

(* value = strings.ToValidUTF8(value, ""); if len(value) > n { value = value[:n] } *)
Definition cut_label_value (n : nat) (v : bytes) : bytes :=
  let v' := Utf8.to_valid_utf8 v in
  if (n <? length v')%nat then firstn n v' else v'.

Definition metric_label_values_cut (n : nat) (values : list bytes) : list bytes := map (cut_label_value n) values.

(* a valid 2-byte character ("ä" = C3 A4) whose second byte is the first one beyond the cap *)
Definition straddling_value (n : nat) : bytes := repeat 104%N (n - 1) ++ [195; 164]%N.
