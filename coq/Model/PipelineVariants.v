(* C07 follow-up (wave-2 misses 4 and 5): VARIANTS of two mechanisms of the pipeline, as executable definitions.
   They are not the model of /repo: they are what a plausible "hardening" of the code would be, and the theorems
   C07_..._variant_refuted show with concrete witnesses that the property does not survive them - i.e. that the
   for-all theorems really depend on the mechanism as it is.  No proofs in this file.

   1. input/syslogprotocol/recordtest.go TestRecordStart.  The model of the real function is Framing.test_record_start
      / Framing.trs (C08).  Variant: the byte after "<PRI>1 " must be a digit (the year of the timestamp).
   2. base/logprocesscounterset.go MetricLabelValues.  The model of the real function is
      Pipeline.metric_label_values true = map Utf8.to_valid_utf8.  Variant: the cleaned value is cut to n bytes by
      plain byte slicing (value[:n]). *)
From SV Require Import Model.Common.
From SV Require Model.Utf8 Model.Framing Model.ParseTime.
From SV Require Import Model.Pipeline.

(* ---------- 1. TestRecordStart with "&& isDigit(s[i+3])" ---------- *)

(* s[i+1] == '1' && s[i+2] == ' ' && isDigit(s[i+3]) *)
Definition trs_tail_digit (s : bytes) (i : nat) : outcome bool :=
  Framing.bindo (Framing.oidx 21 s (i + 1)) (fun a =>
  if N.eqb a 49 then
    Framing.bindo (Framing.oidx 22 s (i + 2)) (fun b =>
    if N.eqb b 32 then Framing.bindo (Framing.oidx 27 s (i + 3)) (fun c => Ok (is_digit c)) else Ok false)
  else Ok false).

Fixpoint trs_loop_digit (n : nat) (s : bytes) (i : nat) : outcome bool :=
  match n with
  | O => Framing.bindo (Framing.oidx 23 s i) (fun c => if N.eqb c 62 then trs_tail_digit s i else Ok false)
  | S n' =>
    Framing.bindo (Framing.oidx 24 s i) (fun c =>
    if N.eqb c 62 then trs_tail_digit s i
    else if negb (is_digit c) then Ok false
    else trs_loop_digit n' s (i + 1))
  end.

Definition test_record_start_digit (s : bytes) : outcome bool :=
  if (length s <? 32)%nat then Ok false else
  Framing.bindo (Framing.oidx 25 s 0) (fun c0 =>
  if negb (N.eqb c0 60) then Ok false else
  Framing.bindo (Framing.oidx 26 s 1) (fun c1 =>
  if negb (is_digit c1) then Ok false else
  trs_loop_digit 2 s 2)).

Definition trs_digit (s : bytes) : bool :=
  match test_record_start_digit s with
  | Ok b => b
  | _ => false
  end.

(* the records a connection hands to the parser when the reader uses [tester] to find record starts
   ([Pipeline.conn_records] = [conn_records_with Framing.trs]) *)
Definition conn_records_with (tester : bytes -> bool) (cfg : config) (evs : list Framing.event) : outcome (list bytes) :=
  match Framing.run_ops tester (Framing.conn_ops evs) (Framing.new_mlr (c_linebuf cfg) (record_limit cfg)) [] with
  | Ok (_, records) => Ok records
  | Err e => Err e
  | Panic s => Panic s
  end.

(* ---------- 2. MetricLabelValues with a byte cap applied after the clean-up ---------- *)

(* value = strings.ToValidUTF8(value, ""); if len(value) > n { value = value[:n] } *)
Definition cut_label_value (n : nat) (v : bytes) : bytes :=
  let v' := Utf8.to_valid_utf8 v in
  if (n <? length v')%nat then firstn n v' else v'.

Definition metric_label_values_cut (n : nat) (values : list bytes) : list bytes := map (cut_label_value n) values.

(* a valid 2-byte character ("ä" = C3 A4) whose second byte is the first one beyond the cap *)
Definition straddling_value (n : nat) : bytes := repeat 104%N (n - 1) ++ [195; 164]%N.

(* ---------- 3. parseFractionNanos with a scale table (wave-3 seed 7) ---------- *)

(* The model of the real function is ParseTime.parse_fraction_nanos: a fixed loop of nine iterations, no indexing at
   all.  Variant: loop over the digits present, then one multiplication by fractionDigitNanos[len(digits)], a table of
   TEN entries (index 0..9); over-long fractions are cut to nine digits, but the guard compares with the length of the
   table: "if len(digits) > len(fractionDigitNanos) { digits = digits[:len(fractionDigitNanos)-1] }". *)
Definition site_frac_table : N := 705.    (* fractionDigitNanos[len(digits)]: index out of range *)

Definition fraction_digit_nanos : list Z :=
  [1000000000; 100000000; 10000000; 1000000; 100000; 10000; 1000; 100; 10; 1]%Z.

(* value = value*10 + int(digits[i]-'0') over the digits present *)
Definition frac_value (ds : bytes) : Z := fold_left (fun acc d => (acc * 10 + ParseTime.bsub0 d)%Z) ds 0%Z.

Definition parse_fraction_nanos_table (frac : bytes) : outcome Z :=
  match frac with
  | [] => Ok 0%Z
  | _ :: [] => Err 2%N
  | _ :: ds =>
    let ds' := if (length fraction_digit_nanos <? length ds)%nat then firstn (length fraction_digit_nanos - 1) ds else ds in
    match nth_error fraction_digit_nanos (length ds') with
    | Some scale => Ok (frac_value ds' * scale)%Z
    | None => Panic site_frac_table
    end
  end.

(* parseRFC3339Timestamp / parseTimeTransform.Transform with the fraction parser as a parameter
   ([parse_rfc3339_with ParseTime.parse_fraction_nanos] is [ParseTime.parse_rfc3339]) *)
Definition parse_rfc3339_with (pf : bytes -> outcome Z) (local_off : Z) (t : bytes) : outcome (Z * Z) :=
  if (length t <? 19)%nat then Err 1%N else
  ParseTime.bind (ParseTime.idx t 4) (fun c4 => ParseTime.bind (ParseTime.idx t 7) (fun c7 =>
  ParseTime.bind (ParseTime.idx t 10) (fun c10 => ParseTime.bind (ParseTime.idx t 13) (fun c13 =>
  ParseTime.bind (ParseTime.idx t 16) (fun c16 =>
  if negb ((c4 =? 45) && (c7 =? 45) && (c10 =? 84) && (c13 =? 58) && (c16 =? 58))%N then Err 1%N else
  ParseTime.bind (ParseTime.atoi4 t 0) (fun year => ParseTime.bind (ParseTime.atoi2 t 5) (fun month =>
  ParseTime.bind (ParseTime.atoi2 t 8) (fun day => ParseTime.bind (ParseTime.atoi2 t 11) (fun hour =>
  ParseTime.bind (ParseTime.atoi2 t 14) (fun mi => ParseTime.bind (ParseTime.atoi2 t 17) (fun sec =>
  let (frac, tz) := ParseTime.split_frac_tz (skipn 19 t) in
  ParseTime.bind (pf frac) (fun nsec =>
  ParseTime.bind (match tz with [] => Ok local_off | _ => ParseTime.parse_tz tz end) (fun off =>
  Ok (ParseTime.go_date_unix year month day hour mi sec - off, nsec)%Z))))))))))))).

Definition transform_parse_time_with (pf : bytes -> outcome Z) (local_off : Z) (value : bytes) : ParseTime.tp_result :=
  match value with
  | [] => ParseTime.TpSkip
  | _ =>
    match parse_rfc3339_with pf local_off value with
    | Ok (u, n) => ParseTime.TpSet u n
    | Err _ => ParseTime.TpError
    | Panic s => ParseTime.TpPanic s
    end
  end.

(* "2019-08-15T15:50:49." ++ ds ++ "+03:00" *)
Definition ts_with_fraction (ds : bytes) : bytes :=
  [50;48;49;57;45;48;56;45;49;53;84;49;53;58;53;48;58;52;57;46]%N ++ ds ++ [43;48;51;58;48;48]%N.
