(* C15: transform/textractspecial/stringextractor.go — splitPattern, newStringExtractor,
   fillValidCharsByRangeExpression, extractLabelAtStart / extractLabelAtEnd,
   matchValidCharsFromStart / FromEnd, trimControlCharsAndSpaces (after the fix: that bounds
   the backward scan by istart).  No proofs in this file. *)
From SV Require Import Model.Common Model.TfUnescape.
Open Scope N_scope.

Definition p_fuel : N := 99.
Definition p_nil_table : N := 71.     (* index of a nil validChars slice *)
Definition p_trim : N := 72.          (* s[istart:iend+1] out of range *)
Definition p_range : N := 73.         (* s[:maxRange] with a negative maxRange *)
Definition e_not_closed : N := 1.
Definition e_no_wildcard : N := 2.
Definition e_empty_expr : N := 3.
Definition e_double_hyphen : N := 4.
Definition e_empty_wildcard : N := 5.
Definition e_bad_wildcard : N := 6.
Definition e_star_boundary : N := 7.  (* '*' without the boundary on its far side *)

Definition pat_unescape (s : bytes) : outcome bytes :=
  match unescape_run pattern_unescaper s with
  | Some r => Ok r
  | None => Panic p_fuel
  end.

Definition obind {A B} (o : outcome A) (f : A -> outcome B) : outcome B :=
  match o with
  | Ok a => f a
  | Err e => Err e
  | Panic s => Panic s
  end.
Notation "x <-- e ;; f" := (obind e (fun x => f)) (at level 61, e at next level, right associativity).

(* splitPattern: (left, wildcard, right) *)
Definition split_pattern (pattern : bytes) : outcome (bytes * bytes * bytes) :=
  i <-- find_first_unescaped pattern_unescaper pattern 42 ;;
  match i with
  | Some i =>
    l <-- pat_unescape (firstn i pattern) ;;
    r <-- pat_unescape (skipn (S i) pattern) ;;
    Ok (l, [42], r)
  | None =>
    bs <-- find_first_unescaped pattern_unescaper pattern 91 ;;
    match bs with
    | None => Err e_no_wildcard
    | Some bs =>
      l <-- pat_unescape (firstn bs pattern) ;;
      be <-- find_first_unescaped pattern_unescaper (skipn (S bs) pattern) 93 ;;
      match be with
      | None => Err e_not_closed
      | Some be =>
        let bend := (be + bs + 1)%nat in
        r <-- pat_unescape (skipn (S bend) pattern) ;;
        Ok (l, firstn (S bend - bs) (skipn bs pattern), r)
      end
    end
  end.

(* the []bool table of 256 entries as a function of the byte *)
Definition table := N -> bool.
Definition upd (t : table) (c : N) (v : bool) : table := fun x => if x =? c then v else t x.
Definition upd_range (t : table) (lo hi : N) (v : bool) : table :=
  fun x => if (lo <=? x) && (x <=? hi) then v else t x.

(* the loop of fillValidCharsByRangeExpression over expr[i:], n = len(expr) *)
Fixpoint fill_loop (expr : bytes) (n : nat) (listed : bool) (rem : bytes) (i : nat)
         (t : table) (range_started : bool) : outcome table :=
  match rem with
  | [] => Ok t
  | c :: rem' =>
    if c =? 45 then
      if range_started then Err e_double_hyphen
      else if ((0 <? i) && (i <? n - 1))%nat then fill_loop expr n listed rem' (S i) t true
      else fill_loop expr n listed rem' (S i) (upd t 45 listed) false
    else if range_started then
      fill_loop expr n listed rem' (S i) (upd_range t (nth (i - 2) expr 0) c listed) false
    else fill_loop expr n listed rem' (S i) (upd t c listed) false
  end.

(* fillValidCharsByRangeExpression(table, expression) for an expression "[...]" *)
Definition fill_valid_chars (expression : bytes) : outcome table :=
  match expression with
  | [] => Ok (fun _ => false)
  | _ =>
    expr <-- pat_unescape (firstn (length expression - 2) (skipn 1 expression)) ;;
    match expr with
    | [] => Err e_empty_expr
    | 94 :: e' => fill_loop e' (length e') false e' O (fun _ => true) false
    | _ => fill_loop expr (length expr) true expr O (fun _ => false) false
    end
  end.

Record extractor := {
  ex_head : bool;           (* extractFromStart / extractFromEnd *)
  ex_left : bytes;
  ex_right : bytes;
  ex_max : Z;
  ex_table : option table   (* None = nil slice ("*") *)
}.

(* newStringExtractor on the three parts *)
Definition new_string_extractor (head : bool) (l w r : bytes) (maxr : Z) : outcome extractor :=
  match w with
  | [] => Err e_empty_wildcard
  | [42] =>
    (* a bare "*": the label can only be delimited by the boundary on its far side *)
    if (match (if head then r else l) with [] => true | _ => false end) then Err e_star_boundary
    else Ok {| ex_head := head; ex_left := l; ex_right := r; ex_max := maxr; ex_table := None |}
  | _ =>
    if ((length w <? 2)%nat || negb (hd 0 w =? 91) || negb (last w 0 =? 93))%bool then Err e_bad_wildcard
    else
      t <-- fill_valid_chars w ;;
      Ok {| ex_head := head; ex_left := l; ex_right := r; ex_max := maxr; ex_table := Some t |}
  end.

(* newStringExtractorSimple *)
Definition new_string_extractor_simple (head : bool) (pattern : bytes) (maxr : Z) : outcome extractor :=
  p <-- split_pattern pattern ;;
  let '(l, w, r) := p in new_string_extractor head l w r maxr.

(* ---------- string helpers (strings.HasPrefix / HasSuffix / Index / LastIndex) ---------- *)

Fixpoint is_prefix (p s : bytes) : bool :=
  match p, s with
  | [], _ => true
  | a :: p', b :: s' => (a =? b) && is_prefix p' s'
  | _ :: _, [] => false
  end.

Definition is_suffix (p s : bytes) : bool :=
  (length p <=? length s)%nat && bytes_eqb (skipn (length s - length p) s) p.

Fixpoint index_of (needle hay : bytes) : option nat :=
  match hay with
  | [] => match needle with [] => Some O | _ => None end
  | _ :: t => if is_prefix needle hay then Some O else option_map S (index_of needle t)
  end.

Fixpoint last_index_of (needle hay : bytes) : option nat :=
  match hay with
  | [] => match needle with [] => Some O | _ => None end
  | _ :: t =>
    match last_index_of needle t with
    | Some i => Some (S i)
    | None => if is_prefix needle hay then Some O else None
    end
  end.

(* ---------- the extraction ---------- *)

Definition blank (c : N) : bool := c <=? 32.

Fixpoint count_while (p : N -> bool) (s : bytes) : nat :=
  match s with
  | c :: t => if p c then S (count_while p t) else O
  | [] => O
  end.

(* trimControlCharsAndSpaces: istart = number of leading bytes <= ' '; the backward scan
   stops at istart; the result is s[istart:iend+1] *)
Definition trim_blank (s : bytes) : outcome bytes :=
  let istart := count_while blank s in
  let k := count_while blank (rev (skipn istart s)) in   (* bytes stepped over by the backward scan *)
  match slice s istart (length s - k) with
  | Some r => Ok r
  | None => Panic p_trim
  end.

(* matchValidCharsFromStart: Panic when the table is nil and a byte has to be looked up *)
Definition match_valid_from_start (s : bytes) (t : option table) : outcome nat :=
  match t with
  | Some t => Ok (count_while t s)
  | None => match s with [] => Ok O | _ => Panic p_nil_table end
  end.

(* matchValidCharsFromEnd: index of the first byte of the valid suffix *)
Definition match_valid_from_end (s : bytes) (t : option table) : outcome nat :=
  match t with
  | Some t => Ok (length s - count_while t (rev s))%nat
  | None => match s with [] => Ok O | _ => Panic p_nil_table end
  end.

Definition table_rejects (t : option table) (c : option N) : bool :=
  match t, c with
  | Some t, Some c => negb (t c)
  | _, _ => false
  end.

(* extractLabelAtStart; the failure result is ("", text) *)
Definition extract_at_start (text l r : bytes) (maxr : Z) (t : option table) : outcome (bytes * bytes) :=
  let fail := Ok ([], text) in
  if negb (match l with [] => true | _ => is_prefix l text end) then fail else
  let s := skipn (length l) text in
  if table_rejects t (hd_error s) then fail else
  match r with
  | _ :: _ =>
    if (maxr <? 0)%Z then Panic p_range else
    let window := if (Z.of_nat (length s) >? maxr)%Z then firstn (Z.to_nat maxr) s else s in
    match index_of r window with
    | None => fail
    | Some iend =>
      let tag := firstn iend s in
      if (match t with Some tb => negb (count_while tb tag =? length tag)%nat | None => false end) then fail
      else lbl <-- trim_blank tag ;; Ok (lbl, skipn (iend + length r) s)
    end
  | [] =>
    tag_end <-- match_valid_from_start s t ;;
    match tag_end with
    | O => fail
    | _ => lbl <-- trim_blank (firstn tag_end s) ;; Ok (lbl, skipn tag_end s)
    end
  end.

(* extractLabelAtEnd *)
Definition extract_at_end (text l r : bytes) (maxr : Z) (t : option table) : outcome (bytes * bytes) :=
  let fail := Ok ([], text) in
  if negb (match r with [] => true | _ => is_suffix r text end) then fail else
  let s := firstn (length text - length r) text in
  if table_rejects t (hd_error (rev s)) then fail else
  match l with
  | _ :: _ =>
    if (maxr <? 0)%Z then Panic p_range else
    let off := if (Z.of_nat (length s) >? maxr)%Z then (length s - Z.to_nat maxr)%nat else O in
    match last_index_of l (skipn off s) with
    | None => fail
    | Some i =>
      let iend := (i + off)%nat in
      let tag := skipn (iend + length l) s in
      if (match t with Some tb => negb (count_while tb (rev tag) =? length tag)%nat | None => false end) then fail
      else lbl <-- trim_blank tag ;; Ok (lbl, firstn iend s)
    end
  | [] =>
    tag_beg <-- match_valid_from_end s t ;;
    if (tag_beg =? length s)%nat then fail
    else lbl <-- trim_blank (skipn tag_beg s) ;; Ok (lbl, firstn tag_beg s)
  end.

Definition extract (ex : extractor) (text : bytes) : outcome (bytes * bytes) :=
  if ex_head ex then extract_at_start text (ex_left ex) (ex_right ex) (ex_max ex) (ex_table ex)
  else extract_at_end text (ex_left ex) (ex_right ex) (ex_max ex) (ex_table ex).
