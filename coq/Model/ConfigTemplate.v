(* Model of util/stringtemplate/stringtemplate.go (after the fix: an out-of-range slice bound is an
   error value): the tokenizer equivalent to partRegex, the variable expression parser equivalent to
   variableExpressionRegex, NewExpander and the run-time slice solver.  No proofs in this file. *)
From SV Require Import Model.Common.
Open Scope Z_scope.

(* ---------- outcome monad ---------- *)
Definition obind {A B} (o : outcome A) (f : A -> outcome B) : outcome B :=
  match o with
  | Ok a => f a
  | Err e => Err e
  | Panic s => Panic s
  end.
Notation "'let*' x ':=' e 'in' f" := (obind e (fun x => f)) (at level 200, x pattern, right associativity).

Definition check (b : bool) (e : N) : outcome unit := if b then Ok tt else Err e.

(* ---------- panic sites (numbers are only names) ---------- *)
Definition site_must_locator : N := 1.     (* LogSchema.MustCreateFieldLocator(s): logger.Panicf *)
Definition site_addfields_tmpl : N := 2.   (* taddfields.NewTransform: panic(err) *)
Definition site_must_compile : N := 3.     (* regexp.MustCompile *)
Definition site_extractor : N := 4.        (* textractspecial.NewTransform: panic(err) *)
Definition site_serializer : N := 5.       (* MustNewEventSerializer: logger.Panic *)
Definition site_rewriter_order : N := 6.   (* rcopy/rinline/runescape NewRewriter: logger.Panic *)
Definition site_orch_keys : N := 7.        (* obykeyset.NewOrchestrator: Panicf keyFields *)
Definition site_orch_tag : N := 8.         (* obykeyset.NewOrchestrator: Panicf tagTemplate *)
Definition site_parser : N := 9.           (* sysloginput: Panic failed to create parser *)
Definition site_datadog_url : N := 10.     (* datadog.NewClientWorker: Panic(err) of http.NewRequest *)
Definition site_message_mode : N := 11.    (* fluentdforward.NewChunkMaker: Fatalf *)
Definition site_nil_config : N := 12.      (* method call on a nil config interface *)
Definition site_template_atoi : N := 13.   (* stringtemplate: panic(err) of strconv.Atoi (before the fix) *)
Definition site_metric_label : N := 14.    (* metric registry: invalid or duplicate label name *)
Definition site_no_output_release : N := 15. (* LogAllocator.Release: negative reference count (no outputs) *)
Definition site_field_index : N := 20.     (* fields[loc]: index out of range *)
Definition site_nil_table : N := 21.       (* validChars[c] on the nil table *)
Definition site_nil_func : N := 22.        (* call of a nil func value *)
Definition site_counter_index : N := 23.   (* currentCustomCounters[i] *)
Definition site_slice_bounds : N := 24.    (* s[a:b] out of range *)
Definition site_submatch_index : N := 25.  (* submatchIndexes[2*i] *)
Definition site_tag_key_index : N := 27.   (* labelValues[li] *)

(* ---------- errors of NewExpander ---------- *)
Definition err_tmpl_dollar2 : N := 101.
Definition err_tmpl_vexpr : N := 102.
Definition err_tmpl_resolver : N := 103.
Definition err_tmpl_number : N := 104.
Definition err_tmpl_unenclosed : N := 105.

(* ---------- characters ---------- *)
Definition is_word (c : N) : bool :=
  (is_digit c || ((65 <=? c) && (c <=? 90)) || ((97 <=? c) && (c <=? 122)) || (c =? 95))%N%bool.

Definition ch_dollar : N := 36.
Definition ch_lbrace : N := 123.
Definition ch_rbrace : N := 125.
Definition ch_lbracket : N := 91.
Definition ch_rbracket : N := 93.
Definition ch_colon : N := 58.
Definition ch_minus : N := 45.
Definition ch_plus : N := 43.

(* longest prefix whose bytes satisfy p, and the rest *)
Fixpoint span (p : N -> bool) (s : bytes) : bytes * bytes :=
  match s with
  | c :: r => if p c then let (a, b) := span p r in (c :: a, b) else ([], s)
  | [] => ([], [])
  end.

(* s up to (not including) the first byte c, and what follows that byte; None if c does not occur *)
Fixpoint break_at (c : N) (s : bytes) : option (bytes * bytes) :=
  match s with
  | [] => None
  | x :: r => if (x =? c)%N then Some ([], r)
              else match break_at c r with Some (a, b) => Some (x :: a, b) | None => None end
  end.

Fixpoint has_dollar2 (s : bytes) : bool :=
  match s with
  | a :: ((b :: _) as r) => ((a =? ch_dollar) && (b =? ch_dollar))%N%bool || has_dollar2 r
  | _ => false
  end.

(* ---------- strconv.Atoi ---------- *)
Definition int64_max : Z := 9223372036854775807.
Definition int64_min : Z := -9223372036854775808.
Definition in_int64 (z : Z) : bool := (int64_min <=? z) && (z <=? int64_max).

(* the value of an optional sign followed by at least one digit; None = syntax error or out of range.
   [allow_plus]: strconv.Atoi accepts '+'; the template regexp lets only '-' through. *)
Definition atoi (s : bytes) : option Z :=
  let (neg, ds) := match s with
                   | c :: r => if (c =? ch_minus)%N then (true, r) else if (c =? ch_plus)%N then (false, r) else (false, s)
                   | [] => (false, [])
                   end in
  match ds with
  | [] => None
  | _ => match N_of_dec_acc ds 0%N with
         | Some n => let z := if neg then (- Z.of_N n) else Z.of_N n in
                     if in_int64 z then Some z else None
         | None => None
         end
  end.

(* ---------- the parts of a template: partRegex = (\$\w+|\$\{\w+[^}]*\}|[^$]+), FindAllString ---------- *)
Inductive tpart :=
| PLit (s : bytes)        (* [^$]+ *)
| PVar (name : bytes)     (* $name *)
| PExpr (body : bytes)    (* ${body} *)
| PSkip.                  (* a '$' at which no alternative matches: FindAllString steps over it *)

Definition not_dollar (c : N) : bool := negb (c =? ch_dollar)%N.

Fixpoint tokenize (fuel : nat) (s : bytes) : list tpart :=
  match fuel with
  | O => []
  | S fuel' =>
    match s with
    | [] => []
    | c :: rest =>
      if (c =? ch_dollar)%N then
        match rest with
        | w :: rest1 =>
          if is_word w then
            let (name, after) := span is_word rest in PVar name :: tokenize fuel' after
          else if (w =? ch_lbrace)%N then
            match rest1 with
            | w1 :: _ =>
              if is_word w1 then
                match break_at ch_rbrace rest1 with
                | Some (body, after) => PExpr body :: tokenize fuel' after
                | None => PSkip :: tokenize fuel' rest
                end
              else PSkip :: tokenize fuel' rest
            | [] => PSkip :: tokenize fuel' rest
            end
          else PSkip :: tokenize fuel' rest
        | [] => [PSkip]
        end
      else
        let (lit, after) := span not_dollar s in PLit lit :: tokenize fuel' after
    end
  end.

Definition template_parts (t : bytes) : list tpart := tokenize (S (length t)) t.

(* variableExpressionRegex = ^(\w+)(\[(-?[0-9]+)?:(-?[0-9]+)?\])?$ ; an absent bound is the empty string *)
Definition parse_optint (s : bytes) : bytes * bytes :=
  match s with
  | c :: r =>
    if (c =? ch_minus)%N then
      let (ds, after) := span is_digit r in
      match ds with [] => ([], s) | _ => (c :: ds, after) end
    else span is_digit s
  | [] => ([], [])
  end.

Definition parse_vexpr (body : bytes) : option (bytes * option (bytes * bytes)) :=
  let (name, rest) := span is_word body in
  match name with
  | [] => None
  | _ =>
    match rest with
    | [] => Some (name, None)
    | c :: r1 =>
      if (c =? ch_lbracket)%N then
        let (a, r2) := parse_optint r1 in
        match r2 with
        | c2 :: r3 =>
          if (c2 =? ch_colon)%N then
            let (b, r4) := parse_optint r3 in
            match r4 with
            | [c4] => if (c4 =? ch_rbracket)%N then Some (name, Some (a, b)) else None
            | _ => None
            end
          else None
        | [] => None
        end
      else None
    end
  end.

(* ---------- NewExpander ---------- *)
Inductive rpart :=
| RLit (s : bytes)
| RVar (idx : nat)
| RSlice (idx : nat) (start stop : Z).

Definition max_int32 : Z := 2147483647.

(* createVariableExpressionSolver.  [atoi_panics]: the code before the fix panicked on the Atoi error *)
Definition slice_bound (atoi_panics : bool) (s : bytes) (default : Z) : outcome Z :=
  match s with
  | [] => Ok default
  | _ => match atoi s with
         | Some z => Ok z
         | None => if atoi_panics then Panic site_template_atoi else Err err_tmpl_number
         end
  end.

Fixpoint expander_parts (atoi_panics : bool) (resolve : bytes -> option nat) (ps : list tpart) : outcome (list rpart) :=
  match ps with
  | [] => Ok []
  | PSkip :: ps' => expander_parts atoi_panics resolve ps'
  | PLit s :: ps' => let* r := expander_parts atoi_panics resolve ps' in Ok (RLit s :: r)
  | PVar name :: ps' =>
    match resolve name with
    | None => Err err_tmpl_resolver
    | Some i => let* r := expander_parts atoi_panics resolve ps' in Ok (RVar i :: r)
    end
  | PExpr body :: ps' =>
    match parse_vexpr body with
    | None => Err err_tmpl_vexpr
    | Some (name, bounds) =>
      match resolve name with
      | None => Err err_tmpl_resolver
      | Some i =>
        match bounds with
        | None => let* r := expander_parts atoi_panics resolve ps' in Ok (RSlice i 0 max_int32 :: r)
        | Some (a, b) =>
          let* start := slice_bound atoi_panics a 0 in
          let* stop := slice_bound atoi_panics b max_int32 in
          let* r := expander_parts atoi_panics resolve ps' in Ok (RSlice i start stop :: r)
        end
      end
    end
  end.

Definition has_skip (ps : list tpart) : bool :=
  existsb (fun p => match p with PSkip => true | _ => false end) ps.

Definition new_expander (atoi_panics : bool) (resolve : bytes -> option nat) (t : bytes) : outcome (list rpart) :=
  if has_dollar2 t then Err err_tmpl_dollar2 else
  let ps := template_parts t in
  let* r := expander_parts atoi_panics resolve ps in
  if has_skip ps then Err err_tmpl_unenclosed else Ok r.

(* ---------- run time ---------- *)
Definition fget (f : list bytes) (i : nat) : outcome bytes :=
  match nth_error f i with
  | Some v => Ok v
  | None => Panic site_field_index
  end.

(* v[a:b] with Go's bound check on integers *)
Definition slice_z (v : bytes) (a b : Z) : outcome bytes :=
  if (0 <=? a) && (a <=? b) && (b <=? Z.of_nat (length v))
  then Ok (firstn (Z.to_nat (b - a)) (skipn (Z.to_nat a) v))
  else Panic site_slice_bounds.

(* the closure returned by createVariableExpressionSolver *)
Definition solve_slice (v : bytes) (pstart pstop : Z) : outcome bytes :=
  let len := Z.of_nat (length v) in
  let start := if pstart <? 0 then pstart + len else pstart in
  let start := if start <? 0 then 0 else start in
  if start >=? len then Ok [] else
  let stop := if pstop <? 0 then pstop + len else pstop in
  if stop <? 0 then Ok [] else
  let stop := if stop >? len then len else stop in
  if start <? stop then slice_z v start stop else Ok [].

Definition run_part (f : list bytes) (p : rpart) : outcome bytes :=
  match p with
  | RLit s => Ok s
  | RVar i => fget f i
  | RSlice i a b => let* v := fget f i in solve_slice v a b
  end.

Fixpoint expand (f : list bytes) (ps : list rpart) : outcome bytes :=
  match ps with
  | [] => Ok []
  | p :: ps' => let* a := run_part f p in let* b := expand f ps' in Ok (a ++ b)
  end.
