(* C02 — the Datadog connection (output/datadog/clientworker.go): for this output the HTTP response to the POST
   that carries a chunk IS the acknowledgement (ReadChunkAck returns "" at once, SendPing and Close do nothing).
   What decides whether a chunk may be confirmed is therefore SendChunk's reading of the response.
   This file models that decision and plugs it into the client LTS of Model/Client.v: in a case of kind 6 the result
   of every SendChunk in the observed trace is REPLACED by the model's decision on the response the intake gave,
   and the trace acceptor runs on that.  No proofs in this file. *)
From SV Require Import Model.Common Model.Client Model.ClientAccept.

(* what http.Client.Do handed to SendChunk: no response at all (transport error, timeout: err != nil) or the final
   response with its status code.  The client does not follow redirects (CheckRedirect returns
   http.ErrUseLastResponse), so a 3xx answer arrives here as it is, with or without a Location header. *)
Inductive dd_resp := DDNoResp | DDResp (status : Z).

(* SendChunk (after the fix 'datadog client takes only a 2xx answer as the acknowledgement'):
     resp, err := client.Do(request); if err != nil { return error }
     if resp.StatusCode >= 300 { return error }; if resp.StatusCode < 200 { return error }; return nil *)
Definition dd_send_chunk (r : dd_resp) : res :=
  match r with
  | DDNoResp => RErr
  | DDResp st => if (st >=? 300)%Z then RErr else if (st <? 200)%Z then RErr else ROk
  end.

(* the seeded variant (wave 4, seed 9): a switch that names 5xx and 4xx as errors and returns nil otherwise *)
Definition dd_send_chunk_switch (r : dd_resp) : res :=
  match r with
  | DDNoResp => RErr
  | DDResp st => if (st >=? 500)%Z then RErr else if (st >=? 400)%Z then RErr else ROk
  end.

(* the code before the repair: one check 'StatusCode >= 300' (a final 1xx answer, i.e. 101, counted as success) *)
Definition dd_send_chunk_ge300 (r : dd_resp) : res :=
  match r with
  | DDNoResp => RErr
  | DDResp st => if (st >=? 300)%Z then RErr else ROk
  end.

(* ReadChunkAck of the Datadog connection: always the empty id, never an error *)
Definition dd_read_ack : ackres := AEmpty.

(* One exchange as the fake intake and the decorated connection see it: the chunk in the body of the POST and the
   response given (status 0 in the case line = no response reached the client). *)
Definition dd_exchange := (chunk * dd_resp)%type.

Definition dd_resp_of_Z (st : Z) : dd_resp := if (st =? 0)%Z then DDNoResp else DDResp st.

(* a Datadog session history: every SendChunk is one exchange; the i-th ESendRet of the trace belongs to the i-th
   exchange (one goroutine sends).  [dd_apply] rewrites the results of the ESendRet events by the model's decision;
   an ESendRet without an exchange, or for another chunk than the exchange's, makes the case undecodable. *)
Fixpoint dd_apply (send : dd_resp -> res) (xs : list dd_exchange) (os : list event) : option (list event) :=
  match os with
  | [] => match xs with [] => Some [] | _ => None end
  | ESendRet k c _ :: os' =>
    match xs with
    | (c', r) :: xs' =>
      if (c =? c')%N then
        match dd_apply send xs' os' with
        | Some t => Some (ESendRet k c (send r) :: t)
        | None => None
        end
      else None
    | [] => None
    end
  | e :: os' =>
    match dd_apply send xs os' with
    | Some t => Some (e :: t)
    | None => None
    end
  end.

Fixpoint dd_decode_exchanges (n : nat) (zs : list Z) : option (list dd_exchange * list Z) :=
  match n with
  | O => Some ([], zs)
  | S n' =>
    match zs with
    | c :: st :: rest =>
      match dd_decode_exchanges n' rest with
      | Some (xs, tl) => Some ((Z.to_N c, dd_resp_of_Z st) :: xs, tl)
      | None => None
      end
    | _ => None
    end
  end.

Definition dd_letter (r : res) : N := match r with ROk => 111 | RErr => 101 end. (* 'o' / 'e' *)
Definition str_dd : bytes := [59;100;100;61]. (* ";dd=" *)

(* kind 6: zargs = cap, maxage, bug, n, then n x (chunk, status), then the observed trace (4 integers per event).
   Output: what the trace acceptor says about the trace with the model's send results, then the model's decisions. *)
Definition run_case_C02_dd (send : dd_resp -> res) (c : case) : bytes :=
  match c_zargs c with
  | cap :: maxage :: bug :: n :: rest =>
    match dd_decode_exchanges (Z.to_nat n) rest with
    | Some (xs, tr) =>
      match decode_trace (length tr) tr with
      | Some os =>
        match dd_apply send xs os with
        | Some os' =>
          accept_out (mkParams (Z.to_nat cap) (negb (maxage =? 0)%Z) true) (negb (bug =? 0)%Z) os'
            ++ str_dd ++ map (fun x => dd_letter (send (snd x))) xs
        | None => str_badtrace
        end
      | None => str_badtrace
      end
    | None => str_badtrace
    end
  | _ => str_badtrace
  end.

(* correspondence entry point of C02 *)
Definition run_case_C02 (c : case) : bytes :=
  if c_kind c =? 6 then run_case_C02_dd dd_send_chunk c else run_case_C02_trace c.
