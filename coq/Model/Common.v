(* Common definitions shared by all models: bytes, outcomes, and the line
   format used by the correspondence check.  No proofs in this file. *)
From Coq Require Export List NArith ZArith Bool.
Export ListNotations.
Open Scope N_scope.

Definition byte := N.
Definition bytes := list N.

(* Result of a modelled Go function: a value, an error value, or a Go panic. *)
Inductive outcome (A : Type) : Type :=
| Ok (a : A)
| Err (e : N)
| Panic (site : N).
Arguments Ok {A} a.
Arguments Err {A} e.
Arguments Panic {A} site.

Definition is_panic {A} (o : outcome A) : bool :=
  match o with Panic _ => true | _ => false end.

(* ---------- byte string helpers ---------- *)

Fixpoint bytes_eqb (a b : bytes) : bool :=
  match a, b with
  | [], [] => true
  | x :: a', y :: b' => N.eqb x y && bytes_eqb a' b'
  | _, _ => false
  end.

Definition nth_byte (s : bytes) (i : nat) : option N := nth_error s i.

(* s[a:b] with Go semantics for 0 <= a <= b <= len; None = slice bounds panic *)
Definition slice (s : bytes) (a b : nat) : option bytes :=
  if (Nat.leb a b && Nat.leb b (length s))%bool
  then Some (firstn (b - a) (skipn a s)) else None.

(* ---------- decimal and hex ---------- *)

Definition digit_char (d : N) : N := 48 + d.

(* decimal digits of a positive number, most significant first, by fuel *)
Fixpoint dec_digits_fuel (fuel : nat) (n : N) (acc : bytes) : bytes :=
  match fuel with
  | O => acc
  | S f =>
    let acc' := digit_char (n mod 10) :: acc in
    if n / 10 =? 0 then acc' else dec_digits_fuel f (n / 10) acc'
  end.

Definition dec_of_N (n : N) : bytes :=
  dec_digits_fuel (S (N.to_nat (N.log2 n))) n [].

Definition dec_of_Z (z : Z) : bytes :=
  match z with
  | Z0 => [48]
  | Zpos p => dec_of_N (Npos p)
  | Zneg p => 45 :: dec_of_N (Npos p)
  end.

Definition is_digit (c : N) : bool := (48 <=? c) && (c <=? 57).

Fixpoint N_of_dec_acc (s : bytes) (acc : N) : option N :=
  match s with
  | [] => Some acc
  | c :: s' => if is_digit c then N_of_dec_acc s' (acc * 10 + (c - 48)) else None
  end.

Definition Z_of_dec (s : bytes) : option Z :=
  match s with
  | [] => None
  | 45 :: s' => match s' with [] => None | _ => option_map (fun n => (- Z.of_N n)%Z) (N_of_dec_acc s' 0) end
  | _ => option_map Z.of_N (N_of_dec_acc s 0)
  end.

Definition hex_val (c : N) : option N :=
  if (48 <=? c) && (c <=? 57) then Some (c - 48)
  else if (97 <=? c) && (c <=? 102) then Some (c - 87)
  else None.

Fixpoint unhex (s : bytes) : option bytes :=
  match s with
  | [] => Some []
  | a :: b :: s' =>
    match hex_val a, hex_val b, unhex s' with
    | Some x, Some y, Some r => Some (x * 16 + y :: r)
    | _, _, _ => None
    end
  | _ => None
  end.

Definition hex_digit (d : N) : N := if d <? 10 then 48 + d else 87 + d.

Fixpoint hex (s : bytes) : bytes :=
  match s with
  | [] => []
  | b :: s' => hex_digit (b / 16) :: hex_digit (b mod 16) :: hex s'
  end.

(* ---------- splitting ---------- *)

(* [rev_append cur []] = [rev cur], in linear time and constant stack (case lines can be 10^5 bytes long) *)
Fixpoint split_on_acc (sep : N) (s : bytes) (cur : bytes) : list bytes :=
  match s with
  | [] => [rev_append cur []]
  | c :: s' => if c =? sep then rev_append cur [] :: split_on_acc sep s' [] else split_on_acc sep s' (c :: cur)
  end.

Definition split_on (sep : N) (s : bytes) : list bytes := split_on_acc sep s [].

(* the same function in linear time ([rev] of the standard library is quadratic, which dominates the run time
   of the line parser on case lines of a few kilobytes); Proofs/CommonFacts.v: split_fast = split_on *)
Fixpoint split_fast_acc (sep : N) (s : bytes) (cur : bytes) : list bytes :=
  match s with
  | [] => [rev_append cur []]
  | c :: s' => if c =? sep then rev_append cur [] :: split_fast_acc sep s' [] else split_fast_acc sep s' (c :: cur)
  end.

Definition split_fast (sep : N) (s : bytes) : list bytes := split_fast_acc sep s [].

Fixpoint all_some {A} (l : list (option A)) : option (list A) :=
  match l with
  | [] => Some []
  | Some a :: l' => option_map (cons a) (all_some l')
  | None :: _ => None
  end.

(* ---------- case lines ----------
   A correspondence case is one text line
       <kind>|<hex>,<hex>,...|<int>,<int>,...|<expected output, raw text>
   kind: decimal; second field: byte-string arguments (hex, "-" for none, an
   empty item is the empty string); third: integer arguments ("-" for none).
   The implementation harness writes the line; [run_line] evaluates the model
   on the first three fields.  Output strings never contain '|' or newline. *)

Definition parse_list {A} (f : bytes -> option A) (s : bytes) : option (list A) :=
  match s with
  | [45] => Some []
  | _ => all_some (map f (split_fast 44 s))
  end.

Record case := { c_kind : N; c_sargs : list bytes; c_zargs : list Z }.

Definition parse_case (kind sargs zargs : bytes) : option case :=
  match N_of_dec_acc kind 0, parse_list unhex sargs, parse_list Z_of_dec zargs with
  | Some k, Some ss, Some zs => Some {| c_kind := k; c_sargs := ss; c_zargs := zs |}
  | _, _, _ => None
  end.

Definition bad_case_output : bytes := [98;97;100;99;97;115;101]. (* "badcase" *)

Definition run_line (run_case : case -> bytes) (line : bytes) : bytes :=
  match split_fast 124 line with
  | k :: ss :: zs :: _ =>
    match parse_case k ss zs with
    | Some c => run_case c
    | None => bad_case_output
    end
  | _ => bad_case_output
  end.

(* used by cases.v: every (input line, expected output) pair whose model output differs *)
Definition mismatches (run_case : case -> bytes) (cases : list (bytes * bytes)) : list (bytes * bytes) :=
  filter (fun c => negb (bytes_eqb (run_line run_case (fst c)) (snd c))) cases.

(* ---------- output formatting helpers ---------- *)

Definition str_ok : bytes := [111;107]. (* "ok" *)
Definition str_err : bytes := [101;114;114]. (* "err" *)
Definition str_panic : bytes := [112;97;110;105;99]. (* "panic" *)
Definition colon : N := 58.
Definition comma : N := 44.

Fixpoint join (sep : N) (l : list bytes) : bytes :=
  match l with
  | [] => []
  | [x] => x
  | x :: l' => x ++ sep :: join sep l'
  end.

Definition sarg (c : case) (i : nat) : bytes := nth i (c_sargs c) [].
Definition zarg (c : case) (i : nat) : Z := nth i (c_zargs c) 0%Z.
