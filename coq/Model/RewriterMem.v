(* Memory-level model of ONE long-lived rewriter chain instance (rewrite/rinline/rinline.go, runescape, rcopy behind
   base.LogRewriter) over a HISTORY of records whose field strings are zero-copy references into a backing buffer
   that is recycled from record to record (util.MutableString over the pooled input buffer, base.LogAllocator).

   A field of a record is a reference (offset, length); its value is whatever the buffer holds NOW ([deref]).  The
   rewriter instance may keep state from call to call: every inline node carries a cache slot.  Three variants of
   the inline rewriter's prefix "name=<value> ":
     Direct       - rinline.go as it is: built from the record's field on every call, nothing kept
     CacheByValue - keeps the last prefix together with an OWNED COPY of the value it was built from (strings.Clone)
     CacheByRef   - keeps the last prefix together with the field STRING itself, i.e. a reference into the buffer: the
                    comparison 'fieldValue != lastValue' reads both sides through the current buffer contents
   [run_case_rewriter_mem] (kind 3 of C10) runs the Direct variant.  No proofs in this file. *)
From SV Require Import Model.Common Model.Msgpack Model.Unescape Model.Serializer.
Open Scope N_scope.

Record mref := { m_off : nat; m_len : nat }.

(* the string a reference denotes: read through the current contents of the buffer *)
Definition deref (mem : bytes) (r : mref) : bytes := firstn (m_len r) (skipn (m_off r) mem).

Record mrecord := {
  mr_fields : list mref;
  mr_unescaped : bool
}.

(* the record as the value-level model (Model/Serializer.v) sees it at this moment *)
Definition load (mem : bytes) (mr : mrecord) : record :=
  {| r_fields := map (deref mem) (mr_fields mr); r_unix := 0; r_nsec := 0; r_unescaped := mr_unescaped mr |}.

Inductive inline_mode := Direct | CacheByValue | CacheByRef.

Record cache := {
  k_ref : mref;       (* lastValue as a Go string header: pointer + length *)
  k_copy : bytes;     (* lastValue as an owned copy *)
  k_prefix : bytes    (* lastPrefix: header + lastValue + separator, owned *)
}.

(* prefixOf(fieldValue) *)
Definition prefix_of (mode : inline_mode) (st : option cache) (mem header : bytes) (r : mref)
  : bytes * option cache :=
  let fv := deref mem r in
  let fresh := header ++ fv ++ [32] in
  let refill := (fresh, Some {| k_ref := r; k_copy := fv; k_prefix := fresh |}) in
  match mode with
  | Direct => (fresh, st)
  | CacheByValue =>
    match st with
    | Some c => if bytes_eqb fv (k_copy c) then (k_prefix c, st) else refill
    | None => refill
    end
  | CacheByRef =>
    match st with
    | Some c => if bytes_eqb fv (deref mem (k_ref c)) then (k_prefix c, st) else refill
    | None => refill
    end
  end.

(* a rewriter chain instance with its state *)
Inductive rewriter_st :=
| SwCopy
| SwUnescape
| SwInline (header : bytes) (loc : nat) (st : option cache) (next : rewriter_st).

Fixpoint erase (rw : rewriter_st) : rewriter :=
  match rw with
  | SwCopy => RwCopy
  | SwUnescape => RwUnescape
  | SwInline h l _ nx => RwInline h l (erase nx)
  end.

(* a fresh instance *)
Fixpoint instantiate (rw : rewriter) : rewriter_st :=
  match rw with
  | RwCopy => SwCopy
  | RwUnescape => SwUnescape
  | RwInline h l nx => SwInline h l None (instantiate nx)
  end.

Definition get_ref (fields : list mref) (loc : nat) : outcome mref :=
  match nth_error fields loc with Some v => Ok v | None => Panic site_index end.

(* MaxFieldLength on the instance: result and the instance afterwards *)
Fixpoint max_field_length_st (mode : inline_mode) (rw : rewriter_st) (value mem : bytes) (mr : mrecord)
  : outcome nat * rewriter_st :=
  match rw with
  | SwCopy => (Ok (length value), rw)
  | SwUnescape => (Ok (length value), rw)
  | SwInline header loc st next =>
    match get_ref (mr_fields mr) loc with
    | Ok r =>
      if is_nil (deref mem r) then
        let (o, next') := max_field_length_st mode next value mem mr in (o, SwInline header loc st next')
      else
        let (p, st') := prefix_of mode st mem header r in
        let (o, next') := max_field_length_st mode next value mem mr in
        (n <-- o ;; Ok (length p + n)%nat, SwInline header loc st' next')
    | Err e => (Err e, rw)
    | Panic s => (Panic s, rw)
    end
  end.

(* WriteFieldBody on the instance *)
Fixpoint write_field_body_st (mode : inline_mode) (rw : rewriter_st) (value mem : bytes) (mr : mrecord) (dst : bytes)
  : outcome (bytes * nat) * rewriter_st :=
  match rw with
  | SwCopy => (write_field_body RwCopy value (load mem mr) dst, rw)
  | SwUnescape => (write_field_body RwUnescape value (load mem mr) dst, rw)
  | SwInline header loc st next =>
    match get_ref (mr_fields mr) loc with
    | Ok r =>
      if is_nil (deref mem r) then
        let (o, next') := write_field_body_st mode next value mem mr dst in (o, SwInline header loc st next')
      else
        let (p, st') := prefix_of mode st mem header r in
        match copy_at dst 0 p with
        | Ok (dst1, e) =>
          match window dst1 e with
          | Ok sub =>
            let (o, next') := write_field_body_st mode next value mem mr sub in
            ('(sub', n) <-- o ;; Ok (unwindow dst1 e sub', (e + n)%nat), SwInline header loc st' next')
          | Err x => (Err x, SwInline header loc st' next)
          | Panic s => (Panic s, SwInline header loc st' next)
          end
        | Err x => (Err x, SwInline header loc st' next)
        | Panic s => (Panic s, SwInline header loc st' next)
        end
    | Err e => (Err e, rw)
    | Panic s => (Panic s, rw)
    end
  end.

(* one use of the instance by the serializer for a rewritten field of a record: maxEncodedLength and encodeRecord
   ask for the maximum length, then the body is written into a window of [dstlen] bytes; between two calls the
   buffer is recycled: every call comes with the memory contents of its moment *)
Record call := {
  cl_mem : bytes;
  cl_rec : mrecord;
  cl_value : mref;
  cl_dstlen : nat
}.

Definition call_result := (outcome nat * outcome (bytes * nat))%type.

Definition run_call (mode : inline_mode) (rw : rewriter_st) (c : call) : call_result * rewriter_st :=
  let value := deref (cl_mem c) (cl_value c) in
  let (_, rw1) := max_field_length_st mode rw value (cl_mem c) (cl_rec c) in
  let (m, rw2) := max_field_length_st mode rw1 value (cl_mem c) (cl_rec c) in
  let (w, rw3) := write_field_body_st mode rw2 value (cl_mem c) (cl_rec c) (repeat 0 (cl_dstlen c)) in
  ((m, w), rw3).

Fixpoint run_history (mode : inline_mode) (rw : rewriter_st) (h : list call) : list call_result :=
  match h with
  | [] => []
  | c :: h' => let (res, rw') := run_call mode rw c in res :: run_history mode rw' h'
  end.

(* the same call on the value-level, stateless model of Model/Serializer.v, on the values the record has NOW *)
Definition call_stateless (rw : rewriter) (c : call) : call_result :=
  let value := deref (cl_mem c) (cl_value c) in
  let rec := load (cl_mem c) (cl_rec c) in
  (max_field_length rw value rec, write_field_body rw value rec (repeat 0 (cl_dstlen c))).

(* ---------- correspondence entry point (kind 3) ----------
   zargs: nschema, k, the k step codes (0 copy, 1 unescape, 2 inline), ncalls, then per call: unescaped, index of the
          rewritten field, dstlen, then nschema pairs (offset, length)
   sargs: the schema names, the field of every inline step in chain order, then per call the contents of the buffer
   output: per call (joined by '/') "<max>,<hex of the body>" | "panic"; "badcase" | "panic-new" *)

Fixpoint parse_refs (n : nat) (zs : list Z) : option (list mref * list Z) :=
  match n with
  | O => Some ([], zs)
  | S n' =>
    match zs with
    | o :: l :: zs' =>
      match parse_refs n' zs' with
      | Some (rs, rest) => Some ({| m_off := Z.to_nat o; m_len := Z.to_nat l |} :: rs, rest)
      | None => None
      end
    | _ => None
    end
  end.

Fixpoint parse_calls (n nschema : nat) (zs : list Z) (ss : list bytes) : option (list call) :=
  match n with
  | O => Some []
  | S n' =>
    match zs, ss with
    | ue :: vi :: dl :: zs', mem :: ss' =>
      match parse_refs nschema zs' with
      | Some (refs, zs'') =>
        match nth_error refs (Z.to_nat vi), parse_calls n' nschema zs'' ss' with
        | Some v, Some cs =>
          Some ({| cl_mem := mem; cl_rec := {| mr_fields := refs; mr_unescaped := negb (ue =? 0)%Z |};
                   cl_value := v; cl_dstlen := Z.to_nat dl |} :: cs)
        | _, _ => None
        end
      | None => None
      end
    | _, _ => None
    end
  end.

Definition ref_in (mem : bytes) (r : mref) : bool := (m_off r + m_len r <=? length mem)%nat.

Definition call_ok (c : call) : bool :=
  forallb (ref_in (cl_mem c)) (mr_fields (cl_rec c)).

Definition canon_call (res : call_result) : bytes :=
  match res with
  | (Ok m, Ok (dst, n)) => dec_of_N (N.of_nat m) ++ comma :: hex (firstn n dst)
  | _ => str_panic
  end.

Definition run_case_rewriter_mem (c : case) : bytes :=
  let zs := c_zargs c in
  let ss := c_sargs c in
  if (length zs <? 3)%nat then bad_case_output else
  let nschema := Z.to_nat (zarg c 0) in
  let k := Z.to_nat (zarg c 1) in
  if (length ss <? nschema)%nat then bad_case_output else
  let schema := firstn nschema ss in
  match parse_steps k (skipn 2 zs) (skipn nschema ss) with
  | None => bad_case_output
  | Some (steps, zs1, ss1) =>
    match zs1 with
    | [] => bad_case_output
    | ncalls :: zs2 =>
      match parse_calls (Z.to_nat ncalls) nschema zs2 ss1 with
      | None => bad_case_output
      | Some calls =>
        if negb (forallb (fun n => negb (is_nil n)) schema && no_dup_names schema) then bad_case_output else
        if negb (forallb call_ok calls) then bad_case_output else
        match new_rewriters schema steps with
        | Ok (Some rw) => join 47 (map canon_call (run_history Direct (instantiate rw) calls))
        | Ok None => bad_case_output
        | _ => s_panic_new
        end
      end
    end
  end.
