(* Model/Shutdown.v — C18: the wait graph of slog-agent after a stop request, with a discrete clock.

   Every blocking point of the code on the shutdown path is a node [Wait]/[WaitPeer] with its wake-up set:
     stop      the stop signal, a channel that has been closed, or a connection that has been closed
               (abort-on-stop): an edge that has ALREADY fired when the node is entered
     deadline  a timeout constant of defs/params.go
     peer      the completion of a task this wait has triggered / waits for (WaitGroup, Awaitable)
   Anything else that could wake the node (data from a peer, an answer of the upstream) belongs to the
   environment and is NOT guaranteed.
   Hypotheses, visible as [Op 0] nodes and as the stop edge of connection operations: callbacks and file
   operations return; an operation on a connection returns by its deadline or when the connection is closed.
   The clock counts ticks; scheduler latency, CPU work, kernel socket behaviour and disk stalls are outside
   the model (this property is PARTIAL by nature).

   No proofs here.  The last part is the correspondence entry point run_case_C18. *)
From SV Require Import Model.Common Model.Metrics Model.ShutdownBacklog Model.ShutdownWaits.
Local Open Scope Z_scope.

(* ------------------------------------------------------------------------------------------ *)
(* 1. wait graphs                                                                               *)

Inductive wg :=
| Op (d : Z)
    (* a non-blocking stretch of code / a callback: returns within d ticks *)
| Wait (stop : bool) (deadline : option Z)
    (* a blocking point: returns when the stop edge has fired (at once, if stop = true), at the deadline,
       or earlier when the environment acts *)
| WaitPeer (stop : bool) (deadline : option Z) (peer : wg)
    (* a blocking point that also returns when the task [peer], started when the wait is entered, completes
       (Awaitable.Wait(timeout), WaitGroup.Wait, channel range) *)
| Seq (a b : wg)     (* program order *)
| Join (a b : wg).   (* both run in parallel from the same moment; complete when both have completed *)

Fixpoint seqn (n : nat) (g : wg) : wg := match n with O => Op 0 | S n' => Seq g (seqn n' g) end.
Fixpoint joinn (n : nat) (g : wg) : wg := match n with O => Op 0 | S n' => Join g (joinn n' g) end.

(* option Z as time with None = never *)
Definition omin (a b : option Z) : option Z :=
  match a, b with Some x, Some y => Some (Z.min x y) | Some x, None => Some x | None, y => y end.
Definition omax (a b : option Z) : option Z :=
  match a, b with Some x, Some y => Some (Z.max x y) | _, _ => None end.
Definition oadd (a b : option Z) : option Z :=
  match a, b with Some x, Some y => Some (x + y) | _, _ => None end.

(* the completion bound of a wait graph, in ticks after it has been started; None = not guaranteed to complete *)
Fixpoint bnd (g : wg) : option Z :=
  match g with
  | Op d => Some d
  | Wait stop dl => omin (if stop then Some 0 else None) dl
  | WaitPeer stop dl p => omin (omin (if stop then Some 0 else None) dl) (bnd p)
  | Seq a b => oadd (bnd a) (bnd b)
  | Join a b => omax (bnd a) (bnd b)
  end.

(* well-formed: every constant is non-negative *)
Fixpoint wf (g : wg) : bool :=
  match g with
  | Op d => 0 <=? d
  | Wait _ dl => match dl with Some c => 0 <=? c | None => true end
  | WaitPeer _ dl p => match dl with Some c => 0 <=? c | None => true end && wf p
  | Seq a b => wf a && wf b
  | Join a b => wf a && wf b
  end.

(* operational meaning: [runs g s t] - started at time s the graph can complete at time t (None = never).
   The environment may wake a wait at any moment; what is guaranteed are the stop edge, the deadline and the peer. *)
Definition le_opt (z : Z) (o : option Z) : Prop := match o with Some c => z <= c | None => True end.

Inductive runs : wg -> Z -> option Z -> Prop :=
| r_op : forall d s t, s <= t <= s + d -> runs (Op d) s (Some t)
| r_wait : forall stop dl s t,
    s <= t -> (stop = true -> t <= s) -> le_opt t (option_map (Z.add s) dl) ->
    runs (Wait stop dl) s (Some t)
| r_wait_never : forall s, runs (Wait false None) s None
| r_waitpeer : forall stop dl p s tp t,
    runs p s tp ->
    s <= t -> (stop = true -> t <= s) -> le_opt t (option_map (Z.add s) dl) -> le_opt t tp ->
    runs (WaitPeer stop dl p) s (Some t)
| r_waitpeer_never : forall p s, runs p s None -> runs (WaitPeer false None p) s None
| r_seq : forall a b s t1 t2, runs a s (Some t1) -> runs b t1 t2 -> runs (Seq a b) s t2
| r_seq_never : forall a b s, runs a s None -> runs (Seq a b) s None
| r_join : forall a b s ta tb, runs a s ta -> runs b s tb -> runs (Join a b) s (omax ta tb).

(* ------------------------------------------------------------------------------------------ *)
(* 2. the agent                                                                                 *)

(* defs/params.go, in ticks *)
Record params := PR {
  t_in : Z;        (* InputFlushInterval: read deadline of an input connection *)
  t_ch : Z;        (* IntermediateChannelTimeout *)
  t_bs : Z;        (* BufferShutDownTimeout *)
  t_conn : Z;      (* ForwarderConnectionTimeout (+ handshake) *)
  t_send : Z;      (* ForwarderBatchSendTimeoutBase + len / ForwarderBatchSendMinimumSpeed, for the largest chunk *)
  t_ack : Z;       (* ForwarderBatchAckTimeout *)
  t_ackstop : Z;   (* ForwarderAckerStopTimeout *)
  t_retry : Z      (* ForwarderRetryInterval *)
}.

Definition params_ok (p : params) : bool :=
  (0 <=? t_in p) && (0 <=? t_ch p) && (0 <=? t_bs p) && (0 <=? t_conn p) && (0 <=? t_send p) &&
  (0 <=? t_ack p) && (0 <=? t_ackstop p) && (0 <=? t_retry p).

(* the load *)
Record shape := SH {
  n_conn : nat;     (* open input connections *)
  n_flush : nat;    (* channel sends a connection performs in its final FlushAll / Flush / Tick / Close *)
  n_pipe : nat;     (* pipelines *)
  n_out : nat;      (* outputs per pipeline *)
  n_left : nat;     (* leftovers a client holds *)
  n_win : nat;      (* chunks in the closed output channel the client may still receive (<= BufferMaxNumChunksInMemory) *)
  has_dir : bool;   (* the queue directory is usable *)
  worker_live : bool; (* the pipeline workers keep receiving from their channels (they have no blocking point of
                        their own: bufferer.Accept never blocks); false = a stalled worker, the "BUG" branch of
                        channelInputBuffer.Flush *)
  late_abort : bool   (* code variant of ClientWorker.runSession: true = a session that becomes active when the stop
                        signal is already raised is aborted at once (repair caaa160), false = the original code, where
                        only the session active at the moment of the signal is aborted *)
}.

(* where the client is when the output side is closed *)
Inductive cphase18 :=
| PIdle          (* processInput select, nothing in flight *)
| PWaitAck       (* processInput select, acknowledger in ReadChunkAck *)
| PSending       (* SendChunk in progress on the session the stop signal aborts *)
| PSendingLate   (* SendChunk in progress on a session opened after the abort-on-stop callback ran *)
| PConnecting    (* runSession select { inputClosed | connCh } *)
| PConnectingLate(* ... and the select took the new connection: a session that nobody aborts *)
| PRecovery      (* resendLeftovers on the aborted session *)
| PRetryWait     (* inputClosed.Wait(ForwarderRetryInterval) *)
| PHandOver      (* sendChunk: the chunk is written, ackerChan is full (ForwarderMaxPendingChunksForAck chunks wait for
                    their ACK): select { ackerChan <- chunk | inputClosed | ackerEnded } *)
| PStuck.        (* a consumer that never finishes (not the real client): only Destroy's deadline remains *)

(* clientSession.collectLeftovers: close(ackerChan); ackerAbort.Signal(); abortConn (all non-blocking);
   ackerEnded.Wait(IntermediateChannelTimeout) - the acknowledger is in its select (closed channel / abort
   signal) or in ReadChunkAck on a connection that has just been closed (returns at Close, else at its deadline);
   merge (non-blocking) *)
Definition acker_end (p : params) : wg := Wait true (Some (t_ack p)).
Definition collect (p : params) : wg :=
  Seq (Op 0) (Seq (WaitPeer false (Some (t_ch p)) (acker_end p)) (Op 0)).

(* run(): after the loop every leftover is handed back (OnChunkLeftover: a file write), then onFinished *)
Definition final (sh : shape) : wg := Seq (seqn (n_left sh + n_win sh) (Op 0)) (Op 0).

(* SendChunk on a connection that has been closed returns at once; otherwise only its deadline is guaranteed *)
Definition send_aborted (p : params) : wg := Wait true (Some (t_send p)).
Definition send_live (p : params) : wg := Wait false (Some (t_send p)).

(* after a failed send: collect, reconnectWithDelay, the retry wait sees the stop signal *)
Definition after_failed_send (p : params) (sh : shape) : wg :=
  Seq (collect p) (Seq (Wait true (Some (t_retry p))) (final sh)).

Definition client (p : params) (sh : shape) (ph : cphase18) : wg :=
  match ph with
  | PIdle | PWaitAck =>
    (* the select receives what is left in the closed output channel; each such chunk is sent on the aborted
       connection and fails; with an empty channel: "stop requested (normal stage)", collect *)
    Seq (Wait true None)
        (match n_win sh with
         | O => Seq (collect p) (final sh)
         | S _ => Seq (send_aborted p) (after_failed_send p sh)
         end)
  | PSending => Seq (send_aborted p) (after_failed_send p sh)
  | PSendingLate =>
    if late_abort sh then Seq (send_aborted p) (after_failed_send p sh)
    else Seq (send_live p) (Seq (Wait true None) (Seq (collect p) (final sh)))
  | PConnecting => Seq (Wait true (Some (t_conn p))) (final sh)
  | PConnectingLate =>
    if late_abort sh then
      (* the new session is aborted when it is stored: the first re-send fails at once and ends it *)
      Seq (Wait true (Some (t_conn p))) (Seq (send_aborted p) (after_failed_send p sh))
    else
    (* resendLeftovers: select { inputClosed | leftover }: in the worst case every leftover is sent before the
       stop case is chosen, each send bounded only by its deadline; then "stop requested (recovery stage)" *)
    Seq (Wait true (Some (t_conn p)))
        (Seq (seqn (n_left sh) (Seq (send_live p) (Wait true None))) (Seq (collect p) (final sh)))
  | PRecovery => Seq (send_aborted p) (after_failed_send p sh)
  | PRetryWait => Seq (Wait true (Some (t_retry p))) (final sh)
  | PHandOver =>
    (* the select takes the stop signal: "aborted before queueing chunk for ack"; the chunk stays in lastChunk and is
       collected with the others *)
    Seq (Wait true None) (Seq (collect p) (final sh))
  | PStuck => Wait false None
  end.

(* outputFeeder.Run after bufferer.Destroy closed the input channel: the receive / the select of loadToOutput
   return (closed channel, inputClosed); close(outputChannel), outputClosed.Signal(), saveEverything (file
   writes); consumerCounter.Wait() has NO deadline and NO stop edge: it is a peer wait on the consumer;
   chunkMan.Close() *)
Definition feeder (p : params) (sh : shape) (ph : cphase18) : wg :=
  Seq (Wait true None) (Seq (Op 0) (Seq (WaitPeer false None (client p sh ph)) (Op 0))).

Definition run_timeout (p : params) (sh : shape) : Z :=
  if has_dir sh then t_bs p + t_ch p else 2 * t_ch p.

(* bufferer.Destroy: WaitPendingChunks (only without a directory: pendingChunks.WaitForZero(BufferShutDownTimeout));
   close(inputChannel), inputClosed.Signal(); feeder.Stopped().Wait(runTimeout) *)
Definition destroy (p : params) (sh : shape) (ph : cphase18) : wg :=
  Seq (if has_dir sh then Op 0 else Wait false (Some (t_bs p)))
      (Seq (Op 0) (WaitPeer false (Some (run_timeout p sh)) (feeder p sh ph))).

(* one pipeline: the worker drains its closed channel, onTick, onStop (Accept never blocks), then
   procWorker.Stopped().Next: Destroy of every output in turn, onStopped *)
Definition pipeline (p : params) (sh : shape) (ph : cphase18) : wg :=
  Seq (Op 0) (Seq (seqn (n_out sh) (destroy p sh ph)) (Op 0)).

(* Orchestrator.Shutdown: close every pipeline channel, objectCounter.Wait() *)
Definition orchestrator (p : params) (sh : shape) (ph : cphase18) : wg :=
  Seq (Op 0) (joinn (n_pipe sh) (pipeline p sh ph)).

(* one input connection: Read returns when the closer goroutine closes the socket on the stop request (or at
   the read deadline); FlushAll / Flush / Tick / Close send to pipeline channels: each send returns when the
   worker receives (peer; a live worker does so at once) or after IntermediateChannelTimeout *)
Definition worker_receive (sh : shape) : wg := if worker_live sh then Op 0 else Wait false None.
Definition connection (p : params) (sh : shape) : wg :=
  Seq (Wait true (Some (t_in p))) (seqn (n_flush sh) (WaitPeer false (Some (t_ch p)) (worker_receive sh))).

(* shutdownInputs(): stopRequest.Signal(); AllAwaitables(inputs).WaitForever(): the accept loop returns when
   the closer goroutine closes the listening socket *)
Definition inputs (p : params) (sh : shape) : wg :=
  Seq (Op 0) (Join (Wait true None) (joinn (n_conn sh) (connection p sh))).

(* run.Run after the signal: shutdownInputs(); orchestrator.Shutdown() *)
Definition agent (p : params) (sh : shape) (ph : cphase18) : wg :=
  Seq (inputs p sh) (orchestrator p sh ph).

(* ---- the explicit bound ---- *)

Definition B_inputs (p : params) (sh : shape) : Z :=
  match n_conn sh with
  | O => 0
  | S _ => if worker_live sh then 0 else Z.of_nat (n_flush sh) * t_ch p
  end.

Definition B_destroy (p : params) (sh : shape) : Z :=
  (if has_dir sh then 0 else t_bs p) + run_timeout p sh.

Definition B_orch (p : params) (sh : shape) : Z :=
  match n_pipe sh with O => 0 | S _ => Z.of_nat (n_out sh) * B_destroy p sh end.

(* B(defs, load): for every phase of every client and every upstream condition *)
Definition B (p : params) (sh : shape) : Z := B_inputs p sh + B_orch p sh.

(* the client alone, when the contract holds and the session is the aborted one: no deadline is waited for *)
Definition B_client_late (p : params) (sh : shape) : Z := Z.of_nat (n_left sh) * t_send p.

(* ------------------------------------------------------------------------------------------ *)
(* 3. the client machine (Model/Metrics.v section E) after the stop signal                       *)

(* post_stop_ok / budget_after: Model/Metrics.v (section E) *)

(* runs of the client after the stop, with the budget of chunks still in the closed output channel *)
Fixpoint c_run_stop (cfg : ccfg) (s : cstate) (w : Z) (evs : list c_event) : option (cstate * Z) :=
  match evs with
  | [] => Some (s, w)
  | e :: evs' =>
    if post_stop_ok w e then
      match c_step cfg s e with
      | Some s' => c_run_stop cfg s' (budget_after w e) evs'
      | None => None
      end
    else None
  end.

(* the variant: stage of the control state, weighted by a bound of the work inside a stage *)
Definition stage (p : cphase) : Z :=
  match p with
  | CCollect (S (S _)) => 8
  | CIdle => 7
  | COpening => 6
  | CRecovery | CNormal | CSending _ | CSent _ => 5
  | CCollect _ => 4
  | CRetryWait => 3
  | CFinal => 2
  | CStopped => 0
  end.

Definition phase_work (p : cphase) : Z :=
  match p with CSending _ => 5 | CSent _ => 4 | _ => 0 end.

Definition acker_work (s : cstate) : Z :=
  2 * zlen (c_achan s) + match c_acker s with ARun => 2 | AWait _ => 3 | AEnded => 0 end.

Definition inner (s : cstate) (w : Z) : Z :=
  7 * zlen (c_left s) + 7 * w + phase_work (c_phase s) + acker_work s.

Definition load (s : cstate) (w : Z) : Z := c_holdings s + w.

Definition variant (s : cstate) (w : Z) : Z := stage (c_phase s) * (7 * load s w + 9) + inner s w.

(* ------------------------------------------------------------------------------------------ *)
(* 4. correspondence                                                                            *)

Definition phase_of (z : Z) : cphase18 :=
  match z with
  | 0 => PIdle | 1 => PWaitAck | 2 => PSending | 3 => PSendingLate | 4 => PConnecting
  | 5 => PConnectingLate | 6 => PRecovery | 7 => PRetryWait | 9 => PHandOver | _ => PStuck
  end.

Definition opt_text (o : option Z) : bytes :=
  match o with Some z => dec_of_Z z | None => [105;110;102]%N (* inf *) end.

(* kind 2 — backlog at the stop (Model/ShutdownBacklog.v).
   zargs: d0 d1 (descriptor, ignored)  n (chunk files at the start)  w (window)  j (stop trigger, ignored)
          k (largest number of select resolutions in favour of the send that is accepted)
          r0 (chunks the consumer received before it saw the stop request)  a (chunks it received afterwards)
          left (chunk files after the shutdown)  stopped (the feeder had stopped when Destroy returned)
          loop (chunks the feeder's main loop took from the queue: recovered - queued_chunks{persistent}; not used
          by the model, which prints its own)
   Of the a chunks received after the consumer saw the stop request, w + 2 can have been sent before it (the window,
   the chunk in the consumer's hand, the send in progress); the others are sends after the stop request:
   need = max 0 (a - (w + 2)).  The model replays  r0 + a - need  chunks before the stop request and  need  after it.
   output: ok:class=<bounded|unbounded>;need=<selects resolved for the send>;fwd=<forwarded after the stop>;
           recv=<received>;left=<chunks left to the cleanup>;loop=<chunks the main loop took from the queue>;
           stopped=<0|1>     or  reject  (the model has no such run) *)
Definition run_backlog_case (c : case) : bytes :=
  let z := zarg c in
  let n := z 2%nat in let w := z 3%nat in let k := z 5%nat in let r0 := z 6%nat in let a := z 7%nat in
  if (n <? 0) || (w <? 0) || (k <? 0) || (r0 <? 0) || (a <? 0) then bad_case_output else
  let need := Z.max 0 (a - (w + 2)) in
  let cfg := FCFG (Z.to_nat w) (Z.to_nat n) false in
  match replay_backlog cfg (Z.to_nat n) (Z.to_nat (r0 + a - need)) (Z.to_nat need) with
  | None => [114;101;106;101;99;116]%N   (* reject *)
  | Some (ch, fwd, taken, saved, loops, st) =>
    let class := if Z.of_nat ch <=? k then [98;111;117;110;100;101;100]%N            (* bounded *)
                 else [117;110;98;111;117;110;100;101;100]%N in                      (* unbounded *)
    str_ok ++ colon :: [99;108;97;115;115;61]%N ++ class
    ++ 59%N :: [110;101;101;100;61]%N ++ dec_of_Z (Z.of_nat ch)
    ++ 59%N :: [102;119;100;61]%N ++ dec_of_Z (Z.of_nat fwd)
    ++ 59%N :: [114;101;99;118;61]%N ++ dec_of_Z (Z.of_nat taken)
    ++ 59%N :: [108;101;102;116;61]%N ++ dec_of_Z (Z.of_nat saved)
    ++ 59%N :: [108;111;111;112;61]%N ++ dec_of_Z (Z.of_nat loops)
    ++ 59%N :: [115;116;111;112;112;101;100;61]%N ++ dec_of_Z (if st then 1 else 0)
  end.

(* zargs: d0 d1 (descriptor, ignored)  phase  t_in t_ch t_bs t_conn t_send t_ack t_ackstop t_retry
          n_conn n_flush n_pipe n_out n_left n_win has_dir worker_live late_abort
   output: ok:bs=<bound of this scenario>;b=<B>;cl=<bound of the client alone>;class=<instant|deadline|never> *)
Definition run_case_C18 (c : case) : bytes :=
  match c_kind c with
  | 1%N =>
    let z := zarg c in
    let ph := phase_of (z 2%nat) in
    let p := PR (z 3%nat) (z 4%nat) (z 5%nat) (z 6%nat) (z 7%nat) (z 8%nat) (z 9%nat) (z 10%nat) in
    let sh := SH (Z.to_nat (z 11%nat)) (Z.to_nat (z 12%nat)) (Z.to_nat (z 13%nat)) (Z.to_nat (z 14%nat))
                 (Z.to_nat (z 15%nat)) (Z.to_nat (z 16%nat)) (negb (z 17%nat =? 0)) (negb (z 18%nat =? 0)) (negb (z 19%nat =? 0)) in
    if negb (params_ok p) then bad_case_output else
    let bs := bnd (agent p sh ph) in
    let cl := bnd (client p sh ph) in
    let class := match bs with
                 | Some 0 => [105;110;115;116;97;110;116]%N               (* instant *)
                 | Some _ => [100;101;97;100;108;105;110;101]%N           (* deadline *)
                 | None => [110;101;118;101;114]%N                        (* never *)
                 end in
    str_ok ++ colon :: [98;115;61]%N ++ opt_text bs ++ 59%N :: [98;61]%N ++ dec_of_Z (B p sh)
    ++ 59%N :: [99;108;61]%N ++ opt_text cl ++ 59%N :: [99;108;97;115;115;61]%N ++ class
  | 2%N => run_backlog_case c
  | 3%N => run_qfull_case c        (* queue full at the stop: Model/ShutdownWaits.v, part A *)
  | 4%N => run_listener_case c     (* connection registering after the stop: part B *)
  | _ => bad_case_output
  end.
