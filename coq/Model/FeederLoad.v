(* Model/FeederLoad.v — C05: the output feeder of a pipeline's hybrid buffer with LOAD FAILURES of spilled chunks
   (buffer/hybridbuffer/outputfeeder.go, bufferer.go, chunkmanager.go).

     bufferer.Accept:        if NumOutput() >= BufferMaxNumChunksInMemory/2 { UnloadOrDropChunk(&chunk) }   (spilled: a file)
                             select { case inputChannel <- chunk: ; default: dropped }
     outputFeeder.Run:       for { chunk := <-inputChannel; loadToOutput(chunk) }
     loadToOutput:           if !chunkMan.LoadOrDropChunk(&chunk) { return true }     <- read error: the chunk is DROPPED
                             outputChannel <- chunk                                      at once, the loop goes on
     consumer:               takes chunks from outputChannel in order and transmits them

   Model/System.v (EFeederLoad _ false) and Model/RecoveryOrder.v (RFeederLoadFail) know the failing load only as
   "the chunk leaves the feeder's hand".  Here the outcome of every load is an input of the run (the fault script is part
   of the event list) and what the feeder DOES with a chunk it could not load is a parameter:

     lg_defer = false   the chunk is given up at once (the code as it is)
              = true    the chunk is put on a feeder-local retry list and tried once more when inputChannel is
                        momentarily empty: nextInput() prefers inputChannel, the retry list is served by the `default`
                        branch of a select (NOT the code in the repository: the seeded change C05/8)

   A chunk is an [rchunk] of Model/RecoveryOrder.v (id and the (connection, sequence number) stamps of its records)
   plus the flag "spilled" (Saved && Data == nil: only such a chunk is read from its file, only its load can fail).
   [l_created] is the creation history: every chunk ever queued or offered to Accept, in that order.
   No proofs in this file.  The last part is the replay used by the correspondence (run_case_C05, kind 9). *)
From Coq Require Import List NArith ZArith Bool Arith PeanoNat.
From SV Require Import Model.Common Model.RecoveryOrder.
Import ListNotations.
Open Scope nat_scope.

Record lchunk := LC { lc_chunk : rchunk; lc_spilled : bool }.

Record lcfg := LCFG {
  lg_qcap : nat;     (* defs.BufferMaxNumChunksInQueue: capacity of inputChannel *)
  lg_wcap : nat;     (* defs.BufferMaxNumChunksInMemory: capacity of outputChannel; 0 = unbuffered (rendezvous) *)
  lg_defer : bool    (* what the feeder does with a chunk that failed to load, see above *)
}.

Record lstate := LS {
  l_queue : list lchunk;             (* inputChannel *)
  l_hand : list (lchunk * bool);     (* the chunk the feeder has taken (at most one) and whether it is a retry *)
  l_retries : list lchunk;           (* feeder-local: failed once, to be tried again (always empty when lg_defer = false) *)
  l_window : list lchunk;            (* outputChannel *)
  l_out : list lchunk;               (* history: chunks taken by the consumer = transmission order, oldest first *)
  l_dropped : list lchunk;           (* history: queue overflow in Accept / load failure in the feeder *)
  l_created : list lchunk;           (* history: creation order *)
  l_clock : nat                      (* the last chunk id handed out *)
}.

(* a buffer that has just been started over a backlog (Start has queued the listing) or over nothing *)
Definition linit (backlog : list lchunk) (clock : nat) : lstate := LS backlog [] [] [] [] [] backlog clock.

Inductive levent :=
| LAccept (c : rchunk) (spill : bool)   (* the pipeline worker closes a chunk: bufferer.Accept *)
| LTake                                  (* the feeder's next input: inputChannel, else (variant) the retry list *)
| LFeed (ok : bool)                      (* loadToOutput: the load succeeds and the chunk enters outputChannel / fails *)
| LConsume.                              (* the consumer receives from outputChannel *)

Definition lid (c : lchunk) : nat := rc_id (lc_chunk c).

Definition lstep (g : lcfg) (s : lstate) (e : levent) : option lstate :=
  match e with
  | LAccept c spill =>
    if Nat.ltb (l_clock s) (rc_id c) then
      let lc := LC c spill in
      if Nat.ltb (length (l_queue s)) (lg_qcap g)
      then Some (LS (l_queue s ++ [lc]) (l_hand s) (l_retries s) (l_window s) (l_out s) (l_dropped s) (l_created s ++ [lc]) (rc_id c))
      else Some (LS (l_queue s) (l_hand s) (l_retries s) (l_window s) (l_out s) (l_dropped s ++ [lc]) (l_created s ++ [lc]) (rc_id c))
    else None
  | LTake =>
    match l_hand s with
    | [] =>
      match l_queue s with
      | c :: rest => Some (LS rest [(c, false)] (l_retries s) (l_window s) (l_out s) (l_dropped s) (l_created s) (l_clock s))
      | [] =>
        if lg_defer g then
          match l_retries s with
          | c :: rest => Some (LS [] [(c, true)] rest (l_window s) (l_out s) (l_dropped s) (l_created s) (l_clock s))
          | [] => None
          end
        else None
      end
    | _ => None
    end
  | LFeed ok =>
    match l_hand s with
    | [(c, retry)] =>
      if ok then
        match lg_wcap g with
        | 0 =>   (* unbuffered channel: the send completes when the consumer receives *)
          match l_window s with
          | [] => Some (LS (l_queue s) [] (l_retries s) [] (l_out s ++ [c]) (l_dropped s) (l_created s) (l_clock s))
          | _ => None
          end
        | _ =>
          if Nat.ltb (length (l_window s)) (lg_wcap g)
          then Some (LS (l_queue s) [] (l_retries s) (l_window s ++ [c]) (l_out s) (l_dropped s) (l_created s) (l_clock s))
          else None
        end
      else if lc_spilled c then
        if lg_defer g && negb retry
        then Some (LS (l_queue s) [] (l_retries s ++ [c]) (l_window s) (l_out s) (l_dropped s) (l_created s) (l_clock s))
        else Some (LS (l_queue s) [] (l_retries s) (l_window s) (l_out s) (l_dropped s ++ [c]) (l_created s) (l_clock s))
      else None   (* a chunk that is in memory is not read from disk *)
    | _ => None
    end
  | LConsume =>
    match l_window s with
    | c :: rest => Some (LS (l_queue s) (l_hand s) (l_retries s) rest (l_out s ++ [c]) (l_dropped s) (l_created s) (l_clock s))
    | [] => None
    end
  end.

Fixpoint lsteps (g : lcfg) (s : lstate) (es : list levent) : option lstate :=
  match es with
  | [] => Some s
  | e :: r => match lstep g s e with Some s' => lsteps g s' r | None => None end
  end.

(* what is on its way to the consumer through the queue, in the order in which it will be handed out *)
Definition lpending (s : lstate) : list lchunk := l_window s ++ map fst (l_hand s) ++ l_queue s.
Definition lchain (s : lstate) : list lchunk := l_out s ++ lpending s.

Definition lids (l : list lchunk) : list nat := map lid l.
Definition ltoks (l : list lchunk) : list (nat * nat) := rtoks (map lc_chunk l).

(* ---------- replay for the correspondence (kind 9) ---------- *)

Definition lnth_chunk (i : nat) : lchunk := LC (nth_chunk i) true.

Definition memnat (x : nat) (l : list nat) : bool := existsb (Nat.eqb x) l.

(* the feeder takes chunk i and loads it (the read fails for the ranks of the fault set); what was loaded is consumed *)
Definition feed_events (w : nat) (hidden : list nat) (i : nat) : list levent :=
  if memnat i hidden then [LTake; LFeed false]
  else match w with 0 => [LTake; LFeed true] | _ => [LTake; LFeed true; LConsume] end.

(* n spilled chunks (mode 0: accepted now, mode 1: the recovered backlog), the fault set, then two newer chunks one
   after the other *)
Definition loadfail_events (mode n w : nat) (hidden : list nat) : list levent :=
  (if Nat.eqb mode 0 then map (fun i => LAccept (nth_chunk i) true) (seq_from 0 n) else [])
  ++ flat_map (feed_events w hidden) (seq_from 0 n)
  ++ LAccept (nth_chunk n) true :: feed_events w [] n
  ++ LAccept (nth_chunk (S n)) true :: feed_events w [] (S n).

Definition str_load : bytes := [111;107;58;108;111;97;100;58]%N.   (* "ok:load:" *)
Definition str_lost : bytes := [59;108;111;115;116;61]%N.          (* ";lost=" *)

Fixpoint fault_ranks (zs : list Z) : option (list (nat * Z)) :=
  match zs with
  | [] => Some []
  | j :: d :: r => match fault_ranks r with Some l => Some ((znat j, d) :: l) | None => None end
  | _ => None
  end.

(* strictly increasing ranks above the window, never the last chunk; delay -1 .. 64 *)
Fixpoint faults_ok (lo n : nat) (l : list (nat * Z)) : bool :=
  match l with
  | [] => true
  | (j, d) :: r => Nat.ltb lo j && Nat.ltb (S j) n && (-1 <=? d)%Z && (d <=? 64)%Z && faults_ok j n r
  end.

(* kind 9: Z = seed, n, window, mode, then (rank, delay) pairs; the delays time the end of the fault in the harness
   and do not matter to a feeder that gives a chunk up at once *)
Definition run_loadfail_case_with (defer : bool) (zs : list Z) : bytes :=
  match zs with
  | _ :: n :: w :: mode :: fz =>
    if ((1 <=? n) && (n <=? 5000) && (0 <=? w) && (w <=? 4096) && (0 <=? mode) && (mode <=? 1)
        && ((mode =? 1) || (w <=? 1)) && forallb (fun z => (-1 <=? z) && (z <=? 5000)) fz)%Z then
      match fault_ranks fz with
      | Some fl =>
        let n' := znat n in let w' := znat w in
        if faults_ok w' n' fl then
          let g := LCFG (n' + 64) w' defer in
          let start := if Nat.eqb (znat mode) 0 then linit [] 0 else linit (map lnth_chunk (seq_from 0 n')) n' in
          match lsteps g start (loadfail_events (znat mode) n' w' (map fst fl)) with
          | Some s => str_load ++ render_ranges (map (fun c => pred (lid c)) (l_out s)) ++ str_lost
                      ++ rdec (length (l_created s) - length (l_out s))
          | None => str_sched
          end
        else bad_case_output
      | None => bad_case_output
      end
    else bad_case_output
  | _ => bad_case_output
  end.

Definition run_loadfail_case : list Z -> bytes := run_loadfail_case_with false.
