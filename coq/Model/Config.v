(* C16 - model of the configuration loader's decision logic.

   AST of a configuration file (every site that references a schema field or carries an
   expression), [verify] = run.ParseConfigFile with every VerifyConfig it calls (same order:
   the first error wins), [construct] = the New*/Must* constructors run when inputs,
   orchestrator and pipelines are created (their panic / logger.Panic / Fatalf sites are
   [Panic site]), [run_record] = one record through the constructed objects (only what can
   panic depending on construction is modelled exactly; what regexp, glob, the e-mail
   redactor, the unescaper and the UTF-8 cleaner compute enters through [externals]),
   [refs] = every reference site of the file.

   The model mirrors the code AFTER the fix: commits of the C16 branch; [quirks] switches each
   repaired defect back on, so that the behaviour of the original code is still a value of
   the same functions ([original_quirks]) and the defects are theorems ([..._refuted]).
   No proofs in this file. *)
From SV Require Import Model.Common Model.ConfigTemplate Model.ConfigExtractor.
Open Scope Z_scope.

(* ================================================================ AST *)

(* an int-typed YAML scalar: the decoded value, or a text yaml.v3 cannot decode into an int *)
Inductive num := NumOk (z : Z) | NumBad.
(* a quantity with its own text syntax (datasize.ByteSize in bytes, time.Duration in ns) *)
Inductive big := BigOk (n : N) | BigBad.

Inductive mop := MAny | MEq | MNot | MStart | MEnd | MContain | MGlob | MRegex | MGt | MLt
               | MUnknownTag   (* a YAML tag valueMatch.UnmarshalYAML does not know *)
               | MNull.        (* null value: UnmarshalYAML is not called, match stays nil *)

Record mentry := { me_key : bytes; me_op : mop; me_expr : bytes;
                   me_lib_ok : bool (* glob.Compile / regexp.Compile accept the expression *) }.
Definition matcher := list mentry.

Inductive transform :=
| TAddFields (fields : list (bytes * bytes))          (* destination key, template *)
| TBlock (steps : tlist)
| TDelFields (keys : list bytes)
| TDrop (m : matcher) (pct : num) (label : bytes)
| TExtract (key pattern : bytes) (re : option (list bytes))   (* regexp.Compile: None = error, Some = SubexpNames() *)
| TExtractSpecial (pos : position) (key pattern : bytes) (maxlen : num) (dest : bytes)
| TIf (m : matcher) (then_ : tlist)
| TMapValue (key : bytes) (mapping : list (bytes * bytes)) (default : bytes)
| TParseTime (key label : bytes)
| TRedactEmail (key label : bytes)
| TReplace (key pattern : bytes) (re_ok : bool) (replacement : bytes)
| TSwitch (cases : clist)
| TTruncate (key : bytes) (maxlen : num) (suffix : bytes)
| TUnescape (key : bytes)
| TUnknown                                           (* type missing or not registered *)
with tlist := TNil | TCons (t : transform) (ts : tlist)
with clist := CNil | CCons (m : matcher) (then_ : tlist) (cs : clist).

Inductive rewriter := RwCopy | RwInline (field : bytes) | RwUnescape | RwUnknown.

Inductive output :=
| OFluentd (env hidden : list bytes) (rewrites : list (bytes * list rewriter)) (mode addr : bytes)
           (addr_ok : bool (* net.SplitHostPort *)) (maxdur : big)
| ODatadog (hidden : list bytes) (addr : bytes) (url_ok : bool (* http.NewRequest *)) (timeout : big)
| OUnknown
| OMissing.   (* key absent: the config holder keeps a nil interface *)

Inductive buffer := BHybrid (root : bytes) (size : big) | BUnknown | BMissing.

Record pair := { p_name : bytes; p_buffer : buffer; p_output : output }.

Inductive input :=
| ISyslog (addr : bytes) (addr_ok : bool) (levels : list bytes) (extractions : tlist)
| IUnknown.

Inductive orchestration :=
| OrByKeySet (keys : list bytes) (tag : bytes)
| OrSingleton (tag : bytes)
| OrUnknown
| OrMissing.

Record config := {
  c_damage : bytes;          (* non-empty: a YAML-level damage (unknown key, wrong node kind) *)
  c_fields : list bytes;
  c_maxfields : num;
  c_inputs : list input;
  c_orch : orchestration;
  c_metric_keys : list bytes;
  c_transforms : tlist;
  c_pairs : list pair
}.

(* each repaired defect can be switched back on *)
Record quirks := {
  q_extract_checks_key : bool;     (* textract.VerifyConfig looked up c.Key for every capture *)
  q_fluentd_fields_unchecked : bool; (* fluentdforward: environmentFields / hiddenFields not validated *)
  q_template_atoi_panics : bool;   (* stringtemplate: panic(err) on a slice bound out of int range *)
  q_special_split_only : bool;     (* textractspecial.VerifyConfig only called splitPattern; no bounded rule *)
  q_datadog_url_unchecked : bool;  (* datadog: address not parsed by VerifyConfig *)
  q_datadog_hidden_unchecked : bool;
  q_nil_orchestration : bool;      (* ParseConfigFile called VerifyConfig on the nil orchestration config *)
  q_nil_pair_parts : bool;         (* OutputBufferConfig.VerifyConfig on a nil buffer / output config *)
  q_labels_unchecked : bool;       (* orchestration keys / metricKeys not checked as metric label names *)
  q_no_outputs_accepted : bool     (* an empty outputBufferPairs was accepted *)
}.

Definition fixed_quirks : quirks :=
  {| q_extract_checks_key := false; q_fluentd_fields_unchecked := false; q_template_atoi_panics := false;
     q_special_split_only := false; q_datadog_url_unchecked := false; q_datadog_hidden_unchecked := false;
     q_nil_orchestration := false; q_nil_pair_parts := false; q_labels_unchecked := false;
     q_no_outputs_accepted := false |}.

Definition original_quirks : quirks :=
  {| q_extract_checks_key := true; q_fluentd_fields_unchecked := true; q_template_atoi_panics := true;
     q_special_split_only := true; q_datadog_url_unchecked := true; q_datadog_hidden_unchecked := true;
     q_nil_orchestration := true; q_nil_pair_parts := true; q_labels_unchecked := true;
     q_no_outputs_accepted := true |}.

(* ================================================================ small helpers *)

Definition is_nil {A} (l : list A) : bool := match l with [] => true | _ => false end.

(* slices.Index *)
Fixpoint locate_from (names : list bytes) (name : bytes) (pos : nat) : option nat :=
  match names with
  | [] => None
  | x :: r => if bytes_eqb x name then Some pos else locate_from r name (S pos)
  end.
Definition locate (names : list bytes) (name : bytes) : option nat := locate_from names name 0%nat.

Definition mem (name : bytes) (l : list bytes) : bool := existsb (bytes_eqb name) l.

Fixpoint nodupb (l : list bytes) : bool :=
  match l with
  | [] => true
  | x :: r => negb (mem x r) && nodupb r
  end.

Definition num_val (n : num) : Z := match n with NumOk z => z | NumBad => 0 end.
Definition num_ok (n : num) : bool := match n with NumOk _ => true | NumBad => false end.
Definition big_val (b : big) : N := match b with BigOk n => n | BigBad => 0%N end.
Definition big_ok (b : big) : bool := match b with BigOk _ => true | BigBad => false end.

(* error values (numbers are only names) *)
Definition err_yaml : N := 1.
Definition err_schema : N := 2.
Definition err_unknown_field : N := 3.
Definition err_empty : N := 4.
Definition err_range : N := 5.
Definition err_pattern : N := 6.
Definition err_match_value : N := 7.
Definition err_rewriter_order : N := 8.
Definition err_mode : N := 9.
Definition err_address : N := 10.
Definition err_levels : N := 11.
Definition err_metric_key_dup : N := 12.
Definition err_pair_dup : N := 13.
Definition err_undefined : N := 14.
Definition err_label_name : N := 15.

(* schema.CreateFieldLocator as a check *)
Definition check_field (sch : list bytes) (name : bytes) : outcome unit :=
  match locate sch name with Some _ => Ok tt | None => Err err_unknown_field end.

Fixpoint check_fields (sch : list bytes) (names : list bytes) : outcome unit :=
  match names with
  | [] => Ok tt
  | n :: r => let* _ := check_field sch n in check_fields sch r
  end.

(* "key is unspecified" then CreateFieldLocator *)
Definition check_key (sch : list bytes) (name : bytes) : outcome unit :=
  let* _ := check (negb (is_nil name)) err_empty in check_field sch name.

(* base.VerifyMetricKeyFields: [a-zA-Z0-9_]* and no repetition *)
Definition label_name_ok (name : bytes) : bool := forallb is_word name.

Fixpoint check_label_fields (names : list bytes) (seen : list bytes) : outcome unit :=
  match names with
  | [] => Ok tt
  | n :: r =>
    let* _ := check (label_name_ok n) err_label_name in
    let* _ := check (negb (mem n seen)) err_metric_key_dup in
    check_label_fields r (n :: seen)
  end.

(* ================================================================ YAML-level acceptance *)

(* what util.UnmarshalYamlFile rejects, as far as the AST shows it *)
Definition mentry_decodes (e : mentry) : bool :=
  match me_op e with
  | MAny => is_nil (me_expr e)
  | MEq | MNot | MStart | MEnd | MContain => negb (is_nil (me_expr e))
  | MGlob | MRegex => me_lib_ok e
  | MGt | MLt => match atoi (me_expr e) with Some _ => true | None => false end
  | MUnknownTag => false
  | MNull => true
  end.

Definition matcher_decodes (m : matcher) : bool :=
  forallb mentry_decodes m && nodupb (map me_key m).

Fixpoint transform_decodes (t : transform) : bool :=
  match t with
  | TAddFields fields => nodupb (map fst fields)
  | TBlock steps => tlist_decodes steps
  | TDelFields _ => true
  | TDrop m pct _ => matcher_decodes m && num_ok pct
  | TExtract _ _ _ => true
  | TExtractSpecial _ _ _ maxlen _ => num_ok maxlen
  | TIf m then_ => matcher_decodes m && tlist_decodes then_
  | TMapValue _ mapping _ => nodupb (map fst mapping)
  | TParseTime _ _ | TRedactEmail _ _ => true
  | TReplace _ _ _ _ => true
  | TSwitch cases => clist_decodes cases
  | TTruncate _ maxlen _ => num_ok maxlen
  | TUnescape _ => true
  | TUnknown => false
  end
with tlist_decodes (l : tlist) : bool :=
  match l with
  | TNil => true
  | TCons t ts => transform_decodes t && tlist_decodes ts
  end
with clist_decodes (l : clist) : bool :=
  match l with
  | CNil => true
  | CCons m then_ cs => matcher_decodes m && tlist_decodes then_ && clist_decodes cs
  end.

Definition rewriter_decodes (r : rewriter) : bool := match r with RwUnknown => false | _ => true end.

Definition output_decodes (o : output) : bool :=
  match o with
  | OFluentd _ _ rewrites _ _ _ maxdur =>
    nodupb (map fst rewrites) && forallb (fun fr => forallb rewriter_decodes (snd fr)) rewrites && big_ok maxdur
  | ODatadog _ _ _ timeout => big_ok timeout
  | OUnknown => false
  | OMissing => true
  end.

Definition buffer_decodes (b : buffer) : bool :=
  match b with BHybrid _ size => big_ok size | BUnknown => false | BMissing => true end.

Definition input_decodes (i : input) : bool :=
  match i with ISyslog _ _ _ ex => tlist_decodes ex | IUnknown => false end.

Definition orch_decodes (o : orchestration) : bool := match o with OrUnknown => false | _ => true end.

Definition config_decodes (c : config) : bool :=
  is_nil (c_damage c) && num_ok (c_maxfields c) && forallb input_decodes (c_inputs c) && orch_decodes (c_orch c)
  && tlist_decodes (c_transforms c)
  && forallb (fun p => buffer_decodes (p_buffer p) && output_decodes (p_output p)) (c_pairs c).

(* ================================================================ verify *)

Section Verify.
Variable q : quirks.

(* stringtemplate.NewExpander as used for verification *)
Definition check_template (scope : list bytes) (t : bytes) : outcome unit :=
  let* _ := new_expander (q_template_atoi_panics q) (locate scope) t in Ok tt.

(* bmatch.LogMatcherConfig.VerifyConfig *)
Fixpoint verify_matcher (sch : list bytes) (m : matcher) : outcome unit :=
  match m with
  | [] => Ok tt
  | e :: r =>
    let* _ := check_field sch (me_key e) in
    let* _ := check (match me_op e with MNull => false | _ => true end) err_match_value in
    verify_matcher sch r
  end.

(* "len(match) == 0" then Match.VerifyConfig *)
Definition verify_match (sch : list bytes) (m : matcher) : outcome unit :=
  let* _ := check (negb (is_nil m)) err_empty in verify_matcher sch m.

Fixpoint verify_addfields (sch : list bytes) (fields : list (bytes * bytes)) : outcome unit :=
  match fields with
  | [] => Ok tt
  | (k, tmpl) :: r =>
    let* _ := check_field sch k in
    let* _ := check_template sch tmpl in
    verify_addfields sch r
  end.

(* the loop over re.SubexpNames() of textract.VerifyConfig *)
Fixpoint verify_captures (sch : list bytes) (key : bytes) (names : list bytes) : outcome unit :=
  match names with
  | [] => Ok tt
  | n :: r =>
    let* _ := if q_extract_checks_key q then check_field sch key
              else if is_nil n then Ok tt else check_field sch n in
    verify_captures sch key r
  end.

(* the pattern check of textractspecial.VerifyConfig *)
Definition verify_special_pattern (pos : position) (pattern : bytes) (maxlen : Z) : outcome unit :=
  if q_special_split_only q
  then match split_pattern pattern with Ok _ => Ok tt | Err _ => Err err_pattern | Panic s => Panic s end
  else match new_string_extractor_simple true pos pattern maxlen with Ok _ => Ok tt | Err _ => Err err_pattern | Panic s => Panic s end.

Fixpoint verify_t (sch : list bytes) (t : transform) : outcome unit :=
  match t with
  | TAddFields fields =>
    let* _ := check (negb (is_nil fields)) err_empty in verify_addfields sch fields
  | TBlock steps =>
    let* _ := check (match steps with TNil => false | _ => true end) err_empty in verify_tl sch steps
  | TDelFields keys =>
    let* _ := check (negb (is_nil keys)) err_empty in check_fields sch keys
  | TDrop m pct label =>
    let* _ := verify_match sch m in
    let* _ := check ((1 <=? num_val pct) && (num_val pct <=? 100)) err_range in
    check (negb (is_nil label)) err_empty
  | TExtract key pattern re =>
    let* _ := check_key sch key in
    let* _ := check (negb (is_nil pattern)) err_empty in
    match re with
    | None => Err err_pattern
    | Some names => verify_captures sch key names
    end
  | TExtractSpecial pos key pattern maxlen dest =>
    let* _ := check_key sch key in
    let* _ := check (negb (is_nil pattern)) err_empty in
    let* _ := verify_special_pattern pos pattern (num_val maxlen) in
    let* _ := check (0 <? num_val maxlen) err_range in
    check_key sch dest
  | TIf m then_ =>
    let* _ := verify_match sch m in
    let* _ := check (match then_ with TNil => false | _ => true end) err_empty in
    verify_tl sch then_
  | TMapValue key mapping _ =>
    let* _ := check_key sch key in check (negb (is_nil mapping)) err_empty
  | TParseTime key label =>
    let* _ := check_key sch key in check (negb (is_nil label)) err_empty
  | TRedactEmail key label =>
    let* _ := check_key sch key in check (negb (is_nil label)) err_empty
  | TReplace key pattern re_ok _ =>
    let* _ := check_key sch key in
    let* _ := check (negb (is_nil pattern)) err_empty in
    check re_ok err_pattern
  | TSwitch cases =>
    let* _ := check (match cases with CNil => false | _ => true end) err_empty in verify_cl sch cases
  | TTruncate key maxlen suffix =>
    let* _ := check_key sch key in
    let* _ := check (0 <? num_val maxlen) err_range in
    check (negb (is_nil suffix)) err_empty
  | TUnescape key => check_key sch key
  | TUnknown => Err err_yaml
  end
with verify_tl (sch : list bytes) (l : tlist) : outcome unit :=      (* bsupport.VerifyTransformConfigs *)
  match l with
  | TNil => Ok tt
  | TCons t ts => let* _ := verify_t sch t in verify_tl sch ts
  end
with verify_cl (sch : list bytes) (l : clist) : outcome unit :=      (* the loop over tswitch cases *)
  match l with
  | CNil => Ok tt
  | CCons m then_ cs =>
    let* _ := verify_match sch m in
    let* _ := check (match then_ with TNil => false | _ => true end) err_empty in
    let* _ := verify_tl sch then_ in
    verify_cl sch cs
  end.

(* bsupport.VerifyRewriterConfigs: hasNext = (i < last) *)
Fixpoint verify_rewriters (sch : list bytes) (l : list rewriter) : outcome unit :=
  match l with
  | [] => Ok tt
  | r :: rest =>
    let has_next := negb (is_nil rest) in
    let* _ := match r with
              | RwCopy | RwUnescape => check (negb has_next) err_rewriter_order
              | RwInline field =>
                let* _ := check has_next err_rewriter_order in check_key sch field
              | RwUnknown => Err err_yaml
              end in
    verify_rewriters sch rest
  end.

Fixpoint verify_rewrite_fields (sch : list bytes) (l : list (bytes * list rewriter)) : outcome unit :=
  match l with
  | [] => Ok tt
  | (field, rws) :: rest =>
    let* _ := check_field sch field in
    let* _ := verify_rewriters sch rws in
    verify_rewrite_fields sch rest
  end.

Definition mode_forward : bytes := [70;111;114;119;97;114;100]%N.
Definition mode_packed : bytes := [80;97;99;107;101;100;70;111;114;119;97;114;100]%N.
Definition mode_compressed : bytes := [67;111;109;112;114;101;115;115;101;100;80;97;99;107;101;100;70;111;114;119;97;114;100]%N.
Definition mode_known (m : bytes) : bool := bytes_eqb m mode_forward || bytes_eqb m mode_packed || bytes_eqb m mode_compressed.

Definition verify_output (sch : list bytes) (o : output) : outcome unit :=
  match o with
  | OFluentd env hidden rewrites mode addr addr_ok maxdur =>
    let* _ := check (negb (is_nil env)) err_empty in
    let* _ := if q_fluentd_fields_unchecked q then Ok tt
              else let* _ := check_fields sch env in check_fields sch hidden in
    let* _ := verify_rewrite_fields sch rewrites in
    let* _ := check (negb (is_nil mode)) err_empty in
    let* _ := check (mode_known mode) err_mode in
    let* _ := check (negb (is_nil addr)) err_empty in
    let* _ := check addr_ok err_address in
    check (negb (big_val maxdur =? 0)%N) err_empty
  | ODatadog hidden addr url_ok timeout =>
    let* _ := if q_datadog_hidden_unchecked q then Ok tt else check_fields sch hidden in
    let* _ := check (negb (is_nil addr)) err_empty in
    let* _ := if q_datadog_url_unchecked q then Ok tt else check url_ok err_address in
    check (negb (big_val timeout =? 0)%N) err_empty
  | OUnknown => Err err_yaml
  | OMissing => if q_nil_pair_parts q then Panic site_nil_config else Err err_undefined
  end.

Definition verify_buffer (b : buffer) : outcome unit :=
  match b with
  | BHybrid root size =>
    let* _ := check (negb (is_nil root)) err_empty in check (negb (big_val size =? 0)%N) err_empty
  | BUnknown => Err err_yaml
  | BMissing => if q_nil_pair_parts q then Panic site_nil_config else Err err_undefined
  end.

(* bconfig.OutputBufferConfig.VerifyConfig *)
Definition verify_pair (sch : list bytes) (p : pair) : outcome unit :=
  let* _ := if q_nil_pair_parts q then Ok tt else
            let* _ := check (match p_buffer p with BMissing => false | _ => true end) err_undefined in
            check (match p_output p with OMissing => false | _ => true end) err_undefined in
  let* _ := verify_buffer (p_buffer p) in
  verify_output sch (p_output p).

Fixpoint verify_pairs (sch : list bytes) (seen : list bytes) (l : list pair) : outcome unit :=
  match l with
  | [] => Ok tt
  | p :: rest =>
    let* _ := check (negb (mem (p_name p) seen)) err_pair_dup in
    let* _ := verify_pair sch p in
    verify_pairs sch (p_name p :: seen) rest
  end.

(* syslogparser.NewParser: the checks that can fail *)
Definition syslog_required : list bytes :=
  [ [102;97;99;105;108;105;116;121]; [108;101;118;101;108]; [116;105;109;101]; [104;111;115;116]; [97;112;112];
    [112;105;100]; [115;111;117;114;99;101]; [101;120;116;114;97;100;97;116;97]; [108;111;103] ]%N.
    (* facility level time host app pid source extradata log *)

Definition syslog_parser_check (sch levels : list bytes) : outcome unit :=
  let* _ := check (is_nil levels || Nat.eqb (length levels) 8%nat) err_levels in
  check_fields sch syslog_required.

(* sysloginput.Config.VerifyConfig *)
Definition verify_input (sch : list bytes) (i : input) : outcome unit :=
  match i with
  | ISyslog _ addr_ok levels ex =>
    let* _ := check addr_ok err_address in
    let* _ := check (negb (is_nil levels)) err_empty in
    let* _ := check (match ex with TNil => false | _ => true end) err_empty in
    let* _ := syslog_parser_check sch levels in
    verify_tl sch ex
  | IUnknown => Err err_yaml
  end.

Fixpoint verify_inputs (sch : list bytes) (l : list input) : outcome unit :=
  match l with
  | [] => Ok tt
  | i :: r => let* _ := verify_input sch i in verify_inputs sch r
  end.

(* obase.NewTagBuilder as a check: variables are resolved among the key names *)
Definition verify_orch (sch : list bytes) (o : orchestration) : outcome (list bytes) :=
  match o with
  | OrByKeySet keys tag =>
    let* _ := check (negb (is_nil keys)) err_empty in
    let* _ := check_fields sch keys in
    let* _ := if q_labels_unchecked q then Ok tt else check_label_fields keys [] in
    let* _ := check (negb (is_nil tag)) err_empty in
    let* _ := check_template keys tag in
    Ok keys
  | OrSingleton tag =>
    let* _ := check (negb (is_nil tag)) err_empty in
    let* _ := check_template [] tag in
    Ok []
  | OrUnknown => Err err_yaml
  | OrMissing => if q_nil_orchestration q then Panic site_nil_config else Err err_undefined
  end.

(* run.checkAndCreateSchema + base.NewLogSchema *)
Fixpoint schema_names_ok (names seen : list bytes) : bool :=
  match names with
  | [] => true
  | n :: r => negb (is_nil n) && negb (mem n seen) && schema_names_ok r (n :: seen)
  end.

Definition verify_schema (c : config) : outcome unit :=
  let* _ := check (negb (is_nil (c_fields c))) err_schema in
  let* _ := check (negb (num_val (c_maxfields c) =? 0)) err_schema in
  let* _ := check (Z.of_nat (length (c_fields c)) <=? num_val (c_maxfields c)) err_schema in
  check (schema_names_ok (c_fields c) []) err_schema.

(* run.checkMetricKeys *)
Definition verify_metric_keys (sch orc_keys keys : list bytes) : outcome unit :=
  let* _ := check (negb (is_nil keys)) err_empty in
  let* _ := check_fields sch keys in
  let* _ := if q_labels_unchecked q then Ok tt else check_label_fields keys [] in
  check (negb (existsb (fun k => mem k orc_keys) keys)) err_metric_key_dup.

(* run.ParseConfigFile *)
Definition verify (c : config) : outcome unit :=
  let* _ := check (config_decodes c) err_yaml in
  let* _ := verify_schema c in
  let sch := c_fields c in
  let* _ := verify_inputs sch (c_inputs c) in
  let* orc_keys := verify_orch sch (c_orch c) in
  let* _ := verify_metric_keys sch orc_keys (c_metric_keys c) in
  let* _ := verify_tl sch (c_transforms c) in
  let* _ := if q_no_outputs_accepted q then Ok tt else check (negb (is_nil (c_pairs c))) err_empty in
  verify_pairs sch [] (c_pairs c).

End Verify.

(* ================================================================ construct *)

Definition must_locate (sch : list bytes) (name : bytes) : outcome nat :=
  match locate sch name with Some i => Ok i | None => Panic site_must_locator end.

Fixpoint must_locate_all (sch : list bytes) (names : list bytes) : outcome (list nat) :=
  match names with
  | [] => Ok []
  | n :: r => let* i := must_locate sch n in let* l := must_locate_all sch r in Ok (i :: l)
  end.

(* LogProcessCounterSet.RegisterCustomCounter: the index of the label's counter vector, registering it if new *)
Definition register (reg : list bytes) (label : bytes) : nat * list bytes :=
  match locate reg label with
  | Some i => (i, reg)
  | None => (length reg, reg ++ [label])
  end.

Definition rmatcher := list (nat * mop * bytes).

Inductive rtransform :=
| RAddFields (pairs : list (nat * list rpart))
| RBlock (steps : rtlist)
| RDelFields (locs : list nat)
| RDrop (m : rmatcher) (rate : Z) (c_dropped : nat) (c_retained : option nat)
| RExtract (key : nat) (pattern : bytes) (subs : list (option nat))
| RExtractSpecial (src dst : nat) (ex : extractor)
| RIf (m : rmatcher) (then_ : rtlist)
| RMapValue (key : nat) (mapping : list (bytes * bytes)) (default : bytes)
| RParseTime (key cnt : nat)
| RRedactEmail (key cnt : nat)
| RReplace (key : nat) (pattern replacement : bytes)
| RSwitch (cases : rclist)
| RTruncate (key : nat) (maxlen : Z) (suffix : bytes)
| RUnescape (key : nat)
with rtlist := RTNil | RTCons (t : rtransform) (ts : rtlist)
with rclist := RCNil | RCCons (m : rmatcher) (then_ : rtlist) (cs : rclist).

Section Construct.
Variable q : quirks.

(* LogMatcherConfig.NewMatcher (the order by cost is not modelled: it cannot change whether a record panics) *)
Fixpoint construct_matcher (sch : list bytes) (m : matcher) : outcome rmatcher :=
  match m with
  | [] => Ok []
  | e :: r =>
    let* i := must_locate sch (me_key e) in
    let* l := construct_matcher sch r in
    Ok ((i, me_op e, me_expr e) :: l)
  end.

Fixpoint construct_addfields (sch : list bytes) (fields : list (bytes * bytes)) : outcome (list (nat * list rpart)) :=
  match fields with
  | [] => Ok []
  | (k, tmpl) :: r =>
    let* i := must_locate sch k in
    let* parts := match new_expander (q_template_atoi_panics q) (locate sch) tmpl with
                  | Ok p => Ok p
                  | Err _ => Panic site_addfields_tmpl
                  | Panic s => Panic s
                  end in
    let* l := construct_addfields sch r in
    Ok ((i, parts) :: l)
  end.

Fixpoint construct_captures (sch : list bytes) (names : list bytes) : outcome (list (option nat)) :=
  match names with
  | [] => Ok []
  | n :: r =>
    let* x := if is_nil n then Ok None else let* i := must_locate sch n in Ok (Some i) in
    let* l := construct_captures sch r in
    Ok (x :: l)
  end.

(* Config.NewTransform; [reg]: the labels registered so far in the custom counter registry *)
Fixpoint construct_t (sch : list bytes) (reg : list bytes) (t : transform) : outcome (rtransform * list bytes) :=
  match t with
  | TAddFields fields => let* p := construct_addfields sch fields in Ok (RAddFields p, reg)
  | TBlock steps => let* (s, reg') := construct_tl sch reg steps in Ok (RBlock s, reg')
  | TDelFields keys => let* l := must_locate_all sch keys in Ok (RDelFields l, reg)
  | TDrop m pct label =>
    let* rm := construct_matcher sch m in
    let (cd, reg1) := register reg label in
    if num_val pct <? 100
    then let (cr, reg2) := register reg1 (33%N :: label) in Ok (RDrop rm (num_val pct) cd (Some cr), reg2)
    else Ok (RDrop rm (num_val pct) cd None, reg1)
  | TExtract key pattern re =>
    match re with
    | None => Panic site_must_compile
    | Some names =>
      let* subs := construct_captures sch names in
      let* k := must_locate sch key in
      Ok (RExtract k pattern subs, reg)
    end
  | TExtractSpecial pos key pattern maxlen dest =>
    let* ex := match new_string_extractor_simple (negb (q_special_split_only q)) pos pattern (num_val maxlen) with
               | Ok e => Ok e
               | Err _ => Panic site_extractor
               | Panic s => Panic s
               end in
    let* s := must_locate sch key in
    let* d := must_locate sch dest in
    Ok (RExtractSpecial s d ex, reg)
  | TIf m then_ =>
    let* rm := construct_matcher sch m in
    let* (s, reg') := construct_tl sch reg then_ in
    Ok (RIf rm s, reg')
  | TMapValue key mapping default => let* k := must_locate sch key in Ok (RMapValue k mapping default, reg)
  | TParseTime key label =>
    let* k := must_locate sch key in
    let (c, reg') := register reg label in Ok (RParseTime k c, reg')
  | TRedactEmail key label =>
    let* k := must_locate sch key in
    let (c, reg') := register reg label in Ok (RRedactEmail k c, reg')
  | TReplace key pattern re_ok replacement =>
    let* k := must_locate sch key in
    if re_ok then Ok (RReplace k pattern replacement, reg) else Panic site_must_compile
  | TSwitch cases => let* (cs, reg') := construct_cl sch reg cases in Ok (RSwitch cs, reg')
  | TTruncate key maxlen suffix => let* k := must_locate sch key in Ok (RTruncate k (num_val maxlen) suffix, reg)
  | TUnescape key => let* k := must_locate sch key in Ok (RUnescape k, reg)
  | TUnknown => Panic site_nil_config
  end
with construct_tl (sch : list bytes) (reg : list bytes) (l : tlist) : outcome (rtlist * list bytes) :=   (* bsupport.NewTransformsFromConfig *)
  match l with
  | TNil => Ok (RTNil, reg)
  | TCons t ts =>
    let* (rt, reg1) := construct_t sch reg t in
    let* (rts, reg2) := construct_tl sch reg1 ts in
    Ok (RTCons rt rts, reg2)
  end
with construct_cl (sch : list bytes) (reg : list bytes) (l : clist) : outcome (rclist * list bytes) :=
  match l with
  | CNil => Ok (RCNil, reg)
  | CCons m then_ cs =>
    let* rm := construct_matcher sch m in
    let* (s, reg1) := construct_tl sch reg then_ in
    let* (rcs, reg2) := construct_cl sch reg1 cs in
    Ok (RCCons rm s rcs, reg2)
  end.

(* bsupport.NewRewritersFromConfig: built from the last to the first; the chain is returned head first.
   [RInline loc] always has a successor when construction succeeds. *)
Inductive rrewriter := RRCopy | RRUnescape | RRInline (loc : nat).

Fixpoint construct_rewriters (sch : list bytes) (l : list rewriter) : outcome (list rrewriter) :=
  match l with
  | [] => Ok []
  | r :: rest =>
    let* tail := construct_rewriters sch rest in
    match r with
    | RwCopy => if is_nil tail then Ok [RRCopy] else Panic site_rewriter_order
    | RwUnescape => if is_nil tail then Ok [RRUnescape] else Panic site_rewriter_order
    | RwInline field =>
      if is_nil tail then Panic site_rewriter_order
      else let* i := must_locate sch field in Ok (RRInline i :: tail)
    | RwUnknown => Panic site_nil_config
    end
  end.

Inductive rserializer :=
| RSerFluentd (nmask : nat) (env : list nat) (chains : list (list rrewriter))
| RSerDatadog (nmask : nat).

(* chains of the schema fields that have a rewriteFields entry (eventSerializer.fieldRewriters) *)
Fixpoint construct_chains (sch : list bytes) (rewrites : list (bytes * list rewriter)) (names : list bytes) : outcome (list (list rrewriter)) :=
  match names with
  | [] => Ok []
  | n :: r =>
    let* ch := match find (fun fr => bytes_eqb (fst fr) n) rewrites with
               | Some fr => construct_rewriters sch (snd fr)
               | None => Ok []
               end in
    let* l := construct_chains sch rewrites r in
    Ok (ch :: l)
  end.

(* NewSerializer, NewChunkMaker, NewForwarder of an output *)
Definition construct_output (sch : list bytes) (o : output) : outcome rserializer :=
  match o with
  | OFluentd env _ rewrites mode _ _ _ =>
    (* NewEventSerializer: environment locators, then rewriters; MustNewEventSerializer panics on its error *)
    let* envl := match must_locate_all sch env with Ok l => Ok l | _ => Panic site_serializer end in
    let* chains := construct_chains sch rewrites sch in
    let* _ := if mode_known mode then Ok tt else Panic site_message_mode in
    Ok (RSerFluentd (length sch) envl chains)
  | ODatadog _ _ url_ok _ =>
    if url_ok then Ok (RSerDatadog (length sch)) else Panic site_datadog_url
  | OUnknown | OMissing => Panic site_nil_config
  end.

Fixpoint construct_outputs (sch : list bytes) (l : list pair) : outcome (list rserializer) :=
  match l with
  | [] => Ok []
  | p :: r =>
    let* _ := match p_buffer p with BHybrid _ _ => Ok tt | _ => Panic site_nil_config end in
    let* s := construct_output sch (p_output p) in
    let* rest := construct_outputs sch r in
    Ok (s :: rest)
  end.

Inductive rorch :=
| ROrchByKey (locs : list nat) (tag : list rpart)
| ROrchSingle.

(* StartOrchestrator / NewOrchestrator *)
Definition construct_orch (sch : list bytes) (o : orchestration) : outcome rorch :=
  match o with
  | OrByKeySet keys tag =>
    let* locs := match must_locate_all sch keys with Ok l => Ok l | _ => Panic site_orch_keys end in
    let* parts := match new_expander (q_template_atoi_panics q) (locate keys) tag with
                  | Ok p => Ok p
                  | Err _ => Panic site_orch_tag
                  | Panic s => Panic s
                  end in
    Ok (ROrchByKey locs parts)
  | OrSingleton _ => Ok ROrchSingle
  | OrUnknown | OrMissing => Panic site_nil_config
  end.

(* an input: the per-connection parser (syslogparser.NewParser, logger.Panic on error) and the extraction
   transforms, whose custom counters live in the input's own registry *)
Definition construct_input (sch : list bytes) (i : input) : outcome (rtlist * nat) :=
  match i with
  | ISyslog _ _ levels ex =>
    let* _ := match syslog_parser_check sch levels with Ok _ => Ok tt | _ => Panic site_parser end in
    let* (rts, reg) := construct_tl sch [] ex in
    Ok (rts, length reg)
  | IUnknown => Panic site_nil_config
  end.

Fixpoint construct_inputs (sch : list bytes) (l : list input) : outcome (list (rtlist * nat)) :=
  match l with
  | [] => Ok []
  | i :: r => let* x := construct_input sch i in let* rest := construct_inputs sch r in Ok (x :: rest)
  end.

Record pipeline := {
  pl_nfields : Z;                           (* len(record.Fields) = schema.maxFields *)
  pl_inputs : list (rtlist * nat);          (* extraction transforms and the size of their counter registry *)
  pl_orch : rorch;
  pl_metric_locs : list nat;
  pl_transforms : rtlist;
  pl_ncounters : nat;                       (* len(customCounterVecMap) when records start to flow *)
  pl_outputs : list rserializer;
  pl_labels_ok : bool                       (* the key fields are valid, distinct metric label names *)
}.

Definition labels_ok (names : list bytes) : bool :=
  match check_label_fields names [] with Ok _ => true | _ => false end.

Definition orch_keys (o : orchestration) : list bytes :=
  match o with OrByKeySet keys _ => keys | _ => [] end.

(* everything NewLoaderFromConfigFile, LaunchInputs, StartOrchestrator and the first pipeline build *)
Definition construct (c : config) : outcome pipeline :=
  let sch := c_fields c in
  let* ins := construct_inputs sch (c_inputs c) in
  let* mlocs := must_locate_all sch (c_metric_keys c) in
  let* orch := construct_orch sch (c_orch c) in
  let* outs := construct_outputs sch (c_pairs c) in
  let* (rts, reg) := construct_tl sch [] (c_transforms c) in
  (* the metric registry panics on an invalid or repeated label name: when a custom counter vector is
     registered (construction of the transforms), else when the first pipeline / first record registers its metrics *)
  let mk_ok := labels_ok (c_metric_keys c) in
  let* _ := if negb mk_ok && negb (is_nil reg) then Panic site_metric_label else Ok tt in
  Ok {| pl_nfields := num_val (c_maxfields c); pl_inputs := ins; pl_orch := orch; pl_metric_locs := mlocs;
        pl_transforms := rts; pl_ncounters := length reg; pl_outputs := outs;
        pl_labels_ok := mk_ok && labels_ok (orch_keys (c_orch c))
                        && negb (existsb (fun k => mem k (orch_keys (c_orch c))) (c_metric_keys c)) |}.

End Construct.

(* ================================================================ run *)

(* what the libraries compute; the theorems hold for every choice (with [ext_wf] where stated) *)
Record externals := {
  x_regex_find : bytes -> nat -> bytes -> option (list Z);   (* FindStringSubmatchIndex of the pattern (with n groups incl. group 0) on the value *)
  x_regex_replace : bytes -> bytes -> bytes -> bytes;
  x_regex_match : bytes -> bytes -> bool;
  x_glob_match : bytes -> bytes -> bool;
  x_redact : bytes -> option bytes;                   (* Some = at least one address redacted *)
  x_unescape : bytes -> bytes;
  x_time_ok : bytes -> bool;
  x_clean_len : bytes -> nat;                         (* len(util.CleanUTF8(s)) *)
  x_drop_choice : Z -> list bytes -> bool             (* the sampler of the drop transform *)
}.

Definition fields := list bytes.

Fixpoint fset (f : fields) (i : nat) (v : bytes) : outcome fields :=
  match f, i with
  | [], _ => Panic site_field_index
  | _ :: r, O => Ok (v :: r)
  | x :: r, S i' => let* r' := fset r i' v in Ok (x :: r')
  end.

(* the closure returned by RegisterCustomCounter: currentCustomCounters[index] *)
Definition ccall (ncounters idx : nat) : outcome unit :=
  if Nat.ltb idx ncounters then Ok tt else Panic site_counter_index.

Section Run.
Variable x : externals.

Definition match_value (op : mop) (expr v : bytes) : outcome bool :=
  match op with
  | MAny => Ok (negb (is_nil v))
  | MEq => Ok (bytes_eqb v expr)
  | MNot => Ok (negb (bytes_eqb v expr))
  | MStart => Ok (is_prefix expr v)
  | MEnd => Ok (has_suffix v expr)
  | MContain => Ok (match index_of v expr 0%nat with Some _ => true | None => false end)
  | MGlob => Ok (x_glob_match x expr v)
  | MRegex => Ok (x_regex_match x expr v)
  | MGt => Ok (match atoi expr with Some n => Z.of_nat (length v) >? n | None => false end)
  | MLt => Ok (match atoi expr with Some n => Z.of_nat (length v) <? n | None => false end)
  | MUnknownTag | MNull => Panic site_nil_func
  end.

Fixpoint run_matcher (m : rmatcher) (f : fields) : outcome bool :=
  match m with
  | [] => Ok true
  | (loc, op, expr) :: r =>
    let* v := fget f loc in
    let* b := match_value op expr v in
    if b then run_matcher r f else Ok false
  end.

Fixpoint run_addfields (pairs : list (nat * list rpart)) (f : fields) : outcome fields :=
  match pairs with
  | [] => Ok f
  | (dst, parts) :: r =>
    let* v := expand f parts in
    let* f' := if is_nil v then Ok f else fset f dst v in
    run_addfields r f'
  end.

Fixpoint run_delfields (locs : list nat) (f : fields) : outcome fields :=
  match locs with
  | [] => Ok f
  | l :: r => let* f' := fset f l [] in run_delfields r f'
  end.

Definition zidx (l : list Z) (i : nat) : outcome Z :=
  match nth_error l i with Some z => Ok z | None => Panic site_submatch_index end.

Fixpoint run_captures (subs : list (option nat)) (i : nat) (idxs : list Z) (v : bytes) (f : fields) : outcome fields :=
  match subs with
  | [] => Ok f
  | s :: r =>
    let* f' := match s with
               | None => Ok f
               | Some loc =>
                 let* a := zidx idxs (2 * i)%nat in
                 let* b := zidx idxs (2 * i + 1)%nat in
                 if (a <? 0) || (b <? 0) then Ok f
                 else let* sub := slice_z v a b in fset f loc sub
               end in
    run_captures r (S i) idxs v f'
  end.

Fixpoint lookup (mapping : list (bytes * bytes)) (k : bytes) : option bytes :=
  match mapping with
  | [] => None
  | (a, b) :: r => if bytes_eqb a k then Some b else lookup r k
  end.

(* the result: the fields and PASS (true) / DROP (false) *)
Fixpoint run_t (nc : nat) (t : rtransform) (f : fields) : outcome (fields * bool) :=
  match t with
  | RAddFields pairs => let* f' := run_addfields pairs f in Ok (f', true)
  | RBlock steps => run_tl nc steps f
  | RDelFields locs => let* f' := run_delfields locs f in Ok (f', true)
  | RDrop m rate cd cr =>
    let* matched := run_matcher m f in
    if negb matched then Ok (f, true)
    else if rate =? 100 then let* _ := ccall nc cd in Ok (f, false)
    else if x_drop_choice x rate f then let* _ := ccall nc cd in Ok (f, false)
    else match cr with
         | Some i => let* _ := ccall nc i in Ok (f, true)
         | None => Panic site_nil_func
         end
  | RExtract key pattern subs =>
    let* v := fget f key in
    match x_regex_find x pattern (length subs) v with
    | None => Ok (f, true)
    | Some idxs => let* f' := run_captures subs 0%nat idxs v f in Ok (f', true)
    end
  | RExtractSpecial src dst ex =>
    let* v := fget f src in
    if is_nil v then Ok (f, true) else
    let* (label, rest) := extract ex v in
    if Nat.eqb (length rest) (length v) then Ok (f, true)
    else let* f1 := fset f src rest in let* f2 := fset f1 dst label in Ok (f2, true)
  | RIf m then_ =>
    let* matched := run_matcher m f in
    if matched then run_tl nc then_ f else Ok (f, true)
  | RMapValue key mapping default =>
    let* v := fget f key in
    if is_nil v then Ok (f, true) else
    let nv := match lookup mapping v with Some b => b | None => default end in
    let* f' := fset f key nv in Ok (f', true)
  | RParseTime key cnt =>
    let* v := fget f key in
    if is_nil v then Ok (f, true)
    else if x_time_ok x v then Ok (f, true)
    else let* _ := ccall nc cnt in Ok (f, true)
  | RRedactEmail key cnt =>
    let* v := fget f key in
    if is_nil v then Ok (f, true) else
    match x_redact x v with
    | None => Ok (f, true)
    | Some v' => let* f' := fset f key v' in let* _ := ccall nc cnt in Ok (f', true)
    end
  | RReplace key pattern replacement =>
    let* v := fget f key in
    if is_nil v then Ok (f, true)
    else let* f' := fset f key (x_regex_replace x pattern v replacement) in Ok (f', true)
  | RSwitch cases => run_cl nc cases f
  | RTruncate key maxlen suffix =>
    let* v := fget f key in
    if Z.of_nat (length v) >? maxlen + Z.of_nat (length suffix) then
      let* head := slice_z v 0 maxlen in                       (* valueB[:tf.maxLength] *)
      let n := x_clean_len x head in
      if Nat.ltb (length v) n then Panic site_slice_bounds      (* main[start:] in OverwriteNTruncate *)
      else let* f' := fset f key (firstn n v ++ firstn (length v - n)%nat suffix) in Ok (f', true)
    else Ok (f, true)
  | RUnescape key =>
    let* v := fget f key in
    if is_nil v then Ok (f, true)
    else let* f' := fset f key (x_unescape x v) in Ok (f', true)
  end
with run_tl (nc : nat) (l : rtlist) (f : fields) : outcome (fields * bool) :=     (* bsupport.RunTransforms *)
  match l with
  | RTNil => Ok (f, true)
  | RTCons t ts =>
    let* (f', pass) := run_t nc t f in
    if pass then run_tl nc ts f' else Ok (f', false)
  end
with run_cl (nc : nat) (l : rclist) (f : fields) : outcome (fields * bool) :=
  match l with
  | RCNil => Ok (f, true)
  | RCCons m then_ cs =>
    let* matched := run_matcher m f in
    if matched then run_tl nc then_ f else run_cl nc cs f
  end.

Fixpoint get_all (locs : list nat) (f : fields) : outcome (list bytes) :=
  match locs with
  | [] => Ok []
  | l :: r => let* v := fget f l in let* vs := get_all r f in Ok (v :: vs)
  end.

(* the field accesses of the rewriter chain of one field *)
Fixpoint run_chain (ch : list rrewriter) (f : fields) : outcome unit :=
  match ch with
  | [] => Ok tt
  | RRInline loc :: r =>
    let* _ := fget f loc in
    match r with [] => Panic site_nil_func | _ => run_chain r f end   (* rw.next.MaxFieldLength on a nil next *)
  | (RRCopy | RRUnescape) :: _ => Ok tt
  end.

Fixpoint run_chains (chains : list (list rrewriter)) (f : fields) : outcome unit :=
  match chains with
  | [] => Ok tt
  | ch :: r => let* _ := run_chain ch f in run_chains r f
  end.

(* record.Fields[0:n] *)
Definition take_fields (f : fields) (n : nat) : outcome fields :=
  if Nat.leb n (length f) then Ok (firstn n f) else Panic site_slice_bounds.

(* SerializeRecord: only the accesses that depend on construction *)
Definition run_serializer (s : rserializer) (f : fields) : outcome unit :=
  match s with
  | RSerFluentd nmask env chains =>
    let* visible := take_fields f nmask in            (* record.Fields[0:len(fieldMasks)] *)
    let* _ := run_chains chains f in
    let* _ := get_all env visible in
    Ok tt
  | RSerDatadog nmask =>
    let* _ := take_fields f nmask in Ok tt             (* record.Fields[i] for every schema field *)
  end.

Fixpoint run_serializers (l : list rserializer) (f : fields) : outcome unit :=
  match l with
  | [] => Ok tt
  | s :: r => let* _ := run_serializer s f in run_serializers r f
  end.

Definition run_orch (o : rorch) (f : fields) : outcome unit :=
  match o with
  | ROrchByKey locs tag =>
    let* keys := get_all locs f in
    let* _ := expand keys tag in Ok tt
  | ROrchSingle => Ok tt
  end.

(* one parsed record (its field values are arbitrary) of input [i] through the whole pipeline *)
Definition run_record (p : pipeline) (i : nat) (f : fields) : outcome unit :=
  match nth_error (pl_inputs p) i with
  | None => Ok tt
  | Some (ex, nc_in) =>
    let release := if is_nil (pl_outputs p) then Panic site_no_output_release else Ok tt in   (* deallocator.Release *)
    let* (f1, pass) := run_tl nc_in ex f in
    if negb pass then release else
    let* _ := if pl_labels_ok p then Ok tt else Panic site_metric_label in
    let* _ := run_orch (pl_orch p) f1 in
    let* _ := get_all (pl_metric_locs p) f1 in
    let* (f2, pass2) := run_tl (pl_ncounters p) (pl_transforms p) f1 in
    if negb pass2 then release else run_serializers (pl_outputs p) f2
  end.

End Run.

(* ================================================================ run-time hazards of a constructed pipeline (decidable) *)

Definition matcher_safe (nf : Z) (m : rmatcher) : bool :=
  forallb (fun e => match e with (loc, op, _) =>
     (Z.of_nat loc <? nf) && match op with MNull | MUnknownTag => false | _ => true end end) m.

Definition rpart_safe (n : Z) (p : rpart) : bool :=
  match p with RLit _ => true | RVar i => Z.of_nat i <? n | RSlice i _ _ => Z.of_nat i <? n end.

Definition extractor_safe (ex : extractor) : bool :=
  (0 <=? ex_max ex) &&
  match ex_table ex, ex_pos ex, ex_left ex, ex_right ex with
  | None, FromStart, _, [] => false
  | None, FromEnd, [], _ => false
  | _, _, _, _ => true
  end.

Fixpoint rt_safe (nf : Z) (nc : nat) (t : rtransform) : bool :=
  match t with
  | RAddFields pairs => forallb (fun p => (Z.of_nat (fst p) <? nf) && forallb (rpart_safe nf) (snd p)) pairs
  | RBlock steps => rtl_safe nf nc steps
  | RDelFields locs => forallb (fun l => (Z.of_nat l <? nf)) locs
  | RDrop m rate cd cr =>
    matcher_safe nf m && Nat.ltb cd nc &&
    match cr with Some i => Nat.ltb i nc | None => rate =? 100 end
  | RExtract key _ subs => (Z.of_nat key <? nf) && forallb (fun s => match s with Some l => (Z.of_nat l <? nf) | None => true end) subs
  | RExtractSpecial src dst ex => (Z.of_nat src <? nf) && (Z.of_nat dst <? nf) && extractor_safe ex
  | RIf m then_ => matcher_safe nf m && rtl_safe nf nc then_
  | RMapValue key _ _ => (Z.of_nat key <? nf)
  | RParseTime key cnt => (Z.of_nat key <? nf) && Nat.ltb cnt nc
  | RRedactEmail key cnt => (Z.of_nat key <? nf) && Nat.ltb cnt nc
  | RReplace key _ _ => (Z.of_nat key <? nf)
  | RSwitch cases => rcl_safe nf nc cases
  | RTruncate key maxlen _ => (Z.of_nat key <? nf) && (0 <=? maxlen)
  | RUnescape key => (Z.of_nat key <? nf)
  end
with rtl_safe (nf : Z) (nc : nat) (l : rtlist) : bool :=
  match l with
  | RTNil => true
  | RTCons t ts => rt_safe nf nc t && rtl_safe nf nc ts
  end
with rcl_safe (nf : Z) (nc : nat) (l : rclist) : bool :=
  match l with
  | RCNil => true
  | RCCons m then_ cs => matcher_safe nf m && rtl_safe nf nc then_ && rcl_safe nf nc cs
  end.

Fixpoint chain_safe (nf : Z) (ch : list rrewriter) : bool :=
  match ch with
  | [] => true
  | RRInline loc :: r => (Z.of_nat loc <? nf) && negb (is_nil r) && chain_safe nf r
  | _ :: _ => true
  end.

Definition serializer_safe (nf : Z) (s : rserializer) : bool :=
  match s with
  | RSerFluentd nmask env chains =>
    (Z.of_nat nmask <=? nf) && forallb (fun l => Z.of_nat l <? Z.of_nat nmask) env && forallb (chain_safe nf) chains
  | RSerDatadog nmask => (Z.of_nat nmask <=? nf)
  end.

Definition orch_safe (nf : Z) (o : rorch) : bool :=
  match o with
  | ROrchByKey locs tag => forallb (fun l => (Z.of_nat l <? nf)) locs && forallb (rpart_safe (Z.of_nat (length locs))) tag
  | ROrchSingle => true
  end.

(* no construction-dependent panic site can be reached by any record *)
Definition pipeline_safe (p : pipeline) : bool :=
  let nf := pl_nfields p in
  forallb (fun i => rtl_safe nf (snd i) (fst i)) (pl_inputs p)
  && orch_safe nf (pl_orch p)
  && forallb (fun l => (Z.of_nat l <? nf)) (pl_metric_locs p)
  && rtl_safe nf (pl_ncounters p) (pl_transforms p)
  && negb (is_nil (pl_outputs p))
  && forallb (serializer_safe nf) (pl_outputs p)
  && pl_labels_ok p.

(* ================================================================ reference sites *)

Inductive reference :=
| RefField (name : bytes)                         (* names a schema field *)
| RefKeyField (name : bytes)                      (* a schema field used as metric label key_<name> *)
| RefTemplate (scope : list bytes) (t : bytes)    (* a template whose variables are resolved in scope *)
| RefCapture (name : bytes)                       (* named capture of the extract transform *)
| RefRegex (compiles : bool)
| RefSpecialPattern (pos : position) (pattern : bytes)
| RefPercent (n : num)
| RefPositive (n : num)                           (* maxLen *)
| RefNonEmpty (what : Z) (is_empty : bool)        (* a required list / label / nested step list *)
| RefMatchValue (op : mop)
| RefRewriters (l : list rewriter)
| RefMode (m : bytes)
| RefAddress (ok : bool)
| RefQuantity (b : big)                           (* size, duration: decodable and not zero *)
| RefLevels (n : nat)
| RefPresent (present : bool).                    (* a required section *)

Definition refs_matcher (m : matcher) : list reference :=
  RefNonEmpty 1 (is_nil m) :: flat_map (fun e => [RefField (me_key e); RefMatchValue (me_op e)]) m.

Definition tl_empty (l : tlist) : bool := match l with TNil => true | _ => false end.

Fixpoint refs_t (sch : list bytes) (t : transform) : list reference :=
  match t with
  | TAddFields fields =>
    RefNonEmpty 2 (is_nil fields) :: flat_map (fun kt => [RefField (fst kt); RefTemplate sch (snd kt)]) fields
  | TBlock steps => RefNonEmpty 3 (tl_empty steps) :: refs_tl sch steps
  | TDelFields keys => RefNonEmpty 4 (is_nil keys) :: map RefField keys
  | TDrop m pct label => refs_matcher m ++ [RefPercent pct; RefNonEmpty 5 (is_nil label)]
  | TExtract key pattern re =>
    [RefField key; RefNonEmpty 6 (is_nil pattern); RefRegex (match re with Some _ => true | None => false end)]
    ++ match re with
       | Some names => map RefCapture (filter (fun n => negb (is_nil n)) names)
       | None => []
       end
  | TExtractSpecial pos key pattern maxlen dest =>
    [RefField key; RefSpecialPattern pos pattern; RefPositive maxlen; RefField dest]
  | TIf m then_ => refs_matcher m ++ RefNonEmpty 7 (tl_empty then_) :: refs_tl sch then_
  | TMapValue key mapping _ => [RefField key; RefNonEmpty 8 (is_nil mapping)]
  | TParseTime key label => [RefField key; RefNonEmpty 9 (is_nil label)]
  | TRedactEmail key label => [RefField key; RefNonEmpty 10 (is_nil label)]
  | TReplace key pattern re_ok _ => [RefField key; RefNonEmpty 11 (is_nil pattern); RefRegex re_ok]
  | TSwitch cases => RefNonEmpty 12 (match cases with CNil => true | _ => false end) :: refs_cl sch cases
  | TTruncate key maxlen suffix => [RefField key; RefPositive maxlen; RefNonEmpty 13 (is_nil suffix)]
  | TUnescape key => [RefField key]
  | TUnknown => [RefPresent false]
  end
with refs_tl (sch : list bytes) (l : tlist) : list reference :=
  match l with
  | TNil => []
  | TCons t ts => refs_t sch t ++ refs_tl sch ts
  end
with refs_cl (sch : list bytes) (l : clist) : list reference :=
  match l with
  | CNil => []
  | CCons m then_ cs => refs_matcher m ++ RefNonEmpty 14 (tl_empty then_) :: refs_tl sch then_ ++ refs_cl sch cs
  end.

Definition refs_output (o : output) : list reference :=
  match o with
  | OFluentd env hidden rewrites mode addr addr_ok maxdur =>
    RefNonEmpty 15 (is_nil env) :: map RefField env ++ map RefField hidden
    ++ flat_map (fun fr => [RefField (fst fr); RefRewriters (snd fr)]
                           ++ flat_map (fun r => match r with RwInline f => [RefField f] | _ => [] end) (snd fr)) rewrites
    ++ [RefMode mode; RefAddress addr_ok; RefQuantity maxdur]
  | ODatadog hidden addr url_ok timeout => map RefField hidden ++ [RefAddress url_ok; RefQuantity timeout]
  | OUnknown => [RefPresent false]
  | OMissing => [RefPresent false]
  end.

Definition refs_buffer (b : buffer) : list reference :=
  match b with
  | BHybrid root size => [RefNonEmpty 16 (is_nil root); RefQuantity size]
  | BUnknown | BMissing => [RefPresent false]
  end.

Definition refs_input (sch : list bytes) (i : input) : list reference :=
  match i with
  | ISyslog _ addr_ok levels ex =>
    [RefAddress addr_ok; RefLevels (length levels); RefNonEmpty 17 (tl_empty ex)] ++ map RefField syslog_required ++ refs_tl sch ex
  | IUnknown => [RefPresent false]
  end.

Definition refs_orch (o : orchestration) : list reference :=
  match o with
  | OrByKeySet keys tag => RefNonEmpty 18 (is_nil keys) :: map RefKeyField keys ++ [RefNonEmpty 19 (is_nil tag); RefTemplate keys tag]
  | OrSingleton tag => [RefNonEmpty 19 (is_nil tag); RefTemplate [] tag]
  | OrUnknown | OrMissing => [RefPresent false]
  end.

(* every reference / expression site of the file *)
Definition refs (c : config) : list reference :=
  let sch := c_fields c in
  flat_map (refs_input sch) (c_inputs c)
  ++ refs_orch (c_orch c)
  ++ RefNonEmpty 20 (is_nil (c_metric_keys c)) :: map RefKeyField (c_metric_keys c)
  ++ refs_tl sch (c_transforms c)
  ++ RefNonEmpty 21 (is_nil (c_pairs c))
  :: flat_map (fun p => refs_buffer (p_buffer p) ++ refs_output (p_output p)) (c_pairs c).

(* ================================================================ decoding of a case (correspondence) *)

(* the token list written by harness/c16_ast.go: Encode *)
Definition toks := list bytes.
Definition parser (A : Type) := toks -> option (A * toks).

Definition p_tok : parser bytes := fun ts => match ts with t :: r => Some (t, r) | [] => None end.

Definition p_nat : parser nat := fun ts =>
  match ts with
  | t :: r => match t with
              | [] => None
              | _ => match N_of_dec_acc t 0 with Some n => Some (N.to_nat n, r) | None => None end
              end
  | [] => None
  end.

Definition p_bool : parser bool := fun ts =>
  match ts with
  | [49%N] :: r => Some (true, r)
  | [48%N] :: r => Some (false, r)
  | _ => None
  end.

Fixpoint p_rep {A} (p : parser A) (n : nat) : parser (list A) := fun ts =>
  match n with
  | O => Some ([], ts)
  | S n' => match p ts with
            | Some (a, ts1) => match p_rep p n' ts1 with Some (l, ts2) => Some (a :: l, ts2) | None => None end
            | None => None
            end
  end.

Definition p_list {A} (p : parser A) : parser (list A) := fun ts =>
  match p_nat ts with Some (n, ts1) => p_rep p n ts1 | None => None end.

Definition p_strlist : parser (list bytes) := p_list p_tok.

(* "!..." = undecodable *)
Definition p_num : parser num := fun ts =>
  match ts with
  | t :: r => Some (match t with
                    | 33%N :: _ => NumBad
                    | _ => match Z_of_dec t with Some z => NumOk z | None => NumBad end
                    end, r)
  | [] => None
  end.

Definition p_big : parser big := fun ts =>
  match ts with
  | t :: r => Some (match t with
                    | [] => BigBad
                    | 33%N :: _ => BigBad
                    | _ => match N_of_dec_acc t 0 with Some n => BigOk n | None => BigBad end
                    end, r)
  | [] => None
  end.

Definition s_any : bytes := [97;110;121]%N.
Definition s_eq : bytes := [101;113]%N.
Definition s_not : bytes := [110;111;116]%N.
Definition s_start : bytes := [115;116;97;114;116]%N.
Definition s_end : bytes := [101;110;100]%N.
Definition s_contain : bytes := [99;111;110;116;97;105;110]%N.
Definition s_glob : bytes := [103;108;111;98]%N.
Definition s_regex : bytes := [114;101;103;101;120]%N.
Definition s_gt : bytes := [103;116]%N.
Definition s_lt : bytes := [108;116]%N.
Definition s_dash : bytes := [45]%N.

Definition mop_of (t : bytes) : mop :=
  if bytes_eqb t s_any then MAny else if bytes_eqb t s_eq then MEq else if bytes_eqb t s_not then MNot
  else if bytes_eqb t s_start then MStart else if bytes_eqb t s_end then MEnd else if bytes_eqb t s_contain then MContain
  else if bytes_eqb t s_glob then MGlob else if bytes_eqb t s_regex then MRegex else if bytes_eqb t s_gt then MGt
  else if bytes_eqb t s_lt then MLt else if bytes_eqb t s_dash then MNull else MUnknownTag.

Definition p_mentry : parser mentry := fun ts =>
  match ts with
  | k :: op :: e :: ts1 =>
    match p_bool ts1 with
    | Some (b, ts2) => Some ({| me_key := k; me_op := mop_of op; me_expr := e; me_lib_ok := b |}, ts2)
    | None => None
    end
  | _ => None
  end.

Definition p_matcher : parser matcher := p_list p_mentry.

Definition p_pair_tok : parser (bytes * bytes) := fun ts =>
  match ts with a :: b :: r => Some ((a, b), r) | _ => None end.

Definition s_addFields : bytes := [97;100;100;70;105;101;108;100;115]%N.
Definition s_block : bytes := [98;108;111;99;107]%N.
Definition s_delFields : bytes := [100;101;108;70;105;101;108;100;115]%N.
Definition s_drop : bytes := [100;114;111;112]%N.
Definition s_extract : bytes := [101;120;116;114;97;99;116]%N.
Definition s_extractHead : bytes := [101;120;116;114;97;99;116;72;101;97;100]%N.
Definition s_extractTail : bytes := [101;120;116;114;97;99;116;84;97;105;108]%N.
Definition s_if : bytes := [105;102]%N.
Definition s_mapValue : bytes := [109;97;112;86;97;108;117;101]%N.
Definition s_parseTime : bytes := [112;97;114;115;101;84;105;109;101]%N.
Definition s_redactEmail : bytes := [114;101;100;97;99;116;69;109;97;105;108]%N.
Definition s_replace : bytes := [114;101;112;108;97;99;101]%N.
Definition s_switch : bytes := [115;119;105;116;99;104]%N.
Definition s_truncate : bytes := [116;114;117;110;99;97;116;101]%N.
Definition s_unescape : bytes := [117;110;101;115;99;97;112;101]%N.
Definition s_bang : bytes := [33]%N.

Definition tlist_of (l : list transform) : tlist := fold_right TCons TNil l.
Definition clist_of (l : list (matcher * tlist)) : clist := fold_right (fun mt cs => CCons (fst mt) (snd mt) cs) CNil l.

(* regexp answer of the extract transform: "!" or the list of SubexpNames *)
Definition p_reres : parser (option (list bytes)) := fun ts =>
  match ts with
  | t :: r => if bytes_eqb t s_bang then Some (None, r)
              else match p_strlist ts with Some (l, r') => Some (Some l, r') | None => None end
  | [] => None
  end.

Fixpoint p_transform (fuel : nat) : parser transform := fun ts =>
  match fuel with
  | O => None
  | S fuel' =>
    let p_tl : parser tlist := fun ts0 =>
      match p_list (p_transform fuel') ts0 with Some (l, r) => Some (tlist_of l, r) | None => None end in
    match ts with
    | [] => None
    | ty :: ts1 =>
      if bytes_eqb ty s_addFields then
        match p_list p_pair_tok ts1 with Some (l, r) => Some (TAddFields l, r) | None => None end
      else if bytes_eqb ty s_block then
        match p_tl ts1 with Some (l, r) => Some (TBlock l, r) | None => None end
      else if bytes_eqb ty s_delFields then
        match p_strlist ts1 with Some (l, r) => Some (TDelFields l, r) | None => None end
      else if bytes_eqb ty s_drop then
        match p_matcher ts1 with
        | Some (m, ts2) => match p_num ts2 with
                           | Some (n, label :: r) => Some (TDrop m n label, r)
                           | _ => None
                           end
        | None => None
        end
      else if bytes_eqb ty s_extract then
        match ts1 with
        | key :: pattern :: ts2 => match p_reres ts2 with Some (re, r) => Some (TExtract key pattern re, r) | None => None end
        | _ => None
        end
      else if bytes_eqb ty s_extractHead || bytes_eqb ty s_extractTail then
        match ts1 with
        | key :: pattern :: ts2 =>
          match p_num ts2 with
          | Some (n, dest :: r) =>
            Some (TExtractSpecial (if bytes_eqb ty s_extractHead then FromStart else FromEnd) key pattern n dest, r)
          | _ => None
          end
        | _ => None
        end
      else if bytes_eqb ty s_if then
        match p_matcher ts1 with
        | Some (m, ts2) => match p_tl ts2 with Some (l, r) => Some (TIf m l, r) | None => None end
        | None => None
        end
      else if bytes_eqb ty s_mapValue then
        match ts1 with
        | key :: ts2 => match p_list p_pair_tok ts2 with
                        | Some (l, default :: r) => Some (TMapValue key l default, r)
                        | _ => None
                        end
        | _ => None
        end
      else if bytes_eqb ty s_parseTime then
        match ts1 with key :: label :: r => Some (TParseTime key label, r) | _ => None end
      else if bytes_eqb ty s_redactEmail then
        match ts1 with key :: label :: r => Some (TRedactEmail key label, r) | _ => None end
      else if bytes_eqb ty s_replace then
        match ts1 with
        | key :: pattern :: ts2 => match p_bool ts2 with
                                   | Some (b, repl :: r) => Some (TReplace key pattern b repl, r)
                                   | _ => None
                                   end
        | _ => None
        end
      else if bytes_eqb ty s_switch then
        let p_case : parser (matcher * tlist) := fun ts0 =>
          match p_matcher ts0 with
          | Some (m, ts2) => match p_tl ts2 with Some (l, r) => Some ((m, l), r) | None => None end
          | None => None
          end in
        match p_list p_case ts1 with Some (l, r) => Some (TSwitch (clist_of l), r) | None => None end
      else if bytes_eqb ty s_truncate then
        match ts1 with
        | key :: ts2 => match p_num ts2 with
                        | Some (n, suffix :: r) => Some (TTruncate key n suffix, r)
                        | _ => None
                        end
        | _ => None
        end
      else if bytes_eqb ty s_unescape then
        match ts1 with key :: r => Some (TUnescape key, r) | _ => None end
      else
        match ts1 with _ :: r => Some (TUnknown, r) | _ => None end
    end
  end.

Definition p_tlist (fuel : nat) : parser tlist := fun ts =>
  match p_list (p_transform fuel) ts with Some (l, r) => Some (tlist_of l, r) | None => None end.

Definition s_syslog : bytes := [115;121;115;108;111;103]%N.
Definition s_byKeySet : bytes := [98;121;75;101;121;83;101;116]%N.
Definition s_singleton : bytes := [115;105;110;103;108;101;116;111;110]%N.
Definition s_hybridBuffer : bytes := [104;121;98;114;105;100;66;117;102;102;101;114]%N.
Definition s_fluentdForward : bytes := [102;108;117;101;110;116;100;70;111;114;119;97;114;100]%N.
Definition s_datadog : bytes := [100;97;116;97;100;111;103]%N.
Definition s_copy : bytes := [99;111;112;121]%N.
Definition s_inline : bytes := [105;110;108;105;110;101]%N.

Definition p_input (fuel : nat) : parser input := fun ts =>
  match ts with
  | ty :: addr :: ts1 =>
    match p_bool ts1 with
    | Some (ok, ts2) =>
      match p_strlist ts2 with
      | Some (levels, ts3) =>
        match p_tlist fuel ts3 with
        | Some (ex, r) => Some (if bytes_eqb ty s_syslog then ISyslog addr ok levels ex else IUnknown, r)
        | None => None
        end
      | None => None
      end
    | None => None
    end
  | _ => None
  end.

Definition p_rewriter : parser rewriter := fun ts =>
  match ts with
  | ty :: field :: r =>
    Some (if bytes_eqb ty s_copy then RwCopy else if bytes_eqb ty s_inline then RwInline field
          else if bytes_eqb ty s_unescape then RwUnescape else RwUnknown, r)
  | _ => None
  end.

Definition p_rewrite : parser (bytes * list rewriter) := fun ts =>
  match ts with
  | field :: ts1 => match p_list p_rewriter ts1 with Some (l, r) => Some ((field, l), r) | None => None end
  | [] => None
  end.

Definition p_pair : parser pair := fun ts =>
  match ts with
  | name :: bty :: root :: ts1 =>
    match p_big ts1 with
    | Some (size, oty :: ts2) =>
      match p_strlist ts2 with
      | Some (env, ts3) =>
        match p_strlist ts3 with
        | Some (hidden, ts4) =>
          match p_list p_rewrite ts4 with
          | Some (rewrites, mode :: addr :: ts5) =>
            match p_bool ts5 with
            | Some (ok, ts6) =>
              match p_big ts6 with
              | Some (dur, r) =>
                let b := if bytes_eqb bty s_hybridBuffer then BHybrid root size
                         else if bytes_eqb bty s_dash then BMissing else BUnknown in
                let o := if bytes_eqb oty s_fluentdForward then OFluentd env hidden rewrites mode addr ok dur
                         else if bytes_eqb oty s_datadog then ODatadog hidden addr ok dur
                         else if bytes_eqb oty s_dash then OMissing else OUnknown in
                Some ({| p_name := name; p_buffer := b; p_output := o |}, r)
              | None => None
              end
            | None => None
            end
          | _ => None
          end
        | None => None
        end
      | None => None
      end
    | _ => None
    end
  | _ => None
  end.

Definition p_config (fuel : nat) : parser config := fun ts =>
  match ts with
  | damage :: ts1 =>
    match p_strlist ts1 with
    | Some (fields_, ts2) =>
      match p_num ts2 with
      | Some (maxf, ts3) =>
        match p_list (p_input fuel) ts3 with
        | Some (inputs, oty :: ts4) =>
          match p_strlist ts4 with
          | Some (keys, tag :: ts5) =>
            match p_strlist ts5 with
            | Some (mkeys, ts6) =>
              match p_tlist fuel ts6 with
              | Some (tfs, ts7) =>
                match p_list p_pair ts7 with
                | Some (pairs, r) =>
                  let o := if bytes_eqb oty s_byKeySet then OrByKeySet keys tag
                           else if bytes_eqb oty s_singleton then OrSingleton tag
                           else if bytes_eqb oty s_dash then OrMissing else OrUnknown in
                  Some ({| c_damage := damage; c_fields := fields_; c_maxfields := maxf; c_inputs := inputs; c_orch := o;
                           c_metric_keys := mkeys; c_transforms := tfs; c_pairs := pairs |}, r)
                | None => None
                end
              | None => None
              end
            | None => None
            end
          | _ => None
          end
        | _ => None
        end
      | None => None
      end
    | None => None
    end
  | [] => None
  end.

(* ================================================================ correspondence entry point *)

Definition s_verify_ok : bytes := [118;101;114;105;102;121;61;111;107]%N.            (* verify=ok *)
Definition s_verify_err : bytes := [118;101;114;105;102;121;61;101;114;114]%N.       (* verify=err *)
Definition s_verify_panic : bytes := [118;101;114;105;102;121;61;112;97;110;105;99]%N.
Definition s_construct_ok : bytes := [59;99;111;110;115;116;114;117;99;116;61;111;107]%N.       (* ;construct=ok *)
Definition s_construct_panic : bytes := [59;99;111;110;115;116;114;117;99;116;61;112;97;110;105;99]%N.
Definition s_run_ok : bytes := [59;114;117;110;61;111;107]%N.
Definition s_run_panic : bytes := [59;114;117;110;61;112;97;110;105;99]%N.

Inductive vclass := VOk | VErr | VPanic.

(* the verdict on one configuration: what the loader answers, whether everything can be constructed, whether
   some record can reach a construction-dependent panic site *)
Definition verdict (q : quirks) (c : config) : bytes * vclass :=
  match verify q c with
  | Err _ => (s_verify_err, VErr)
  | Panic _ => (s_verify_panic, VPanic)
  | Ok _ =>
    match construct q c with
    | Ok p => if pipeline_safe p then (s_verify_ok ++ s_construct_ok ++ s_run_ok, VOk)
              else (s_verify_ok ++ s_construct_ok ++ s_run_panic, VPanic)
    | _ => (s_verify_ok ++ s_construct_panic, VPanic)
    end
  end.

Definition s_badcase : bytes := [98;97;100;99;97;115;101]%N.
Definition s_seq : bytes := [115;101;113]%N.

Definition is_vpanic (v : vclass) : bool := match v with VPanic => true | _ => false end.
Definition is_vok (v : vclass) : bool := match v with VOk => true | _ => false end.

(* kind 0: one configuration; kind 1: a sequence (first token: how many), loaded one after the other *)
Definition run_case_with (q : quirks) (c : case) : bytes :=
  let ts := c_sargs c in
  let fuel := length ts in
  let parsed : option (list config * toks) :=
    if (c_kind c =? 1)%N then p_list (p_config fuel) ts
    else match p_config fuel ts with Some (cf, r) => Some ([cf], r) | None => None end in
  match parsed with
  | Some (confs, []) =>
    let vs := map (verdict q) confs in
    let class := if existsb (fun v => is_vpanic (snd v)) vs then str_panic
                 else if (c_kind c =? 1)%N then s_seq
                 else if forallb (fun v => is_vok (snd v)) vs then str_ok else str_err in
    class ++ colon :: join comma (map fst vs)
  | _ => s_badcase
  end.

Definition run_case_config (c : case) : bytes := run_case_with fixed_quirks c.
