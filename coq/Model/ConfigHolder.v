(* C16 - model of base/bconfig/configholder.go ConfigHolder[C].UnmarshalYAML and of the way yaml.v3
   reaches it (decode.go: unmarshal -> alias / prepare), on a small datatype of YAML nodes.

   Every typed component of a configuration file (input, orchestration, transform incl. the nested steps of
   block / if / switch, extraction step, buffer, output, rewriter) is decoded through this one function: it
   reads the type name from the node's first two children, looks the constructor up in the table registered
   for the component class and decodes the node into the freshly created config struct.

   Go's slice indexing value.Content[i] is the checked accessor [ynth] (Panic site_holder_index when out of
   range), so the guard in front of it is load-bearing.  The guard itself is a parameter of [holder_with]:
   [code_guard] (len(value.Content) >= 2) is what the code does; the theorems say exactly which guards are safe.
   What yamlinternal.NodeDecodeKnownFields answers for (type, node) is external: the parameter [dec].
   No proofs in this file. *)
From SV Require Import Model.Common Model.ConfigTemplate.
Open Scope N_scope.

(* yaml.v3 Node.Kind *)
Inductive ykind := KDocument | KSequence | KMapping | KScalar | KAlias.

(* yaml.v3 Node: Kind, ShortTag(), Value, Content.  A mapping has its keys and values alternating in Content;
   an alias node has no Content in yaml.v3 but a pointer Alias to the anchored node: here the target is the
   only element of the content list (and Value is the anchor name, as in yaml.v3). *)
Inductive ynode := YNode (kind : ykind) (tag : bytes) (value : bytes) (content : list ynode).

Definition y_kind (n : ynode) : ykind := match n with YNode k _ _ _ => k end.
Definition y_tag (n : ynode) : bytes := match n with YNode _ t _ _ => t end.
Definition y_value (n : ynode) : bytes := match n with YNode _ _ v _ => v end.
Definition y_content (n : ynode) : list ynode := match n with YNode _ _ _ c => c end.

Definition ykind_eqb (a b : ykind) : bool :=
  match a, b with
  | KDocument, KDocument | KSequence, KSequence | KMapping, KMapping | KScalar, KScalar | KAlias, KAlias => true
  | _, _ => false
  end.

Definition site_holder_index : N := 30.     (* value.Content[i]: index out of range *)

Definition err_type_undefined : N := 130.   (* ".type is undefined" *)
Definition err_type_not_first : N := 131.   (* ".type is not the first property" *)
Definition err_type_unsupported : N := 132. (* ".type: unsupported" *)
Definition err_holder_decode : N := 133.    (* error of NodeDecodeKnownFields *)

(* value.Content[i] *)
Definition ynth (c : list ynode) (i : nat) : outcome ynode :=
  match nth_error c i with Some n => Ok n | None => Panic site_holder_index end.

Definition s_type : bytes := [116;121;112;101].             (* "type" *)
Definition s_null_tag : bytes := [33;33;110;117;108;108].   (* "!!null" *)

Definition memb (name : bytes) (l : list bytes) : bool := existsb (bytes_eqb name) l.

(* value.Content[0].Kind != yaml.ScalarNode || value.Content[0].Value != "type" *)
Definition is_type_key (k : ynode) : bool := ykind_eqb (y_kind k) KScalar && bytes_eqb (y_value k) s_type.

Section Holder.
Variable guard : ynode -> bool.              (* true = the node passes the check in front of Content[0] *)
Variable table : list bytes.                 (* the type names registered for the component class *)
Variable dec : bytes -> ynode -> bool.       (* NodeDecodeKnownFields(value, createFunc()) returns nil *)

(* ConfigHolder[C].UnmarshalYAML: the type name of the created config, an error value, or a panic *)
Definition holder_with (n : ynode) : outcome bytes :=
  let* _ := check (guard n) err_type_undefined in
  let* k := ynth (y_content n) 0 in
  let* _ := check (is_type_key k) err_type_not_first in
  let* v := ynth (y_content n) 1 in
  let ty := y_value v in
  let* _ := check (memb ty table) err_type_unsupported in
  let* _ := check (dec ty n) err_holder_decode in
  Ok ty.

(* yaml.v3 decoder.unmarshal at a value of type ConfigHolder[C]: an alias is followed to its anchored node
   (decoder.alias), a node whose short tag is !!null leaves the holder untouched (decoder.prepare returns before
   it looks for an Unmarshaler), every other node - scalar, sequence, mapping - is handed to UnmarshalYAML. *)
Fixpoint resolve_alias (n : ynode) : ynode :=
  match n with
  | YNode KAlias _ _ [t] => resolve_alias t
  | _ => n
  end.

Inductive hres := HNil | HType (ty : bytes).

Definition site_decode_with (n : ynode) : outcome hres :=
  let t := resolve_alias n in
  if bytes_eqb (y_tag t) s_null_tag then Ok HNil
  else let* ty := holder_with t in Ok (HType ty).
End Holder.

(* the guard of the code: if len(value.Content) < 2 { return ".type is undefined" } *)
Definition code_guard (n : ynode) : bool := (2 <=? length (y_content n))%nat.
(* variants that read well and are wrong *)
Definition kind_guard (n : ynode) : bool := ykind_eqb (y_kind n) KMapping.   (* "must be a mapping" *)
Definition len1_guard (n : ynode) : bool := (1 <=? length (y_content n))%nat. (* "must not be empty" *)
Definition no_guard (n : ynode) : bool := true.

Definition holder_unmarshal := holder_with code_guard.
Definition site_decode := site_decode_with code_guard.

(* all nodes of a document, at every depth, alias targets included *)
Fixpoint subnodes (n : ynode) : list ynode :=
  match n with
  | YNode _ _ _ c => n :: flat_map subnodes c
  end.

(* ---------------------------------------------------------------- canonical output *)

Definition s_hnil : bytes := [104;110;105;108;58].             (* "hnil:" *)
Definition s_hok : bytes := [104;111;107;58].                  (* "hok:" *)
Definition s_herr : bytes := [104;101;114;114;58].             (* "herr:" *)
Definition holder_output (o : outcome hres) : bytes :=
  match o with
  | Ok HNil => s_hnil
  | Ok (HType ty) => s_hok ++ ty
  | Err _ => s_herr
  | Panic _ => str_panic ++ [colon]
  end.
