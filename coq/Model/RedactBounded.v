(* C14, follow-up (wave-4 miss seeded/C14/8): the redaction loop of Model/Redact.v with the backward scan
   of the local part (redactFindEmailStart) as a PARAMETER, and the variant of that scan which gives up after
   [cap] address characters (the seeded change: "the user name of an address is at most 64 octets").

   [redact_email_v find_start] is the faithful model (Proofs/RedactBoundedProofs.v: equal to [redact_email] on
   every text); [redact_email_v (find_start_capped cap)] is the same code with the capped scan.  The property
   puts no bound on the local part, and the completeness theorem is proved for the unbounded scan over texts of
   any length; the capped variant is refuted for every cap.  No proofs in this file. *)
From SV Require Import Model.Common Model.Redact.
Local Open Scope nat_scope.

Definition start_scan := bytes -> nat -> nat -> outcome (option nat).

(* redactFindEmailStart with the cap, as in the seeded change:
     if minStart := atIndex - cap - 1; limitStart <= minStart { limitStart = minStart }
     for i = atIndex-1; i >= limitStart; i-- { if !validAddressChars[src[i]] break }
     if i >= 0 && src[i] == '/' return -1
     if atIndex-i-1 > cap return -1
     return i+1                                                     (j = i+1 as in find_start) *)
Definition find_start_capped (cap : nat) : start_scan := fun t atIndex limit =>
  let limit' := if cap + 1 + limit <=? atIndex then atIndex - cap - 1 else limit in
  j <-- find_start_loop t limit' atIndex ;;
  match j with
  | O => if cap <? atIndex then Ok None else Ok (Some O)
  | S i =>
    c <-- get t i ;;
    if (c =? ch_slash)%N then Ok None
    else if cap <? atIndex - j then Ok None else Ok (Some j)
  end.

(* redactFindEmailBoundary, redactEmail1, redactEmail over a start scan [fs]: the text of Model/Redact.v
   with [find_start] replaced by [fs] *)
Definition find_boundary_v (fs : start_scan) (t : bytes) (atIndex limit : nat) : outcome (option nat * option nat) :=
  s <-- fs t atIndex limit ;;
  match s with
  | None => Ok (None, None)
  | Some es => e <-- find_end t atIndex ;; Ok (Some es, e)
  end.

Definition redact_step_v (fs : start_scan) (t : bytes) (st : rstate) : outcome step_result :=
  let sAt := r_at st in
  let sCopied := r_copied st in
  g <-- at_guard t sAt ;;
  if g then
    b <-- find_boundary_v fs t sAt sCopied ;;
    match b with
    | (Some emailStart, Some emailEnd) =>
      pre <-- sub t sCopied emailStart ;;
      let st' := {| r_at := emailEnd; r_copied := emailEnd;
                    r_dst := r_dst st ++ pre ++ redacted_word;
                    r_spans := (emailStart, emailEnd) :: r_spans st |} in
      if length t <=? emailEnd
      then Ok (Break st')
      else next_at t st'
    | _ =>
      next_at t {| r_at := S sAt; r_copied := sCopied; r_dst := r_dst st; r_spans := r_spans st |}
    end
  else
    next_at t {| r_at := S sAt; r_copied := sCopied; r_dst := r_dst st; r_spans := r_spans st |}.

Fixpoint redact_loop_v (fs : start_scan) (fuel : nat) (t : bytes) (st : rstate) : outcome (bytes * list span) :=
  match fuel with
  | O => out_of_fuel
  | S f =>
    if S (r_at st) <? length t then
      r <-- redact_step_v fs t st ;;
      match r with
      | Continue st' => redact_loop_v fs f t st'
      | Break st' => redact_finish t st'
      end
    else redact_finish t st
  end.

Definition redact1_v (fs : start_scan) (t : bytes) (start : nat) : outcome (bytes * list span) :=
  redact_loop_v fs (S (length t)) t {| r_at := start; r_copied := 0; r_dst := []; r_spans := [] |}.

Definition redact_email_v (fs : start_scan) (t : bytes) : outcome (bytes * list span) :=
  f <-- find_first t ;;
  match f with
  | None => Ok (t, [])
  | Some first => redact1_v fs t first
  end.

(* the family of the harness (harness/c14_long.go, "long-local-sweep"): a local part of n+1 letters 'a' in
   front of "@b.c" *)
Definition long_local (n : nat) : bytes := repeat 97%N (S n) ++ [64; 98; 46; 99]%N.
