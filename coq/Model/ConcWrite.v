(* C04: SEVERAL writers of one queue directory at the same time.  No proofs in this file.

   The chunk files of a queue directory are written by more than one goroutine: Accept (spill) in the
   input goroutine, the consumer's OnChunkLeftover, the feeder's saveQueued / saveOutput - all through
   chunkOperator.UnloadChunk -> util.WriteFileAt.  One write is not atomic; it is the sequence

       pc 0  openat(tmp, O_WRONLY|O_CREAT|O_TRUNC)     -> pc 1      (EISDIR: failed, pc 9)
       pc 1  write(fd, data) at offset 0               -> pc 2
       pc 2  close(fd)                                 -> pc 3
       pc 3  renameat(tmp, id)                         -> pc 4 = saved   (ENOENT / EISDIR: failed, pc 9;
                                                                          the failure path unlinks tmp)

   and the steps of different writes interleave in any order (the schedule).  A job is one chunk (id, data);
   a schedule is a list of jobs, each occurrence = "the goroutine working on that chunk performs its next
   system call".  A goroutine that writes several chunks one after the other, G goroutines, the leftover /
   saveQueued pair at shutdown are all particular schedules; the theorems quantify over ALL schedules.

   [tmpf] is the temporary name as a function of the chunk ID: [tmp_name] (id ++ ".tmp") in the tree.  The
   variant with one fixed name per directory is [shared_tmp].

   File descriptors are modelled by the name: write(fd) changes the file now under tmp.  This is exact as
   long as nobody else renames or unlinks that name between open and rename - which is what the injective
   temporary name guarantees (theorem) and what the shared name breaks.  write at offset 0 into a file that
   somebody else filled meanwhile overlays the beginning ([overlay]). *)
From SV Require Import Model.Common Model.FileWrite.

Definition job := (name * bytes)%type.

Definition overlay (new old : bytes) : bytes := new ++ skipn (length new) old.

Definition pcs := name -> nat.
Definition pc_set (p : pcs) (n : name) (v : nat) : pcs := fun m => if name_eqb m n then v else p m.
Definition pc0 : pcs := fun _ => O.

Definition cw_step (tmpf : name -> name) (j : job) (st : dirT * pcs) : dirT * pcs :=
  let (d, p) := st in
  let (n, data) := j in
  let t := tmpf n in
  match p n with
  | 0%nat => if is_dir (dir_get d t) then (d, pc_set p n 9%nat)
         else (dir_set d t (EFile []), pc_set p n 1%nat)
  | 1%nat => match dir_get d t with
         | Some (EFile old) => (dir_set d t (EFile (overlay data old)), pc_set p n 2%nat)
         | _ => (d, pc_set p n 2%nat)              (* the inode has no name any more: the bytes are not seen *)
         end
  | 2%nat => (d, pc_set p n 3%nat)
  | 3%nat => match dir_get d t with
         | Some (EFile c) =>
           if is_dir (dir_get d n) then (dir_del d t, pc_set p n 9%nat)
           else (dir_set (dir_del d t) n (EFile c), pc_set p n 4%nat)
         | _ => (d, pc_set p n 9%nat)              (* ENOENT: somebody else renamed the temporary file away *)
         end
  | _ => (d, p)
  end.

Fixpoint cw_run (tmpf : name -> name) (sched : list job) (st : dirT * pcs) : dirT * pcs :=
  match sched with
  | [] => st
  | j :: rest => cw_run tmpf rest (cw_step tmpf j st)
  end.

(* the seeded variant: one temporary name per queue directory *)
Definition shared_tmp_name : name := [46; 99; 104; 117; 110; 107; 46; 116; 109; 112]. (* ".chunk.tmp" *)
Definition shared_tmp (_ : name) : name := shared_tmp_name.

(* ---------- correspondence (kinds 2 and 3 of run_case_C04) ----------
   sargs: id1, data1, id2, data2, ...; zargs: a, rep, mode, schedule (indices of chunks)...
   Every chunk's data is [data] repeated [rep] times.  The schedule given is followed by four rounds over
   all chunks, so that every write is complete at the end (as in the implementation, which waits for all
   goroutines).  Output: for every chunk what is under its ID (own bytes / other bytes / nothing) and,
   kind 2, the result of its UnloadChunk; kind 3 the number of failed writes (= dropped_chunks_total); the
   number of non-empty chunk files = what the next start forwards. *)
Fixpoint rep_bytes (k : nat) (b : bytes) : bytes :=
  match k with O => [] | S k' => b ++ rep_bytes k' b end.

Fixpoint jobs_of (rep : nat) (l : list bytes) : list job :=
  match l with
  | n :: d :: rest => (n, rep_bytes rep d) :: jobs_of rep rest
  | _ => []
  end.

Fixpoint sched_of (js : list job) (zs : list Z) : list job :=
  match zs with
  | [] => []
  | z :: rest =>
    match (if (z <? 0)%Z then None else nth_error js (Z.to_nat z)) with
    | Some j => j :: sched_of js rest
    | None => sched_of js rest
    end
  end.

Definition str_own : bytes := [111; 119; 110].
Definition str_foreign : bytes := [102; 111; 114; 101; 105; 103; 110].
Definition str_absent : bytes := [97; 98; 115; 101; 110; 116].

Definition show_job_state (kind2 : bool) (st : dirT * pcs) (j : job) : bytes :=
  let (d, p) := st in
  let (n, data) := j in
  n ++ [61] ++
  (match dir_get d n with
   | Some (EFile c) => if bytes_eqb c data then str_own else str_foreign
   | _ => str_absent
   end) ++
  (if kind2 then
     47 :: (match p n with 4%nat => str_ok | 9%nat => str_err | _ => [110; 111; 110; 101] end)
   else []).

Definition count_failed (st : dirT * pcs) (js : list job) : nat :=
  length (filter (fun j : job => Nat.eqb (snd st (fst j)) 9%nat) js).

Definition count_files (st : dirT * pcs) (js : list job) : nat :=
  length (filter (fun j : job => match dir_get (fst st) (fst j) with
                                 | Some (EFile (_ :: _)) => true | _ => false end) js).

Definition run_conc (kind2 : bool) (sargs : list bytes) (zargs : list Z) : bytes :=
  let rep := Z.to_nat (nth 1%nat zargs 0%Z) in
  let js := jobs_of rep sargs in
  let sched := sched_of js (skipn 3%nat zargs) ++ js ++ js ++ js ++ js in
  let st := cw_run tmp_name sched ([], pc0) in
  (if kind2 then [99; 119; 58] (* cw: *) else [115; 100; 58] (* sd: *)) ++
  join comma (map (show_job_state kind2 st) js) ++
  (if kind2 then [] else
     [59; 100; 114; 111; 112; 112; 101; 100; 61] (* ;dropped= *) ++ dec_of_Z (Z.of_nat (count_failed st js))) ++
  [59; 102; 119; 100; 61] (* ;fwd= *) ++ dec_of_Z (Z.of_nat (count_files st js)).

Definition conc_case_ok (kind2 : bool) (sargs : list bytes) (zargs : list Z) : bool :=
  let a := nth 0%nat zargs 0%Z in
  let rep := nth 1%nat zargs 0%Z in
  let mode := nth 2%nat zargs 0%Z in
  let ns := length sargs in
  (2 <=? ns)%nat && Nat.even ns && (3 <=? length zargs)%nat &&
  (1 <=? rep)%Z && (rep <=? 65536)%Z && (0 <=? mode)%Z && (mode <=? 1)%Z &&
  (if kind2 then (1 <=? a)%Z && (a <=? 8)%Z
   else (0 <=? a)%Z && (a <=? Z.of_nat (Nat.div ns 2%nat))%Z && (mode =? 0)%Z).
