(* Library functions that stay NAMED EXTERNAL functions of the generated models (spec key "externals" of
   lib/go2coq.d/*.json): the translator emits an application of the function given here, whose body is
   the existing hand-written model of the library function.  Hand-written, definitions only; trusted (and
   compared with the Go library by the correspondence run of the property that owns the model). *)
From SV Require Import Model.Common Model.GoSem Model.Utf8.

(* strings.ToValidUTF8(s, replacement): modelled for the empty replacement only (the one call in slog-agent);
   any other replacement is outside the model and reported as such, never guessed *)
Definition strings_ToValidUTF8 (s repl : list N) : gres (list N) :=
  match repl with
  | [] => GOk (to_valid_utf8 s)
  | _ => GPanic PUnmodelled
  end.
