(* C15: the capture-group step of transform/textract/textract.go with the "skip this group" test as a
   PARAMETER, and the three outcomes a capture group of regexp.FindStringSubmatchIndex can have.
      start := idx[2*g]; end := idx[2*g+1]
      if start < 0 || end < 0 { continue }          <- skip_go   (the code)
      if end <= start { continue }                  <- skip_empty (the variant: "nothing captured")
      locator.Set(fields, value[start:end])
   No proofs in this file. *)
From SV Require Import Model.Common Model.TfUtf8 Model.Template Model.Extractor Model.Transforms.
Open Scope Z_scope.

(* what a group did in the match: did not take part | took part and captured "" at offset p |
   took part and captured the non-empty text s at offset p *)
Inductive capture := CapNone | CapEmpty (p : nat) | CapText (p : nat) (s : bytes).

Definition cap_pair (c : capture) : Z * Z :=
  match c with
  | CapNone => (-1, -1)
  | CapEmpty p => (Z.of_nat p, Z.of_nat p)
  | CapText p s => (Z.of_nat p, Z.of_nat (p + length s))
  end.

(* the capture lies inside the value (the contract of FindStringSubmatchIndex) *)
Definition cap_in (v : bytes) (c : capture) : Prop :=
  match c with
  | CapNone => True
  | CapEmpty p => (p <= length v)%nat
  | CapText p s => s <> [] /\ firstn (length s) (skipn p v) = s /\ (p + length s <= length v)%nat
  end.

Definition skip_go (a b : Z) : bool := (a <? 0) || (b <? 0).
Definition skip_empty (a b : Z) : bool := (b <=? a).

Fixpoint run_extractre_loop_by (skip : Z -> Z -> bool) (locs : list (option nat)) (idx : list (Z * Z))
         (value : bytes) (r : rec) : outcome rec :=
  match locs with
  | [] => Ok r
  | l :: locs' =>
    match l with
    | None => run_extractre_loop_by skip locs' (tl idx) value r
    | Some loc =>
      match idx with
      | [] => Panic 80
      | (a, b) :: idx' =>
        if skip a b then run_extractre_loop_by skip locs' idx' value r
        else v <-- go_slice value a b ;; run_extractre_loop_by skip locs' idx' value (set_field r loc v)
      end
    end
  end.
