(* Model of the chunk maker: output/shared/messagepacker.go (WriteStream, FlushBuffer),
   output/shared/chunkfactory.go (NewChunk), output/fluentdforward/chunk.go and
   output/datadog/chunk.go (newChunk, Write, CanAppendData, FinalizeChunk),
   output/fluentdforward/chunkencoder.go (EncodeChunk: which fields go where) and the
   mode switch of fluentdforward/config.go NewChunkMaker.

   Streams (one serialized record each) are of an abstract type [R] with a length
   [rlen]; the model never looks inside a record.  The compressor/buffer a chunk writes to
   is modelled as the log of the byte strings written to it ([piece]): a record or one of
   the three JSON punctuation bytes of the Datadog format.  gzip and the msgpack wrapper
   are oracles (section variables of [chunk_data]).  The wall clock read by NewChunk ->
   Generate is an input of every Write op.

   Not modelled: the error paths of Write/FinalizeChunk (bytes.Buffer and a gzip writer
   on top of it do not fail; msgpack encoding into a bytes.Buffer does not fail) and the
   reuse of the byte buffers.  No proofs in this file. *)
From SV Require Import Model.Common Model.ChunkId.
Open Scope Z_scope.

Inductive okind := KForward | KDatadog.

Record config := {
  cf_kind : okind;
  cf_as_array : bool;     (* fluentd "Forward" mode: entries as a msgpack array *)
  cf_compress : bool;     (* initCompressorFunc != nil ("CompressedPackedForward"); always for Datadog *)
  cf_max_records : Z;     (* chunkMaxRecords; 0 = no limit *)
  cf_max_bytes : Z;       (* chunkMaxSizeBytes; 0 = no limit *)
  cf_suffix : bytes;      (* chunkIDSuffix *)
  cf_tag : bytes          (* tag given to NewChunkMaker (unused by Datadog) *)
}.

(* fluentdforward Config.NewChunkMaker: mode 0 Forward, 1 PackedForward, 2 CompressedPackedForward *)
Definition suffix_ff : bytes := [46; 102; 102]%N.
Definition suffix_dd : bytes := [46; 100; 100]%N.

Definition fluentd_config (mode : Z) (maxr maxb : Z) (tag : bytes) : config :=
  {| cf_kind := KForward;
     cf_as_array := (mode =? 0);
     cf_compress := (mode =? 2);
     cf_max_records := maxr; cf_max_bytes := maxb;
     cf_suffix := suffix_ff; cf_tag := tag |}.

(* datadog Config.NewChunkMaker *)
Definition datadog_config (maxr maxb : Z) : config :=
  {| cf_kind := KDatadog; cf_as_array := false; cf_compress := true;
     cf_max_records := maxr; cf_max_bytes := maxb;
     cf_suffix := suffix_dd; cf_tag := [] |}.

Section Packer.
Variable R : Type.
Variable rlen : R -> Z.        (* len(stream) *)

(* one Write call on the chunk's writer *)
Inductive piece := POpen | PComma | PClose | PRec (r : R).

Definition piece_len (p : piece) : Z :=
  match p with PRec r => rlen r | _ => 1 end.

Fixpoint pieces_len (l : list piece) : Z :=
  match l with
  | [] => 0
  | p :: l' => piece_len p + pieces_len l'
  end.

(* intermediateChunk *)
Record chunk := {
  ck_id : bytes;
  ck_num_records : Z;
  ck_num_bytes : Z;
  ck_written : list piece     (* what has been written to compressor / writeBuffer, in order *)
}.

(* buildNewChunkFunc's closure *)
Definition new_chunk (cfg : config) (id : bytes) : chunk :=
  match cf_kind cfg with
  | KForward => {| ck_id := id; ck_num_records := 0; ck_num_bytes := 0; ck_written := [] |}
  | KDatadog => {| ck_id := id; ck_num_records := 0; ck_num_bytes := 1; ck_written := [POpen] |}
  end.

(* Write *)
Definition chunk_write (cfg : config) (ck : chunk) (r : R) : chunk :=
  match cf_kind cfg with
  | KForward =>
      {| ck_id := ck_id ck;
         ck_num_records := ck_num_records ck + 1;
         ck_num_bytes := ck_num_bytes ck + rlen r;
         ck_written := ck_written ck ++ [PRec r] |}
  | KDatadog =>
      let w := if ck_num_records ck =? 0 then ck_written ck else ck_written ck ++ [PComma] in
      {| ck_id := ck_id ck;
         ck_num_records := ck_num_records ck + 1;
         ck_num_bytes := ck_num_bytes ck + (1 + rlen r);
         ck_written := w ++ [PRec r] |}
  end.

(* CanAppendData *)
Definition can_append (cfg : config) (ck : chunk) (data_length : Z) : bool :=
  match cf_kind cfg with
  | KForward =>
      if (cf_max_records cfg >? 0) && (ck_num_records ck >=? cf_max_records cfg) then false
      else if (cf_max_bytes cfg >? 0) && (ck_num_bytes ck + data_length >? cf_max_bytes cfg) then false
      else true
  | KDatadog =>
      if (cf_max_records cfg >? 0) && (ck_num_records ck >=? cf_max_records cfg) then false
      else if (cf_max_bytes cfg >? 0) && (ck_num_bytes ck + data_length + 1 >? cf_max_bytes cfg) then false
      else true
  end.

(* what FinalizeChunk hands over: base.LogChunk.ID and the arguments of the encoder *)
Record echunk := {
  e_id : bytes;            (* LogChunk.ID: the storage name *)
  e_opt_chunk : bytes;     (* encodeChunkParams.ID -> option.chunk *)
  e_size : Z;              (* encodeChunkParams.NumRecords -> option.size, array length in Forward mode *)
  e_num_bytes : Z;         (* encodeChunkParams.NumBytes (not transmitted) *)
  e_compressed : bool;     (* IsCompressed -> option.compressed = "gzip" *)
  e_as_array : bool;
  e_tag : bytes;
  e_body : list piece      (* everything written to the compressor / buffer *)
}.

(* FinalizeChunk *)
Definition finalize (cfg : config) (ck : chunk) : echunk :=
  match cf_kind cfg with
  | KForward =>
      {| e_id := ck_id ck; e_opt_chunk := ck_id ck;
         e_size := ck_num_records ck; e_num_bytes := ck_num_bytes ck;
         e_compressed := cf_compress cfg; e_as_array := cf_as_array cfg; e_tag := cf_tag cfg;
         e_body := ck_written ck |}
  | KDatadog =>
      {| e_id := ck_id ck; e_opt_chunk := ck_id ck;
         e_size := ck_num_records ck; e_num_bytes := ck_num_bytes ck + 1;
         e_compressed := true; e_as_array := false; e_tag := [];
         e_body := ck_written ck ++ [PClose] |}
  end.

(* messagePacker + IntermediateChunkFactory *)
Record pstate := {
  pk_cur : option chunk;     (* currentChunk *)
  pk_gen : idgen             (* chunkFactory.idGenerator *)
}.

Definition pstate_init : pstate := {| pk_cur := None; pk_gen := idgen_init |}.

(* FlushBuffer *)
Definition flush_buffer (cfg : config) (st : pstate) : pstate * option echunk :=
  match pk_cur st with
  | None => (st, None)
  | Some ck => ({| pk_cur := None; pk_gen := pk_gen st |}, Some (finalize cfg ck))
  end.

(* WriteStream; [now] is the clock reading NewChunk -> Generate would get *)
Definition write_stream (cfg : config) (now : Z) (st : pstate) (r : R) : pstate * option echunk :=
  let '(st1, previous) :=
    match pk_cur st with
    | Some ck => if can_append cfg ck (rlen r) then (st, None) else flush_buffer cfg st
    | None => (st, None)
    end in
  let '(ck, g) :=
    match pk_cur st1 with
    | Some ck => (ck, pk_gen st1)
    | None => let (g', id) := generate_id (cf_suffix cfg) now (pk_gen st1) in (new_chunk cfg id, g')
    end in
  ({| pk_cur := Some (chunk_write cfg ck r); pk_gen := g |}, previous).

Inductive op := OWrite (now : Z) (r : R) | OFlush.

Definition step (cfg : config) (st : pstate) (o : op) : pstate * option echunk :=
  match o with
  | OWrite now r => write_stream cfg now st r
  | OFlush => flush_buffer cfg st
  end.

(* the result of every call, in order *)
Fixpoint run_trace (cfg : config) (st : pstate) (ops : list op) : pstate * list (option echunk) :=
  match ops with
  | [] => (st, [])
  | o :: ops' =>
      let (st1, out) := step cfg st o in
      let (st2, outs) := run_trace cfg st1 ops' in
      (st2, out :: outs)
  end.

Definition opt_list {A} (o : option A) : list A :=
  match o with Some a => [a] | None => [] end.

Definition emitted_of (outs : list (option echunk)) : list echunk := flat_map opt_list outs.

(* final state and the chunks emitted, in emission order *)
Definition run (cfg : config) (st : pstate) (ops : list op) : pstate * list echunk :=
  let (st', outs) := run_trace cfg st ops in (st', emitted_of outs).

(* ---------- bytes of a chunk: rendering, gzip and the msgpack wrapper as oracles ---------- *)
Section Encode.
Variable rbytes : R -> bytes.

Definition render_piece (p : piece) : bytes :=
  match p with
  | POpen => [91]%N      (* "[" *)
  | PComma => [44]%N     (* "," *)
  | PClose => [93]%N     (* "]" *)
  | PRec r => rbytes r
  end.

Definition render (l : list piece) : bytes := concat (map render_piece l).

Variable gz : bytes -> bytes.
(* EncodeChunk: tag, asArray, NumRecords, ID, IsCompressed, data *)
Variable mp_wrap : bytes -> bool -> Z -> bytes -> bool -> bytes -> bytes.

(* LogChunk.Data *)
Definition chunk_data (cfg : config) (e : echunk) : bytes :=
  let raw := render (e_body e) in
  let buf := if e_compressed e then gz raw else raw in
  match cf_kind cfg with
  | KForward => mp_wrap (e_tag e) (e_as_array e) (e_size e) (e_opt_chunk e) (e_compressed e) buf
  | KDatadog => buf
  end.
End Encode.
End Packer.

Arguments POpen {R}.
Arguments PComma {R}.
Arguments PClose {R}.
Arguments PRec {R} r.
Arguments OFlush {R}.
Arguments OWrite {R} now r.
Arguments pstate_init {R}.
Arguments opt_list {A} o.
Arguments ck_id {R} c.
Arguments ck_num_records {R} c.
Arguments ck_num_bytes {R} c.
Arguments ck_written {R} c.
Arguments e_id {R} e.
Arguments e_opt_chunk {R} e.
Arguments e_size {R} e.
Arguments e_num_bytes {R} e.
Arguments e_compressed {R} e.
Arguments e_as_array {R} e.
Arguments e_tag {R} e.
Arguments e_body {R} e.
Arguments pk_cur {R} p.
Arguments pk_gen {R} p.

(* ---------- how Write feeds the chunk's sink (gzip writer / write buffer) ----------
   chunk.go Write: `compressor.Write(data)` / `writeBuffer.Write(data)` - every record goes to the sink at once
   ([FeedDirect]), whatever its length.  [FeedStaged cap flush_first] are variants of the mechanism with a batch
   buffer of [cap] bytes in front of the sink: records shorter than [cap] wait there (the buffer is handed over
   when the next record does not fit any more and in FinalizeChunk), a record of [cap] bytes or more goes
   straight to the sink - after handing over what waits ([flush_first = true]) or not ([false], the variant
   refuted in Props/C11.v).  The sink is a streaming writer: what it holds is the concatenation of what it was
   given, in that order. *)
Section Feed.
Variable R : Type.
Variable rlen : R -> Z.

Inductive feed_mode := FeedDirect | FeedStaged (cap : Z) (flush_first : bool).

Record feed := {
  fd_sink : list R;         (* what the sink has received, in order *)
  fd_pending : list R;      (* records waiting in the batch buffer *)
  fd_pending_len : Z        (* len(pending) *)
}.

Definition feed_init : feed := {| fd_sink := []; fd_pending := []; fd_pending_len := 0 |}.

(* hand the batch buffer over to the sink *)
Definition feed_flush (f : feed) : feed :=
  {| fd_sink := fd_sink f ++ fd_pending f; fd_pending := []; fd_pending_len := 0 |}.

Definition feed_sink_write (f : feed) (r : R) : feed :=
  {| fd_sink := fd_sink f ++ [r]; fd_pending := fd_pending f; fd_pending_len := fd_pending_len f |}.

(* Write *)
Definition feed_write (m : feed_mode) (f : feed) (r : R) : feed :=
  match m with
  | FeedDirect => feed_sink_write f r
  | FeedStaged cap flush_first =>
      if rlen r >=? cap then feed_sink_write (if flush_first then feed_flush f else f) r
      else
        let f1 := if fd_pending_len f + rlen r >? cap then feed_flush f else f in
        {| fd_sink := fd_sink f1; fd_pending := fd_pending f1 ++ [r];
           fd_pending_len := fd_pending_len f1 + rlen r |}
  end.

Fixpoint feed_run (m : feed_mode) (f : feed) (rs : list R) : feed :=
  match rs with
  | [] => f
  | r :: rs' => feed_run m (feed_write m f r) rs'
  end.

(* FinalizeChunk: what the sink holds when it is closed *)
Definition feed_close (f : feed) : list R := fd_sink (feed_flush f).

Definition feed_all (m : feed_mode) (rs : list R) : list R := feed_close (feed_run m feed_init rs).
End Feed.


(* ===================== correspondence entry point =====================

   kind 0  packer, literal streams
           sargs = tag :: streams (in the order of the Write ops)
           zargs = target, maxRecords, maxBytes, frozen, ops...      op: 0 = FlushBuffer, 1 = WriteStream(next stream)
   kind 1  packer, synthetic streams given by their length only
           sargs = [tag]
           zargs = target, maxRecords, maxBytes, frozen, ops...      op: -1 = FlushBuffer, n>=0 = WriteStream(n bytes)
           target: 0 Forward, 1 PackedForward, 2 CompressedPackedForward, 3 Datadog (limits through the
           verif constructor), 4 Datadog through Config.NewChunkMaker (limits = the package constants,
           passed in the arguments)
           frozen = 1: the generator's epoch was put in the far future, so every id takes the sequence++ branch
           A final FlushBuffer is always appended.
           output "ok:" item;item;...   item = "-" (nil) or
              rank.seq.idok.size.flags.tag(hex).payload      kind 0: payload = hex of the uncompressed bytes
                                                              kind 1: payload = their number
              rank = number of chunk ids of this case sorting before this one; seq = the 8 sequence digits
              when frozen, else "n"; idok = 1 iff LogChunk.ID has the documented shape and equals option.chunk;
              size = option.size (Datadog: "x"); flags: a|b (array or binary) then z|p (gzip or plain)
   kind 2  id generator, scripted state: sargs = [suffix]; zargs = (emode, sv)*
           before each Generate the epoch is set to 0 (emode 0) or MaxInt64 (emode 1) and the sequence to sv
           (kept when sv = -1); output "ids:" item;...  item = T<rest of id>.<n|f|?>.<sequence after>
   kind 3  id generator, natural run: zargs = n, d1..dn (clock increments used by the model only)
           output "nat:n=<n>,inc=<0|1>,fmt=<0|1>"
   kind 4  formatting only: sargs = [suffix], zargs = t, seq; output "fmt:" ++ id *)

Definition target_config (target maxr maxb : Z) (tag : bytes) : config :=
  if target <? 3 then fluentd_config target maxr maxb tag else datadog_config maxr maxb.

Definition max_int64 : Z := 2 ^ 63 - 1.

Definition start_state {R} (frozen : Z) : pstate R :=
  if frozen =? 1 then {| pk_cur := None; pk_gen := {| g_epoch := max_int64; g_seq := 0 |} |}
  else pstate_init.

(* model clock of the correspondence runs: advances every second op *)
Definition model_now (i : nat) : Z := 1700000000000000000 + Z.of_nat (i / 2).

Fixpoint ops_literal (i : nat) (zs : list Z) (streams : list bytes) : list (op bytes) :=
  match zs with
  | [] => []
  | z :: zs' =>
      if z =? 0 then OFlush :: ops_literal (S i) zs' streams
      else match streams with
           | s :: streams' => OWrite (model_now i) s :: ops_literal (S i) zs' streams'
           | [] => OWrite (model_now i) [] :: ops_literal (S i) zs' []
           end
  end.

Fixpoint ops_synthetic (i : nat) (zs : list Z) : list (op Z) :=
  match zs with
  | [] => []
  | z :: zs' =>
      if z <? 0 then OFlush :: ops_synthetic (S i) zs'
      else OWrite (model_now i) z :: ops_synthetic (S i) zs'
  end.

Definition dot : N := 46%N.
Definition semicolon : N := 59%N.

Definition bool_digit (b : bool) : N := if b then 49%N else 48%N.

Definition item_of {R} (cfg : config) (frozen : Z) (payload : list (piece R) -> bytes)
           (all_ids : list bytes) (e : echunk R) : bytes :=
  dec_of_Z (Z.of_nat (rank_of (e_id e) all_ids)) ++ dot ::
  (if frozen =? 1 then firstn 8 (skipn 20 (e_id e)) else [110]%N) ++ dot ::
  bool_digit (id_shape_ok (cf_suffix cfg) (e_id e) && bytes_eqb (e_id e) (e_opt_chunk e)) :: dot ::
  (match cf_kind cfg with KForward => dec_of_Z (e_size e) | KDatadog => [120]%N end) ++ dot ::
  (if e_as_array e then 97%N else 98%N) :: (if e_compressed e then 122%N else 112%N) :: dot ::
  hex (e_tag e) ++ dot :: payload (e_body e).

Definition items_of {R} (cfg : config) (frozen : Z) (payload : list (piece R) -> bytes)
           (outs : list (option (echunk R))) : bytes :=
  let ids := map (@e_id R) (emitted_of R outs) in
  join semicolon
    (map (fun o => match o with
                   | None => [45]%N
                   | Some e => item_of cfg frozen payload ids e
                   end) outs).

Definition str_ok_colon : bytes := str_ok ++ [colon].

Definition run_packer_literal (c : case) : bytes :=
  let cfg := target_config (zarg c 0) (zarg c 1) (zarg c 2) (sarg c 0) in
  let frozen := zarg c 3 in
  let ops := ops_literal 0 (skipn 4 (c_zargs c)) (skipn 1 (c_sargs c)) ++ [OFlush] in
  let (_, outs) := run_trace bytes (fun s => Z.of_nat (length s)) cfg (start_state frozen) ops in
  str_ok_colon ++ items_of cfg frozen (fun body => hex (render bytes (fun s => s) body)) outs.

Definition run_packer_synthetic (c : case) : bytes :=
  let cfg := target_config (zarg c 0) (zarg c 1) (zarg c 2) (sarg c 0) in
  let frozen := zarg c 3 in
  let ops := ops_synthetic 0 (skipn 4 (c_zargs c)) ++ [OFlush] in
  let (_, outs) := run_trace Z (fun n => n) cfg (start_state frozen) ops in
  str_ok_colon ++ items_of cfg frozen (fun body => dec_of_Z (pieces_len Z (fun n => n) body)) outs.

(* ---- kind 2: scripted generator ---- *)
Fixpoint idgen_script (suffix : bytes) (i : nat) (g : idgen) (zs : list Z) : list bytes :=
  match zs with
  | emode :: sv :: zs' =>
      let now := 1700000000000000000 + Z.of_nat i in
      let g0 := {| g_epoch := if emode =? 0 then 0 else max_int64;
                   g_seq := if sv <? 0 then g_seq g else sv |} in
      let (g1, id) := generate_id suffix now g0 in
      let canon :=
        if bytes_eqb (firstn 19 id) (dec_lsb 19 (Z.to_N now) []) then 84%N :: skipn 19 id
        else [66; 65; 68]%N ++ hex id in
      let ecls := if g_epoch g1 =? now then 110%N else if g_epoch g1 =? max_int64 then 102%N else 63%N in
      (canon ++ dot :: ecls :: dot :: dec_of_Z (g_seq g1)) :: idgen_script suffix (S i) g1 zs'
  | _ => []
  end.

Definition run_idgen_script (c : case) : bytes :=
  [105; 100; 115; 58]%N ++ join semicolon (idgen_script (sarg c 0) 0 idgen_init (c_zargs c)).

(* ---- kind 3: natural run ---- *)
Fixpoint prefix_sums (acc : Z) (ds : list Z) : list Z :=
  match ds with
  | [] => []
  | d :: ds' => (acc + d) :: prefix_sums (acc + d) ds'
  end.

Definition str_nat_n : bytes := [110; 97; 116; 58; 110; 61]%N.        (* "nat:n=" *)
Definition str_inc : bytes := [44; 105; 110; 99; 61]%N.               (* ",inc=" *)
Definition str_fmt : bytes := [44; 102; 109; 116; 61]%N.              (* ",fmt=" *)

Definition run_idgen_natural (c : case) : bytes :=
  let n := Z.to_nat (zarg c 0) in
  let nows := firstn n (prefix_sums 1700000000000000000 (skipn 1 (c_zargs c))) in
  let ids := gen_ids suffix_ff idgen_init nows in
  str_nat_n ++ dec_of_Z (Z.of_nat (length ids)) ++
  str_inc ++ [bool_digit (strictly_increasing ids)] ++
  str_fmt ++ [bool_digit (forallb (id_shape_ok suffix_ff) ids)].

(* ---- kind 4: formatting ---- *)
Definition run_format (c : case) : bytes :=
  [102; 109; 116; 58]%N ++ format_id (sarg c 0) (zarg c 0, zarg c 1).

(* ---- kinds 5 and 6: the real code under Go's fake clock (build tag faketime): the clock starts at
   2009-11-10 23:00:00 UTC and advances exactly by the scripted amounts, so the ids are compared literally ----
   kind 5  id generator: sargs = [suffix], zargs = d1 d2 ... (the clock advances by d_i >= 0 before the i-th
           Generate); output "clk:<base>;id;id;..."
   kind 6  packer (synthetic streams as in kind 1): zargs = target, maxRecords, maxBytes, 0, (d, op)*
           output "fk:<base>;item;..."  item = "-" or  id.idok.size.flags.tag(hex).payloadlength *)
Definition fake_base : Z := 1257894000000000000.

Definition run_idgen_clock (c : case) : bytes :=
  [99; 108; 107; 58]%N ++
  join semicolon (dec_of_Z fake_base :: gen_ids (sarg c 0) idgen_init (prefix_sums fake_base (c_zargs c))).

Fixpoint ops_clocked (now : Z) (zs : list Z) : list (op Z) :=
  match zs with
  | d :: z :: zs' =>
      let now' := now + d in
      (if z <? 0 then OFlush else OWrite now' z) :: ops_clocked now' zs'
  | _ => []
  end.

Definition item_literal {R} (cfg : config) (payload : list (piece R) -> bytes) (e : echunk R) : bytes :=
  e_id e ++ dot ::
  bool_digit (id_shape_ok (cf_suffix cfg) (e_id e) && bytes_eqb (e_id e) (e_opt_chunk e)) :: dot ::
  (match cf_kind cfg with KForward => dec_of_Z (e_size e) | KDatadog => [120]%N end) ++ dot ::
  (if e_as_array e then 97%N else 98%N) :: (if e_compressed e then 122%N else 112%N) :: dot ::
  hex (e_tag e) ++ dot :: payload (e_body e).

Definition run_packer_clocked (c : case) : bytes :=
  let cfg := target_config (zarg c 0) (zarg c 1) (zarg c 2) (sarg c 0) in
  let ops := ops_clocked fake_base (skipn 4 (c_zargs c)) ++ [OFlush] in
  let (_, outs) := run_trace Z (fun n => n) cfg pstate_init ops in
  [102; 107; 58]%N ++
  join semicolon
    (dec_of_Z fake_base ::
     map (fun o => match o with
                   | None => [45]%N
                   | Some e => item_literal cfg (fun body => dec_of_Z (pieces_len Z (fun n => n) body)) e
                   end) outs).

(* ---- kind 7: two chunk makers alive at the same time, calls interleaved (they must not share any state) ----
   sargs = [tagA; tagB]; zargs = targetA, maxRecordsA, maxBytesA, targetB, maxRecordsB, maxBytesB, (which, op)*
   which = 0|1 selects the maker, op as in kind 1; a final FlushBuffer on A, then on B.
   output "two:" item;...  (items as in kind 1, frozen = 0, the rank of an id is taken among its own maker's ids) *)
Fixpoint ops_of_maker (which : Z) (i : nat) (zs : list Z) : list (op Z) :=
  match zs with
  | w :: z :: zs' =>
      if w =? which
      then (if z <? 0 then OFlush else OWrite (model_now i) z) :: ops_of_maker which (S i) zs'
      else ops_of_maker which (S i) zs'
  | _ => []
  end.

Definition item_bytes {R} (cfg : config) (payload : list (piece R) -> bytes) (ids : list bytes)
           (o : option (echunk R)) : bytes :=
  match o with
  | None => [45]%N
  | Some e => item_of cfg 0 payload ids e
  end.

(* merge the two result lists back into call order *)
Fixpoint merge_outs (zs : list Z) (a b : list bytes) : list bytes :=
  match zs with
  | w :: _ :: zs' =>
      if w =? 0
      then match a with x :: a' => x :: merge_outs zs' a' b | [] => [] end
      else match b with x :: b' => x :: merge_outs zs' a b' | [] => [] end
  | _ => a ++ b
  end.

Definition run_two_makers (c : case) : bytes :=
  let cfgA := target_config (zarg c 0) (zarg c 1) (zarg c 2) (sarg c 0) in
  let cfgB := target_config (zarg c 3) (zarg c 4) (zarg c 5) (sarg c 1) in
  let zs := skipn 6 (c_zargs c) in
  let plen := fun body => dec_of_Z (pieces_len Z (fun n => n) body) in
  let (_, outsA) := run_trace Z (fun n => n) cfgA pstate_init (ops_of_maker 0 0 zs ++ [OFlush]) in
  let (_, outsB) := run_trace Z (fun n => n) cfgB pstate_init (ops_of_maker 1 0 zs ++ [OFlush]) in
  let idsA := map (@e_id Z) (emitted_of Z outsA) in
  let idsB := map (@e_id Z) (emitted_of Z outsB) in
  [116; 119; 111; 58]%N ++
  join semicolon (merge_outs zs (map (item_bytes cfgA plen idsA) outsA) (map (item_bytes cfgB plen idsB) outsB)).

(* ---- kind 8: as kind 1 in the packed modes (targets 1, 2), the record of op i is a run of the letter
   'a' + i mod 26; the payload field is "<length>=<letter>x<run>+<letter>x<run>..." = the run-length form of
   what Write fed to the sink, in feed order (adjacent runs of one letter merged, empty records invisible) ---- *)
Fixpoint ops_lettered (i : nat) (zs : list Z) : list (op (Z * Z)) :=
  match zs with
  | [] => []
  | z :: zs' =>
      if z <? 0 then OFlush :: ops_lettered (S i) zs'
      else OWrite (model_now i) (97 + Z.of_nat (i mod 26), z) :: ops_lettered (S i) zs'
  end.

Fixpoint piece_recs {R} (l : list (piece R)) : list R :=
  match l with
  | [] => []
  | PRec r :: l' => r :: piece_recs l'
  | _ :: l' => piece_recs l'
  end.

Fixpoint run_lengths (cur : option (Z * Z)) (rs : list (Z * Z)) : list (Z * Z) :=
  match rs with
  | [] => opt_list cur
  | (f, n) :: rs' =>
      if n <=? 0 then run_lengths cur rs'
      else match cur with
           | Some (cf, cn) =>
               if cf =? f then run_lengths (Some (cf, cn + n)) rs'
               else (cf, cn) :: run_lengths (Some (f, n)) rs'
           | None => run_lengths (Some (f, n)) rs'
           end
  end.

Definition payload_lettered (body : list (piece (Z * Z))) : bytes :=
  dec_of_Z (pieces_len (Z * Z) snd body) ++ 61%N ::
  join 43%N (map (fun fn => dec_of_Z (fst fn) ++ 120%N :: dec_of_Z (snd fn))
                 (run_lengths None (feed_all (Z * Z) snd FeedDirect (piece_recs body)))).

Definition run_packer_lettered (c : case) : bytes :=
  let target := zarg c 0 in
  if negb ((target =? 1) || (target =? 2)) then bad_case_output else
  let cfg := target_config target (zarg c 1) (zarg c 2) (sarg c 0) in
  let frozen := zarg c 3 in
  let ops := ops_lettered 0 (skipn 4 (c_zargs c)) ++ [OFlush] in
  let (_, outs) := run_trace (Z * Z) snd cfg (start_state frozen) ops in
  str_ok_colon ++ items_of cfg frozen payload_lettered outs.

(* ---- kind 9: Datadog, records produced by the output's REAL serializer from field values carried by the case
   (sargs = tag :: one message per written record); no byte limit (zarg 2 must be 0), so the chunking depends
   on the record limit and the flushes only; zargs as in kind 0 (op 0 = FlushBuffer, 1 = WriteStream(next record)).
   The payload field is the number of records in the chunk's JSON array. ---- *)
Fixpoint ops_counted (i : nat) (zs : list Z) : list (op Z) :=
  match zs with
  | [] => []
  | z :: zs' =>
      if z =? 0 then OFlush :: ops_counted (S i) zs'
      else OWrite (model_now i) 1 :: ops_counted (S i) zs'
  end.

Definition run_packer_counted (c : case) : bytes :=
  if negb ((zarg c 0 =? 3) && (zarg c 2 =? 0)) then bad_case_output else
  let cfg := target_config 3 (zarg c 1) 0 (sarg c 0) in
  let frozen := zarg c 3 in
  let ops := ops_counted 0 (skipn 4 (c_zargs c)) ++ [OFlush] in
  let (_, outs) := run_trace Z (fun n => n) cfg (start_state frozen) ops in
  str_ok_colon ++ items_of cfg frozen (fun body => dec_of_Z (Z.of_nat (length (piece_recs body)))) outs.

Definition run_case_C11 (c : case) : bytes :=
  match c_kind c with
  | 0%N => run_packer_literal c
  | 1%N => run_packer_synthetic c
  | 2%N => run_idgen_script c
  | 3%N => run_idgen_natural c
  | 4%N => run_format c
  | 5%N => run_idgen_clock c
  | 6%N => run_packer_clocked c
  | 7%N => run_two_makers c
  | 8%N => run_packer_lettered c
  | 9%N => run_packer_counted c
  | _ => bad_case_output
  end.
