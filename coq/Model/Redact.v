(* Model of transform/tredactemail: redactemail.go (redactEmailFindFirst, redactEmail1,
   redactFindEmailBoundary, redactFindEmailStart, redactFindEmailEnd, redactEmailCheckNumber - after
   the fix: commit that makes the number test look at every character) and the Transform method of
   tredactemail.go.  Same branches and index arithmetic as the Go code; src[i] and src[a:b] go
   through checked accessors that yield [Panic] exactly where Go would.  Besides the output the
   model returns the list of redacted spans [(emailStart, emailEnd)] in the order they are made.

   Conventions: Go's int -1 ("not found") is [None]; len(src)-1 comparisons are written without the
   subtraction (sAt < len-1 is S sAt < len; sAt > len-1 is len <= sAt) because lengths are [nat].
   No proofs in this file. *)
From SV Require Import Model.Common.
Local Open Scope nat_scope.

Definition ch_at : N := 64%N.     (* '@' *)
Definition ch_dot : N := 46%N.    (* '.' *)
Definition ch_slash : N := 47%N.  (* '/' *)

(* validWordChars: A-Z a-z 0-9 ; validAddressChars: the same plus . - _   (tables indexed by a byte) *)
Definition is_word (c : N) : bool :=
  ((65 <=? c) && (c <=? 90) || (97 <=? c) && (c <=? 122) || (48 <=? c) && (c <=? 57))%N.
Definition is_addr (c : N) : bool :=
  (is_word c || (c =? 46) || (c =? 45) || (c =? 95))%N.

Definition rbind {A B} (o : outcome A) (f : A -> outcome B) : outcome B :=
  match o with
  | Ok a => f a
  | Err e => Err e
  | Panic s => Panic s
  end.
Notation "x <-- e ;; f" := (rbind e (fun x => f)) (at level 61, e at next level, right associativity).

(* src[i] *)
Definition get (t : bytes) (i : nat) : outcome N :=
  match nth_error t i with
  | Some c => Ok c
  | None => Panic (N.of_nat i)
  end.

(* src[a:b] *)
Definition sub (t : bytes) (a b : nat) : outcome bytes :=
  match slice t a b with
  | Some s => Ok s
  | None => Panic 100000%N
  end.

(* strings.IndexByte *)
Fixpoint index_byte (s : bytes) (c : N) : option nat :=
  match s with
  | [] => None
  | x :: s' => if (x =? c)%N then Some 0 else option_map S (index_byte s' c)
  end.

Definition out_of_fuel {A} : outcome A := Err 1%N.

(* sAt > 0 && validWordChars[src[sAt-1]] && validWordChars[src[sAt+1]]   (short-circuit order kept) *)
Definition at_guard (t : bytes) (sAt : nat) : outcome bool :=
  if 0 <? sAt then
    p <-- get t (sAt - 1) ;;
    if is_word p then n <-- get t (sAt + 1) ;; Ok (is_word n) else Ok false
  else Ok false.

(* ---------- redactEmailFindFirst ---------- *)

Fixpoint find_first_loop (fuel : nat) (t : bytes) (sAt : nat) : outcome (option nat) :=
  match fuel with
  | O => out_of_fuel
  | S f =>
    if S sAt <? length t then                       (* for sAt < sEnd *)
      g <-- at_guard t sAt ;;
      if g then Ok (Some sAt) else
      let sAt1 := S sAt in                          (* sAt++ *)
      rest <-- sub t sAt1 (length t) ;;             (* src[sAt:] *)
      match index_byte rest ch_at with
      | None => Ok None                             (* break; return -1 *)
      | Some k => find_first_loop f t (sAt1 + k)
      end
    else Ok None
  end.

(* When the first IndexByte finds nothing Go enters the loop once with sAt = -1 (if the text is not
   empty): the guard fails on sAt > 0, sAt becomes 0, the second IndexByte fails as well: -1. *)
Definition find_first (t : bytes) : outcome (option nat) :=
  match index_byte t ch_at with
  | None => Ok None
  | Some k => find_first_loop (S (length t)) t k
  end.

(* ---------- redactEmailCheckNumber ---------- *)

Definition check_number (s : bytes) : outcome bool :=
  if length s <? 2 then Ok false else
  first <-- get s 0 ;;
  if negb (is_digit first) then Ok false else
  last <-- get s (length s - 1) ;;
  if negb (is_digit last) then Ok false else
  (* for i := 1; i < len(s)-1; i++ : every character in between is a digit or a dot *)
  mid <-- sub s 1 (length s - 1) ;;
  Ok (forallb (fun c => is_digit c || (c =? ch_dot)%N) mid).

(* ---------- redactFindEmailStart ----------
   [j] is the Go variable i plus one (i runs from atIndex-1 down to limitStart-1, possibly -1). *)
Fixpoint find_start_loop (t : bytes) (limit : nat) (j : nat) : outcome nat :=
  match j with
  | O => Ok O                                       (* i = -1: i >= limitStart is false *)
  | S i =>
    if limit <=? i then                             (* i >= limitStart *)
      c <-- get t i ;;
      if is_addr c then find_start_loop t limit i else Ok j   (* break *)
    else Ok j
  end.

Definition find_start (t : bytes) (atIndex limit : nat) : outcome (option nat) :=
  j <-- find_start_loop t limit atIndex ;;
  match j with
  | O => Ok (Some O)                                (* i = -1 *)
  | S i =>
    c <-- get t i ;;                                (* i >= 0 && src[i] == '/' *)
    if (c =? ch_slash)%N then Ok None else Ok (Some j)
  end.

(* ---------- redactFindEmailEnd ---------- *)

Inductive dot_result := DotNotAddr | DotNone | DotAt (i : nat).

(* first loop: for i := atIndex+1; i < len(src); i++ - [rest] is src[i:] *)
Fixpoint dot_scan (rest : bytes) (i : nat) : dot_result :=
  match rest with
  | [] => DotNone
  | c :: r =>
    if negb (is_addr c) then DotNotAddr
    else if (c =? ch_dot)%N then DotAt i
    else dot_scan r (S i)
  end.

(* second loop: for endIndex = dotIndex+2; endIndex < len(src); endIndex++ *)
Fixpoint end_scan (rest : bytes) (i : nat) : nat :=
  match rest with
  | [] => i
  | c :: r => if is_addr c then end_scan r (S i) else i
  end.

Definition find_end (t : bytes) (atIndex : nat) : outcome (option nat) :=
  match dot_scan (skipn (atIndex + 1) t) (atIndex + 1) with
  | DotNotAddr => Ok None
  | DotNone =>                                      (* truncated domain, e.g. foo.bar@google *)
    d <-- sub t (atIndex + 1) (length t) ;;
    num <-- check_number d ;;
    if num then Ok None else Ok (Some (length t))
  | DotAt dotIndex =>
    if dotIndex =? length t - 1 then Ok (Some (length t))   (* truncated, e.g. foo.bar@google. *)
    else
      c <-- get t (dotIndex + 1) ;;
      if negb (is_word c) then Ok None else         (* not email, e.g. Trx@123456./ *)
      let endIndex := end_scan (skipn (dotIndex + 2) t) (dotIndex + 2) in
      d <-- sub t (atIndex + 1) endIndex ;;
      num <-- check_number d ;;
      if num then Ok None else Ok (Some endIndex)
  end.

(* redactFindEmailBoundary: (-1,-1) when the start is rejected, else (start, end or -1) *)
Definition find_boundary (t : bytes) (atIndex limit : nat) : outcome (option nat * option nat) :=
  s <-- find_start t atIndex limit ;;
  match s with
  | None => Ok (None, None)
  | Some es => e <-- find_end t atIndex ;; Ok (Some es, e)
  end.

(* ---------- redactEmail1 ---------- *)

Definition redacted_word : bytes := [82;69;68;65;67;84;69;68]%N.  (* "REDACTED" *)

Definition span := (nat * nat)%type.

(* loop state: sAt, sCopied, dst, spans made so far (latest first; numRedacted = their number) *)
Record rstate := { r_at : nat; r_copied : nat; r_dst : bytes; r_spans : list span }.

Inductive step_result :=
| Continue (st : rstate)      (* next iteration *)
| Break (st : rstate).        (* leave the loop *)

(* nextAt := strings.IndexByte(src[sAt:], '@'); if -1 break; sAt += nextAt *)
Definition next_at (t : bytes) (st : rstate) : outcome step_result :=
  rest <-- sub t (r_at st) (length t) ;;
  match index_byte rest ch_at with
  | None => Ok (Break st)
  | Some k => Ok (Continue {| r_at := r_at st + k; r_copied := r_copied st; r_dst := r_dst st; r_spans := r_spans st |})
  end.

(* one iteration of the loop body, entered with sAt < sEnd *)
Definition redact_step (t : bytes) (st : rstate) : outcome step_result :=
  let sAt := r_at st in
  let sCopied := r_copied st in
  g <-- at_guard t sAt ;;
  if g then
    b <-- find_boundary t sAt sCopied ;;
    match b with
    | (Some emailStart, Some emailEnd) =>
      pre <-- sub t sCopied emailStart ;;            (* src[sCopied:emailStart] *)
      let st' := {| r_at := emailEnd; r_copied := emailEnd;
                    r_dst := r_dst st ++ pre ++ redacted_word;
                    r_spans := (emailStart, emailEnd) :: r_spans st |} in
      if length t <=? emailEnd                       (* if sAt > sEnd break *)
      then Ok (Break st')
      else next_at t st'
    | _ =>
      next_at t {| r_at := S sAt; r_copied := sCopied; r_dst := r_dst st; r_spans := r_spans st |}
    end
  else
    next_at t {| r_at := S sAt; r_copied := sCopied; r_dst := r_dst st; r_spans := r_spans st |}.

(* dst = append(dst, src[sCopied:]...) *)
Definition redact_finish (t : bytes) (st : rstate) : outcome (bytes * list span) :=
  tail <-- sub t (r_copied st) (length t) ;;
  Ok (r_dst st ++ tail, rev (r_spans st)).

Fixpoint redact_loop (fuel : nat) (t : bytes) (st : rstate) : outcome (bytes * list span) :=
  match fuel with
  | O => out_of_fuel
  | S f =>
    if S (r_at st) <? length t then                  (* for sAt < sEnd *)
      r <-- redact_step t st ;;
      match r with
      | Continue st' => redact_loop f t st'
      | Break st' => redact_finish t st'
      end
    else redact_finish t st
  end.

(* redactEmail1(src, start): the new text and the spans (numRedacted = length of the list) *)
Definition redact1 (t : bytes) (start : nat) : outcome (bytes * list span) :=
  redact_loop (S (length t)) t {| r_at := start; r_copied := 0; r_dst := []; r_spans := [] |}.

(* redactEmail(src) *)
Definition redact_email (t : bytes) : outcome (bytes * list span) :=
  f <-- find_first t ;;
  match f with
  | None => Ok (t, [])
  | Some first => redact1 t first
  end.

(* ---------- redactEmailTransform.Transform ----------
   Result: index of the first candidate '@' (None = -1), the field value after the transform,
   the spans, and whether the 'redacted' counter was advanced (once, by record.RawLength). *)
Record tr_result := { tr_first : option nat; tr_value : bytes; tr_spans : list span; tr_counted : bool }.

Definition transform_redact (value : bytes) : outcome tr_result :=
  match value with
  | [] => Ok {| tr_first := None; tr_value := value; tr_spans := []; tr_counted := false |}   (* len(value) == 0: PASS *)
  | _ =>
    f <-- find_first value ;;
    match f with
    | None => Ok {| tr_first := None; tr_value := value; tr_spans := []; tr_counted := false |}
    | Some first =>
      r <-- redact1 value first ;;
      let (newValue, spans) := r in
      if 0 <? length spans                            (* numRedacted > 0 *)
      then Ok {| tr_first := f; tr_value := newValue; tr_spans := spans; tr_counted := true |}
      else Ok {| tr_first := f; tr_value := value; tr_spans := []; tr_counted := false |}
    end
  end.

(* ---- correspondence entry point ----
   kind 0: sargs = [field value]; kind 1: sargs = field values of a sequence of records;
   output as described in harness/c14.go:
     skip | none:<c> | kept:<first>,<c> | red<k>:<first>,<n>,<c>:<hex of new value> | panic *)
Definition dec_nat (n : nat) : bytes := dec_of_Z (Z.of_nat n).
Definition bool_digit (b : bool) : bytes := if b then [49]%N else [48]%N.

Definition out_one (value : bytes) : bytes :=
  match value with
  | [] => [115;107;105;112]%N                                                (* skip *)
  | _ =>
    match transform_redact value with
    | Ok r =>
      match tr_first r with
      | None => [110;111;110;101]%N ++ colon :: bool_digit (tr_counted r)     (* none:<c> *)
      | Some first =>
        let n := length (tr_spans r) in
        if n =? 0 then [107;101;112;116]%N ++ colon :: dec_nat first ++ comma :: bool_digit (tr_counted r)
        else [114;101;100]%N ++ (if n <? 4 then dec_nat n else [52;112]%N) ++ colon ::
             dec_nat first ++ comma :: dec_nat n ++ comma :: bool_digit (tr_counted r) ++ colon :: hex (tr_value r)
      end
    | Err _ => [102;117;101;108]%N                                           (* fuel *)
    | Panic _ => str_panic
    end
  end.

Definition opt_dec (o : option nat) : bytes :=
  match o with
  | Some n => dec_nat n
  | None => [45;49]%N                                                        (* -1 *)
  end.

(* kind 1: a sequence of records through one transform instance: the transform keeps no state, so
   the outputs are those of the single values, "seq:" o1 ";" o2 ...
   kind 2: sargs = [src], zargs = [atIndex, limitStart]: redactFindEmailBoundary, "b:<start>,<end>" | panic
   kind 3: sargs = [s]: redactEmailCheckNumber, "n:0" | "n:1" | panic *)
Definition run_case_C14 (c : case) : bytes :=
  if (c_kind c =? 1)%N
  then [115;101;113]%N ++ colon :: join 59%N (map out_one (c_sargs c))
  else if (c_kind c =? 2)%N then
    match find_boundary (sarg c 0) (Z.to_nat (zarg c 0)) (Z.to_nat (zarg c 1)) with
    | Ok (s, e) => [98]%N ++ colon :: opt_dec s ++ comma :: opt_dec e
    | _ => str_panic
    end
  else if (c_kind c =? 3)%N then
    match check_number (sarg c 0) with
    | Ok b => [110]%N ++ colon :: bool_digit b
    | _ => str_panic
    end
  else out_one (sarg c 0).
