(* C06 - the routing model with the memory of the key values made explicit.

   In the agent the field values of a record are views into the record's backing buffer, which comes from a
   pool (base.LogAllocator) and is overwritten by later input once the record has been released.  The pipeline
   id / queue name, the tag and the key_* metric labels (strings.ToValidUTF8 of the key values) are built once from the key values of the first record
   of a key set and live as long as the pipeline.  This model keeps strings as *references*: an owned copy, a
   view into a buffer of the heap, or a Go substring of another string (which shares its memory), and reads
   them only when they are observed.  [keep] is the line
        permanentKeys := util.DeepCopyStrings(tempKeys)
   of LocalCachedMap.GetOrCreate: deep = true is the code, deep = false a copy of the slice only.
   No proofs in this file. *)
From SV Require Import Model.Common Model.Routing.
From SV Require Model.Utf8.
Open Scope N_scope.

Local Notation "x <- e ;; f" := (obind e (fun x => f)) (at level 61, e at next level, right associativity).

Definition heap := list bytes.          (* the pooled backing buffers, by number *)

Inductive sval :=
| Owned (b : bytes)                     (* a private copy *)
| View (buf off len : nat)              (* util.StringFromBytes(backbuf)[off:off+len] *)
| Sub (v : sval) (ps pe : option Z).    (* v[start:end] as computed by the template closure: shares v's memory *)

Fixpoint read (h : heap) (v : sval) : bytes :=
  match v with
  | Owned b => b
  | View i o l => firstn l (skipn o (nth i h []))
  | Sub v ps pe => match go_substr (read h v) ps pe with Ok r => r | _ => [] end
  end.

Definition keep (deep : bool) (h : heap) (v : sval) : sval := if deep then Owned (read h v) else v.

(* strings.ToValidUTF8(v, "") on a reference: the "fast path for unchanged input" returns the argument itself
   (it shares v's memory) when v is valid at that moment; otherwise a new string is built *)
Definition m_label_value (h : heap) (v : sval) : sval :=
  if Utf8.valid (read h v) then v else Owned (Utf8.to_valid_utf8 (read h v)).

(* a pipeline as it is stored: references *)
Record mpipe := { mp_keys : list sval; mp_id : sval; mp_tag : sval; mp_labels : list sval }.

Record rstate := {
  rs_heap : heap;
  rs_map : amap;            (* GlobalCachedMap.globalMap: the merged key is always a copy (DeepCopyStringFromBytes) *)
  rs_local : amap;          (* the sink's LocalCachedMap *)
  rs_pipes : list mpipe
}.

Definition rs_init : rstate := {| rs_heap := []; rs_map := []; rs_local := []; rs_pipes := [] |}.

(* strings.Join: one element is returned as it is, otherwise a new string is built *)
Definition m_join (h : heap) (ks : list sval) : sval :=
  match ks with
  | [k] => k
  | _ => Owned (join comma (map (read h) ks))
  end.

(* Expander.RunWithBuffer: a one-part template returns the provider's string itself (the literal, the key
   value, or a substring of the key value); otherwise the parts are appended to a buffer and copied *)
Definition m_build_tag (parts : list tpart) (h : heap) (ks : list sval) : outcome sval :=
  match parts with
  | [TLit s] => Ok (Owned s)
  | [TVar i] => match nth_error ks i with Some k => Ok k | None => Panic 1 end
  | [TSub i ps pe] =>
    match nth_error ks i with
    | Some k => match go_substr (read h k) ps pe with Ok _ => Ok (Sub k ps pe) | Err e => Err e | Panic s => Panic s end
    | None => Panic 1
    end
  | _ => b <- build_tag parts (map (read h) ks) ;; Ok (Owned b)
  end.

(* LocalCachedMap.GetOrCreate + GlobalCachedMap.getOrCreate + newPipeline on references *)
Definition m_get_or_create (deep : bool) (parts : list tpart) (st : rstate) (ks : list sval) : outcome (rstate * nat) :=
  let h := rs_heap st in
  let mk := merged_key (map (read h) ks) in
  match lookup mk (rs_local st) with
  | Some i => Ok (st, i)
  | None =>
    match lookup mk (rs_map st) with
    | Some i => Ok ({| rs_heap := h; rs_map := rs_map st; rs_local := (mk, i) :: rs_local st; rs_pipes := rs_pipes st |}, i)
    | None =>
      let perm := map (keep deep h) ks in
      tag <- m_build_tag parts h perm ;;
      let i := length (rs_pipes st) in
      Ok ({| rs_heap := h; rs_map := (mk, i) :: rs_map st; rs_local := (mk, i) :: rs_local st;
             rs_pipes := rs_pipes st ++ [{| mp_keys := perm; mp_id := m_join h perm; mp_tag := tag;
                                            mp_labels := map (m_label_value h) perm |}] |}, i)
    end
  end.

Fixpoint heap_set (h : heap) (i : nat) (b : bytes) : heap :=
  match h, i with
  | [], O => [b]
  | [], S j => [] :: heap_set [] j b
  | _ :: r, O => b :: r
  | x :: r, S j => x :: heap_set r j b
  end.

Inductive event :=
| EWrite (buf : nat) (line : bytes)     (* a new record is parsed into buffer buf (fresh or recycled): its old content is gone *)
| ERoute (ks : list sval).              (* a record with these (transient) key values is accepted by the sink *)

(* final state, the pipeline of every routed record, and the key values each routed record had when it was routed *)
Fixpoint m_run (deep : bool) (parts : list tpart) (st : rstate) (evs : list event)
  : outcome (rstate * list nat * list (list bytes)) :=
  match evs with
  | [] => Ok (st, [], [])
  | EWrite i line :: r =>
    m_run deep parts {| rs_heap := heap_set (rs_heap st) i line; rs_map := rs_map st; rs_local := rs_local st;
                        rs_pipes := rs_pipes st |} r
  | ERoute ks :: r =>
    let vals := map (read (rs_heap st)) ks in
    match m_get_or_create deep parts st ks with
    | Ok (st', i) =>
      match m_run deep parts st' r with
      | Ok (st'', is, vs) => Ok (st'', i :: is, vals :: vs)
      | Err e => Err e
      | Panic s => Panic s
      end
    | Err e => Err e
    | Panic s => Panic s
    end
  end.

(* what is seen when the pipelines are looked at, with the heap as it is then *)
Definition observe (st : rstate) : list pipeline :=
  map (fun p => {| p_keys := map (read (rs_heap st)) (mp_keys p); p_id := read (rs_heap st) (mp_id p);
                   p_tag := read (rs_heap st) (mp_tag p);
                   p_labels := map (read (rs_heap st)) (mp_labels p) |}) (rs_pipes st).

(* ---------------------------------------------------------------------------------------------- *)
(* correspondence kind 7: every record is parsed into the same (recycled) buffer 0, its key values are
   views into it; the pipelines are observed at the very end.
   sargs: template, n key field names, key values of every record; zargs: n, mode, then the line lengths.
   The "line" of the model is the key values separated by spaces. *)

Fixpoint views_of (buf off : nat) (t : list bytes) : list sval :=
  match t with
  | [] => []
  | k :: r => View buf off (length k) :: views_of buf (off + length k + 1) r
  end.

Definition pooled_events (tuples : list (list bytes)) : list event :=
  flat_map (fun t => [EWrite O (join 32 t); ERoute (views_of O O t)]) tuples.

Definition run_pooled (c : case) : bytes :=
  match c_zargs c, c_sargs c with
  | zn :: zm :: zsizes, tmpl :: rest =>
    if negb (in_range zn 1 4 && in_range zm 0 1)%bool then str_badcase else
    let n := nat_of_Z zn in
    if Nat.ltb (length rest) n then str_badcase else
    let names := firstn n rest in
    match tuples_of n (skipn n rest) with
    | None => str_badcase
    | Some tuples =>
      if negb (Nat.eqb (length zsizes) (length tuples)) then str_badcase else
      match tmpl, parse_template names tmpl with
      | [], _ => if (zm =? 0)%Z then str_err_tmpl else str_err_config
      | _, None => if (zm =? 0)%Z then str_err_tmpl else str_err_config
      | _, Some parts =>
        match m_run true parts rs_init (pooled_events tuples) with
        | Ok (st, is, _) =>
          let pipes := observe st in
          if (zm =? 0)%Z then
            str_ok ++ colon :: pipes_out false pipes ++ 35 :: join comma (map dec_nat is)
          else
            str_ok ++ colon :: join 59 (map (fun i => match nth_error pipes i with
                                                      | Some p => hex (p_tag p) ++ 47 :: hex_tuple (p_labels p)
                                                      | None => dash
                                                      end) is)
        | _ => str_panic
        end
      end
    end
  | _, _ => str_badcase
  end.

Definition run_case_C06_mem (c : case) : bytes :=
  match c_kind c with
  | 7 => run_pooled c
  | _ => run_case_C06_base c
  end.
