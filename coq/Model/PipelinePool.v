(* C07, wave-4 follow-up: the POOLED LogRecord inside the pipeline model.

   base/logallocator.go keeps released *LogRecord objects in a sync.Pool.  Release clears Fields, RawLength and
   Timestamp - NOT Unescaped ([Composite.cleared]).  NewRecord hands out any pooled object (or a new one), and
   syslogParser.Parse writes its result INTO that object: nine locator assignments record.Fields[loc] = value,
   record.RawLength = len(input), record.Unescaped = (the message holds a real newline).
   [Pipeline.process_record] treats the parser's result as a value (a new record each time); here the record is a cell
   with a history:
     - [pool]           the free objects of the allocator, each with whatever its last use left in it;
     - [pool_get]       sync.Pool.Get: ANY pooled object or a new one - the choice is an input (schedule), because the
                        runtime decides (P-local slots, stealing, the garbage collector emptying the pool);
     - [write_record]   Parse's assignments into the cell it was given.  [flag_mode]: FlagAssign is the code
                        (record.Unescaped = cond); FlagSetOnly is the seeded variant (if cond { record.Unescaped = true }),
                        a variant, not the code;
     - [released]       what goes back to the pool: LogAllocator.Release of the record after the transforms, which may
                        have set Unescaped themselves (the unescape transform / rewriter): second item of the schedule;
     - a malformed record is released by the parser (onMalformed) half-filled: cleared, flag untouched.
   No proofs in this file. *)
From SV Require Import Model.Common.
From SV Require Model.Parser Model.Composite Model.Transforms.
From SV Require Import Model.Pipeline.

Inductive flag_mode := FlagAssign | FlagSetOnly.

Definition pool := list Parser.record.

(* newLogRecord *)
Definition fresh_record : Parser.record :=
  {| Parser.f_facility := []; Parser.f_level := []; Parser.f_time := []; Parser.f_host := []; Parser.f_app := [];
     Parser.f_pid := []; Parser.f_source := []; Parser.f_extradata := []; Parser.f_log := [];
     Parser.raw_length := 0; Parser.unescaped := false |}.

Fixpoint take_nth {A} (l : list A) (n : nat) : option (A * list A) :=
  match l, n with
  | [], _ => None
  | x :: r, O => Some (x, r)
  | x :: r, S n' => match take_nth r n' with Some (y, r') => Some (y, x :: r') | None => None end
  end.

(* recordPool.Get(): [None] = the pool has nothing for this P (New), [Some i] = the i-th free object *)
Definition pool_get (p : pool) (choice : option nat) : Parser.record * pool :=
  match choice with
  | None => (fresh_record, p)
  | Some i => match take_nth p i with Some (r, p') => (r, p') | None => (fresh_record, p) end
  end.

(* the nine assignments fieldXLocator.Set(fields, value) *)
Definition write_fields (cell r : Parser.record) : Parser.record :=
  fold_left (fun c i => Composite.set_field c i (Composite.get_field r i)) (seq 0 9) cell.

Definition write_record (m : flag_mode) (cell r : Parser.record) : Parser.record :=
  let c := write_fields cell r in
  {| Parser.f_facility := Parser.f_facility c; Parser.f_level := Parser.f_level c; Parser.f_time := Parser.f_time c;
     Parser.f_host := Parser.f_host c; Parser.f_app := Parser.f_app c; Parser.f_pid := Parser.f_pid c;
     Parser.f_source := Parser.f_source c; Parser.f_extradata := Parser.f_extradata c; Parser.f_log := Parser.f_log c;
     Parser.raw_length := Parser.raw_length r;                      (* record.RawLength = len(input) *)
     Parser.unescaped :=
       match m with
       | FlagAssign => Parser.unescaped r                           (* record.Unescaped = IndexByte(remaining, '\n') != -1 *)
       | FlagSetOnly => if Parser.unescaped r then true else Parser.unescaped c   (* if ... { record.Unescaped = true } *)
       end |}.

Definition set_flag (r : Parser.record) (b : bool) : Parser.record :=
  {| Parser.f_facility := Parser.f_facility r; Parser.f_level := Parser.f_level r; Parser.f_time := Parser.f_time r;
     Parser.f_host := Parser.f_host r; Parser.f_app := Parser.f_app r; Parser.f_pid := Parser.f_pid r;
     Parser.f_source := Parser.f_source r; Parser.f_extradata := Parser.f_extradata r; Parser.f_log := Parser.f_log r;
     Parser.raw_length := Parser.raw_length r; Parser.unescaped := b |}.

(* Release after the last output: fields "", RawLength 0; Unescaped as the record had it then *)
Definition released (w : Parser.record) (tf_sets_flag : bool) : Parser.record :=
  Composite.cleared (set_flag w (Parser.unescaped w || tf_sets_flag)).

(* one step of the schedule: which object Get returns, and whether the transforms set record.Unescaped *)
Definition sched_item : Type := (option nat * bool)%type.

Section PoolProcess.
Variable O : Transforms.oracles.
Variable m : flag_mode.

Definition process_record_pooled (cfg : config) (g : gstate) (c : cstate) (p : pool) (now : Z * Z) (clk : Z)
  (sch : sched_item) (input : bytes) : outcome (gstate * cstate * pool * rec_result) :=
  match pool_get p (fst sch) with
  | (cell, p1) =>
    match Parser.parse (c_parser cfg) (cs_input c) input with
    | (Panic s, _) => Panic s
    | (Err e, _) => Err e
    | (Ok None, cnt) => Ok (g, with_input c cnt, Composite.cleared cell :: p1, RDropParse)   (* onMalformed: Release *)
    | (Ok (Some r), cnt) =>
      let w := write_record m cell r in
      '(g', c', res) <~ process_parsed O cfg g (with_input c cnt) now clk w ;;
      Ok (g', c', released w (snd sch) :: p1, res)
    end
  end.

(* the default once the schedule is used up: the object released last comes back (one P) *)
Definition sched_default : sched_item := (Some 0%nat, false).

Fixpoint process_records_pooled (cfg : config) (g : gstate) (c : cstate) (p : pool) (now : Z * Z) (clk : Z)
  (sch : list sched_item) (inputs : list bytes) : outcome (gstate * cstate * pool * list rec_result) :=
  match inputs with
  | [] => Ok (g, c, p, [])
  | x :: inputs' =>
    '(g1, c1, p1, res) <~ process_record_pooled cfg g c p now clk (hd sched_default sch) x ;;
    '(g2, c2, p2, rs) <~ process_records_pooled cfg g1 c1 p1 now clk (tl sch) inputs' ;;
    Ok (g2, c2, p2, res :: rs)
  end.

End PoolProcess.

(* forgetting the pool *)
Definition drop_pool {A} (o : outcome (gstate * cstate * pool * A)) : outcome (gstate * cstate * A) :=
  match o with
  | Ok (g, c, _, a) => Ok (g, c, a)
  | Err e => Err e
  | Panic s => Panic s
  end.

(* what the upstream receives for record i: the events of every output ([] when the record was not delivered) *)
Definition delivered {S} (o : outcome (S * list rec_result)) (i : nat) : list bytes :=
  match o with
  | Ok (_, rs) => match nth_error rs i with Some (RPassed _ streams _) => streams | _ => [] end
  | _ => []
  end.
