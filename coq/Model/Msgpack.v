(* Model of output/fastmsgpack (common.go, encodecollections.go, encodeexttype.go) and of
   fluentdforward/eventtime.go: MessagePack writers on a FIXED byte buffer addressed by positions.

   A buffer is a [list N] whose length never changes.  [buffer[i] = v] is [put] (index out of range
   = Go panic), [copy(buffer[off:], src)] is [copy_at] (the slice expression panics when off > len,
   the copy itself silently truncates), exactly as in Go.  Every writer returns the new buffer and the
   new position.  No proofs in this file. *)
From SV Require Import Model.Common.
Open Scope N_scope.

Definition site_index : N := 1.   (* index out of range *)
Definition site_slice : N := 2.   (* slice bounds out of range *)
Definition site_config : N := 3.  (* logger.Panic in a constructor *)
Definition err_fuel : N := 99.    (* loop fuel exhausted (excluded by the theorems) *)

Definition obind {A B} (o : outcome A) (f : A -> outcome B) : outcome B :=
  match o with
  | Ok a => f a
  | Err e => Err e
  | Panic s => Panic s
  end.
Notation "x <-- e ;; f" := (obind e (fun x => f)) (at level 61, e at next level, right associativity).
Notation "' p <-- e ;; f" := (obind e (fun x => match x with p => f end))
  (at level 61, p pattern, e at next level, right associativity).

(* ---------- buffer primitives ---------- *)

Fixpoint set_nth (buf : bytes) (i : nat) (v : N) : option bytes :=
  match buf with
  | [] => None
  | h :: t =>
    match i with
    | O => Some (v :: t)
    | S i' => match set_nth t i' v with Some t' => Some (h :: t') | None => None end
    end
  end.

(* buffer[i] = v *)
Definition put (buf : bytes) (i : nat) (v : N) : outcome bytes :=
  match set_nth buf i v with
  | Some b => Ok b
  | None => Panic site_index
  end.

(* copy(buf, src): overwrites min(len buf, len src) bytes, returns that number *)
Fixpoint blit (buf src : bytes) : bytes * nat :=
  match buf, src with
  | _ :: t, s :: src' => let (t', n) := blit t src' in (s :: t', S n)
  | _, _ => (buf, O)
  end.

Fixpoint copy_at_opt (buf : bytes) (off : nat) (src : bytes) {struct off} : option (bytes * nat) :=
  match off with
  | O => Some (blit buf src)
  | S off' =>
    match buf with
    | [] => None
    | h :: t => match copy_at_opt t off' src with Some (t', n) => Some (h :: t', n) | None => None end
    end
  end.

(* n := copy(buf[off:], src) *)
Definition copy_at (buf : bytes) (off : nat) (src : bytes) : outcome (bytes * nat) :=
  match copy_at_opt buf off src with
  | Some r => Ok r
  | None => Panic site_slice
  end.

(* the slice expression buf[off:] alone *)
Definition slice_check (buf : bytes) (off : nat) : outcome unit :=
  if (off <=? length buf)%nat then Ok tt else Panic site_slice.

(* ---------- common.go ---------- *)

(* Write2(buffer, start, n) with n already converted to uint16 *)
Definition write2 (buf : bytes) (start : nat) (n : N) : outcome (bytes * nat) :=
  b1 <-- put buf start ((n / 256) mod 256) ;;
  b2 <-- put b1 (start + 1) (n mod 256) ;;
  Ok (b2, (start + 2)%nat).

(* Write4(buffer, start, n) with n already converted to uint32 *)
Definition write4 (buf : bytes) (start : nat) (n : N) : outcome (bytes * nat) :=
  b1 <-- put buf start ((n / 16777216) mod 256) ;;
  b2 <-- put b1 (start + 1) ((n / 65536) mod 256) ;;
  b3 <-- put b2 (start + 2) ((n / 256) mod 256) ;;
  b4 <-- put b3 (start + 3) (n mod 256) ;;
  Ok (b4, (start + 4)%nat).

(* Go conversions of an int length *)
Definition to_byte (n : nat) : N := N.of_nat n mod 256.
Definition to_uint16 (n : nat) : N := N.of_nat n mod 65536.
Definition to_uint32 (n : nat) : N := N.of_nat n mod 4294967296.

(* ---------- encodecollections.go ---------- *)

Definition code_fixarray : N := 144. (* 0x90 *)
Definition code_fixmap : N := 128.   (* 0x80 *)
Definition code_fixstr : N := 160.   (* 0xa0 *)
Definition code_str16 : N := 218.    (* 0xda *)
Definition code_str32 : N := 219.    (* 0xdb *)
Definition code_map16 : N := 222.    (* 0xde *)
Definition code_fixext8 : N := 215.  (* 0xd7 *)

Definition encode_array_len4 (buf : bytes) (start : nat) (len : nat) : outcome (bytes * nat) :=
  b <-- put buf start (N.lor code_fixarray (to_byte len)) ;; Ok (b, (start + 1)%nat).

Definition encode_map_len4 (buf : bytes) (start : nat) (len : nat) : outcome (bytes * nat) :=
  b <-- put buf start (N.lor code_fixmap (to_byte len)) ;; Ok (b, (start + 1)%nat).

Definition encode_map_len16 (buf : bytes) (start : nat) (len : nat) : outcome (bytes * nat) :=
  b <-- put buf start code_map16 ;; write2 b (start + 1) (to_uint16 len).

Definition encode_string_len4 (buf : bytes) (start : nat) (len : nat) : outcome (bytes * nat) :=
  b <-- put buf start (N.lor code_fixstr (to_byte len)) ;; Ok (b, (start + 1)%nat).

Definition encode_string_len16 (buf : bytes) (start : nat) (len : nat) : outcome (bytes * nat) :=
  b <-- put buf start code_str16 ;; write2 b (start + 1) (to_uint16 len).

Definition encode_string_len32 (buf : bytes) (start : nat) (len : nat) : outcome (bytes * nat) :=
  b <-- put buf start code_str32 ;; write4 b (start + 1) (to_uint32 len).

(* pos := EncodeStringLenX(buffer, start, len(str)); pos += copy(buffer[pos:], str) *)
Definition encode_string_with (hdr : bytes -> nat -> nat -> outcome (bytes * nat))
           (buf : bytes) (start : nat) (str : bytes) : outcome (bytes * nat) :=
  '(b, pos) <-- hdr buf start (length str) ;;
  '(b', n) <-- copy_at b pos str ;;
  Ok (b', (pos + n)%nat).

Definition encode_string4 := encode_string_with encode_string_len4.
Definition encode_string16 := encode_string_with encode_string_len16.
Definition encode_string32 := encode_string_with encode_string_len32.

(* the three-way switch that eventserializer.go repeats for raw values and keys *)
Definition encode_string_auto (buf : bytes) (start : nat) (str : bytes) : outcome (bytes * nat) :=
  if N.of_nat (length str) <? 16 then encode_string4 buf start str
  else if N.of_nat (length str) <? 65536 then encode_string16 buf start str
  else encode_string32 buf start str.

Definition reserve_len4 (start : nat) : nat := (start + 1)%nat.
Definition reserve_len16 (start : nat) : nat := (start + 3)%nat.

(* ---------- encodeexttype.go, fluentdforward/eventtime.go ---------- *)

Definition encode_ext_header8 (buf : bytes) (start : nat) (type_id : N) : outcome (bytes * nat) :=
  b1 <-- put buf start code_fixext8 ;;
  b2 <-- put b1 (start + 1) type_id ;;
  Ok (b2, (start + 2)%nat).

(* EncodeEventTime: uint32(value.Unix()), uint32(value.Nanosecond()) *)
Definition encode_event_time (buf : bytes) (start : nat) (unix nsec : Z) : outcome (bytes * nat) :=
  '(b, pos) <-- encode_ext_header8 buf start 0 ;;
  '(b, pos) <-- write4 b pos (Z.to_N (unix mod 4294967296)%Z) ;;
  write4 b pos (Z.to_N (nsec mod 4294967296)%Z).
