(* C15 (self-contained copy for the transforms): util/utf8.go CleanUTF8 + findLastEndOfASCII,
   util/strings.go OverwriteNTruncate, and the two Go library functions they call,
   utf8.DecodeRuneInString (only the width / validity part) and strings.ToValidUTF8(s, "").
   No proofs in this file. *)
From SV Require Import Model.Common.
Open Scope N_scope.

Definition in_rng (lo hi b : N) : bool := (lo <=? b) && (b <=? hi).

(* second byte in [lo,hi], remaining (n) bytes in [0x80,0xBF]; every missing byte makes the
   sequence invalid (Go: "if n < sz return RuneError, 1") *)
Fixpoint conts (n : nat) (s : bytes) : bool :=
  match n with
  | O => true
  | S n' => match s with b :: t => in_rng 128 191 b && conts n' t | [] => false end
  end.

Definition seq_tail (lo hi : N) (more : nat) (t : bytes) : bool :=
  match t with
  | b1 :: t' => in_rng lo hi b1 && conts more t'
  | [] => false
  end.

(* utf8.DecodeRuneInString: [Some w] = a valid encoding of w bytes starts the string;
   [None] = (RuneError, 1) for an invalid or incomplete sequence (or the empty string).
   The table is utf8.first / utf8.acceptRanges. *)
Definition rune_width (s : bytes) : option nat :=
  match s with
  | [] => None
  | b0 :: t =>
    if b0 <? 128 then Some 1%nat
    else if in_rng 194 223 b0 then (if seq_tail 128 191 0 t then Some 2%nat else None)
    else if b0 =? 224 then (if seq_tail 160 191 1 t then Some 3%nat else None)
    else if in_rng 225 236 b0 || in_rng 238 239 b0 then (if seq_tail 128 191 1 t then Some 3%nat else None)
    else if b0 =? 237 then (if seq_tail 128 159 1 t then Some 3%nat else None)
    else if b0 =? 240 then (if seq_tail 144 191 2 t then Some 4%nat else None)
    else if in_rng 241 243 b0 then (if seq_tail 128 191 2 t then Some 4%nat else None)
    else if b0 =? 244 then (if seq_tail 128 143 2 t then Some 4%nat else None)
    else None
  end.

(* strings.ToValidUTF8(s, ""): every byte at which DecodeRune reports width 1 + RuneError is
   dropped, valid sequences are copied.  [k] = bytes of the current valid sequence still to copy. *)
Fixpoint to_valid_k (k : nat) (s : bytes) : bytes :=
  match s with
  | [] => []
  | b :: t =>
    match k with
    | S k' => b :: to_valid_k k' t
    | O =>
      match rune_width s with
      | Some w => b :: to_valid_k (w - 1) t
      | None => to_valid_k 0 t
      end
    end
  end.

Definition to_valid_utf8 (s : bytes) : bytes := to_valid_k 0 s.

(* findLastEndOfASCII: index after the last byte <= 0x7F, 0 if there is none *)
Fixpoint find_last_end_of_ascii (s : bytes) : nat :=
  match s with
  | [] => O
  | b :: t =>
    match find_last_end_of_ascii t with
    | O => if b <=? 127 then 1%nat else O
    | S n => S (S n)
    end
  end.

(* OverwriteNTruncate(main, start, tail): n := copy(main[start:], tail); main[:start+n].
   main[start:] panics when start > len(main). *)
Definition overwrite_n_truncate (main : bytes) (start : nat) (tail : bytes) : outcome bytes :=
  if (start <=? length main)%nat
  then Ok (firstn start main ++ firstn (length main - start) tail)
  else Panic 40.

Definition clean_utf8 (s : bytes) : outcome bytes :=
  match s with
  | [] => Ok s
  | _ =>
    let e := find_last_end_of_ascii s in
    overwrite_n_truncate s e (to_valid_utf8 (skipn e s))
  end.
