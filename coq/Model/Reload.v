(* C17 - model of run/reloadable.go (ReloadableOrchestrator, ReloadableSink) as a labelled
   transition system, together with the client-number discipline of
   input/tcplistener/tcplinelistener.go (run / runConnection / launchConnectionCloser).

   Granularity: one event = the code one goroutine executes between two points where it can
   be preempted in an observable way: lock acquisitions of downstreamMutex and the calls into
   the downstream orchestrator / downstream sinks (the correspondence harness parks goroutines
   at the entry of exactly those calls).

   Go                                            model
   ------------------------------------------------------------------------------------------
   orc.downstream (pointer)                      st_cur : index of a generation
   downstream orchestrators (recording objects)  st_shut : list bool   (one flag per generation)
   downstream sinks                              st_sinks : list dsink (generation, number, address,
                                                                        closed, pending records)
   orc.downstreamSinks / downstreamAddrs         st_table / st_addrs (length = MaxClientNumber)
   orc.downstreamMutex (xsync.RBMutex)           st_readers (count) / st_writer (flag)
   connection goroutines                         st_thr : list cthread (number, handle, pc)
   the SIGHUP goroutine running reload()         st_rl : rpc
   slogagent_reloads_total{failure|success}      st_fails / st_succs
   what the downstream objects observe           st_log : list obs (newest first)

   The flag [lk] selects the code version of ReloadableOrchestrator.NewSink:
     lk = true   the downstream sink is created after taking the read lock (current code, after the
                 fix commit "fix: ReloadableOrchestrator.NewSink creates the downstream sink under the read lock")
     lk = false  the original code: orc.downstream.NewSink(...) is called before RLock()
   No proofs in this file. *)
From SV Require Import Model.Common.
From Coq Require Import Arith.
Local Open Scope nat_scope.

Definition rec := N.   (* identity of a log record *)

(* a downstream sink (byKeySetOrchestratorSink / the harness' recording sink):
   Accept buffers, Tick and Close flush the buffer into the pipelines of its generation *)
Record dsink := mkSink {
  ds_gen : nat;            (* generation (downstream orchestrator) that created it *)
  ds_num : nat;            (* clientNumber given to downstream.NewSink *)
  ds_addr : nat;           (* clientAddress given to downstream.NewSink (the id of the connection) *)
  ds_closed : bool;
  ds_pending : list rec
}.

(* the ReloadableSink handed to a connection *)
Inductive hstate := HNone | HOpen | HClosed.

(* where a connection goroutine is *)
Inductive cpc :=
| PIdle
| PNewIn (g : nat)                  (* inside downstream.NewSink of generation g (lk: holding the read lock) *)
| PNewMade (s : nat)                (* lk = false only: downstream sink s created, RLock() not yet taken *)
| PAccIn (s : nat) (rs : list rec)  (* holding the read lock, inside Accept of downstream sink s *)
| PTickIn (s : nat)
| PCloseIn (s : nat)
| PDead.                            (* the goroutine panicked *)

Record cthread := mkThr { ct_num : nat; ct_h : hstate; ct_pc : cpc }.

(* where reload() is *)
Inductive rpc :=
| RIdle
| RInit                 (* inside initiateReload() *)
| RWantLock             (* initiateReload succeeded, at downstreamMutex.Lock() *)
| RInClose (j : nat)    (* write lock held, inside Close of the sink in slot j *)
| RInShutdown           (* inside orc.downstream.Shutdown() *)
| RInComplete           (* inside completeRenewal() *)
| RInNew (j : nat).     (* inside orc.downstream.NewSink for slot j *)

(* observations made by the downstream objects *)
Inductive obs :=
| OHand (t : nat) (r : rec) (s g : nat) (alive : bool)  (* connection t: record r passed to downstream sink s of generation g;
                                                            alive = sink not closed and generation not shut down *)
| ODeliver (r : rec) (s g : nat) (alive : bool)        (* sink s flushed r into the pipelines of generation g *)
| OPanic (t : nat) (site : nat) (lost : list rec).     (* goroutine t panicked (site 1: index out of range in NewSink,
                                                          2/3/4: nil sink in Accept/Tick/Close); records passed to that Accept call *)

Record state := mkState {
  st_cur : nat;
  st_shut : list bool;
  st_sinks : list dsink;
  st_table : list (option nat);
  st_addrs : list nat;
  st_readers : nat;
  st_writer : bool;
  st_thr : list cthread;
  st_rl : rpc;
  st_fails : nat;
  st_succs : nat;
  st_log : list obs
}.

(* ---------- setters ---------- *)
Definition set_cur st x := mkState x (st_shut st) (st_sinks st) (st_table st) (st_addrs st) (st_readers st) (st_writer st) (st_thr st) (st_rl st) (st_fails st) (st_succs st) (st_log st).
Definition set_shut st x := mkState (st_cur st) x (st_sinks st) (st_table st) (st_addrs st) (st_readers st) (st_writer st) (st_thr st) (st_rl st) (st_fails st) (st_succs st) (st_log st).
Definition set_sinks st x := mkState (st_cur st) (st_shut st) x (st_table st) (st_addrs st) (st_readers st) (st_writer st) (st_thr st) (st_rl st) (st_fails st) (st_succs st) (st_log st).
Definition set_table st x := mkState (st_cur st) (st_shut st) (st_sinks st) x (st_addrs st) (st_readers st) (st_writer st) (st_thr st) (st_rl st) (st_fails st) (st_succs st) (st_log st).
Definition set_addrs st x := mkState (st_cur st) (st_shut st) (st_sinks st) (st_table st) x (st_readers st) (st_writer st) (st_thr st) (st_rl st) (st_fails st) (st_succs st) (st_log st).
Definition set_readers st x := mkState (st_cur st) (st_shut st) (st_sinks st) (st_table st) (st_addrs st) x (st_writer st) (st_thr st) (st_rl st) (st_fails st) (st_succs st) (st_log st).
Definition set_writer st x := mkState (st_cur st) (st_shut st) (st_sinks st) (st_table st) (st_addrs st) (st_readers st) x (st_thr st) (st_rl st) (st_fails st) (st_succs st) (st_log st).
Definition set_thr st x := mkState (st_cur st) (st_shut st) (st_sinks st) (st_table st) (st_addrs st) (st_readers st) (st_writer st) x (st_rl st) (st_fails st) (st_succs st) (st_log st).
Definition set_rl st x := mkState (st_cur st) (st_shut st) (st_sinks st) (st_table st) (st_addrs st) (st_readers st) (st_writer st) (st_thr st) x (st_fails st) (st_succs st) (st_log st).
Definition set_fails st x := mkState (st_cur st) (st_shut st) (st_sinks st) (st_table st) (st_addrs st) (st_readers st) (st_writer st) (st_thr st) (st_rl st) x (st_succs st) (st_log st).
Definition set_succs st x := mkState (st_cur st) (st_shut st) (st_sinks st) (st_table st) (st_addrs st) (st_readers st) (st_writer st) (st_thr st) (st_rl st) (st_fails st) x (st_log st).
Definition set_log st x := mkState (st_cur st) (st_shut st) (st_sinks st) (st_table st) (st_addrs st) (st_readers st) (st_writer st) (st_thr st) (st_rl st) (st_fails st) (st_succs st) x.

(* ---------- list helpers ---------- *)
Fixpoint upd {A} (l : list A) (i : nat) (x : A) : list A :=
  match l, i with
  | [], _ => []
  | _ :: l', O => x :: l'
  | y :: l', S i' => y :: upd l' i' x
  end.

(* index of the first non-nil slot at or after [base] (the scan of "for _, sink := range orc.downstreamSinks") *)
Fixpoint first_some (l : list (option nat)) (base : nat) : option nat :=
  match l with
  | [] => None
  | Some _ :: _ => Some base
  | None :: l' => first_some l' (S base)
  end.
Definition next_slot (tb : list (option nat)) (i : nat) : option nat := first_some (skipn i tb) i.

(* ---------- downstream objects ---------- *)
Definition gen_shut (st : state) (g : nat) : bool := nth g (st_shut st) true.

Definition sink_alive (st : state) (d : dsink) : bool := negb (ds_closed d) && negb (gen_shut st (ds_gen d)).

(* downstream.NewSink on generation g: a new sink object, numbered in creation order *)
Definition new_sink (st : state) (g n a : nat) : state * nat :=
  (set_sinks st (st_sinks st ++ [mkSink g n a false []]), length (st_sinks st)).

(* sink.Accept(rs): buffered *)
Definition hand (st : state) (t s : nat) (rs : list rec) : state :=
  match nth_error (st_sinks st) s with
  | Some d =>
    let al := sink_alive st d in
    set_log (set_sinks st (upd (st_sinks st) s (mkSink (ds_gen d) (ds_num d) (ds_addr d) (ds_closed d) (ds_pending d ++ rs))))
            (rev (map (fun r => OHand t r s (ds_gen d) al) rs) ++ st_log st)
  | None => st
  end.

(* flush of the sink's buffer into the pipelines of its generation (Tick; Close with [close] = true) *)
Definition flush (st : state) (s : nat) (close : bool) : state :=
  match nth_error (st_sinks st) s with
  | Some d =>
    let al := negb (gen_shut st (ds_gen d)) in
    set_log (set_sinks st (upd (st_sinks st) s (mkSink (ds_gen d) (ds_num d) (ds_addr d) (ds_closed d || close) [])))
            (rev (map (fun r => ODeliver r s (ds_gen d) al) (ds_pending d)) ++ st_log st)
  | None => st
  end.

(* ---------- threads ---------- *)
Definition get_thr (st : state) (t : nat) : option cthread := nth_error (st_thr st) t.
Definition put_thr (st : state) (t : nat) (c : cthread) : state := set_thr st (upd (st_thr st) t c).
Definition slot (st : state) (n : nat) : option nat :=
  match nth_error (st_table st) n with Some (Some s) => Some s | _ => None end.

(* ---------- events ---------- *)
Inductive event :=
| ENewBegin (t n : nat)               (* connection t calls orc.NewSink(addr_t, n) and reaches downstream.NewSink *)
| ENewMade (t : nat)                  (* lk = false: downstream.NewSink returns *)
| ENewEnd (t : nat)                   (* the sink is stored in the table, NewSink returns the ReloadableSink *)
| EAccBegin (t : nat) (rs : list rec) (* ReloadableSink.Accept: RLock, load *downstreamPtr, reach downstream Accept *)
| EAccEnd (t : nat)                   (* downstream Accept done, RUnlock *)
| ETickBegin (t : nat)
| ETickEnd (t : nat)
| ECloseBegin (t : nat)
| ECloseEnd (t : nat)                 (* downstream Close done, *downstreamPtr = nil, RUnlock *)
| ERlBegin                            (* reload() called (SIGHUP), reaches initiateReload() *)
| ERlInit (ok : bool)                 (* initiateReload returns: new config parsed + compatible, or error *)
| ERlLock                             (* downstreamMutex.Lock() acquired; scan to the first old sink *)
| ERlStep.                            (* the downstream call reload() is in returns; run to the next one *)

Definition after_close (st : state) (i : nat) : rpc :=
  match next_slot (st_table st) i with Some j => RInClose j | None => RInShutdown end.

Definition finish_reload (st : state) : state :=
  set_rl (set_succs (set_writer st false) (S (st_succs st))) RIdle.

Definition after_new (st : state) (i : nat) : state :=
  match next_slot (st_table st) i with Some j => set_rl st (RInNew j) | None => finish_reload st end.

(* store the new downstream sink in the table; Go panics (index out of range) when n >= MaxClientNumber *)
Definition store (st : state) (t n s : nat) : state :=
  if n <? length (st_table st) then
    put_thr (set_addrs (set_table st (upd (st_table st) n (Some s))) (upd (st_addrs st) n t)) t (mkThr n HOpen PIdle)
  else
    set_log (put_thr st t (mkThr n HNone PDead)) (OPanic t 1 [] :: st_log st).

Definition step (lk : bool) (st : state) (e : event) : option state :=
  match e with
  | ENewBegin t n =>
    match get_thr st t with
    | Some (mkThr _ HNone PIdle) =>
      if lk then
        if st_writer st then None
        else Some (put_thr (set_readers st (S (st_readers st))) t (mkThr n HNone (PNewIn (st_cur st))))
      else Some (put_thr st t (mkThr n HNone (PNewIn (st_cur st))))
    | _ => None
    end
  | ENewMade t =>
    match get_thr st t with
    | Some (mkThr n HNone (PNewIn g)) =>
      if lk then None
      else let (st1, s) := new_sink st g n t in Some (put_thr st1 t (mkThr n HNone (PNewMade s)))
    | _ => None
    end
  | ENewEnd t =>
    match get_thr st t with
    | Some (mkThr n HNone (PNewIn g)) =>
      if lk then
        let (st1, s) := new_sink st g n t in
        Some (store (set_readers st1 (pred (st_readers st1))) t n s)
      else None
    | Some (mkThr n HNone (PNewMade s)) =>
      if lk then None
      else if st_writer st then None
      else Some (store st t n s)
    | _ => None
    end
  | EAccBegin t rs =>
    match get_thr st t with
    | Some (mkThr n HOpen PIdle) =>
      if st_writer st then None
      else match slot st n with
           | Some s => Some (put_thr (set_readers st (S (st_readers st))) t (mkThr n HOpen (PAccIn s rs)))
           | None => Some (set_log (put_thr st t (mkThr n HOpen PDead)) (OPanic t 2 rs :: st_log st))
           end
    | _ => None
    end
  | EAccEnd t =>
    match get_thr st t with
    | Some (mkThr n HOpen (PAccIn s rs)) =>
      let st1 := hand st t s rs in
      Some (put_thr (set_readers st1 (pred (st_readers st1))) t (mkThr n HOpen PIdle))
    | _ => None
    end
  | ETickBegin t =>
    match get_thr st t with
    | Some (mkThr n HOpen PIdle) =>
      if st_writer st then None
      else match slot st n with
           | Some s => Some (put_thr (set_readers st (S (st_readers st))) t (mkThr n HOpen (PTickIn s)))
           | None => Some (set_log (put_thr st t (mkThr n HOpen PDead)) (OPanic t 3 [] :: st_log st))
           end
    | _ => None
    end
  | ETickEnd t =>
    match get_thr st t with
    | Some (mkThr n HOpen (PTickIn s)) =>
      let st1 := flush st s false in
      Some (put_thr (set_readers st1 (pred (st_readers st1))) t (mkThr n HOpen PIdle))
    | _ => None
    end
  | ECloseBegin t =>
    match get_thr st t with
    | Some (mkThr n HOpen PIdle) =>
      if st_writer st then None
      else match slot st n with
           | Some s => Some (put_thr (set_readers st (S (st_readers st))) t (mkThr n HOpen (PCloseIn s)))
           | None => Some (set_log (put_thr st t (mkThr n HOpen PDead)) (OPanic t 4 [] :: st_log st))
           end
    | _ => None
    end
  | ECloseEnd t =>
    match get_thr st t with
    | Some (mkThr n HOpen (PCloseIn s)) =>
      let st1 := flush st s true in
      let st2 := set_table st1 (upd (st_table st1) n None) in
      Some (put_thr (set_readers st2 (pred (st_readers st2))) t (mkThr n HClosed PIdle))
    | _ => None
    end
  | ERlBegin =>
    match st_rl st with RIdle => Some (set_rl st RInit) | _ => None end
  | ERlInit ok =>
    match st_rl st with
    | RInit => if ok then Some (set_rl st RWantLock)
               else Some (set_rl (set_fails st (S (st_fails st))) RIdle)
    | _ => None
    end
  | ERlLock =>
    match st_rl st with
    | RWantLock =>
      if st_writer st then None
      else match st_readers st with
           | O => Some (set_rl (set_writer st true) (after_close st 0))
           | S _ => None
           end
    | _ => None
    end
  | ERlStep =>
    match st_rl st with
    | RInClose j =>
      let st1 := match slot st j with Some s => flush st s true | None => st end in
      Some (set_rl st1 (after_close st1 (S j)))
    | RInShutdown =>
      Some (set_rl (set_shut st (upd (st_shut st) (st_cur st) true)) RInComplete)
    | RInComplete =>
      let st1 := set_cur (set_shut st (st_shut st ++ [false])) (length (st_shut st)) in
      Some (after_new st1 0)
    | RInNew j =>
      let (st1, s) := new_sink st (st_cur st) j (nth j (st_addrs st) 0) in
      let st2 := set_table st1 (upd (st_table st1) j (Some s)) in
      Some (after_new st2 (S j))
    | _ => None
    end
  end.

Definition init (nthr maxn : nat) : state :=
  mkState 0 [false] [] (repeat None maxn) (repeat 0 maxn) 0 false
          (repeat (mkThr 0 HNone PIdle) nthr) RIdle 0 0 [].

Fixpoint run (lk : bool) (st : state) (evs : list event) : option state :=
  match evs with
  | [] => Some st
  | e :: evs' => match step lk st e with Some st' => run lk st' evs' | None => None end
  end.

(* ---------- the assumption of reloadable.go on its callers: client numbers are unique among
   open sinks (and below MaxClientNumber, which the listener checks) ---------- *)
Definition claims (n : nat) (c : cthread) : bool :=
  (ct_num c =? n) &&
  match ct_h c, ct_pc c with
  | HOpen, _ => true
  | _, PNewIn _ => true
  | _, PNewMade _ => true
  | _, _ => false
  end.

Definition num_free (st : state) (n : nat) : bool := forallb (fun c => negb (claims n c)) (st_thr st).

Definition guard (st : state) (e : event) : bool :=
  match e with
  | ENewBegin _ n => (n <? length (st_table st)) && num_free st n
  | _ => true
  end.

(* a run in which every NewSink call respects the assumption *)
Fixpoint grun (lk : bool) (st : state) (evs : list event) : option state :=
  match evs with
  | [] => Some st
  | e :: evs' =>
    if guard st e then match step lk st e with Some st' => grun lk st' evs' | None => None end
    else None
  end.

(* ---------- the listener: client number = file descriptor ----------
   tcplinelistener.go.  run(): AcceptTCP; (lf) if the stop request is already signaled the connection is
   closed at once; else go runConnection(conn, n) with n = descriptor number.
   runConnection(conn, n):
     recvChan := receiver.NewSink(addr, n)
     connAborter := launchConnectionCloser(conn)     -- goroutine: wait(stopRequest | connAborter); conn.Close()
     read loop: Accept / Flush (= Accept of the buffer + Tick) ...
     a read error ends the loop (peer closed, or the stop request made the closer goroutine close the connection)
     recvChan.Flush()                                -- final Accept + Tick
     deferred: recvChan.Close(); connAborter.Signal()
   The kernel hands out a descriptor number only while no open descriptor has it; the number becomes free
   again at conn.Close().

   The flag [lf] selects the code version of the listener:
     lf = true   current code (after "fix: tcpLineListener keeps the connection open until its sink is closed ..."):
                 connAborter is signaled after the sink has been closed; no connection is served once the stop
                 request is signaled
     lf = false  the original code: connAborter.Signal() right at the read error, i.e. conn.Close() runs
                 concurrently with the final Flush and the deferred sink Close; connections accepted during a
                 stop are served *)
Record lthread := mkLT {
  lt_started : bool;     (* runConnection is running (or has run) for this goroutine *)
  lt_left : bool;        (* it has left its read loop *)
  lt_fd : bool           (* its connection still holds the descriptor *)
}.

Record lstate := mkL {
  l_st : state;
  l_fd : list bool;          (* descriptor number in use *)
  l_th : list lthread;       (* per connection goroutine *)
  l_stop : bool              (* stopRequest signaled *)
}.

Inductive levent :=
| LConnOpen (t n : nat)   (* AcceptTCP returned a connection with descriptor n; goroutine t starts and calls NewSink *)
| LStop                   (* the stop request is signaled *)
| LAbort (t : nat)        (* goroutine t leaves its read loop (read error) *)
| LFdClosed (t : nat)     (* the closer goroutine of t executes conn.Close(): the descriptor number is free again *)
| LApi (e : event).       (* any other step of reloadable.go; ECloseBegin t only after LAbort t *)

Definition lthr (ls : lstate) (t : nat) : lthread := nth t (l_th ls) (mkLT false false false).

Definition lstep (lf lk : bool) (ls : lstate) (e : levent) : option lstate :=
  match e with
  | LConnOpen t n =>
    match nth_error (l_fd ls) n, nth_error (l_th ls) t with
    | Some false, Some (mkLT false _ _) =>
      if lf && l_stop ls then None
      else
        match step lk (l_st ls) (ENewBegin t n) with
        | Some st' => Some (mkL st' (upd (l_fd ls) n true) (upd (l_th ls) t (mkLT true false true)) (l_stop ls))
        | None => None
        end
    | _, _ => None
    end
  | LStop =>
    if l_stop ls then None else Some (mkL (l_st ls) (l_fd ls) (l_th ls) true)
  | LAbort t =>
    match nth_error (l_th ls) t, get_thr (l_st ls) t with
    | Some (mkLT true false fd), Some (mkThr _ HOpen _) =>
      Some (mkL (l_st ls) (l_fd ls) (upd (l_th ls) t (mkLT true true fd)) (l_stop ls))
    | _, _ => None
    end
  | LFdClosed t =>
    match nth_error (l_th ls) t, get_thr (l_st ls) t with
    | Some (mkLT true lft true), Some c =>
      let launched := match ct_h c with HNone => false | _ => true end in   (* the closer goroutine exists *)
      let closed := match ct_h c, ct_pc c with HClosed, PIdle => true | _, _ => false end in
      let enabled := if lf then closed || (l_stop ls && launched)
                     else launched && (lft || l_stop ls) in
      if enabled then
        Some (mkL (l_st ls) (upd (l_fd ls) (ct_num c) false) (upd (l_th ls) t (mkLT true lft false)) (l_stop ls))
      else None
    | _, _ => None
    end
  | LApi e =>
    let allowed :=
      match e with
      | ENewBegin _ _ => false
      | ECloseBegin t => lt_left (lthr ls t)
      | _ => true
      end in
    if allowed then
      match step lk (l_st ls) e with
      | Some st' => Some (mkL st' (l_fd ls) (l_th ls) (l_stop ls))
      | None => None
      end
    else None
  end.

Definition linit (nthr maxn : nat) : lstate :=
  mkL (init nthr maxn) (repeat false maxn) (repeat (mkLT false false false) nthr) false.

Fixpoint lrun (lf lk : bool) (ls : lstate) (evs : list levent) : option lstate :=
  match evs with
  | [] => Some ls
  | e :: evs' => match lstep lf lk ls e with Some ls' => lrun lf lk ls' evs' | None => None end
  end.

(* the events of reloadable.go contained in a run of the listener *)
Definition api_event (e : levent) : list event :=
  match e with
  | LConnOpen t n => [ENewBegin t n]
  | LApi e => [e]
  | _ => []
  end.
Definition api_events (evs : list levent) : list event := flat_map api_event evs.
