(* SystemQuota.v — WHEN the hybrid buffer may discard a chunk.

   Model/System.v lets the outcome of bufferer.Accept / saveEverything / OnChunkLeftover be the free choice of the
   event (ADropQuota, ESave _ _ false, EHandback _ false: "spill refused").  The property permits a discard only as a
   documented overflow.  Here the choice is GUARDED as in buffer/hybridbuffer/chunkoperator.go UnloadChunk
       persistent bytes of this queue directory + len(chunk) > maxTotalBytes  ->  refuse ("space limit reached")
   and bufferer.go Accept (inputChannel full -> drop): [qstep] is [step] restricted to the events whose drop /
   spill outcome agrees with the predicate over the CURRENT contents of the pipeline's queue directory ([files]) and
   the current queue length; chunk-file I/O errors are excluded.

   The variant [cstep] is the agent whose space check reads a counter that only ever grows on its side (the
   bufferer's copy of a by-value struct: spills and recovered files are added, the removals on ACK happen on the
   feeder's copy) — seeded change C01/7.

   [run_spill_case] executes a history of outages and healthy phases (case kind 4) on [qstep].  No proofs here. *)
From Coq Require Import List NArith ZArith Bool Arith PeanoNat.
From SV Require Import Model.Common Model.System Model.SystemAccept.
Import ListNotations.
Open Scope nat_scope.

Section Quota.
Variable sz : chunk -> nat.       (* bytes of a chunk *)
Variable lim : nat.               (* maxBufSize of a queue directory *)
Variable qmax : nat.              (* defs.BufferMaxNumChunksInQueue *)

Definition dir_bytes (fl : list chunk) (p : nat) : nat :=
  fold_right (fun c acc => if Nat.eqb (c_pipe c) p then sz c + acc else acc) 0 fl.

(* the directory of the chunk's pipeline cannot take the chunk *)
Definition dir_full (s : state) (c : chunk) : bool := Nat.ltb lim (dir_bytes (files s) (c_pipe c) + sz c).

Definition queue_full (s : state) (p : nat) : bool := Nat.leb qmax (length (filter (item_on p) (queue s))).

Definition closing_chunk (s : state) (p id : nat) : chunk := mkChunk id p (fst (partition (on_pipe p) (cur s))).

Definition outcome_ok (s : state) (c : chunk) (o : accept_outcome) : bool :=
  match c_toks c with
  | [] => true
  | _ =>
    match o with
    | AMem => true
    | ADisk => negb (dir_full s c)
    | ADropQuota => dir_full s c
    | ADropFull => queue_full s (c_pipe c)
    | ADropFullSaved => queue_full s (c_pipe c) && negb (dir_full s c)
    end
  end.

(* persisting an item at shutdown: already saved -> nothing happens; else written iff the directory can take it *)
Definition persist_ok (s : state) (src : list qitem) (p : nat) (ok : bool) : bool :=
  match take_first (item_on p) src with
  | Some (q, _) => if q_saved q then true else if ok then negb (dir_full s (q_chunk q)) else dir_full s (q_chunk q)
  | None => true
  end.

Definition justified (s : state) (e : event) : bool :=
  match e with
  | EChunkClose p id o => outcome_ok s (closing_chunk s p id) o
  | EWorkerStop p id o => outcome_ok s (closing_chunk s p id) o
  | ESave p w ok => persist_ok s (match w with WQueue => queue s | WHand => fhand s | WWindow => window s end) p ok
  | EHandback p ok => persist_ok s (leftovers s) p ok
  | EFeederLoad _ false => false          (* no chunk-file read errors *)
  | _ => true
  end.

Definition qstep (s : state) (e : event) : option state := if justified s e then step s e else None.

Fixpoint qsteps (s : state) (es : list event) : option state :=
  match es with
  | [] => Some s
  | e :: r => match qstep s e with Some s' => qsteps s' r | None => None end
  end.

(* ---------- the variant: the space check reads a counter that only grows ---------- *)

Definition cstate := (state * (nat -> nat))%type.

Definition cdir_full (u : nat -> nat) (c : chunk) : bool := Nat.ltb lim (u (c_pipe c) + sz c).

Definition coutcome_ok (s : state) (u : nat -> nat) (c : chunk) (o : accept_outcome) : bool :=
  match c_toks c with
  | [] => true
  | _ =>
    match o with
    | AMem => true
    | ADisk => negb (cdir_full u c)
    | ADropQuota => cdir_full u c
    | ADropFull => queue_full s (c_pipe c)
    | ADropFullSaved => queue_full s (c_pipe c) && negb (cdir_full u c)
    end
  end.

(* only Accept is on the bufferer's copy; the saves at shutdown run on the feeder's copy, whose counter only sees
   removals and never refuses *)
Definition cjustified (s : state) (u : nat -> nat) (e : event) : bool :=
  match e with
  | EChunkClose p id o => coutcome_ok s u (closing_chunk s p id) o
  | EWorkerStop p id o => coutcome_ok s u (closing_chunk s p id) o
  | ESave _ _ ok => ok
  | EHandback _ ok => ok
  | EFeederLoad _ false => false
  | _ => true
  end.

Definition cstep (cs : cstate) (e : event) : option cstate :=
  let (s, u) := cs in
  if cjustified s u e then
    match step s e with
    | Some s' =>
      match e with
      | ERestart => Some (s', fun p => dir_bytes (files s') p)        (* OnChunkRecovered *)
      | EChunkClose _ _ ADisk | EChunkClose _ _ ADropFullSaved | EWorkerStop _ _ ADisk | EWorkerStop _ _ ADropFullSaved =>
        match rev (files s') with
        | c :: _ => if Nat.ltb (length (files s)) (length (files s'))
                    then Some (s', upd u (c_pipe c) (u (c_pipe c) + sz c)) else Some (s', u)
        | [] => Some (s', u)
        end
      | _ => Some (s', u)                                             (* the removal on ACK does not reach this copy *)
      end
    | None => None
    end
  else None.

Fixpoint csteps (cs : cstate) (es : list event) : option cstate :=
  match es with
  | [] => Some cs
  | e :: r => match cstep cs e with Some cs' => csteps cs' r | None => None end
  end.

End Quota.

(* ---------- kind 4: a history of outages and healthy phases, executed on [qstep] ----------

   Z = seed, flags, capacity, recordsPerChunk, nphases, (chunks, outage, restart)...
   flags bit 1: two pipelines.  A chunk's size is its number of records, the limit capacity * recordsPerChunk records,
   the queue holds 64 chunks.  Generation g uses connection g.  Per phase: the backlog (chunks * recordsPerChunk records
   per pipeline) is read and processed; a chunk is closed after recordsPerChunk records: in memory while the window
   of its pipeline is empty, otherwise spilled — or discarded, whichever the guard allows; restart 1: graceful stop
   and restart under the outage; then the healthy phase: everything is sent, acknowledged, its file removed; restart
   2: stop and restart.  Finally a graceful stop.
   Output "ok:s=<conn/pipeline:kept records in a final location>,f=0,m=0,d=<discarded chunks>". *)

Definition qsz (c : chunk) : nat := length (c_toks c).

(* attempt the events in order on the guarded agent; the ones that are not enabled are skipped; counts the taken ones *)
Definition qtry (lim : nat) (acc : state * nat) (mk : state -> list event) : state * nat :=
  fold_left (fun a e => match qstep qsz lim 64 (fst a) e with Some s' => (s', S (snd a)) | None => a end) (mk (fst acc)) acc.

Definition qtry_all (lim : nat) (acc : state * nat) (mks : list (state -> list event)) : state * nat :=
  fold_left (qtry lim) mks acc.

Fixpoint qloop (lim : nat) (fuel : nat) (mks : list (state -> list event)) (acc : state * nat) : state * nat :=
  match fuel with
  | O => acc
  | S f =>
    let acc' := qtry_all lim acc mks in
    if Nat.eqb (snd acc') (snd acc) then acc' else qloop lim f mks acc'
  end.

Definition kev (es : list event) : state -> list event := fun _ => es.

Definition count_on (p : nat) (l : list tok) : nat := length (filter (on_pipe p) l).

(* input side and worker of pipeline p for connection k; a chunk of r records is closed as Accept would *)
Definition work_cands (r k p : nat) : list (state -> list event) :=
  [ kev [EFrame k; ESinkSend k; EKeyFlush k p; EWorkerTake p; EWorkerStep p];
    (fun s => if Nat.leb r (count_on p (cur s)) then
                if existsb (item_on p) (window s)
                then [EChunkClose p (S (lastid s)) ADisk; EChunkClose p (S (lastid s)) ADropQuota]
                else [EChunkClose p (S (lastid s)) AMem]
              else []);
    kev [EFeederTake p; EFeederLoad p true; EFeederPush p] ].

Definition healthy_cands (p : nat) : list (state -> list event) :=
  [ kev [EFeederTake p; EFeederLoad p true; EFeederPush p; EConnect p; ESendLeft p; ESendNew p];
    (fun s => flat_map (fun q => [ESrvAck (q_pipe q) (q_id q); EAckRead (q_pipe q) (q_id q)]) (unacked s)) ].

Definition stop_cands (p : nat) : list (state -> list event) :=
  [ kev [EWorkerTake p; EWorkerStep p];
    (fun s => [EWorkerStop p (S (lastid s)) ADisk; EWorkerStop p (S (lastid s)) ADropQuota]);
    kev [EDestroy p; EFeederBreak p; ESave p WQueue true; ESave p WQueue false; ESave p WHand true; ESave p WHand false;
         ESessionEnd p; EClientStop p; EHandback p true; EHandback p false; EClientDone p;
         ESave p WWindow true; ESave p WWindow false; EFeederEnd p] ].

Record spill_case := mkSpillCase { sp_two : bool; sp_cap : nat; sp_r : nat; sp_phases : list (list nat) }.

Definition decode_spill_case (zs : list Z) : option spill_case :=
  match zs with
  | [] => None
  | _seed :: zs' =>
    match rd_list rd_nat 3 zs' with
    | Some ([flags; cap; r], r1) =>
      match rd_counted (rd_list rd_nat 3) r1 with
      | Some (phases, []) => Some (mkSpillCase (Nat.odd (Nat.div2 flags)) cap r phases)
      | _ => None
      end
    | _ => None
    end
  end.

Definition spill_pipes (c : spill_case) : list nat := if sp_two c then [1; 2] else [1].

Definition fuel_of (c : spill_case) : nat := 40 + 6 * (sp_cap c * sp_r c * 2).

(* graceful stop of the whole agent and restart; the connection k of the generation ends first *)
Definition do_stop (lim : nat) (c : spill_case) (k : nat) (acc : state * nat) : state * nat :=
  let acc1 := qtry_all lim acc [kev [EConnEnd k; EStopReq; EInputsStopped]] in
  let acc2 := qloop lim (fuel_of c) (flat_map stop_cands (spill_pipes c)) acc1 in
  qtry_all lim acc2 [kev [EStopped]].

Definition do_restart (lim : nat) (c : spill_case) (k : nat) (acc : state * nat) : state * nat :=
  qtry_all lim (do_stop lim c k acc) [kev [ERestart; EConnOpen (S k)]].

(* acc, current connection/generation k, next sequence number *)
Fixpoint run_phases (lim : nat) (c : spill_case) (phs : list (list nat)) (k sq : nat) (acc : state * nat) : (state * nat) * nat :=
  match phs with
  | [] => (acc, k)
  | [chunks; _outage; restart] :: rest =>
    let n := chunks * sp_r c in
    let toks := flat_map (fun i => map (fun p => mkTok k ((sq + i) * 2 + p) p true 0%N) (spill_pipes c)) (seq 0 n) in
    let acc1 := qtry_all lim acc [kev (map EIngest toks)] in
    let acc2 := qloop lim (fuel_of c) (flat_map (work_cands (sp_r c) k) (spill_pipes c)) acc1 in
    let '(acc3, k3) := if Nat.eqb restart 1 then (do_restart lim c k acc2, S k) else (acc2, k) in
    let acc4 := qloop lim (fuel_of c) (flat_map healthy_cands (spill_pipes c)) acc3 in
    let '(acc5, k5) := if Nat.eqb restart 2 then (do_restart lim c k3 acc4, S k3) else (acc4, k3) in
    run_phases lim c rest k5 (sq + n) acc5
  | _ :: rest => run_phases lim c rest k sq acc
  end.

Definition run_spill_scenario (c : spill_case) : state :=
  let lim := sp_cap c * sp_r c in
  let acc0 := qtry_all lim (init, 0) [kev [EConnOpen 0]] in
  let '(acc1, k) := run_phases lim c (sp_phases c) 0 0 acc0 in
  fst (do_stop lim c k acc1).

Definition safe_streams_q (s : state) : list ((nat * nat) * nat) :=
  fold_left (fun acc t => if t_keep t && in_toks t (safe s) then bump (t_conn t, t_pipe t) acc else acc)
            (rev (ingested s)) [].

Definition run_spill_case (c : case) : bytes :=
  match decode_spill_case (c_zargs c) with
  | None => bad_case_output
  | Some sc =>
    let s := run_spill_scenario sc in
    if gphase_eqb (phase s) Stopped then
      str [111;107;58;115;61] ++ render_streams (safe_streams_q s)
      ++ str [44;102;61;48;44;109;61;48;44;100;61] ++ dec_nat (length (dropped s))
    else str [101;114;114;58;110;111;116;45;115;116;111;112;112;101;100]
  end.
