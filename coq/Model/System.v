(* System.v — record/chunk-granular labelled transition system of the whole slog-agent pipeline for ONE
   output: TCP connection -> multiLineReader -> parsing sink batch -> per-(connection,key) buffer ->
   pipeline channel -> processing worker -> current chunk -> hybrid buffer (queue: memory | disk file,
   feeder, window) -> forwarder client (leftovers, sent-unacked) -> upstream; graceful stop and restart.

   Anchors: input/tcplistener/tcplinelistener.go (runConnection), base/bsupport/logparsingreceiver.go,
   orchestrate/obykeyset/{orchestrator,channelinputbuffer}.go, base/bsupport/logprocessingworker.go,
   orchestrate/obase/pipelines.go, buffer/hybridbuffer/{bufferer,outputfeeder,chunkmanager,chunkoperator}.go,
   output/baseoutput/{clientworker,clientsession}.go, run/loader.go, run/run.go.

   Tokens are record stamps (connection, sequence) with the pipeline (key tuple) they are routed to, the
   filter verdict and an abstract body.  A step is one atomic action of one goroutine; the hidden
   scheduling, the spill decisions, the quota/IO outcomes and the upstream behaviour are the choice of the
   event.  No proofs in this file. *)
From Coq Require Import List NArith ZArith Bool Arith PeanoNat.
From SV Require Import Model.Common.
Import ListNotations.
Open Scope nat_scope.

(* ---------- data ---------- *)

Record tok := mkTok { t_conn : nat; t_seq : nat; t_pipe : nat; t_keep : bool; t_body : N }.

Definition tok_eqb (a b : tok) : bool :=
  Nat.eqb (t_conn a) (t_conn b) && Nat.eqb (t_seq a) (t_seq b) && Nat.eqb (t_pipe a) (t_pipe b)
  && Bool.eqb (t_keep a) (t_keep b) && N.eqb (t_body a) (t_body b).

Record chunk := mkChunk { c_id : nat; c_pipe : nat; c_toks : list tok }.

Fixpoint toks_eqb (a b : list tok) : bool :=
  match a, b with
  | [], [] => true
  | x :: a', y :: b' => tok_eqb x y && toks_eqb a' b'
  | _, _ => false
  end.

Definition chunk_eqb (a b : chunk) : bool :=
  Nat.eqb (c_id a) (c_id b) && Nat.eqb (c_pipe a) (c_pipe b) && toks_eqb (c_toks a) (c_toks b).

(* a chunk as held by the buffer / client: Data loaded or not, Saved (file exists) or not *)
Record qitem := mkItem { q_chunk : chunk; q_loaded : bool; q_saved : bool }.

Definition q_id (q : qitem) := c_id (q_chunk q).
Definition q_pipe (q : qitem) := c_pipe (q_chunk q).

Inductive gphase := Running | Stopping | Draining | Stopped.
Inductive pphase := PRun | PWStopped | PDestroying | PSaving | PDone.   (* processing worker / buffer of a pipeline *)
Inductive cphase := CIdle | CSess | CHanding | CDone.            (* forwarder client of a pipeline *)

Definition gphase_eqb (a b : gphase) : bool :=
  match a, b with Running, Running | Stopping, Stopping | Draining, Draining | Stopped, Stopped => true | _, _ => false end.
Definition pphase_eqb (a b : pphase) : bool :=
  match a, b with PRun, PRun | PWStopped, PWStopped | PDestroying, PDestroying | PSaving, PSaving | PDone, PDone => true | _, _ => false end.
Definition cphase_eqb (a b : cphase) : bool :=
  match a, b with CIdle, CIdle | CSess, CSess | CHanding, CHanding | CDone, CDone => true | _, _ => false end.

Definition upd {A} (f : nat -> A) (p : nat) (v : A) : nat -> A := fun q => if Nat.eqb q p then v else f q.

Record state := mkState {
  phase : gphase;
  open_conns : list nat;              (* connections accepted and not yet ended (this generation) *)
  ingested : list tok;                (* history: every record read from a connection, newest first *)
  conn_buf : list tok;                (* multiLineReader buffers (all connections; FIFO per t_conn) *)
  sink_batch : list tok;              (* logParsingReceiverSink.bufferedLogs *)
  key_buf : list tok;                 (* channelInputBuffer.PendingLogs per (connection, pipeline) *)
  chans : list (nat * list tok);      (* pipeline input channels: (pipeline, batch), FIFO per pipeline *)
  hand : list tok;                    (* batch being processed by a worker (FIFO per pipeline) *)
  cur : list tok;                     (* current (open) chunk of each pipeline *)
  lastid : nat;                       (* chunk id clock: the last id handed out (ids are wall-clock ordered) *)
  pipes : list nat;                   (* pipelines existing in this generation *)
  pph : nat -> pphase;
  cph : nat -> cphase;
  queue : list qitem;                 (* bufferer.inputChannel *)
  fhand : list qitem;                 (* feeder: chunk taken from the queue, not yet in the window *)
  window : list qitem;                (* feeder.outputChannel *)
  leftovers : list qitem;             (* client: to be (re)sent first, sorted by id *)
  unacked : list qitem;               (* client: transmitted on the current session, not confirmed *)
  files : list chunk;                 (* chunk files of all queue directories *)
  acked : list chunk;                 (* history: chunks the upstream acknowledged *)
  dropped : list chunk;               (* history: chunks counted in dropped_chunks_total *)
  filtered : list tok;                (* history: records dropped by the transforms (counted) *)
  lost : list tok;                    (* history: records lost by the channel-timeout ("BUG") branch *)
  received : list chunk               (* history: chunks received completely by the upstream, newest first *)
}.

Definition init : state :=
  mkState Running [] [] [] [] [] [] [] [] 0 [] (fun _ => PRun) (fun _ => CIdle)
          [] [] [] [] [] [] [] [] [] [] [].

(* ---------- list helpers ---------- *)

(* first element satisfying f, and the list without it *)
Fixpoint take_first {A} (f : A -> bool) (l : list A) : option (A * list A) :=
  match l with
  | [] => None
  | x :: r => if f x then Some (x, r)
              else match take_first f r with
                   | Some (y, r') => Some (y, x :: r')
                   | None => None
                   end
  end.

Definition on_conn (k : nat) (t : tok) : bool := Nat.eqb (t_conn t) k.
Definition on_pipe (p : nat) (t : tok) : bool := Nat.eqb (t_pipe t) p.
Definition on_cp (k p : nat) (t : tok) : bool := on_conn k t && on_pipe p t.
Definition item_on (p : nat) (q : qitem) : bool := Nat.eqb (q_pipe q) p.
Definition item_is (p i : nat) (q : qitem) : bool := Nat.eqb (q_pipe q) p && Nat.eqb (q_id q) i.
Definition batch_on (p : nat) (b : nat * list tok) : bool := Nat.eqb (fst b) p.
Definition chunk_is (p i : nat) (c : chunk) : bool := Nat.eqb (c_pipe c) p && Nat.eqb (c_id c) i.

Definition none_of {A} (f : A -> bool) (l : list A) : bool := negb (existsb f l).

Definition add_pipe (p : nat) (l : list nat) : list nat := if existsb (Nat.eqb p) l then l else l ++ [p].
Definition add_pipe_list (ps : list nat) (l : list nat) : list nat := fold_left (fun acc p => add_pipe p acc) ps l.
Definition add_pipes (ts : list tok) (l : list nat) : list nat := add_pipe_list (map t_pipe ts) l.
Definition remove_nat (k : nat) (l : list nat) : list nat := filter (fun x => negb (Nat.eqb x k)) l.

(* insertion sort of items by chunk id (newLeftoverChannel: sort.Slice by ID; ScanExistingChunks: sort.Strings) *)
Fixpoint insert_item (x : qitem) (l : list qitem) : list qitem :=
  match l with
  | [] => [x]
  | y :: r => if Nat.leb (q_id x) (q_id y) then x :: l else y :: insert_item x r
  end.
Definition sort_items (l : list qitem) : list qitem := fold_right insert_item [] l.

Definition toks_of_batches (l : list (nat * list tok)) : list tok := flat_map snd l.
Definition toks_of_chunks (l : list chunk) : list tok := flat_map c_toks l.
Definition toks_of_items (l : list qitem) : list tok := flat_map (fun q => c_toks (q_chunk q)) l.

(* ---------- events ---------- *)

(* result of handing a freshly closed chunk to bufferer.Accept *)
Inductive accept_outcome :=
| AMem            (* queued loaded *)
| ADisk           (* window >= M/2: written to its file, queued unloaded *)
| ADropQuota      (* spill refused (space limit / IO error): counted dropped *)
| ADropFull       (* queue full, loaded chunk: counted dropped *)
| ADropFullSaved. (* spilled, then queue full: counted dropped, the file stays *)

Inductive where_ := WQueue | WHand | WWindow.

Inductive event :=
(* input side *)
| EConnOpen (k : nat)
| EIngest (t : tok)                  (* a well-formed record has been read from connection t_conn *)
| EFrame (k : nat)                   (* multiLineReader emits the oldest buffered record: parsed, appended to the sink batch *)
| ESinkSend (k : nat)                (* sendBuffer: sink batch -> per-key buffers (pipelines created on demand) *)
| EKeyFlush (k p : nat)              (* channelInputBuffer.Flush: the whole per-key buffer becomes one batch in the channel *)
| EFlushTimeout (k p : nat)          (* same, but the 60 s channel timeout fired: the batch is lost ("BUG" branch) *)
| EConnEnd (k : nat)                 (* runConnection ends: FlushAll, Flush, deferred Close (all per-key buffers flushed) *)
| EStopReq
| EInputsStopped                     (* shutdownInputs() returns: every connection goroutine has ended *)
(* worker *)
| EWorkerTake (p : nat)
| EWorkerStep (p : nat)              (* transforms + serialize one record: appended to the current chunk, or filtered *)
| EChunkClose (p id : nat) (o : accept_outcome)  (* FlushBuffer/limit reached + bufferer.Accept *)
| EWorkerStop (p : nat) (id : nat) (o : accept_outcome) (* channel closed and drained: final flushChunk, worker stopped *)
(* buffer *)
| EFeederTake (p : nat)
| EFeederLoad (p : nat) (ok : bool)  (* load an unloaded chunk from its file; failure: counted dropped *)
| EFeederPush (p : nat)
| EDestroy (p : nat)                 (* bufferer.Destroy: close the queue, signal inputClosed to the feeder *)
| EFeederBreak (p : nat)             (* feeder leaves its main loop: closes the window, signals the consumers, starts saving *)
| ESave (p : nat) (w : where_) (ok : bool) (* saveQueued / saveOutput: next chunk of queue / feeder hand / window: file or counted drop *)
| EFeederEnd (p : nat)               (* everything saved, consumers finished: feeder stopped, Destroy returns *)
(* client *)
| EConnect (p : nat)
| ESendLeft (p : nat)                (* resend the first leftover: received completely by the upstream *)
| ESendNew (p : nat)                 (* take the next chunk of the window and transmit it *)
| ESendNewFail (p : nat)             (* take the next chunk of the window, transmission fails: session ends, chunk is a leftover *)
| ESrvAck (p id : nat)               (* the upstream acknowledges a chunk transmitted on this session *)
| EAckRead (p id : nat)              (* the client reads that ACK: OnChunkConsumed (file removed) *)
| ESessionEnd (p : nat)              (* any fault / stop: collectLeftovers (sorted by id) *)
| EClientStop (p : nat)              (* inputClosed seen outside a session: final leftover loop starts *)
| EHandback (p : nat) (ok : bool)    (* OnChunkLeftover for the first leftover: file, or (C03 guarantee) counted drop *)
| EClientDone (p : nat)
(* whole agent *)
| EStopped                           (* orchestrator.Shutdown() returns *)
| ERestart
(* observations of a Stopped state (no state change) *)
| EObsDisk (l : list (nat * nat))    (* the queue directories hold exactly these (pipeline, chunk id) files *)
| EObsDrops (n : nat).               (* the dropped-chunk counters (summed over generations) read n >= modelled drops *)

(* ---------- step ---------- *)

Definition new_item (c : chunk) (loaded saved : bool) := mkItem c loaded saved.

(* bufferer.Accept of chunk c *)
Definition do_accept (s : state) (c : chunk) (o : accept_outcome) : state :=
  match o with
  | AMem => mkState (phase s) (open_conns s) (ingested s) (conn_buf s) (sink_batch s) (key_buf s) (chans s) (hand s) (cur s)
              (lastid s) (pipes s) (pph s) (cph s) (queue s ++ [new_item c true false]) (fhand s) (window s) (leftovers s) (unacked s)
              (files s) (acked s) (dropped s) (filtered s) (lost s) (received s)
  | ADisk => mkState (phase s) (open_conns s) (ingested s) (conn_buf s) (sink_batch s) (key_buf s) (chans s) (hand s) (cur s)
              (lastid s) (pipes s) (pph s) (cph s) (queue s ++ [new_item c false true]) (fhand s) (window s) (leftovers s) (unacked s)
              (files s ++ [c]) (acked s) (dropped s) (filtered s) (lost s) (received s)
  | ADropQuota | ADropFull =>
            mkState (phase s) (open_conns s) (ingested s) (conn_buf s) (sink_batch s) (key_buf s) (chans s) (hand s) (cur s)
              (lastid s) (pipes s) (pph s) (cph s) (queue s) (fhand s) (window s) (leftovers s) (unacked s)
              (files s) (acked s) (dropped s ++ [c]) (filtered s) (lost s) (received s)
  | ADropFullSaved =>
            mkState (phase s) (open_conns s) (ingested s) (conn_buf s) (sink_batch s) (key_buf s) (chans s) (hand s) (cur s)
              (lastid s) (pipes s) (pph s) (cph s) (queue s) (fhand s) (window s) (leftovers s) (unacked s)
              (files s ++ [c]) (acked s) (dropped s ++ [c]) (filtered s) (lost s) (received s)
  end.

(* close the current chunk of pipeline p (if any record is in it) with id [id] and hand it to Accept *)
Definition close_chunk (s : state) (p id : nat) (o : accept_outcome) : option state :=
  let (mine, others) := partition (on_pipe p) (cur s) in
  match mine with
  | [] => None
  | _ =>
    if Nat.ltb (lastid s) id then
      let s1 := mkState (phase s) (open_conns s) (ingested s) (conn_buf s) (sink_batch s) (key_buf s) (chans s) (hand s) others
                  id (pipes s) (pph s) (cph s) (queue s) (fhand s) (window s) (leftovers s) (unacked s)
                  (files s) (acked s) (dropped s) (filtered s) (lost s) (received s) in
      Some (do_accept s1 (mkChunk id p mine) o)
    else None
  end.

Definition set_pph (s : state) (p : nat) (v : pphase) : state :=
  mkState (phase s) (open_conns s) (ingested s) (conn_buf s) (sink_batch s) (key_buf s) (chans s) (hand s) (cur s)
    (lastid s) (pipes s) (upd (pph s) p v) (cph s) (queue s) (fhand s) (window s) (leftovers s) (unacked s)
    (files s) (acked s) (dropped s) (filtered s) (lost s) (received s).

Definition set_cph (s : state) (p : nat) (v : cphase) : state :=
  mkState (phase s) (open_conns s) (ingested s) (conn_buf s) (sink_batch s) (key_buf s) (chans s) (hand s) (cur s)
    (lastid s) (pipes s) (pph s) (upd (cph s) p v) (queue s) (fhand s) (window s) (leftovers s) (unacked s)
    (files s) (acked s) (dropped s) (filtered s) (lost s) (received s).

Definition set_phase (s : state) (v : gphase) : state :=
  mkState v (open_conns s) (ingested s) (conn_buf s) (sink_batch s) (key_buf s) (chans s) (hand s) (cur s)
    (lastid s) (pipes s) (pph s) (cph s) (queue s) (fhand s) (window s) (leftovers s) (unacked s)
    (files s) (acked s) (dropped s) (filtered s) (lost s) (received s).

(* the buffer stages and client holdings as one update *)
Definition set_buf (s : state) (q fh w lo ua : list qitem) (fl ak dr : list chunk) : state :=
  mkState (phase s) (open_conns s) (ingested s) (conn_buf s) (sink_batch s) (key_buf s) (chans s) (hand s) (cur s)
    (lastid s) (pipes s) (pph s) (cph s) q fh w lo ua fl ak dr (filtered s) (lost s) (received s).

(* the input stages as one update *)
Definition set_in (s : state) (oc : list nat) (ing cb sb kb : list tok) (ch : list (nat * list tok)) (ps : list nat) (lo : list tok) : state :=
  mkState (phase s) oc ing cb sb kb ch (hand s) (cur s)
    (lastid s) ps (pph s) (cph s) (queue s) (fhand s) (window s) (leftovers s) (unacked s)
    (files s) (acked s) (dropped s) (filtered s) lo (received s).

Definition set_work (s : state) (ch : list (nat * list tok)) (h c f : list tok) : state :=
  mkState (phase s) (open_conns s) (ingested s) (conn_buf s) (sink_batch s) (key_buf s) ch h c
    (lastid s) (pipes s) (pph s) (cph s) (queue s) (fhand s) (window s) (leftovers s) (unacked s)
    (files s) (acked s) (dropped s) f (lost s) (received s).

Definition add_received (s : state) (c : chunk) : state :=
  mkState (phase s) (open_conns s) (ingested s) (conn_buf s) (sink_batch s) (key_buf s) (chans s) (hand s) (cur s)
    (lastid s) (pipes s) (pph s) (cph s) (queue s) (fhand s) (window s) (leftovers s) (unacked s)
    (files s) (acked s) (dropped s) (filtered s) (lost s) (c :: received s).

Definition remove_file (c0 : chunk) (l : list chunk) : list chunk := filter (fun c => negb (chunk_eqb c c0)) l.

Definition mem_nat (k : nat) (l : list nat) : bool := existsb (Nat.eqb k) l.

(* the sequence number of a record is its arrival index on its connection: larger than every earlier one *)
Definition stamp_fresh (t : tok) (l : list tok) : bool :=
  none_of (fun u => Nat.eqb (t_conn u) (t_conn t) && Nat.leb (t_seq t) (t_seq u)) l.

Definition singleton_batches (l : list tok) : list (nat * list tok) := map (fun t => (t_pipe t, [t])) l.

(* a chunk leaving memory at shutdown (saveEverything / OnChunkLeftover): already saved -> nothing to do;
   otherwise written to its file, or (write refused) counted as dropped *)
Definition persist (q : qitem) (ok : bool) (fl dr : list chunk) : list chunk * list chunk :=
  if q_saved q then (fl, dr)
  else if ok then (fl ++ [q_chunk q], dr) else (fl, dr ++ [q_chunk q]).

Definition all_done (s : state) : bool := forallb (fun p => pphase_eqb (pph s p) PDone) (pipes s).

Definition disk_listing (s : state) : list (nat * nat) := map (fun c => (c_pipe c, c_id c)) (files s).

Definition pair_eqb (a b : nat * nat) : bool := Nat.eqb (fst a) (fst b) && Nat.eqb (snd a) (snd b).
Definition subset_pairs (a b : list (nat * nat)) : bool := forallb (fun x => existsb (pair_eqb x) b) a.
Definition same_pairs (a b : list (nat * nat)) : bool := subset_pairs a b && subset_pairs b a.

Definition recovered_queue (fl : list chunk) : list qitem := sort_items (map (fun c => new_item c false true) fl).

(* the feeder's main loop runs (it may still take chunks from the closed queue after Destroy) *)
Definition feeder_alive (ph : pphase) : bool :=
  match ph with PRun | PWStopped | PDestroying => true | _ => false end.

Definition step (s : state) (e : event) : option state :=
  match e with
  | EConnOpen k =>
    if gphase_eqb (phase s) Running && negb (mem_nat k (open_conns s))
    then Some (set_in s (k :: open_conns s) (ingested s) (conn_buf s) (sink_batch s) (key_buf s) (chans s) (pipes s) (lost s))
    else None
  | EIngest t =>
    if mem_nat (t_conn t) (open_conns s) && stamp_fresh t (ingested s)
    then Some (set_in s (open_conns s) (t :: ingested s) (conn_buf s ++ [t]) (sink_batch s) (key_buf s) (chans s) (pipes s) (lost s))
    else None
  | EFrame k =>
    match take_first (on_conn k) (conn_buf s) with
    | Some (t, rest) => Some (set_in s (open_conns s) (ingested s) rest (sink_batch s ++ [t]) (key_buf s) (chans s) (pipes s) (lost s))
    | None => None
    end
  | ESinkSend k =>
    let (mine, others) := partition (on_conn k) (sink_batch s) in
    match mine with
    | [] => None
    | _ => Some (set_in s (open_conns s) (ingested s) (conn_buf s) others (key_buf s ++ mine) (chans s) (add_pipes mine (pipes s)) (lost s))
    end
  | EKeyFlush k p =>
    let (mine, others) := partition (on_cp k p) (key_buf s) in
    match mine with
    | [] => None
    | _ => Some (set_in s (open_conns s) (ingested s) (conn_buf s) (sink_batch s) others (chans s ++ [(p, mine)]) (pipes s) (lost s))
    end
  | EFlushTimeout k p =>
    let (mine, others) := partition (on_cp k p) (key_buf s) in
    match mine with
    | [] => None
    | _ => Some (set_in s (open_conns s) (ingested s) (conn_buf s) (sink_batch s) others (chans s) (pipes s) (lost s ++ mine))
    end
  | EConnEnd k =>
    if mem_nat k (open_conns s) then
      let (kb, kb') := partition (on_conn k) (key_buf s) in
      let (sb, sb') := partition (on_conn k) (sink_batch s) in
      let (cb, cb') := partition (on_conn k) (conn_buf s) in
      let moved := kb ++ sb ++ cb in
      Some (set_in s (remove_nat k (open_conns s)) (ingested s) cb' sb' kb' (chans s ++ singleton_batches moved)
              (add_pipes moved (pipes s)) (lost s))
    else None
  | EStopReq =>
    if gphase_eqb (phase s) Running then Some (set_phase s Stopping) else None
  | EInputsStopped =>
    if gphase_eqb (phase s) Stopping && match open_conns s with [] => true | _ => false end
    then Some (set_phase s Draining) else None
  | EWorkerTake p =>
    if pphase_eqb (pph s p) PRun && none_of (on_pipe p) (hand s) then
      match take_first (batch_on p) (chans s) with
      | Some (b, rest) => Some (set_work s rest (hand s ++ snd b) (cur s) (filtered s))
      | None => None
      end
    else None
  | EWorkerStep p =>
    match take_first (on_pipe p) (hand s) with
    | Some (t, rest) =>
      if t_keep t then Some (set_work s (chans s) rest (cur s ++ [t]) (filtered s))
      else Some (set_work s (chans s) rest (cur s) (filtered s ++ [t]))
    | None => None
    end
  | EChunkClose p id o =>
    if pphase_eqb (pph s p) PRun then close_chunk s p id o else None
  | EWorkerStop p id o =>
    if gphase_eqb (phase s) Draining && pphase_eqb (pph s p) PRun && mem_nat p (pipes s)
       && none_of (batch_on p) (chans s) && none_of (on_pipe p) (hand s) then
      if none_of (on_pipe p) (cur s) then Some (set_pph s p PWStopped)
      else match close_chunk s p id o with
           | Some s1 => Some (set_pph s1 p PWStopped)
           | None => None
           end
    else None
  | EFeederTake p =>
    if feeder_alive (pph s p) && none_of (item_on p) (fhand s) then
      match take_first (item_on p) (queue s) with
      | Some (q, rest) => Some (set_buf s rest (fhand s ++ [q]) (window s) (leftovers s) (unacked s) (files s) (acked s) (dropped s))
      | None => None
      end
    else None
  | EFeederLoad p ok =>
    match take_first (item_on p) (fhand s) with
    | Some (q, rest) =>
      if q_loaded q then None
      else if ok then Some (set_buf s (queue s) (new_item (q_chunk q) true (q_saved q) :: rest) (window s) (leftovers s) (unacked s)
                              (files s) (acked s) (dropped s))
      else Some (set_buf s (queue s) rest (window s) (leftovers s) (unacked s) (files s) (acked s) (dropped s ++ [q_chunk q]))
    | None => None
    end
  | EFeederPush p =>
    match take_first (item_on p) (fhand s) with
    | Some (q, rest) =>
      if q_loaded q && feeder_alive (pph s p)
      then Some (set_buf s (queue s) rest (window s ++ [q]) (leftovers s) (unacked s) (files s) (acked s) (dropped s))
      else None
    | None => None
    end
  | EDestroy p =>
    if pphase_eqb (pph s p) PWStopped then Some (set_pph s p PDestroying) else None
  | EFeederBreak p =>
    if pphase_eqb (pph s p) PDestroying then Some (set_pph s p PSaving) else None
  | ESave p w ok =>
    (* saveQueued at once; saveOutput (the window) only after the consumers have quit *)
    if pphase_eqb (pph s p) PSaving && (match w with WWindow => cphase_eqb (cph s p) CDone | _ => true end) then
      let src := match w with WQueue => queue s | WHand => fhand s | WWindow => window s end in
      match take_first (item_on p) src with
      | Some (q, rest) =>
        let (fl, dr) := persist q ok (files s) (dropped s) in
        match w with
        | WQueue => Some (set_buf s rest (fhand s) (window s) (leftovers s) (unacked s) fl (acked s) dr)
        | WHand => Some (set_buf s (queue s) rest (window s) (leftovers s) (unacked s) fl (acked s) dr)
        | WWindow => Some (set_buf s (queue s) (fhand s) rest (leftovers s) (unacked s) fl (acked s) dr)
        end
      | None => None
      end
    else None
  | EFeederEnd p =>
    if pphase_eqb (pph s p) PSaving && cphase_eqb (cph s p) CDone
       && none_of (item_on p) (queue s) && none_of (item_on p) (fhand s) && none_of (item_on p) (window s)
    then Some (set_pph s p PDone) else None
  | EConnect p =>
    if cphase_eqb (cph s p) CIdle && mem_nat p (pipes s) then Some (set_cph s p CSess) else None
  | ESendLeft p =>
    if cphase_eqb (cph s p) CSess then
      match take_first (item_on p) (leftovers s) with
      | Some (q, rest) => Some (add_received (set_buf s (queue s) (fhand s) (window s) rest (unacked s ++ [q]) (files s) (acked s) (dropped s)) (q_chunk q))
      | None => None
      end
    else None
  | ESendNew p =>
    if cphase_eqb (cph s p) CSess && none_of (item_on p) (leftovers s) then
      match take_first (item_on p) (window s) with
      | Some (q, rest) => Some (add_received (set_buf s (queue s) (fhand s) rest (leftovers s) (unacked s ++ [q]) (files s) (acked s) (dropped s)) (q_chunk q))
      | None => None
      end
    else None
  | ESendNewFail p =>
    if cphase_eqb (cph s p) CSess && none_of (item_on p) (leftovers s) then
      match take_first (item_on p) (window s) with
      | Some (q, rest) =>
        let (mine, others) := partition (item_on p) (unacked s) in
        Some (set_cph (set_buf s (queue s) (fhand s) rest (sort_items (leftovers s ++ mine ++ [q])) others (files s) (acked s) (dropped s)) p CIdle)
      | None => None
      end
    else None
  | ESrvAck p id =>
    if cphase_eqb (cph s p) CSess then
      match take_first (item_is p id) (unacked s) with
      | Some (q, _) => Some (set_buf s (queue s) (fhand s) (window s) (leftovers s) (unacked s) (files s) (acked s ++ [q_chunk q]) (dropped s))
      | None => None
      end
    else None
  | EAckRead p id =>
    if cphase_eqb (cph s p) CSess then
      match take_first (item_is p id) (unacked s) with
      | Some (q, rest) =>
        if existsb (chunk_eqb (q_chunk q)) (acked s) then
          Some (set_buf s (queue s) (fhand s) (window s) (leftovers s) rest
                  (if q_saved q then remove_file (q_chunk q) (files s) else files s) (acked s) (dropped s))
        else None
      | None => None
      end
    else None
  | ESessionEnd p =>
    if cphase_eqb (cph s p) CSess then
      let (mine, others) := partition (item_on p) (unacked s) in
      Some (set_cph (set_buf s (queue s) (fhand s) (window s) (sort_items (leftovers s ++ mine)) others (files s) (acked s) (dropped s)) p CIdle)
    else None
  | EClientStop p =>
    if cphase_eqb (cph s p) CIdle && pphase_eqb (pph s p) PSaving then Some (set_cph s p CHanding) else None
  | EHandback p ok =>
    if cphase_eqb (cph s p) CHanding then
      match take_first (item_on p) (leftovers s) with
      | Some (q, rest) =>
        let (fl, dr) := persist q ok (files s) (dropped s) in
        Some (set_buf s (queue s) (fhand s) (window s) rest (unacked s) fl (acked s) dr)
      | None => None
      end
    else None
  | EClientDone p =>
    if cphase_eqb (cph s p) CHanding && none_of (item_on p) (leftovers s) then Some (set_cph s p CDone) else None
  | EStopped =>
    if gphase_eqb (phase s) Draining && all_done s then Some (set_phase s Stopped) else None
  | ERestart =>
    if gphase_eqb (phase s) Stopped then
      Some (mkState Running [] (ingested s) [] [] [] [] [] [] (lastid s)
              (add_pipe_list (map c_pipe (files s)) [])
              (fun _ => PRun) (fun _ => CIdle)
              (recovered_queue (files s)) [] [] [] [] (files s) (acked s) (dropped s) (filtered s) (lost s) (received s))
    else None
  | EObsDisk l =>
    if gphase_eqb (phase s) Stopped && same_pairs l (disk_listing s) then Some s else None
  | EObsDrops n =>
    if gphase_eqb (phase s) Stopped && Nat.leb (length (dropped s)) n then Some s else None
  end.

Fixpoint steps (s : state) (es : list event) : option state :=
  match es with
  | [] => Some s
  | e :: r => match step s e with Some s' => steps s' r | None => None end
  end.

(* ---------- where the tokens are ---------- *)

Definition transit (s : state) : list tok :=
  conn_buf s ++ sink_batch s ++ key_buf s ++ toks_of_batches (chans s) ++ hand s ++ cur s
  ++ toks_of_items (queue s) ++ toks_of_items (fhand s) ++ toks_of_items (window s)
  ++ toks_of_items (leftovers s) ++ toks_of_items (unacked s).

(* the three final locations allowed by the property *)
Definition safe (s : state) : list tok :=
  toks_of_chunks (acked s) ++ toks_of_chunks (files s) ++ toks_of_chunks (dropped s).

Definition is_flush_timeout (e : event) : bool := match e with EFlushTimeout _ _ => true | _ => false end.
Definition no_timeout (es : list event) : bool := forallb (fun e => negb (is_flush_timeout e)) es.

(* events excluded by the hypotheses of the order theorems: a chunk whose file survives although the chunk was
   dropped from the queue (queue overflow after a successful spill; read error at load time) is recovered at the
   next start and delivered after newer chunks *)
Definition order_safe_event (e : event) : bool :=
  match e with
  | EChunkClose _ _ ADropFullSaved => false
  | EWorkerStop _ _ ADropFullSaved => false
  | EFeederLoad _ false => false
  | _ => true
  end.
Definition order_safe (es : list event) : bool := forallb order_safe_event es.

