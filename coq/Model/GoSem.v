(* GoSem: the small semantics library that the Go -> Gallina translator tools/go2coq targets.
   Hand-written, definitions only (facts are in Proofs/GoSemFacts.v).  Together with the
   translator this file is TRUSTED to reflect the meaning of the supported subset of Go:

   - []byte and string are [list N] (a byte is an [N]; arithmetic on bytes wraps modulo 256),
     int is [Z] (no int64 overflow: out of scope), bool is [bool], error is [goerror];
   - every operation of Go that can panic is a function into [gres], which yields
     [GPanic kind] exactly where Go panics (index out of range, slice bounds out of range,
     integer division by zero, explicit panic);
   - loops run through [go_loop] with explicit fuel; running out of fuel is the distinct
     result [GOutOfFuel], never a value;
   - capacity of slices is not represented: s[a:b] demands b <= len(s) (exact for strings;
     for a []byte whose capacity exceeds its length Go would allow len(s) < b <= cap(s)). *)
From SV Require Import Model.Common.
Open Scope Z_scope.

Inductive gres (A : Type) : Type :=
| GOk (a : A)
| GPanic (kind : N)
| GOutOfFuel.
Arguments GOk {A} a.
Arguments GPanic {A} kind.
Arguments GOutOfFuel {A}.

(* panic kinds *)
Definition PIndex : N := 1%N.    (* index out of range *)
Definition PSlice : N := 2%N.    (* slice bounds out of range *)
Definition PDivide : N := 3%N.   (* integer divide by zero *)
Definition PExplicit : N := 4%N. (* panic(...) *)

Definition gbind {A B} (o : gres A) (f : A -> gres B) : gres B :=
  match o with
  | GOk a => f a
  | GPanic k => GPanic k
  | GOutOfFuel => GOutOfFuel
  end.
Notation "x <~ e ;; f" := (gbind e (fun x => f))
  (at level 61, e at next level, right associativity).

(* the error type: only nil / non-nil is represented *)
Inductive goerror : Type := ErrNil | ErrSome.
Definition goerror_is_nil (e : goerror) : bool := match e with ErrNil => true | ErrSome => false end.

(* ---------- injections into the conventions of Model/Common.v ---------- *)

(* a generated result as an [outcome]: the panic kind becomes the site, out of fuel is [Err 1] *)
Definition to_outcome {A} (r : gres A) : outcome A :=
  match r with
  | GOk a => Ok a
  | GPanic k => Panic k
  | GOutOfFuel => Err 1%N
  end.

(* forget WHERE a hand-written model panicked (the generated function only says which kind) *)
Definition same_result {A} (o : outcome A) (r : gres A) : Prop :=
  match o, r with
  | Ok a, GOk b => a = b
  | Panic _, GPanic _ => True
  | _, _ => False
  end.

(* ---------- slices and strings ---------- *)

Definition go_len {A} (s : list A) : Z := Z.of_nat (length s).

(* s[i] *)
Definition go_index {A} (s : list A) (i : Z) : gres A :=
  if i <? 0 then GPanic PIndex
  else match nth_error s (Z.to_nat i) with
       | Some c => GOk c
       | None => GPanic PIndex
       end.

(* s[a:b]; panics unless 0 <= a <= b <= len(s) *)
Definition go_slice {A} (s : list A) (a b : Z) : gres (list A) :=
  if ((0 <=? a) && (a <=? b) && (b <=? go_len s))%bool
  then GOk (firstn (Z.to_nat (b - a)) (skipn (Z.to_nat a) s))
  else GPanic PSlice.

(* s[a:] and s[:b] *)
Definition go_slice_from {A} (s : list A) (a : Z) : gres (list A) := go_slice s a (go_len s).
Definition go_slice_to {A} (s : list A) (b : Z) : gres (list A) := go_slice s 0 b.

(* s[i] = x as a functional update *)
Fixpoint list_update {A} (s : list A) (i : nat) (x : A) : list A :=
  match s, i with
  | [], _ => []
  | _ :: s', O => x :: s'
  | c :: s', S i' => c :: list_update s' i' x
  end.

Definition go_update {A} (s : list A) (i : Z) (x : A) : gres (list A) :=
  if ((0 <=? i) && (i <? go_len s))%bool then GOk (list_update s (Z.to_nat i) x) else GPanic PIndex.

(* strings.IndexByte / bytes.IndexByte: index of the first c, -1 if absent *)
Fixpoint go_index_byte_from (s : list N) (c : N) (i : Z) : Z :=
  match s with
  | [] => -1
  | x :: s' => if (x =? c)%N then i else go_index_byte_from s' c (i + 1)
  end.
Definition go_index_byte (s : list N) (c : N) : Z := go_index_byte_from s c 0.

(* a == b on strings *)
Definition go_str_eqb (a b : list N) : bool := bytes_eqb a b.

(* append(a, b...) *)
Definition go_append {A} (a b : list A) : list A := a ++ b.

(* ---------- byte (uint8) arithmetic: wraps modulo 256 ---------- *)

Definition byte_add (a b : N) : N := ((a + b) mod 256)%N.
Definition byte_sub (a b : N) : N := ((a + 256 - b) mod 256)%N.
Definition byte_mul (a b : N) : N := ((a * b) mod 256)%N.
Definition byte_neg (a : N) : N := ((256 - a) mod 256)%N.
(* byte(x) for an int x; int(b) for a byte b *)
Definition byte_of_int (x : Z) : N := Z.to_N (x mod 256).
Definition int_of_byte (b : N) : Z := Z.of_N b.

(* ---------- int arithmetic (unbounded; Go's / and % truncate towards zero) ---------- *)

Definition go_div (a b : Z) : gres Z := if b =? 0 then GPanic PDivide else GOk (Z.quot a b).
Definition go_rem (a b : Z) : gres Z := if b =? 0 then GPanic PDivide else GOk (Z.rem a b).

(* ---------- loops ---------- *)

(* what one execution of a loop body says: go on with the next iteration (also [continue]),
   [break], or [return r] from the enclosing function *)
Inductive ctl (S R : Type) : Type :=
| CNext (s : S)
| CBrk (s : S)
| CRet (r : R).
Arguments CNext {S R} s.
Arguments CBrk {S R} s.
Arguments CRet {S R} r.

(* for ; cond(s); s = post(s) { body }   -- the state [s] is the tuple of the locals assigned in
   the loop.  Result: [inl s] = the loop ended (condition false, or break) in state s,
   [inr r] = the body returned r. *)
Fixpoint go_loop {S R : Type} (fuel : nat) (cond : S -> gres bool) (body : S -> gres (ctl S R))
         (post : S -> gres S) (s : S) : gres (S + R) :=
  match fuel with
  | O => GOutOfFuel
  | Datatypes.S fuel' =>
    c <~ cond s ;;
    if c then
      r <~ body s ;;
      match r with
      | CNext s1 => s2 <~ post s1 ;; go_loop fuel' cond body post s2
      | CBrk s1 => GOk (inl s1)
      | CRet v => GOk (inr v)
      end
    else GOk (inl s)
  end.

Definition is_out_of_fuel {A} (r : gres A) : bool :=
  match r with GOutOfFuel => true | _ => false end.

(* a generated result of a Go function returning (value, error), as an [outcome]: [f] maps the pair to
   Ok / Err; panics keep their kind, out of fuel is [Err 1] *)
Definition to_outcome_with {A B} (f : A -> outcome B) (r : gres A) : outcome B :=
  match r with
  | GOk a => f a
  | GPanic k => Panic k
  | GOutOfFuel => Err 1%N
  end.

(* n := copy(x[a:], src): min(len(x)-a, len(src)) elements of src overwrite x from position a.
   Result: the updated x and n.  (x[a:] panics unless 0 <= a <= len(x).) *)
Definition go_copy {A} (x : list A) (a : Z) (src : list A) : gres (list A * Z) :=
  if ((0 <=? a) && (a <=? go_len x))%bool then
    let n := Z.min (go_len x - a) (go_len src) in
    GOk (firstn (Z.to_nat a) x ++ firstn (Z.to_nat n) src ++ skipn (Z.to_nat (a + n)) x, n)
  else GPanic PSlice.

(* a call that the hand-written model of an external function does not cover *)
Definition PUnmodelled : N := 100%N.

(* ---------- uint16 / uint32 / uint64: N with wrap-around modulo 2^w ---------- *)
Definition uint_wrap (w : N) (x : N) : N := (x mod 2 ^ w)%N.
(* uintW(x) for an int (or int32) x: two's complement truncation *)
Definition uint_of_int (w : N) (x : Z) : N := Z.to_N (x mod 2 ^ Z.of_N w).
