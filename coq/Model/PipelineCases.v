(* C07: decoding of the correspondence cases into a [Pipeline.config] and the canonical output.
   Case format: see harness/c07.go.  No proofs in this file. *)
From SV Require Import Model.Common.
From SV Require Model.Utf8 Model.Parser Model.Template Model.Transforms Model.Routing Model.Serializer Model.Packer
               Model.Framing.
From SV Require Import Model.Pipeline.
From SV Require Model.PipelinePool.


(* ---------- programs: C15's byte encoding, extended by tags 14 (parseTime) and 15 (redactEmail) ---------- *)

Inductive xcfg :=
| XCBase (c : Transforms.cfg)
| XCIf (m : Transforms.matcher_cfg) (th : list xcfg)
| XCSwitch (cs : list (Transforms.matcher_cfg * list xcfg))
| XCBlock (b : list xcfg)
| XCParseTime (k l : bytes)
| XCRedact (k l : bytes).

Fixpoint px_node (fuel : nat) (s : bytes) : option (xcfg * bytes) :=
  match fuel with
  | O => None
  | S f =>
    match s with
    | [] => None
    | tag :: s1 =>
      if (tag =? 4)%N then
        Transforms.pmap (fun x => XCIf (fst x) (snd x)) (Transforms.p_pair Transforms.p_matcher (Transforms.p_listc (px_node f)) s1)
      else if (tag =? 5)%N then
        Transforms.pmap XCSwitch (Transforms.p_listc (Transforms.p_pair Transforms.p_matcher (Transforms.p_listc (px_node f))) s1)
      else if (tag =? 6)%N then Transforms.pmap XCBlock (Transforms.p_listc (px_node f) s1)
      else if (tag =? 14)%N then Transforms.pmap (fun x => XCParseTime (fst x) (snd x)) (Transforms.p_pair Transforms.p_str Transforms.p_str s1)
      else if (tag =? 15)%N then Transforms.pmap (fun x => XCRedact (fst x) (snd x)) (Transforms.p_pair Transforms.p_str Transforms.p_str s1)
      else Transforms.pmap XCBase (Transforms.p_node 1 s)       (* a leaf of C15 (tags 1-3, 7-13) *)
    end
  end.

Definition parse_xprogram (s : bytes) : option (list xcfg) :=
  match Transforms.p_listc (px_node (S (length s))) s with
  | Some (l, []) => Some l
  | _ => None
  end.

Section Load.
Variable O : Transforms.oracles.
Variable schema : list bytes.

Definition ok_unit (o : outcome unit) : bool := match o with Ok _ => true | _ => false end.
Definition oopt {A} (o : outcome A) : option A := match o with Ok a => Some a | _ => None end.

Definition load_matcher (m : Transforms.matcher_cfg) : option Transforms.matcher :=
  match m with
  | [] => None
  | _ => if Transforms.matcher_unmarshals O m && Transforms.verify_matcher schema m then oopt (Transforms.new_matcher O schema m) else None
  end.

Definition key_loc (k : bytes) : option nat :=
  match k with [] => None | _ => Template.find_index schema k end.

(* VerifyConfig + NewTransform of every node; None = the configuration is rejected (or would not construct) *)
Fixpoint xload (c : xcfg) {struct c} : option xtf :=
  let xload_list := fix ll (l : list xcfg) : option xtfs :=
    match l with
    | [] => Some XNil
    | x :: l' => match xload x, ll l' with Some t, Some ts => Some (XCons t ts) | _, _ => None end
    end in
  match c with
  | XCBase b =>
    if Transforms.unmarshals O b && ok_unit (Transforms.verify O schema b) then option_map XBase (oopt (Transforms.new_tf O schema b)) else None
  | XCIf m th =>
    match th with
    | [] => None
    | _ => match load_matcher m, xload_list th with Some mm, Some ts => Some (XIf mm ts) | _, _ => None end
    end
  | XCSwitch cs =>
    match cs with
    | [] => None
    | _ =>
      option_map XSwitch
        ((fix lc (l : list (Transforms.matcher_cfg * list xcfg)) : option xcases :=
            match l with
            | [] => Some XKNil
            | (m, th) :: l' =>
              match th with
              | [] => None
              | _ => match load_matcher m, xload_list th, lc l' with
                     | Some mm, Some ts, Some ks => Some (XKCons mm ts ks)
                     | _, _, _ => None
                     end
              end
            end) cs)
    end
  | XCBlock b => match b with [] => None | _ => option_map XBlock (xload_list b) end
  | XCParseTime k l => match key_loc k, l with Some loc, _ :: _ => Some (XParseTime loc l) | _, _ => None end
  | XCRedact k l => match key_loc k, l with Some loc, _ :: _ => Some (XRedact loc l) | _, _ => None end
  end.

Fixpoint xload_all (l : list xcfg) : option xtfs :=
  match l with
  | [] => Some XNil
  | x :: l' => match xload x, xload_all l' with Some t, Some ts => Some (XCons t ts) | _, _ => None end
  end.

End Load.

(* ---------- serialization section of an output ---------- *)

Definition p_step (s : bytes) : option (Serializer.rewriter_cfg * bytes) :=
  match s with
  | 0%N :: r => Some (Serializer.RcCopy, r)
  | 1%N :: r => Some (Serializer.RcUnescape, r)
  | 2%N :: r => Transforms.pmap Serializer.RcInline (Transforms.p_str r)
  | _ => None
  end.

Definition p_ser (s : bytes) : option Serializer.ser_config :=
  match Transforms.p_pair (Transforms.p_listc Transforms.p_str) (Transforms.p_pair (Transforms.p_listc Transforms.p_str) (Transforms.p_listc (Transforms.p_pair Transforms.p_str (Transforms.p_listc p_step)))) s with
  | Some ((env, (hidden, rw)), []) => Some {| Serializer.c_env := env; Serializer.c_hidden := hidden; Serializer.c_rewrite := rw |}
  | _ => None
  end.

Definition split_names (s : bytes) : list bytes := match s with [] => [] | _ => split_on 44 s end.

Fixpoint locate_names (schema : list bytes) (names : list bytes) : option (list nat) :=
  match names with
  | [] => Some []
  | n :: r => match Template.find_index schema n, locate_names schema r with Some i, Some l => Some (i :: l) | _, _ => None end
  end.

Definition b_facility : bytes := [102;97;99;105;108;105;116;121]%N.
Definition b_level : bytes := [108;101;118;101;108]%N.
Definition b_time : bytes := [116;105;109;101]%N.
Definition b_host : bytes := [104;111;115;116]%N.
Definition b_app : bytes := [97;112;112]%N.
Definition b_pid : bytes := [112;105;100]%N.
Definition b_source : bytes := [115;111;117;114;99;101]%N.
Definition b_extradata : bytes := [101;120;116;114;97;100;97;116;97]%N.
Definition b_log : bytes := [108;111;103]%N.

Definition syslog_locs (schema : list bytes) : option field_locs :=
  match locate_names schema [b_facility; b_level; b_time; b_host; b_app; b_pid; b_source; b_extradata; b_log] with
  | Some [a; b; c; d; e; f; g; h; i] =>
    Some {| l_facility := a; l_level := b; l_time := c; l_host := d; l_app := e; l_pid := f;
            l_source := g; l_extradata := h; l_log := i |}
  | _ => None
  end.

Fixpoint take_outs (n : nat) (ss : list bytes) (zs : list Z) : option (list out_cfg) :=
  match n with
  | O => Some []
  | S n' =>
    match ss, zs with
    | s :: ss', mode :: maxr :: maxb :: zs' =>
      match p_ser s, take_outs n' ss' zs' with
      | Some sc, Some r =>
        if (mode =? 3)%Z   (* a datadog output: only its hidden fields are read; the chunk limits are constants *)
        then Some ({| oc_kind := ODatadog (Serializer.c_hidden sc); oc_pack := Packer.datadog_config 1000 5242880 |} :: r)
        else Some ({| oc_kind := OFluentd sc; oc_pack := Packer.fluentd_config mode maxr maxb [] |} :: r)
      | _, _ => None
      end
    | _, _ => None
    end
  end.

(* The datadog stream is json.Marshal of a map[string]string, which the model does not have.  The correspondence
   compares the MAP instead: the Go side decodes the JSON it got, both sides render the entries sorted by key as
   key 0x00 value 0x01 ... - when every value is valid UTF-8 (json.Marshal replaces invalid bytes); otherwise "skip". *)
Definition dd_canon (m : list (bytes * bytes)) : bytes :=
  if forallb (fun kv => Utf8.valid (snd kv)) m
  then concat (map (fun kv => fst kv ++ 0%N :: snd kv ++ [1%N]) (Transforms.sort_pairs m))
  else [115;107;105;112]%N.

(* the configuration part of a case: sargs 0..6 and one per output, zargs 0..6 and three per output *)
Definition decode_config (O : Transforms.oracles) (c : case) : option (config * list bytes * list Z) :=
  let ss := c_sargs c in
  let zs := c_zargs c in
  let schema := split_names (sarg c 2) in
  let onames := split_names (sarg c 3) in
  let mnames := split_names (sarg c 5) in
  let mapping := split_names (sarg c 6) in
  let nout := Z.to_nat (zarg c 4) in
  let nfields := Z.to_nat (zarg c 0) in
  match parse_xprogram (sarg c 0), parse_xprogram (sarg c 1) with
  | Some xe, Some xt =>
    match xload_all O schema xe, xload_all O schema xt, syslog_locs schema,
          locate_names schema onames, locate_names schema mnames,
          Routing.parse_template onames (sarg c 4), take_outs nout (skipn 7 ss) (skipn 7 zs),
          Parser.new_parser (Z.to_N (zarg c 1)) (Z.to_N (zarg c 2)) mapping with
    | Some ex, Some tr, Some locs, Some okeys, Some mkeys, Some tag, Some outs, Ok pcfg =>
      if (length schema <=? nfields)%nat && negb (Serializer.is_nil onames) &&
         forallb (fun o => match oc_kind o with OFluentd sc => Serializer.verify_config schema sc | ODatadog _ => true end) outs && negb (Serializer.is_nil outs) && negb (Serializer.is_nil mapping)
      then
        Some ({| c_parser := pcfg; c_nfields := nfields; c_schema := schema; c_locs := locs;
                 c_extract := ex; c_okeys := okeys; c_tag := tag; c_mkeys := mkeys; c_transforms := tr;
                 c_outputs := outs; c_buflen := 2 * Z.to_nat (zarg c 2); c_linebuf := Z.to_nat (zarg c 3);
                 c_local_off := 0; c_json := dd_canon; c_fix_labels := true; c_fix_ser := true |},
              skipn (7 + nout) ss, skipn (7 + 3 * nout) zs)
      else None
    | _, _, _, _, _, _, _, _ => None
    end
  | _, _ => None
  end.

(* the record table: (head, unit, tail) and a repeat count each; then the sequence of table indices *)
Fixpoint take_table (n : nat) (ss : list bytes) (zs : list Z) : list bytes :=
  match n with
  | O => []
  | S n' =>
    (nth 0 ss [] ++ Parser.repeat_app (nth 1 ss []) (Z.to_nat (hd 0%Z zs)) (nth 2 ss [])) :: take_table n' (skipn 3 ss) (tl zs)
  end.

(* ---------- canonical output ---------- *)

Definition dec_nat (n : nat) : bytes := dec_of_Z (Z.of_nat n).
Definition dec_N (n : N) : bytes := dec_of_Z (Z.of_N n).

Definition show_chunk (o : option (Packer.echunk bytes)) : bytes :=
  match o with
  | None => []
  | Some e => [43; 99]%N ++ dec_of_Z (Packer.e_size e)         (* "+c<records>" *)
  end.

Fixpoint show_outs (streams : list bytes) (chunks : list (option (Packer.echunk bytes))) : list bytes :=
  match streams with
  | [] => []
  | s :: ss => (Parser.digest s ++ show_chunk (hd None chunks)) :: show_outs ss (tl chunks)
  end.

Definition show_result (r : rec_result) : bytes :=
  match r with
  | RDropParse => [68]%N                                   (* D *)
  | RDropExtract => [69]%N                                 (* E *)
  | RDropTransform i => 84%N :: dec_nat i                    (* T<pipe> *)
  | RPassed i streams chunks => 80%N :: dec_nat i ++ 58%N :: join 47%N (show_outs streams chunks)
  end.

(* FlushBuffer of every chunk maker when the pipeline stops: number of records of the last chunk, 0 = none *)
Definition show_flush (cfg : config) (pi : pinst) : bytes :=
  join 44%N (map (fun op => match snd (Packer.flush_buffer bytes (with_tag (oc_pack (fst op)) (pi_tag pi)) (snd op)) with
                            | Some e => dec_of_Z (Packer.e_size e)
                            | None => [48]%N
                            end)
                 (combine (c_outputs cfg) (pi_packs pi))).

Definition show_pipe (cfg : config) (pi : pinst) : bytes :=
  hex (join 44%N (pi_keys pi)) ++ 58%N :: hex (pi_tag pi) ++ 58%N :: show_flush cfg pi.

Definition merge_counters (a b : Transforms.counters) : Transforms.counters :=
  fold_left (fun acc e => Transforms.cnt_add acc (fst e) (fst (snd e)) (snd (snd e))) b a.

Definition show_counter (e : bytes * (Z * Z)) : bytes :=
  hex (fst e) ++ 61%N :: dec_of_Z (fst (snd e)) ++ 47%N :: dec_of_Z (snd (snd e)).

Definition show_state (cfg : config) (g : gstate) (c : cstate) : bytes :=
  let i := cs_input c in
  join 59%N (map (show_pipe cfg) (g_pipes g)) ++ 35%N ::
  join 44%N (map dec_N [Parser.passed_n i; Parser.passed_bytes i; Parser.dropped_n i; Parser.dropped_bytes i;
                        Parser.overflow_n i; Parser.overflow_bytes i]) ++ 35%N ::
  join 44%N (map show_counter (cs_ecnt c)) ++ 35%N ::
  join 44%N (map dec_N [fold_left N.add (map pi_passed (g_pipes g)) 0%N; fold_left N.add (map pi_dropped (g_pipes g)) 0%N]) ++ 35%N ::
  join 44%N (map show_counter (fold_left merge_counters (map pi_custom (g_pipes g)) [])) ++ 35%N ::
  (if metrics_ok g then [103; 49]%N else [103; 48]%N).

Definition s_cfgerr : bytes := [99;102;103;101;114;114]%N.
Definition s_child_ok : bytes := [99;104;105;108;100;58;111;107]%N.          (* "child:ok" *)
Definition s_sample : bytes := [115;97;109;112;108;101]%N.                   (* "sample" *)

Definition show_run (cfg : config) (r : outcome (gstate * cstate * list rec_result)) : bytes :=
  match r with
  | Ok (g, c, rs) => str_ok ++ 58%N :: join 59%N (map show_result rs) ++ 35%N :: show_state cfg g c
  | Err _ => [119;101;100;103;101]%N                                         (* "wedge" *)
  | Panic _ => str_panic
  end.

(* kind 2: records through the pipeline of testdata/config_sample.yml (the real file): the model only answers
   what the PARSER does with each record (D = dropped, A = accepted), under the file's level mapping *)
Definition sample_mapping : list bytes :=
  [[111;102;102]; [102;97;116;97;108]; [99;114;105;116]; [101;114;114;111;114]; [119;97;114;110];
   [110;111;116;105;99;101]; [105;110;102;111]; [100;101;98;117;103]]%N.

Definition run_sample (c : case) : bytes :=
  match Parser.new_parser (Z.to_N (zarg c 0)) (Z.to_N (zarg c 1)) sample_mapping with
  | Ok pcfg =>
    let zs := skipn 2 (c_zargs c) in
    let ntab := Z.to_nat (hd 0%Z zs) in
    let table := take_table ntab (c_sargs c) (tl zs) in
    let seq := map (fun i => nth (Z.to_nat i) table []) (skipn (1 + ntab) zs) in
    s_sample ++ 58%N ::
    map (fun x => match fst (Parser.parse pcfg Parser.counters_zero x) with
                  | Ok None => 68%N | Ok (Some _) => 65%N | _ => 88%N end) seq
  | _ => s_cfgerr
  end.

(* kind 0: a sequence of records through one long-lived in-process pipeline
   kind 1: a byte stream (events as in C08) through the real multiLineReader into the same pipeline
   kind 2: the real sample configuration (see above)        kind 3: the child-process agent over TCP
   kind 4 / 5: kinds 0 / 1 run on one P so that the pooled LogRecord is handed back (Model/PipelinePool.v) *)
Definition run_case_C07 (c : case) : bytes :=
  match c_kind c with
  | 2%N => run_sample c
  | 3%N => s_child_ok
  | k =>
    match decode_config Transforms.tiny_oracles c with
    | None => s_cfgerr
    | Some (cfg, ss, zs) =>
      let now := (zarg c 5, zarg c 6) in
      if ((k =? 1) || (k =? 5))%N then
        show_run cfg (conn_run Transforms.tiny_oracles cfg g_init now 0%Z (Framing.decode_events zs ss))
      else
        let ntab := Z.to_nat (hd 0%Z zs) in
        let table := take_table ntab ss (tl zs) in
        let seq := map (fun i => nth (Z.to_nat i) table []) (skipn (1 + ntab) zs) in
        if (k =? 4)%N then
          (* every record written into the object the previous one released (empty schedule = [sched_default]) *)
          show_run cfg (PipelinePool.drop_pool
                          (PipelinePool.process_records_pooled Transforms.tiny_oracles PipelinePool.FlagAssign cfg g_init
                             (new_conn cfg) [] now 0%Z [] seq))
        else
        show_run cfg (process_records Transforms.tiny_oracles cfg g_init (new_conn cfg) now 0%Z seq)
    end
  end.
