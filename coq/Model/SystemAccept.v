(* SystemAccept.v — executable trace acceptor for Model/System.v.

   The end-to-end harness observes a coarse trace of the real agent (records sent, chunks received by the fake
   upstream with their stamps, ACKs, stops, queue-directory listings, dropped-chunk counters, restarts) and
   canonicalises it per generation and per pipeline.  [synth] (untrusted search) completes it with the hidden
   events (framing, batching, worker steps, chunk formation, feeder moves, client confirmations, the shutdown
   sequence); [accept] then CHECKS the result: the event list must be a run of the LTS ([steps]) and its
   projection ([proj_run]) must be the observed trace.  No proofs in this file. *)
From Coq Require Import List NArith ZArith Bool Arith PeanoNat.
From SV Require Import Model.Common Model.System.
Import ListNotations.
Open Scope nat_scope.

(* ---------- observations and projection ---------- *)

Inductive obs :=
| OIngest (t : tok)
| OConnect (p : nat)
| ORecv (p id : nat) (toks : list tok)
| OAck (p id : nat)
| OStopped
| ODisk (l : list (nat * nat * list tok))
| ODrops (n : nat)
| ORestart.

Definition file_entry (c : chunk) : nat * nat * list tok := (c_pipe c, c_id c, c_toks c).

Definition proj_step (s : state) (e : event) : list obs :=
  match e with
  | EIngest t => [OIngest t]
  | EConnect p => [OConnect p]
  | ESendLeft p =>
    match take_first (item_on p) (leftovers s) with
    | Some (q, _) => [ORecv p (q_id q) (c_toks (q_chunk q))]
    | None => []
    end
  | ESendNew p =>
    match take_first (item_on p) (window s) with
    | Some (q, _) => [ORecv p (q_id q) (c_toks (q_chunk q))]
    | None => []
    end
  | ESrvAck p id => [OAck p id]
  | EStopped => [OStopped]
  | EObsDisk _ => [ODisk (map file_entry (files s))]
  | EObsDrops n => [ODrops n]
  | ERestart => [ORestart]
  | _ => []
  end.

Fixpoint proj_run (s : state) (es : list event) : list obs :=
  match es with
  | [] => []
  | e :: r => proj_step s e ++ match step s e with Some s' => proj_run s' r | None => [] end
  end.

Definition entry_eqb (a b : nat * nat * list tok) : bool :=
  Nat.eqb (fst (fst a)) (fst (fst b)) && Nat.eqb (snd (fst a)) (snd (fst b)) && toks_eqb (snd a) (snd b).
Definition entries_sub (a b : list (nat * nat * list tok)) : bool := forallb (fun x => existsb (entry_eqb x) b) a.

Definition obs_eqb (a b : obs) : bool :=
  match a, b with
  | OIngest t, OIngest u => tok_eqb t u
  | OConnect p, OConnect q => Nat.eqb p q
  | ORecv p i ts, ORecv q j us => Nat.eqb p q && Nat.eqb i j && toks_eqb ts us
  | OAck p i, OAck q j => Nat.eqb p q && Nat.eqb i j
  | OStopped, OStopped => true
  | ODisk l, ODisk m => Nat.eqb (length l) (length m) && entries_sub l m && entries_sub m l
  | ODrops n, ODrops m => Nat.eqb n m
  | ORestart, ORestart => true
  | _, _ => false
  end.

Fixpoint obs_list_eqb (a b : list obs) : bool :=
  match a, b with
  | [], [] => true
  | x :: a', y :: b' => obs_eqb x y && obs_list_eqb a' b'
  | _, _ => false
  end.

(* ---------- the canonical trace handed over by the harness ---------- *)

Definition stamp := (nat * nat)%type.
Definition stamp_eqb (a b : stamp) : bool := Nat.eqb (fst a) (fst b) && Nat.eqb (snd a) (snd b).
Definition st_of (t : tok) : stamp := (t_conn t, t_seq t).

Record hchunk := mkH { h_id : nat; h_toks : list stamp }.

Record pblock := mkP {
  pb_pipe : nat;
  pb_created : list hchunk;                    (* hint: observed chunks created in this generation, ascending id *)
  pb_sessions : list (list (nat * nat))        (* per upstream connection: (1 = received | 2 = acked, chunk id) *)
}.

Record gblock := mkG {
  gb_end_id : nat;                             (* an id above every chunk id of this generation, below the next one's *)
  gb_conns : list nat;
  gb_ingest : list tok;
  gb_pipes : list pblock;
  gb_stop : option (list (nat * nat) * nat)    (* stopped: queue files (pipeline, id), dropped-chunk counter total *)
}.

Definition trace := list gblock.

(* ---------- expected observations of a trace ---------- *)

Definition find_tok (all : list tok) (x : stamp) : option tok := find (fun t => stamp_eqb (st_of t) x) all.

Fixpoint resolve (all : list tok) (xs : list stamp) : option (list tok) :=
  match xs with
  | [] => Some []
  | x :: r => match find_tok all x, resolve all r with
              | Some t, Some ts => Some (t :: ts)
              | _, _ => None
              end
  end.

(* chunk table: (pipeline, id) -> stamps, over the whole trace *)
Definition chunk_table (tr : trace) : list (nat * nat * list stamp) :=
  flat_map (fun g => flat_map (fun pb => map (fun h => (pb_pipe pb, h_id h, h_toks h)) (pb_created pb)) (gb_pipes g)) tr.

Definition lookup_chunk (tab : list (nat * nat * list stamp)) (p id : nat) : option (list stamp) :=
  match find (fun e => Nat.eqb (fst (fst e)) p && Nat.eqb (snd (fst e)) id) tab with
  | Some e => Some (snd e)
  | None => None
  end.

Definition all_ingested (tr : trace) : list tok := flat_map gb_ingest tr.

Fixpoint opt_concat {A} (l : list (option (list A))) : option (list A) :=
  match l with
  | [] => Some []
  | Some x :: r => match opt_concat r with Some y => Some (x ++ y) | None => None end
  | None :: _ => None
  end.

Definition chunk_toks (all : list tok) (tab : list (nat * nat * list stamp)) (p id : nat) : option (list tok) :=
  match lookup_chunk tab p id with
  | Some xs => resolve all xs
  | None => None
  end.

Definition session_obs (all : list tok) (tab : list (nat * nat * list stamp)) (p : nat) (evs : list (nat * nat)) : option (list obs) :=
  match opt_concat (map (fun ev =>
           if Nat.eqb (fst ev) 1 then
             match chunk_toks all tab p (snd ev) with
             | Some ts => Some [ORecv p (snd ev) ts]
             | None => None
             end
           else Some [OAck p (snd ev)]) evs) with
  | Some l => Some (OConnect p :: l)
  | None => None
  end.

Definition gen_obs (all : list tok) (tab : list (nat * nat * list stamp)) (g : gblock) : option (list obs) :=
  match opt_concat (flat_map (fun pb => map (session_obs all tab (pb_pipe pb)) (pb_sessions pb)) (gb_pipes g)) with
  | None => None
  | Some so =>
    match gb_stop g with
    | None => Some (map OIngest (gb_ingest g) ++ so)
    | Some (disk, drops) =>
      match opt_concat (map (fun e => match chunk_toks all tab (fst e) (snd e) with
                                      | Some ts => Some [(fst e, snd e, ts)]
                                      | None => None
                                      end) disk) with
      | Some dl => Some (map OIngest (gb_ingest g) ++ so ++ [OStopped; ODisk dl; ODrops drops])
      | None => None
      end
    end
  end.

Fixpoint intersperse_restart (l : list (list obs)) : list obs :=
  match l with
  | [] => []
  | [x] => x
  | x :: r => x ++ ORestart :: intersperse_restart r
  end.

Definition trace_obs (tr : trace) : option (list obs) :=
  let all := all_ingested tr in
  let tab := chunk_table tr in
  match all_some (map (gen_obs all tab) tr) with
  | Some l => Some (intersperse_restart l)
  | None => None
  end.

(* ---------- synthesis of the hidden events (untrusted; its result is checked by [accept]) ---------- *)

Definition run := (state * list event)%type.   (* events newest first *)

Definition emit (e : event) (m : run) : option run :=
  match step (fst m) e with
  | Some s' => Some (s', e :: snd m)
  | None => None
  end.

Fixpoint emits (es : list event) (m : run) : option run :=
  match es with
  | [] => Some m
  | e :: r => match emit e m with Some m' => emits r m' | None => None end
  end.

Definition agenda := list (nat * list hchunk).

Definition agenda_of (g : gblock) : agenda := map (fun pb => (pb_pipe pb, pb_created pb)) (gb_pipes g).

Definition ag_get (a : agenda) (p : nat) : list hchunk :=
  match find (fun e => Nat.eqb (fst e) p) a with Some e => snd e | None => [] end.

Definition ag_set (a : agenda) (p : nat) (l : list hchunk) : agenda :=
  map (fun e => if Nat.eqb (fst e) p then (p, l) else e) a.

Definition wanted_anywhere (a : agenda) (p : nat) (x : stamp) : bool :=
  existsb (fun h => existsb (stamp_eqb x) (h_toks h)) (ag_get a p).

Definition ag_done (a : agenda) : bool := forallb (fun e => match snd e with [] => true | _ => false end) a.

(* head token of connection k in the connection buffer *)
Definition conn_head (s : state) (k : nat) : option tok :=
  match take_first (on_conn k) (conn_buf s) with Some (t, _) => Some t | None => None end.

(* a chunk may start only if no unobserved ("gap") record of the same stream precedes its first record of a connection *)
Definition pregap_free (s : state) (a : agenda) (p : nat) (h : hchunk) : bool :=
  forallb (fun x =>
    (* tokens of connection (fst x) still unframed, before stamp x, routed to p, kept, and in no observed chunk *)
    let fix scan (l : list tok) : bool :=
      match l with
      | [] => true
      | u :: r =>
        if Nat.eqb (t_conn u) (fst x) then
          if Nat.eqb (t_seq u) (snd x) then true
          else if Nat.eqb (t_pipe u) p && t_keep u && negb (wanted_anywhere a p (st_of u)) then false
          else scan r
        else scan r
      end in
    scan (conn_buf s)) (h_toks h).

(* move the head record of connection k through framing, sink batch and per-key buffer into its pipeline's channel
   (a batch of one record: the eager flush of an input batch size of 1) *)
Definition to_chan (k p : nat) (m : run) : option run :=
  emits [EFrame k; ESinkSend k; EKeyFlush k p] m.

Definition mem (p : nat) (l : list nat) := existsb (Nat.eqb p) l.

(* sy_ag: per pipeline, the observed chunks whose records are not all flushed yet (the head chunk holds its remaining
   records); sy_gap: pipelines whose head chunk is partially flushed *)
Record syn := mkSyn { sy_run : run; sy_ag : agenda; sy_gap : list nat }.

(* phase A: decide the order in which the records enter the pipeline channels.  The head record of connection k
   may be flushed when it is the next record of its pipeline's worker order (the concatenation of the observed
   chunks), when it is filtered, or - only if nothing else can move ([lazy_gap]) and its pipeline is at a chunk
   boundary - when it is in no observed chunk at all. *)
Definition try_conn (lazy_gap : bool) (y : syn) (k : nat) : option syn :=
  let s := fst (sy_run y) in
  match conn_head s k with
  | None => None
  | Some u =>
    let p := t_pipe u in
    if negb (t_keep u) then
      if lazy_gap then None else
      match to_chan k p (sy_run y) with
      | Some m => Some (mkSyn m (sy_ag y) (sy_gap y))
      | None => None
      end
    else
      match ag_get (sy_ag y) p with
      | h :: rest =>
        match h_toks h with
        | x :: xs =>
          if stamp_eqb x (st_of u) then
            if lazy_gap then None else
            if negb (mem p (sy_gap y)) && negb (pregap_free s (sy_ag y) p h) then None else
            match to_chan k p (sy_run y) with
            | Some m =>
              match xs with
              | [] => Some (mkSyn m (ag_set (sy_ag y) p rest) (remove_nat p (sy_gap y)))
              | _ => Some (mkSyn m (ag_set (sy_ag y) p (mkH (h_id h) xs :: rest)) (if mem p (sy_gap y) then sy_gap y else p :: sy_gap y))
              end
            | None => None
            end
          else if lazy_gap && negb (wanted_anywhere (sy_ag y) p (st_of u)) && negb (mem p (sy_gap y)) then
            match to_chan k p (sy_run y) with
            | Some m => Some (mkSyn m (sy_ag y) (sy_gap y))
            | None => None
            end
          else None
        | [] => None
        end
      | [] =>
        if lazy_gap then
          match to_chan k p (sy_run y) with
          | Some m => Some (mkSyn m (sy_ag y) (sy_gap y))
          | None => None
          end
        else None
      end
  end.

Fixpoint first_some {A B} (f : A -> option B) (l : list A) : option B :=
  match l with
  | [] => None
  | x :: r => match f x with Some y => Some y | None => first_some f r end
  end.

Fixpoint feed (fuel : nat) (y : syn) : syn :=
  match fuel with
  | O => y
  | S f =>
    let conns := open_conns (fst (sy_run y)) in
    match first_some (try_conn false y) conns with
    | Some y' => feed f y'
    | None =>
      match first_some (try_conn true y) conns with
      | Some y' => feed f y'
      | None => y
      end
    end
  end.

(* phase B: the workers.  Bring record x of pipeline p into the current chunk; records in front of it in the
   channel are filtered ones, or records of no observed chunk, which are closed as a dropped chunk (id gapid)
   before the first record of the observed chunk is appended *)
Fixpoint advance (fuel : nat) (p : nat) (x : stamp) (first : bool) (gapid : nat) (m : run) : option run :=
  match fuel with
  | O => None
  | S f =>
    let s := fst m in
    match take_first (on_pipe p) (hand s) with
    | None => match emit (EWorkerTake p) m with Some m' => advance f p x first gapid m' | None => None end
    | Some (u, _) =>
      if negb (t_keep u) then match emit (EWorkerStep p) m with Some m' => advance f p x first gapid m' | None => None end
      else if stamp_eqb (st_of u) x then
        let m1 := if first && negb (none_of (on_pipe p) (cur s)) then emit (EChunkClose p gapid ADropQuota) m else Some m in
        match m1 with Some m1' => emit (EWorkerStep p) m1' | None => None end
      else if first then match emit (EWorkerStep p) m with Some m' => advance f p x first gapid m' | None => None end
      else None
    end
  end.

Fixpoint build_chunk (fuel : nat) (p : nat) (id : nat) (xs : list stamp) (first : bool) (m : run) : option run :=
  match xs with
  | [] => emit (EChunkClose p id AMem) m
  | x :: r => match advance fuel p x first (id - 1) m with
              | Some m' => build_chunk fuel p id r false m'
              | None => None
              end
  end.

(* the observed chunks of a generation, all pipelines, by ascending id (ids are ordered by wall-clock time) *)
Fixpoint insert_by_id (x : nat * hchunk) (l : list (nat * hchunk)) : list (nat * hchunk) :=
  match l with
  | [] => [x]
  | y :: r => if Nat.leb (h_id (snd x)) (h_id (snd y)) then x :: l else y :: insert_by_id x r
  end.

Definition chunks_by_id (g : gblock) : list (nat * hchunk) :=
  fold_right insert_by_id [] (flat_map (fun pb => map (fun h => (pb_pipe pb, h)) (pb_created pb)) (gb_pipes g)).

(* does chunk id of pipeline p occur in the rest of the trace (later sessions, this or later disk listings)? *)
Definition occurs_in_sessions (p id : nat) (ss : list (list (nat * nat))) : bool :=
  existsb (existsb (fun ev => Nat.eqb (fst ev) 1 && Nat.eqb (snd ev) id)) ss.

Definition occurs_in_gen (p id : nat) (g : gblock) : bool :=
  existsb (fun pb => Nat.eqb (pb_pipe pb) p && occurs_in_sessions p id (pb_sessions pb)) (gb_pipes g)
  || match gb_stop g with
     | Some (disk, _) => existsb (fun e => Nat.eqb (fst e) p && Nat.eqb (snd e) id) disk
     | None => false
     end.

Definition on_disk_now (p id : nat) (g : gblock) : bool :=
  match gb_stop g with
  | Some (disk, _) => existsb (fun e => Nat.eqb (fst e) p && Nat.eqb (snd e) id) disk
  | None => false
  end.

(* bring chunk id of pipeline p to the head of the window (feeder moves) *)
Fixpoint to_window (fuel : nat) (p id : nat) (m : run) : option run :=
  match fuel with
  | O => None
  | S f =>
    let s := fst m in
    match take_first (item_on p) (window s) with
    | Some (q, _) => if Nat.eqb (q_id q) id then Some m else None
    | None =>
      match take_first (item_on p) (fhand s) with
      | Some (q, _) =>
        if q_loaded q then match emit (EFeederPush p) m with Some m' => to_window f p id m' | None => None end
        else match emit (EFeederLoad p true) m with Some m' => to_window f p id m' | None => None end
      | None => match emit (EFeederTake p) m with Some m' => to_window f p id m' | None => None end
      end
    end
  end.

(* events of one upstream session of pipeline p; [later] tells whether a chunk is observed again afterwards *)
Fixpoint session_events (p : nat) (evs : list (nat * nat)) (later : nat -> list (nat * nat) -> bool) (m : run) : option run :=
  match evs with
  | [] => Some m
  | (kind, id) :: r =>
    if Nat.eqb kind 1 then
      let s := fst m in
      let m1 :=
        match take_first (item_on p) (leftovers s) with
        | Some (q, _) => if Nat.eqb (q_id q) id then emit (ESendLeft p) m else None
        | None => match to_window 8 p id m with Some m' => emit (ESendNew p) m' | None => None end
        end in
      match m1 with Some m' => session_events p r later m' | None => None end
    else
      match emit (ESrvAck p id) m with
      | Some m' =>
        if later id r then session_events p r later m'
        else match emit (EAckRead p id) m' with Some m'' => session_events p r later m'' | None => None end
      | None => None
      end
  end.

Fixpoint sessions_events (p : nat) (ss : list (list (nat * nat))) (later_gens : nat -> bool) (g : gblock) (m : run) : option run :=
  match ss with
  | [] => Some m
  | evs :: rest =>
    let later := fun id (r : list (nat * nat)) =>
      existsb (fun ev => Nat.eqb (fst ev) 1 && Nat.eqb (snd ev) id) r
      || occurs_in_sessions p id rest || on_disk_now p id g || later_gens id in
    match emit (EConnect p) m with
    | Some m1 =>
      match session_events p evs later m1 with
      | Some m2 => match emit (ESessionEnd p) m2 with
                   | Some m3 => sessions_events p rest later_gens g m3
                   | None => None
                   end
      | None => None
      end
    | None => None
    end
  end.

(* repeat an event while it is enabled *)
Fixpoint while_enabled (fuel : nat) (e : event) (m : run) : run :=
  match fuel with
  | O => m
  | S f => match emit e m with Some m' => while_enabled f e m' | None => m end
  end.

(* worker of pipeline p: drain channel and hand *)
Fixpoint drain_worker (fuel : nat) (p : nat) (m : run) : run :=
  match fuel with
  | O => m
  | S f =>
    match emit (EWorkerStep p) m with
    | Some m' => drain_worker f p m'
    | None => match emit (EWorkerTake p) m with
              | Some m' => drain_worker f p m'
              | None => m
              end
    end
  end.

(* save the chunks of one stage: written to its file when the file is observed afterwards, else counted dropped *)
Fixpoint save_stage (fuel : nat) (p : nat) (w : where_) (g : gblock) (m : run) : run :=
  match fuel with
  | O => m
  | S f =>
    let s := fst m in
    let src := match w with WQueue => queue s | WHand => fhand s | WWindow => window s end in
    match take_first (item_on p) src with
    | Some (q, _) =>
      match emit (ESave p w (on_disk_now p (q_id q) g)) m with
      | Some m' => save_stage f p w g m'
      | None => m
      end
    | None => m
    end
  end.

Fixpoint handback_all (fuel : nat) (p : nat) (g : gblock) (m : run) : run :=
  match fuel with
  | O => m
  | S f =>
    match take_first (item_on p) (leftovers (fst m)) with
    | Some (q, _) =>
      match emit (EHandback p (on_disk_now p (q_id q) g)) m with
      | Some m' => handback_all f p g m'
      | None => m
      end
    | None => m
    end
  end.

Definition stop_pipe (fuel : nat) (g : gblock) (m : run) (p : nat) : option run :=
  let m1 := drain_worker fuel p m in
  (* a last chunk of unobserved records gets an id above everything created so far (below the next generation's) *)
  match emit (EWorkerStop p (S (Nat.max (gb_end_id g) (lastid (fst m1)))) ADropQuota) m1 with
  | Some m2 =>
    match emits [EDestroy p; EFeederBreak p] m2 with
    | Some m3 =>
      let m4 := save_stage fuel p WHand g (save_stage fuel p WQueue g m3) in
      let m5 := while_enabled 1 (ESessionEnd p) m4 in
      match emit (EClientStop p) m5 with
      | Some m6 =>
        match emit (EClientDone p) (handback_all fuel p g m6) with
        | Some m7 => emit (EFeederEnd p) (save_stage fuel p WWindow g m7)
        | None => None
        end
      | None => None
      end
    | None => None
    end
  | None => None
  end.

Fixpoint fold_opt {A} (f : run -> A -> option run) (l : list A) (m : run) : option run :=
  match l with
  | [] => Some m
  | x :: r => match f m x with Some m' => fold_opt f r m' | None => None end
  end.

Definition synth_gen (fuel : nat) (g : gblock) (later_gens : nat -> nat -> bool) (m0 : run) : option run :=
  match emits (map EConnOpen (gb_conns g) ++ map EIngest (gb_ingest g)) m0 with
  | None => None
  | Some m1 =>
    let y := feed fuel (mkSyn m1 (agenda_of g) []) in
    if negb (ag_done (sy_ag y)) then None else
    match fold_opt (fun m ph => build_chunk fuel (fst ph) (h_id (snd ph)) (h_toks (snd ph)) true m) (chunks_by_id g) (sy_run y) with
    | None => None
    | Some mB =>
    match fold_opt (fun m pb => sessions_events (pb_pipe pb) (pb_sessions pb) (later_gens (pb_pipe pb)) g m) (gb_pipes g) mB with
    | None => None
    | Some m2 =>
      match gb_stop g with
      | None => Some m2
      | Some (disk, drops) =>
        match emit EStopReq m2 with
        | None => None
        | Some m3 =>
          match emits (map EConnEnd (open_conns (fst m3)) ++ [EInputsStopped]) m3 with
          | None => None
          | Some m4 =>
            match fold_opt (stop_pipe fuel g) (pipes (fst m4)) m4 with
            | None => None
            | Some m5 => emits [EStopped; EObsDisk disk; EObsDrops drops] m5
            end
          end
        end
      end
    end
    end
  end.

Fixpoint synth_gens (fuel : nat) (gs : list gblock) (first : bool) (m : run) : option run :=
  match gs with
  | [] => Some m
  | g :: rest =>
    let later_gens := fun p id => existsb (occurs_in_gen p id) rest in
    let m0 := if first then Some m else emit ERestart m in
    match m0 with
    | None => None
    | Some m0' =>
      match synth_gen fuel g later_gens m0' with
      | Some m1 => synth_gens fuel rest false m1
      | None => None
      end
    end
  end.

Definition trace_size (tr : trace) : nat :=
  fold_right (fun g acc => acc + 8 + 2 * length (gb_ingest g)
      + fold_right (fun pb a => a + 4 + length (pb_created pb) + fold_right (fun ss b => b + 2 + length ss) 0 (pb_sessions pb)) 0 (gb_pipes g)) 8 tr.

Definition synth (tr : trace) : option (list event) :=
  match synth_gens (4 * trace_size tr) tr true (init, []) with
  | Some m => Some (rev (snd m))
  | None => None
  end.

(* ---------- the checked acceptor ---------- *)

Definition accept_with (tr : trace) (es : list event) : option state :=
  match steps init es, trace_obs tr with
  | Some s, Some os => if obs_list_eqb (proj_run init es) os && no_timeout es && order_safe es then Some s else None
  | _, _ => None
  end.

Definition accept (tr : trace) : option state :=
  match synth tr with
  | Some es => accept_with tr es
  | None => None
  end.

(* ---------- summary of the final state: where every ingested, non-filtered record is ---------- *)

Definition in_toks (t : tok) (l : list tok) : bool := existsb (tok_eqb t) l.

Record summary := mkSum { su_acked : nat; su_disk : nat; su_dropped : nat; su_pending : nat; su_lost : nat; su_filtered : nat }.

Definition summarize (s : state) : summary :=
  let ak := toks_of_chunks (acked s) in
  let fl := toks_of_chunks (files s) in
  let dr := toks_of_chunks (dropped s) in
  let tr := transit s in
  fold_right (fun t a =>
    if negb (t_keep t) then mkSum (su_acked a) (su_disk a) (su_dropped a) (su_pending a) (su_lost a) (S (su_filtered a))
    else if in_toks t ak then mkSum (S (su_acked a)) (su_disk a) (su_dropped a) (su_pending a) (su_lost a) (su_filtered a)
    else if in_toks t fl then mkSum (su_acked a) (S (su_disk a)) (su_dropped a) (su_pending a) (su_lost a) (su_filtered a)
    else if in_toks t dr then mkSum (su_acked a) (su_disk a) (S (su_dropped a)) (su_pending a) (su_lost a) (su_filtered a)
    else if in_toks t tr then mkSum (su_acked a) (su_disk a) (su_dropped a) (S (su_pending a)) (su_lost a) (su_filtered a)
    else mkSum (su_acked a) (su_disk a) (su_dropped a) (su_pending a) (S (su_lost a)) (su_filtered a))
    (mkSum 0 0 0 0 0 0) (ingested s).

(* the boolean form of the at-least-once conclusion on a final state *)
Definition alo_check (s : state) : bool :=
  forallb (fun t => negb (t_keep t) || in_toks t (toks_of_chunks (acked s)) || in_toks t (toks_of_chunks (files s))
                    || in_toks t (toks_of_chunks (dropped s))) (ingested s).

(* ---------- decoding the case line ---------- *)

Definition rd (A : Type) := list Z -> option (A * list Z).

Definition rd_nat : rd nat :=
  fun l => match l with z :: r => if ((z <? 0) || (100000 <? z))%Z then None else Some (Z.to_nat z, r) | [] => None end.

Fixpoint rd_list {A} (f : rd A) (n : nat) : rd (list A) :=
  fun l => match n with
           | O => Some ([], l)
           | S n' => match f l with
                     | Some (x, r) => match rd_list f n' r with Some (xs, r') => Some (x :: xs, r') | None => None end
                     | None => None
                     end
           end.

Definition rd_counted {A} (f : rd A) : rd (list A) :=
  fun l => match rd_nat l with Some (n, r) => rd_list f n r | None => None end.

Definition rd_pair : rd (nat * nat) :=
  fun l => match rd_nat l with
           | Some (a, r) => match rd_nat r with Some (b, r') => Some ((a, b), r') | None => None end
           | None => None
           end.

(* numbers that may be large (hashes, seeds) are never converted to nat *)
Definition rd_tok : rd tok :=
  fun l => match rd_list rd_nat 4 l with
           | Some ([k; q; p; kp], b :: r) => Some (mkTok k q p (negb (Nat.eqb kp 0)) (Z.to_N b), r)
           | _ => None
           end.

Definition rd_hchunk : rd hchunk :=
  fun l => match rd_nat l with
           | Some (id, r) => match rd_counted rd_pair r with Some (ts, r') => Some (mkH id ts, r') | None => None end
           | None => None
           end.

Definition rd_pblock : rd pblock :=
  fun l => match rd_nat l with
           | Some (p, r) =>
             match rd_counted rd_hchunk r with
             | Some (cs, r1) =>
               match rd_counted (rd_counted rd_pair) r1 with
               | Some (ss, r2) => Some (mkP p cs ss, r2)
               | None => None
               end
             | None => None
             end
           | None => None
           end.

Definition rd_gblock : rd gblock :=
  fun l => match rd_nat l with
  | Some (endid, r0) =>
    match rd_counted rd_nat r0 with
    | Some (cs, r1) =>
      match rd_counted rd_tok r1 with
      | Some (ing, r2) =>
        match rd_counted rd_pblock r2 with
        | Some (pbs, r3) =>
          match rd_nat r3 with
          | Some (O, r4) => Some (mkG endid cs ing pbs None, r4)
          | Some (S _, r4) =>
            match rd_counted rd_pair r4 with
            | Some (disk, r5) =>
              match rd_nat r5 with
              | Some (drops, r6) => Some (mkG endid cs ing pbs (Some (disk, drops)), r6)
              | None => None
              end
            | None => None
            end
          | None => None
          end
        | None => None
        end
      | None => None
      end
    | None => None
    end
  | None => None
  end.

(* the first number is a flag word for the harness (scenario class); it is not part of the trace *)
Definition decode_trace (zs : list Z) : option trace :=
  match zs with
  | [] => None
  | _flags :: zs' =>
    match rd_counted rd_gblock zs' with
    | Some (tr, []) => Some tr
    | _ => None
    end
  end.

(* ---------- output ---------- *)

Definition str (s : list nat) : bytes := map N.of_nat s.
Definition dec_nat (n : nat) : bytes := dec_of_N (N.of_nat n).

(* "accept:acked=a,disk=d,dropped=x,pending=p,lost=l,filtered=f,alo=1" *)
Definition render_summary (s : state) : bytes :=
  let u := summarize s in
  str [97;99;99;101;112;116;58;97;99;107;101;100;61] ++ dec_nat (su_acked u)
  ++ str [44;100;105;115;107;61] ++ dec_nat (su_disk u)
  ++ str [44;100;114;111;112;112;101;100;61] ++ dec_nat (su_dropped u)
  ++ str [44;112;101;110;100;105;110;103;61] ++ dec_nat (su_pending u)
  ++ str [44;108;111;115;116;61] ++ dec_nat (su_lost u)
  ++ str [44;102;105;108;116;101;114;101;100;61] ++ dec_nat (su_filtered u)
  ++ str [44;97;108;111;61] ++ (if alo_check s then [49%N] else [48%N]).

Definition str_reject : bytes := str [114;101;106;101;99;116].          (* "reject" *)
Definition str_reject_decode : bytes := str [114;101;106;101;99;116;58;100;101;99;111;100;101]. (* "reject:decode" *)
Definition str_reject_synth : bytes := str [114;101;106;101;99;116;58;115;121;110;116;104].     (* "reject:synth" *)
Definition str_reject_check : bytes := str [114;101;106;101;99;116;58;99;104;101;99;107].       (* "reject:check" *)

Definition run_trace_case (c : case) : bytes :=
  match decode_trace (c_zargs c) with
  | None => str_reject
  | Some tr =>
    match accept tr with
    | Some s => render_summary s
    | None => str_reject
    end
  end.

(* which stage rejects (diagnostics only) *)
Definition reject_stage (zs : list Z) : bytes :=
  match decode_trace zs with
  | None => str_reject_decode
  | Some tr =>
    match synth tr with
    | None => str_reject_synth
    | Some es => match accept_with tr es with Some _ => str_ok | None => str_reject_check end
    end
  end.

(* ---------- kind 1: prediction of the deterministic projection of a scenario from its record plan ----------
   Z = seed, variant, generations, nconn, generation of each connection, nrec, (conn, class, app, source)...
   classes: 0 good, 1 filtered (pid = DROPME), 2 malformed (rejected by the parser), 3 multi-line, 4 bad time.
   A record is ingested as a token unless malformed; it is kept unless filtered; it is routed to the pipeline of
   its key values: app (one key field) or (app, source) (two key fields: variant bit 0). *)

Definition plan_pipe (twokeys : bool) (app src : nat) : nat := if twokeys then app * 8 + src + 1 else app + 1.

Definition stream_lt (a b : nat * nat) : bool :=
  Nat.ltb (fst a) (fst b) || (Nat.eqb (fst a) (fst b) && Nat.ltb (snd a) (snd b)).

Fixpoint bump (k : nat * nat) (l : list ((nat * nat) * nat)) : list ((nat * nat) * nat) :=
  match l with
  | [] => [(k, 1)]
  | (k', n) :: r =>
    if stamp_eqb k k' then (k', S n) :: r
    else if stream_lt k k' then (k, 1) :: l
    else (k', n) :: bump k r
  end.

Record plan_sum := mkPS { ps_streams : list ((nat * nat) * nat); ps_filtered : nat; ps_malformed : nat }.

Fixpoint plan_fold (twokeys : bool) (recs : list (list nat)) (a : plan_sum) : plan_sum :=
  match recs with
  | [] => a
  | [conn; cls; app; src] :: r =>
    let a' :=
      match cls with
      | 1 => mkPS (ps_streams a) (S (ps_filtered a)) (ps_malformed a)
      | 2 => mkPS (ps_streams a) (ps_filtered a) (S (ps_malformed a))
      | _ => mkPS (bump (conn, plan_pipe twokeys app src) (ps_streams a)) (ps_filtered a) (ps_malformed a)
      end in
    plan_fold twokeys r a'
  | _ :: r => plan_fold twokeys r a
  end.

Definition render_streams (l : list ((nat * nat) * nat)) : bytes :=
  join 59 (map (fun e => dec_nat (fst (fst e)) ++ [47%N] ++ dec_nat (snd (fst e)) ++ [58%N] ++ dec_nat (snd e)) l).

Definition decode_plan (zs : list Z) : option (bool * list (list nat)) :=
  match zs with
  | [] => None
  | _seed :: zs' =>
  match rd_list rd_nat 3 zs' with
  | Some ([variant; _; nconn], r) =>
    match rd_list rd_nat nconn r with
    | Some (_, r1) =>
      match rd_counted (rd_list rd_nat 4) r1 with
      | Some (recs, []) => Some (Nat.odd variant, recs)
      | _ => None
      end
    | None => None
    end
  | _ => None
  end
  end.

Definition run_plan_case (c : case) : bytes :=
  match decode_plan (c_zargs c) with
  | None => bad_case_output
  | Some (twokeys, recs) =>
    let a := plan_fold twokeys recs (mkPS [] 0 0) in
    str [111;107;58;115;61] ++ render_streams (ps_streams a)
    ++ str [44;102;61] ++ dec_nat (ps_filtered a) ++ str [44;109;61] ++ dec_nat (ps_malformed a)
  end.

Definition run_case_C01 (c : case) : bytes :=
  if N.eqb (c_kind c) 1 then run_plan_case c
  else if N.eqb (c_kind c) 2 then run_trace_case c
  else bad_case_output.
