(* C02 — model of output/baseoutput/clientworker.go + clientsession.go as a labelled
   transition system.  No proofs in this file.

   Processes (goroutines) of one ClientWorker:
     main      ClientWorker.run / runSession / clientSession.Run / resendLeftovers /
               processInput / sendChunk / sendPing / collectLeftovers / final leftover loop
     acker     clientSession.runAcknowledger of the current session (incl. its deferred
               snapshot of pendingChunksByID into session.unacked)
     opener    the goroutine of runSession that calls openConn and hands the result over connCh
     aborter   the goroutine of NewClientWorker: inputClosed.Next(abort the active session)
   Environment: the producer of the input channel (offer / close), the stop signal, SIGUSR1,
   and the upstream, which chooses the outcome of every connect / send / ping / ack-read.

   One event = one atomic action at the granularity of channel operations, connection calls
   and callbacks (the code of a goroutine between two such points runs inside the step).
   Timers (retry interval, ping interval, max session age, acker stop timeout) are events that
   are enabled at any time: the model does not measure time.

   A chunk is represented by its ID (the client never looks at anything else but len(Data),
   which only feeds a deadline).  IDs are compared as numbers; the harness uses fixed-width
   decimal IDs so that Go's string order is the numeric order. *)
From SV Require Import Model.Common.

Definition chunk := N.

Inductive res := ROk | RErr.
(* outcome of ReadChunkAck: a non-empty id, the empty id, or an error (incl. deadline / closed) *)
Inductive ackres := AId (i : N) | AEmpty | AErr.
Inductive from := FResend | FInput.          (* which loop called sendChunk *)
Inductive policy := PNone | PDelay | PNow.   (* noReconnect | reconnectWithDelay | reconnect *)

(* program counter of main: the blocking point it is at *)
Inductive mpc :=
| MStart                          (* top of the loop in run(): about to call runSession (spawn the opener) *)
| MConnecting                     (* runSession: select { inputClosed, connCh } *)
| MResend                         (* resendLeftovers: select { inputClosed, leftovers, default } *)
| MSend (f : from) (c : chunk)    (* inside conn.SendChunk(c) *)
| MEnqueue (f : from) (c : chunk) (* sendChunk: select { ackerChan <- c, inputClosed, ackerEnded } *)
| MInput                          (* processInput: select { input, max age, SIGUSR1, ping timer } *)
| MSoftWait (p : policy)          (* collectLeftovers(waitPendingChunks): ackerEnded.Wait(AckerStopTimeout) *)
| MHardWait (prev : bool) (p : policy) (* collectLeftovers: ackerEnded.Wait(IntermediateChannelTimeout) *)
| MRetryWait                      (* run(): inputClosed.Wait(ForwarderRetryInterval) *)
| MFinal                          (* run(): leftovers closed, loop over onChunkLeft *)
| MDone.                          (* after onFinished *)

(* the goroutine of runSession that opens the connection *)
Inductive ostate :=
| ONone                 (* no opener *)
| OSpawned              (* go func() started, openConn not yet called *)
| ODialing              (* inside openConn() *)
| OResult (ok : bool).  (* blocked on connCh <- conn / nil *)

Inductive apc :=
| AIdle                  (* select { ackerChan, ackerAbort } *)
| AReading (nx : chunk)  (* inside conn.ReadChunkAck; nextChunk = nx *)
| AAcked (c : chunk)     (* ACK accepted for c: about to delete it and call onChunkAcked(c) *)
| AEnded.                (* deferred function done: unacked stored, ackerEnded signalled *)

(* the clientSession object + its acknowledger *)
Record sess := mkSess {
  s_id : nat;                      (* connection number (history: which connect attempt) *)
  s_creq : bool;                   (* abortConn (util.RunOnce) already invoked *)
  s_achan : list chunk;            (* ackerChan, oldest first *)
  s_aclosed : bool;                (* ackerChan closed *)
  s_abort : bool;                  (* ackerAbort signalled *)
  s_ended : bool;                  (* ackerEnded signalled *)
  s_unacked : option (list chunk); (* session.unacked *)
  s_pending : list chunk;          (* pendingChunksByID (keys) *)
  s_apc : apc
}.

Record state := mkState {
  inq : list chunk;          (* input channel contents, oldest first *)
  in_closed : bool;          (* input channel closed *)
  stop_sig : bool;           (* inputClosed signalled *)
  aborter_done : bool;       (* the abort-on-stop goroutine has run *)
  opener : ostate;
  lo : list chunk;           (* the current leftovers channel of run(), oldest first *)
  last : option chunk;       (* session.lastChunk *)
  pc : mpc;
  cur : option sess;         (* the running session (= activeSession) *)
  nconn : nat;               (* connect attempts so far *)
  close_pend : list nat;     (* connections whose Close has been requested and not yet executed *)
  sig_flight : nat;          (* SIGUSR1 sent, not yet delivered by the runtime *)
  sig_pend : nat;            (* SIGUSR1 waiting in the reconnectChan of the current processInput *)
  (* ---- history variables (newest first); never read by the client ---- *)
  h_offered : list chunk;               (* every chunk put into the input channel *)
  h_taken : list chunk;                 (* chunks received from the input channel *)
  h_sent : list (nat * chunk);          (* completed SendChunk: (connection, chunk) *)
  h_acks : list (nat * ackres * chunk); (* successful ReadChunkAck: (connection, id read, nextChunk at that time) *)
  h_consumed : list chunk;              (* onChunkAcked calls *)
  h_handed : list chunk;                (* onChunkLeft calls *)
  h_finished : bool;                    (* onFinished called *)
  h_los : list (nat * list chunk)       (* leftovers channel at the start of each session *)
}.

Record params := mkParams {
  p_cap : nat;       (* defs.ForwarderMaxPendingChunksForAck *)
  p_maxage : bool;   (* maxDuration > 0 *)
  p_fix : bool       (* true: the code as it is now - an ACK with an unknown id ends the session like a failed ACK read
                        (abortConn, return); false: the ORIGINAL code, which 'continue'd to wait for the next chunk
                        (finding C02-wrong-id-ack-stuck; kept only for C02_original_unknown_ack_stuck_refuted) *)
}.

Inductive event :=
(* --- observable: environment actions and calls of the client into its environment --- *)
| EOffer (c : chunk)                     (* producer: inputChannel <- c *)
| EStop                                  (* inputClosed.Signal() *)
| EInClose                               (* close(inputChannel) *)
| EReconnReq                             (* SIGUSR1 sent to the process *)
| EConnStart (k : nat)                   (* openConn() called: k-th attempt *)
| EConnRet (k : nat) (ok : bool)         (* openConn() returned *)
| ESendRet (k : nat) (c : chunk) (r : res)  (* conn.SendChunk(c) returned *)
| EPingRet (k : nat) (r : res)           (* ping timer fired and conn.SendPing returned *)
| EAckRet (k : nat) (a : ackres)         (* conn.ReadChunkAck returned *)
| EConsumed (c : chunk)                  (* onChunkAcked(c) *)
| ELeftover (c : chunk)                  (* onChunkLeft(c) *)
| EFinished                              (* onFinished() *)
| EClose (k : nat)                       (* conn.Close() of connection k executed *)
(* --- hidden --- *)
| EMainSpawn       (* runSession: go func() { openConn ... } *)
| EMainConn        (* runSession receives the opener's result *)
| EMainStopConn    (* runSession sees inputClosed while connecting *)
| EAborter         (* abort-on-stop goroutine runs *)
| EResendStop      (* resendLeftovers sees inputClosed *)
| EResendTake (c : chunk)  (* resendLeftovers pops c *)
| EResendDone      (* resendLeftovers: default branch -> processInput *)
| EEnqueue         (* sendChunk: ackerChan <- chunk *)
| EEnqStop         (* sendChunk: inputClosed *)
| EEnqEnded        (* sendChunk: ackerEnded *)
| ETake (c : chunk)   (* processInput receives c from the input channel *)
| EInClosedSeen    (* processInput sees the closed input channel *)
| EMaxAge          (* processInput: max session duration reached *)
| ESigDeliver      (* the runtime delivers SIGUSR1 to the registered channel (or to nobody) *)
| ESigSeen         (* processInput: <-reconnectChan *)
| ESoftDone        (* collectLeftovers(waitPendingChunks): acker ended or AckerStopTimeout *)
| ECollected       (* collectLeftovers: acker ended; gather and build the new leftovers *)
| EBugTimeout      (* collectLeftovers: IntermediateChannelTimeout elapsed, acker still running *)
| ERetryStop       (* run(): stop seen during the retry wait *)
| ERetryTimeout    (* run(): retry interval elapsed *)
| EAckerTake (c : chunk)  (* acker receives c from ackerChan *)
| EAckerClosed     (* acker sees ackerChan closed and empty *)
| EAckerAbort.     (* acker sees ackerAbort *)

(* ---------- small list functions ---------- *)

Definition mem (c : chunk) (l : list chunk) : bool := existsb (N.eqb c) l.

(* pendingChunksByID[c.ID] = c *)
Definition padd (c : chunk) (l : list chunk) : list chunk := if mem c l then l else c :: l.
(* delete(pendingChunksByID, c.ID) *)
Definition pdel (c : chunk) (l : list chunk) : list chunk := filter (fun x => negb (N.eqb c x)) l.

Fixpoint insert (c : chunk) (l : list chunk) : list chunk :=
  match l with
  | [] => [c]
  | x :: l' => if c <=? x then c :: l else x :: insert c l'
  end.
Fixpoint isort (l : list chunk) : list chunk :=
  match l with [] => [] | x :: l' => insert x (isort l') end.
(* the de-duplication loop of newLeftoverChannel (on a sorted slice) *)
Fixpoint dedup_adj (l : list chunk) : list chunk :=
  match l with
  | [] => []
  | x :: l' => match l' with
               | [] => [x]
               | y :: _ => if x =? y then dedup_adj l' else x :: dedup_adj l'
               end
  end.
(* newLeftoverChannel *)
Definition new_leftovers (l : list chunk) : list chunk := dedup_adj (isort l).

Definition opt_list {A} (o : option A) : list A := match o with Some a => [a] | None => [] end.

(* ---------- record updates ---------- *)

Definition sess_creq (ss : sess) : sess :=
  mkSess (s_id ss) true (s_achan ss) (s_aclosed ss) (s_abort ss) (s_ended ss) (s_unacked ss) (s_pending ss) (s_apc ss).
Definition sess_set_achan (ss : sess) (l : list chunk) : sess :=
  mkSess (s_id ss) (s_creq ss) l (s_aclosed ss) (s_abort ss) (s_ended ss) (s_unacked ss) (s_pending ss) (s_apc ss).
(* close(ackerChan) *)
Definition sess_soft (ss : sess) : sess :=
  mkSess (s_id ss) (s_creq ss) (s_achan ss) true (s_abort ss) (s_ended ss) (s_unacked ss) (s_pending ss) (s_apc ss).
(* ackerAbort.Signal() + abortConn *)
Definition sess_abort (ss : sess) : sess :=
  mkSess (s_id ss) true (s_achan ss) (s_aclosed ss) true (s_ended ss) (s_unacked ss) (s_pending ss) (s_apc ss).
Definition sess_acker (ss : sess) (achan pending : list chunk) (a : apc) : sess :=
  mkSess (s_id ss) (s_creq ss) achan (s_aclosed ss) (s_abort ss) (s_ended ss) (s_unacked ss) pending a.
(* the deferred function of runAcknowledger (creq = whether abortConn was called just before) *)
Definition sess_end (ss : sess) (creq : bool) : sess :=
  mkSess (s_id ss) (s_creq ss || creq) (s_achan ss) (s_aclosed ss) (s_abort ss) true (Some (s_pending ss)) (s_pending ss) AEnded.

Definition new_sess (k : nat) : sess := mkSess k false [] false false false None [] AIdle.

(* connections newly scheduled for Close when the session goes from ss to ss' *)
Definition creq_new (ss ss' : sess) : list nat :=
  if negb (s_creq ss) && s_creq ss' then [s_id ss] else [].

Definition st_env (s : state) (q : list chunk) (ic st : bool) (sf : nat) (off : list chunk) : state :=
  mkState q ic st (aborter_done s) (opener s) (lo s) (last s) (pc s) (cur s) (nconn s) (close_pend s) sf (sig_pend s)
          off (h_taken s) (h_sent s) (h_acks s) (h_consumed s) (h_handed s) (h_finished s) (h_los s).

(* update of the client-owned part; session change schedules Close through close_pend *)
Definition st_main (s : state) (l : list chunk) (la : option chunk) (p : mpc) (c : option sess) : state :=
  mkState (inq s) (in_closed s) (stop_sig s) (aborter_done s) (opener s) l la p c (nconn s)
          (close_pend s ++ match cur s, c with Some a, Some b => creq_new a b | _, _ => [] end)
          (sig_flight s) (sig_pend s)
          (h_offered s) (h_taken s) (h_sent s) (h_acks s) (h_consumed s) (h_handed s) (h_finished s) (h_los s).

Definition st_sess (s : state) (ss' : sess) : state := st_main s (lo s) (last s) (pc s) (Some ss').

Definition st_opener (s : state) (o : ostate) (n : nat) : state :=
  mkState (inq s) (in_closed s) (stop_sig s) (aborter_done s) o (lo s) (last s) (pc s) (cur s) n (close_pend s)
          (sig_flight s) (sig_pend s)
          (h_offered s) (h_taken s) (h_sent s) (h_acks s) (h_consumed s) (h_handed s) (h_finished s) (h_los s).

Definition st_misc (s : state) (ab : bool) (cp : list nat) (sf sp : nat) : state :=
  mkState (inq s) (in_closed s) (stop_sig s) ab (opener s) (lo s) (last s) (pc s) (cur s) (nconn s) cp sf sp
          (h_offered s) (h_taken s) (h_sent s) (h_acks s) (h_consumed s) (h_handed s) (h_finished s) (h_los s).

Definition st_inq (s : state) (q : list chunk) (tk : list chunk) : state :=
  mkState q (in_closed s) (stop_sig s) (aborter_done s) (opener s) (lo s) (last s) (pc s) (cur s) (nconn s) (close_pend s)
          (sig_flight s) (sig_pend s)
          (h_offered s) tk (h_sent s) (h_acks s) (h_consumed s) (h_handed s) (h_finished s) (h_los s).

Definition st_hist (s : state) (sent : list (nat * chunk)) (acks : list (nat * ackres * chunk))
           (cons hand : list chunk) (fin : bool) (los : list (nat * list chunk)) : state :=
  mkState (inq s) (in_closed s) (stop_sig s) (aborter_done s) (opener s) (lo s) (last s) (pc s) (cur s) (nconn s) (close_pend s)
          (sig_flight s) (sig_pend s)
          (h_offered s) (h_taken s) sent acks cons hand fin los.

Definition h_add_sent (s : state) (k : nat) (c : chunk) : state :=
  st_hist s ((k, c) :: h_sent s) (h_acks s) (h_consumed s) (h_handed s) (h_finished s) (h_los s).
Definition h_add_ack (s : state) (k : nat) (a : ackres) (nx : chunk) : state :=
  st_hist s (h_sent s) ((k, a, nx) :: h_acks s) (h_consumed s) (h_handed s) (h_finished s) (h_los s).
Definition h_add_consumed (s : state) (c : chunk) : state :=
  st_hist s (h_sent s) (h_acks s) (c :: h_consumed s) (h_handed s) (h_finished s) (h_los s).
Definition h_add_handed (s : state) (c : chunk) : state :=
  st_hist s (h_sent s) (h_acks s) (h_consumed s) (c :: h_handed s) (h_finished s) (h_los s).
Definition h_set_finished (s : state) : state :=
  st_hist s (h_sent s) (h_acks s) (h_consumed s) (h_handed s) true (h_los s).
Definition h_add_los (s : state) (k : nat) (l : list chunk) : state :=
  st_hist s (h_sent s) (h_acks s) (h_consumed s) (h_handed s) (h_finished s) ((k, l) :: h_los s).

Definition init : state :=
  mkState [] false false false ONone [] None MStart None 0 [] 0 0 [] [] [] [] [] [] false [].

(* ---------- pieces of the client code ---------- *)

(* where run() continues after runSession returned (leftovers, policy) *)
Definition after_session (p : policy) : mpc :=
  match p with PNone => MFinal | PDelay => MRetryWait | PNow => MStart end.

(* collectLeftovers(prev, endImmediately): close(prev) and drain it (kept in [lo] until the merge),
   close(ackerChan), ackerAbort.Signal(), abortConn, then wait for ackerEnded *)
Definition collect_hard (s : state) (ss : sess) (prev : bool) (p : policy) : state :=
  st_main s (lo s) (last s) (MHardWait prev p) (Some (sess_abort (sess_soft ss))).

(* collectLeftovers(nil, waitPendingChunks): close(ackerChan), then wait for ackerEnded with the long timeout *)
Definition collect_soft (s : state) (ss : sess) (p : policy) : state :=
  st_main s (lo s) (last s) (MSoftWait p) (Some (sess_soft ss)).

(* the merge at the end of collectLeftovers; [unacked] is what session.unacked.Load() gave *)
Definition merged (s : state) (ss : sess) (prev : bool) (unacked : list chunk) : list chunk :=
  new_leftovers ((if prev then lo s else []) ++ s_achan ss ++ unacked ++ opt_list (last s)).

Definition in_process_input (p : mpc) : bool :=
  match p with
  | MInput | MSend FInput _ | MEnqueue FInput _ => true
  | _ => false
  end.

(* ---------- the transition function ---------- *)

Definition step (P : params) (s : state) (e : event) : option state :=
  match e with
  (* ----- environment ----- *)
  | EOffer c =>
    if in_closed s then None
    else Some (st_env s (inq s ++ [c]) (in_closed s) (stop_sig s) (sig_flight s) (c :: h_offered s))
  | EStop =>
    if stop_sig s then None else Some (st_env s (inq s) (in_closed s) true (sig_flight s) (h_offered s))
  | EInClose =>
    if in_closed s then None else Some (st_env s (inq s) true (stop_sig s) (sig_flight s) (h_offered s))
  | EReconnReq =>
    Some (st_env s (inq s) (in_closed s) (stop_sig s) (S (sig_flight s)) (h_offered s))
  | ESigDeliver =>
    match sig_flight s with
    | O => None
    | S n =>
      (* delivered to the channel registered by the running processInput, if any (capacity 10) *)
      let sp := if in_process_input (pc s) && Nat.ltb (sig_pend s) 10 then S (sig_pend s) else sig_pend s in
      Some (st_misc s (aborter_done s) (close_pend s) n sp)
    end
  | EClose k =>
    match close_pend s with
    | k' :: rest => if Nat.eqb k k' then Some (st_misc s (aborter_done s) rest (sig_flight s) (sig_pend s)) else
        (* Close calls of different connections come from different goroutines: any order *)
        if existsb (Nat.eqb k) rest
        then Some (st_misc s (aborter_done s) (k' :: filter (fun x => negb (Nat.eqb k x)) rest) (sig_flight s) (sig_pend s))
        else None
    | [] => None
    end
  (* ----- abort-on-stop goroutine ----- *)
  | EAborter =>
    if stop_sig s && negb (aborter_done s) then
      let s1 := st_misc s true (close_pend s) (sig_flight s) (sig_pend s) in
      match cur s with
      | Some ss => Some (st_sess s1 (sess_creq ss))
      | None => Some s1
      end
    else None
  (* ----- opener ----- *)
  | EMainSpawn =>
    match pc s with
    | MStart => Some (st_main (st_opener s OSpawned (nconn s)) (lo s) (last s) MConnecting (cur s))
    | _ => None
    end
  | EConnStart k =>
    match opener s with
    | OSpawned => if Nat.eqb k (S (nconn s)) then Some (st_opener s ODialing (S (nconn s))) else None
    | _ => None
    end
  | EConnRet k ok =>
    match opener s with
    | ODialing => if Nat.eqb k (nconn s) then Some (st_opener s (OResult ok) (nconn s)) else None
    | _ => None
    end
  (* ----- main: runSession ----- *)
  | EMainConn =>
    match pc s, opener s with
    | MConnecting, OResult true =>
      (* newClientSession, activeSession.Store, go runAcknowledger, resendLeftovers *)
      let s1 := st_opener s ONone (nconn s) in
      Some (h_add_los (st_main s1 (lo s) None MResend (Some (new_sess (nconn s)))) (nconn s) (lo s))
    | MConnecting, OResult false =>
      Some (st_main (st_opener s ONone (nconn s)) (lo s) (last s) MRetryWait (cur s))
    | _, _ => None
    end
  | EMainStopConn =>
    match pc s with
    | MConnecting => if stop_sig s then Some (st_main s (lo s) (last s) MFinal (cur s)) else None
    | _ => None
    end
  (* ----- main: resendLeftovers -----
     (its "BUG: aborted due to leftover channel closure" branch is not modelled: the leftovers channel handed to a
      session is closed only by that session's collectLeftovers or, after the last session, by run()) *)
  | EResendStop =>
    match pc s, cur s with
    | MResend, Some ss => if stop_sig s then Some (collect_hard s ss true PNone) else None
    | _, _ => None
    end
  | EResendTake c =>
    match pc s, lo s with
    | MResend, c' :: rest => if c =? c' then Some (st_main s rest (Some c) (MSend FResend c) (cur s)) else None
    | _, _ => None
    end
  | EResendDone =>
    match pc s, lo s with
    | MResend, [] =>
      (* default branch: only when no other case is ready; then processInput registers a fresh reconnectChan *)
      if stop_sig s then None
      else Some (st_misc (st_main s (lo s) (last s) MInput (cur s)) (aborter_done s) (close_pend s) (sig_flight s) 0)
    | _, _ => None
    end
  (* ----- main: sendChunk ----- *)
  | ESendRet k c r =>
    match pc s, cur s with
    | MSend f c', Some ss =>
      if Nat.eqb k (s_id ss) && (c =? c') then
        match r with
        | ROk => Some (h_add_sent (st_main s (lo s) (last s) (MEnqueue f c) (cur s)) k c)
        | RErr =>
          (* abortConn, return (false, reconnectWithDelay) -> collectLeftovers(leftovers or nil, endImmediately) *)
          Some (collect_hard s ss (match f with FResend => true | FInput => false end) PDelay)
        end
      else None
    | _, _ => None
    end
  | EEnqueue =>
    match pc s, cur s with
    | MEnqueue f c, Some ss =>
      if Nat.ltb (length (s_achan ss)) (p_cap P) then
        Some (st_main s (lo s) None (match f with FResend => MResend | FInput => MInput end)
                      (Some (sess_set_achan ss (s_achan ss ++ [c]))))
      else None
    | _, _ => None
    end
  | EEnqStop =>
    match pc s, cur s with
    | MEnqueue f c, Some ss =>
      if stop_sig s then Some (collect_hard s ss (match f with FResend => true | FInput => false end) PNone) else None
    | _, _ => None
    end
  | EEnqEnded =>
    match pc s, cur s with
    | MEnqueue f c, Some ss =>
      if s_ended ss then Some (collect_hard s ss (match f with FResend => true | FInput => false end) PDelay) else None
    | _, _ => None
    end
  (* ----- main: processInput ----- *)
  | ETake c =>
    match pc s, inq s with
    | MInput, c' :: rest =>
      if c =? c' then Some (st_main (st_inq s rest (c :: h_taken s)) (lo s) (Some c) (MSend FInput c) (cur s)) else None
    | _, _ => None
    end
  | EInClosedSeen =>
    match pc s, inq s, cur s with
    | MInput, [], Some ss => if in_closed s then Some (collect_hard s ss false PNone) else None
    | _, _, _ => None
    end
  | EMaxAge =>
    match pc s, cur s with
    | MInput, Some ss => if p_maxage P then Some (collect_soft s ss PNow) else None
    | _, _ => None
    end
  | ESigSeen =>
    match pc s, cur s, sig_pend s with
    | MInput, Some ss, S n =>
      Some (collect_soft (st_misc s (aborter_done s) (close_pend s) (sig_flight s) n) ss PNow)
    | _, _, _ => None
    end
  | EPingRet k r =>
    match pc s, cur s with
    | MInput, Some ss =>
      if Nat.eqb k (s_id ss) then
        match r with
        | ROk => Some s
        | RErr => Some (collect_hard s ss false PDelay)
        end
      else None
    | _, _ => None
    end
  (* ----- main: collectLeftovers ----- *)
  | ESoftDone =>
    match pc s, cur s with
    | MSoftWait p, Some ss => Some (st_main s (lo s) (last s) (MHardWait false p) (Some (sess_abort ss)))
    | _, _ => None
    end
  | ECollected =>
    match pc s, cur s with
    | MHardWait prev p, Some ss =>
      if s_ended ss then
        match s_unacked ss with
        | Some u => Some (st_main s (merged s ss prev u) None (after_session p) None)
        | None => None
        end
      else None
    | _, _ => None
    end
  | EBugTimeout =>
    match pc s, cur s with
    | MHardWait prev p, Some ss =>
      (* "BUG: timeout waiting for acknowledger to hard stop": unacked.Load() is nil, the pending map is not
         collected; the acknowledger goroutine is orphaned (not followed any further by this model) *)
      if s_ended ss then None
      else Some (st_main s (merged s ss prev []) None (after_session p) None)
    | _, _ => None
    end
  (* ----- main: run() ----- *)
  | ERetryStop =>
    match pc s with
    | MRetryWait => if stop_sig s then Some (st_main s (lo s) (last s) MFinal (cur s)) else None
    | _ => None
    end
  | ERetryTimeout =>
    match pc s with
    | MRetryWait => Some (st_main s (lo s) (last s) MStart (cur s))
    | _ => None
    end
  | ELeftover c =>
    match pc s, lo s with
    | MFinal, c' :: rest => if c =? c' then Some (h_add_handed (st_main s rest (last s) MFinal (cur s)) c) else None
    | _, _ => None
    end
  | EFinished =>
    match pc s, lo s with
    | MFinal, [] => Some (h_set_finished (st_main s (lo s) (last s) MDone (cur s)))
    | _, _ => None
    end
  (* ----- acknowledger ----- *)
  | EAckerTake c =>
    match cur s with
    | Some ss =>
      match s_apc ss, s_achan ss with
      | AIdle, c' :: rest =>
        if c =? c' then Some (st_sess s (sess_acker ss rest (padd c (s_pending ss)) (AReading c))) else None
      | _, _ => None
      end
    | None => None
    end
  | EAckerClosed =>
    match cur s with
    | Some ss =>
      match s_apc ss, s_achan ss with
      | AIdle, [] => if s_aclosed ss then Some (st_sess s (sess_end ss false)) else None
      | _, _ => None
      end
    | None => None
    end
  | EAckerAbort =>
    match cur s with
    | Some ss =>
      match s_apc ss with
      | AIdle => if s_abort ss then Some (st_sess s (sess_end ss false)) else None
      | _ => None
      end
    | None => None
    end
  | EAckRet k a =>
    match cur s with
    | Some ss =>
      match s_apc ss with
      | AReading nx =>
        if Nat.eqb k (s_id ss) then
          match a with
          | AErr => Some (st_sess s (sess_end ss true))     (* abortConn, return, deferred snapshot *)
          | AEmpty => Some (h_add_ack (st_sess s (sess_acker ss (s_achan ss) (s_pending ss) (AAcked nx))) k a nx)
          | AId i =>
            if mem i (s_pending ss)
            then Some (h_add_ack (st_sess s (sess_acker ss (s_achan ss) (s_pending ss) (AAcked i))) k a nx)
            else if p_fix P
            then Some (h_add_ack (st_sess s (sess_end ss true)) k a nx)   (* unknown id: abortConn, return, deferred snapshot *)
            else Some (h_add_ack (st_sess s (sess_acker ss (s_achan ss) (s_pending ss) AIdle)) k a nx)  (* ORIGINAL code: continue *)
          end
        else None
      | _ => None
      end
    | None => None
    end
  | EConsumed c =>
    match cur s with
    | Some ss =>
      match s_apc ss with
      | AAcked c' =>
        if c =? c'
        then Some (h_add_consumed (st_sess s (sess_acker ss (s_achan ss) (pdel c (s_pending ss)) AIdle)) c)
        else None
      | _ => None
      end
    | None => None
    end
  end.

(* a run: events applied from left to right *)
Fixpoint run (P : params) (s : state) (tr : list event) : option state :=
  match tr with
  | [] => Some s
  | e :: tr' => match step P s e with Some s' => run P s' tr' | None => None end
  end.

Definition is_obs (e : event) : bool :=
  match e with
  | EOffer _ | EStop | EInClose | EReconnReq | EConnStart _ | EConnRet _ _ | ESendRet _ _ _ | EPingRet _ _
  | EAckRet _ _ | EConsumed _ | ELeftover _ | EFinished | EClose _ => true
  | _ => false
  end.

(* what the client still holds *)
Definition sess_holdings (ss : sess) : list chunk := s_achan ss ++ s_pending ss.
Definition holdings (s : state) : list chunk :=
  lo s ++ opt_list (last s) ++ match cur s with Some ss => sess_holdings ss | None => [] end.
