(* C15: the rune-level view of the UTF-8 clean-up.  Model/TfUtf8.v abstracts utf8.DecodeRune to the
   WIDTH of a well-formed sequence; the clean-up loop of strings.ToValidUTF8 (and of any in-place
   re-implementation of util.CleanUTF8) however looks at the decoded RUNE VALUE:

       r, size := utf8.DecodeRune(s[pos:])
       if r == utf8.RuneError && size == 1 { skip one byte } else { copy s[pos:pos+size] }

   utf8.RuneError is U+FFFD, which is also the value of the perfectly valid sequence EF BF BD, so the test on
   the size is what keeps a literal U+FFFD (Go: "RuneError, 1" = invalid, "RuneError, 3" = the character).
   This file models utf8.DecodeRune with its value ([decode_rune]) and the clean-up loop with the test as a
   parameter ([skip]); [skip_go] is the test of the Go library, [skip_rune_only] the variant that forgets
   the size.  Proofs/TfUtf8DecProofs.v shows that the loop with [skip_go] IS [to_valid_utf8] of
   Model/TfUtf8.v (the function the truncate model calls) for every input, and that the variant is not.
   No proofs in this file. *)
From SV Require Import Model.Common Model.TfUtf8.
Open Scope N_scope.

Definition rune_error : N := 65533. (* utf8.RuneError = U+FFFD *)

(* utf8.DecodeRune(p) = (rune, size): (RuneError, 0) for the empty slice, (RuneError, 1) for an invalid or
   incomplete sequence, otherwise the scalar value assembled from the payload bits
   (p0&mask2)<<6 | b1&maskx, (p0&mask3)<<12 | ..., (p0&mask4)<<18 | ...; the validity tests are those of
   [rune_width] (utf8.first / utf8.acceptRanges) *)
Definition decode_rune (s : bytes) : N * nat :=
  match rune_width s, s with
  | Some 1%nat, b0 :: _ => (b0, 1%nat)
  | Some 2%nat, b0 :: b1 :: _ => ((b0 mod 32) * 64 + b1 mod 64, 2%nat)
  | Some 3%nat, b0 :: b1 :: b2 :: _ => ((b0 mod 16) * 4096 + (b1 mod 64) * 64 + b2 mod 64, 3%nat)
  | Some 4%nat, b0 :: b1 :: b2 :: b3 :: _ =>
      ((b0 mod 8) * 262144 + (b1 mod 64) * 4096 + (b2 mod 64) * 64 + b3 mod 64, 4%nat)
  | _, [] => (rune_error, 0%nat)
  | _, _ => (rune_error, 1%nat)
  end.

(* the test "this position holds garbage" *)
Definition skip_go (r : N) (size : nat) : bool := (r =? rune_error) && (size =? 1)%nat.
(* the variant: every rune decoded as RuneError is garbage, whatever its size *)
Definition skip_rune_only (r : N) (size : nat) : bool := r =? rune_error.

(* for pos < len(s) { r, size := DecodeRune(s[pos:]); if !skip(r, size) { out = append(out, s[pos:pos+size]...) };
   pos += size }.  size >= 1 on a non-empty slice, so len(s) steps of fuel are enough (a size of 0 cannot
   occur; it is mapped to 1 so that the loop is total without an OutOfFuel outcome) *)
Fixpoint to_valid_loop (skip : N -> nat -> bool) (fuel : nat) (s : bytes) : bytes :=
  match fuel with
  | O => []
  | S f =>
    match s with
    | [] => []
    | _ =>
      let (r, size) := decode_rune s in
      let size := Nat.max 1 size in
      (if skip r size then [] else firstn size s) ++ to_valid_loop skip f (skipn size s)
    end
  end.

Definition to_valid_by (skip : N -> nat -> bool) (s : bytes) : bytes := to_valid_loop skip (length s) s.

(* CleanUTF8 with the clean-up of the tail written as that loop *)
Definition clean_utf8_by (skip : N -> nat -> bool) (s : bytes) : outcome bytes :=
  match s with
  | [] => Ok s
  | _ =>
    let e := find_last_end_of_ascii s in
    overwrite_n_truncate s e (to_valid_by skip (skipn e s))
  end.

(* DecodeRune at every position the loop visits: (rune, size) pairs, pos += size *)
Fixpoint decode_all (fuel : nat) (s : bytes) : list (N * nat) :=
  match fuel with
  | O => []
  | S f =>
    match s with
    | [] => []
    | _ => let p := decode_rune s in p :: decode_all f (skipn (Nat.max 1 (snd p)) s)
    end
  end.

(* correspondence, case kind 2: S = byte strings; output "ok:" ++ per string
   "<hex of CleanUTF8(s)>=<rune>/<size>,..." (utf8.DecodeRune along s), joined by ';'; "X" = panic *)
Definition out_rune (p : N * nat) : bytes := dec_of_N (fst p) ++ 47 :: dec_of_N (N.of_nat (snd p)).

Definition clean_one (s : bytes) : bytes :=
  match clean_utf8_by skip_go s with
  | Ok r => hex r ++ 61 :: join comma (map out_rune (decode_all (length s) s))
  | _ => [88]
  end.

Definition run_clean_case (ss : list bytes) : bytes := str_ok ++ colon :: join 59 (map clean_one ss).
