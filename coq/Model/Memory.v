(* C12 -- records are isolated from each other despite pooling and buffer reuse.

   Provenance / heap model of
     util/bytespoolby2n.go      (Get/Put, size classes)                     -> part A
     util/strings.go, utf8.go   (MutableString aliasing, OverwriteNTruncate,
                                 CleanUTF8)                                 -> part B
     input/syslogparser         (Parse: fields are substrings of the backing
                                 buffer, in-place CleanUTF8, Unescaped flag) -> part C
     transform/taddfields, tmapvalue, ttruncate, tunescape, tdelfields,
       tif, tdrop               (which values they put into a field and what
                                 memory they write)                         -> part D
     output/fluentdforward/eventserializer.go + rewrite/*  (decoded view;
                                 the unescape rewriter sets record.Unescaped) -> part E
     base/logallocator.go, base/logrecord.go, bsupport/logprocessingworker.go,
       sysloginput/compositeparser.go (record structs and buffers recycled
                                 through pools, reference counting)         -> part F
     util/localcachedmap, base/logprocesscounterset.go (stores that outlive a
                                 record: copy or reference)                 -> part G
   No proofs in this file.  All names carry the prefix mem_/Mem to stay apart from
   the models of the other properties (built in parallel). *)
From SV Require Import Model.Common.
Open Scope N_scope.

(* ================================================================== *)
(* A. BytesPoolBy2n: size classes                                      *)
(* ================================================================== *)

Definition mem_two32 : N := 4294967296.

(* 32 - bits.LeadingZeros32(uint32(x)): the number of binary digits of x mod 2^32 *)
Definition mem_bitlen32 (x : N) : N := N.size (x mod mem_two32).

(* BytesPoolBy2n.Get(length): index into the 32 pools; pools[c] holds buffers of 1<<c bytes.
   An index of 32 is out of range: Go panics. *)
Definition mem_get_class (length : N) : outcome N :=
  let c := mem_bitlen32 length in
  if c <? 32 then Ok c else Panic 1.

(* BytesPoolBy2n.Put(buf): capacity := 32 - LeadingZeros32(len of the buffer) - 1 *)
Definition mem_put_class (buflen : N) : outcome N :=
  let c := mem_bitlen32 buflen in
  if c =? 0 then Panic 2 (* pools[-1] *) else Ok (c - 1).

Definition mem_class_size (c : N) : N := 2 ^ c.

(* ================================================================== *)
(* B. strings with provenance, memory, in-place writers                *)
(* ================================================================== *)

(* Where the bytes of a string live.  [Own r]: backing memory of record r (the pooled
   buffer or the private deep copy made by NewRecord); [Fresh r k]: the k-th allocation
   made while record r was processed; [Shared site]: a string of the loaded
   configuration (heap memory shared by every record and pipeline); [Static site]:
   a Go string constant (read-only program data). *)
Inductive mem_prov :=
| Own (r : nat)
| Fresh (r : nat) (k : nat)
| Shared (site : nat)
| Static (site : nat).

Inductive mem_str :=
| MEmpty                                      (* the Go value "" (nil data pointer) *)
| MStr (p : mem_prov) (off len : nat).

(* the same, seen from inside the processing of one record (owner erased) *)
Inductive mem_eprov := EOwn | EFresh (k : nat) | EShared (site : nat) | EStatic (site : nat).
Inductive mem_estr := EEmpty | EStr (p : mem_eprov) (off len : nat).

Definition mem_erase_prov (r : nat) (p : mem_prov) : option mem_eprov :=
  match p with
  | Own r' => if Nat.eqb r r' then Some EOwn else None
  | Fresh r' k => if Nat.eqb r r' then Some (EFresh k) else None
  | Shared s => Some (EShared s)
  | Static s => Some (EStatic s)
  end.

(* a string held by record r is usable only if it points into memory r may reach;
   [None] = the string points into the memory of another (possibly released) record *)
Definition mem_erase_str (r : nat) (s : mem_str) : option mem_estr :=
  match s with
  | MEmpty => Some EEmpty
  | MStr p off len => option_map (fun q => EStr q off len) (mem_erase_prov r p)
  end.

Definition mem_tag_prov (r : nat) (p : mem_eprov) : mem_prov :=
  match p with EOwn => Own r | EFresh k => Fresh r k | EShared s => Shared s | EStatic s => Static s end.

Definition mem_tag_str (r : nat) (s : mem_estr) : mem_str :=
  match s with EEmpty => MEmpty | EStr p off len => MStr (mem_tag_prov r p) off len end.

Fixpoint mem_erase_fields (r : nat) (fs : list mem_str) : option (list mem_estr) :=
  match fs with
  | [] => Some []
  | s :: fs' =>
    match mem_erase_str r s, mem_erase_fields r fs' with
    | Some e, Some es => Some (e :: es)
    | _, _ => None
    end
  end.

(* Go string constants reachable from a record: syslogprotocol.FacilityNames (sites 0-23)
   and syslogprotocol.SeverityNames (sites 24-31) *)
Definition mem_static_tbl : list bytes :=
  [ [107;101;114;110]; [117;115;101;114]; [109;97;105;108]; [100;97;101;109;111;110];
    [97;117;116;104]; [115;121;115;108;111;103]; [108;112;114]; [110;101;119;115];
    [117;117;99;112]; [99;114;111;110]; [97;117;116;104;112;114;105;118]; [102;116;112];
    [110;116;112]; [97;117;100;105;116]; [97;108;101;114;116]; [99;108;111;99;107];
    [108;111;99;97;108;48]; [108;111;99;97;108;49]; [108;111;99;97;108;50]; [108;111;99;97;108;51];
    [108;111;99;97;108;52]; [108;111;99;97;108;53]; [108;111;99;97;108;54]; [108;111;99;97;108;55];
    [101;109;101;114;103]; [97;108;101;114;116]; [99;114;105;116]; [101;114;114];
    [119;97;114;110;105;110;103]; [110;111;116;105;99;101]; [105;110;102;111]; [100;101;98;117;103] ].

(* the memory one record can reach while it is processed *)
Record mem_lmem := {
  m_own : bytes;          (* its backing bytes: exactly the [n] bytes of the input (a Go string has no capacity) *)
  m_fresh : list bytes;   (* allocations made for it *)
  m_cfg : list bytes;     (* shared configuration strings, by site *)
  m_dirty : bool          (* ghost: a non-empty write hit shared configuration memory *)
}.

Definition mem_region (m : mem_lmem) (p : mem_eprov) : bytes :=
  match p with
  | EOwn => m_own m
  | EFresh k => nth k (m_fresh m) []
  | EShared s => nth s (m_cfg m) []
  | EStatic s => nth s mem_static_tbl []
  end.

Definition mem_read (m : mem_lmem) (s : mem_estr) : bytes :=
  match s with
  | EEmpty => []
  | EStr p off len => firstn len (skipn off (mem_region m p))
  end.

Definition mem_elen (s : mem_estr) : nat :=
  match s with EEmpty => 0 | EStr _ _ len => len end.

(* s[a:b] of a string value, 0 <= a <= b <= len assumed by the callers *)
Definition mem_substr (s : mem_estr) (a b : nat) : mem_estr :=
  match s with
  | EEmpty => EEmpty
  | EStr p off _ => EStr p (off + a) (b - a)
  end.

(* result of an operation that may write memory *)
Inductive mem_res (A : Type) :=
| ROk (a : A)
| RFault            (* write to read-only memory: "unexpected fault address", the process dies *)
| RPanic (site : N). (* recoverable Go panic *)
Arguments ROk {A} a.
Arguments RFault {A}.
Arguments RPanic {A} site.

Definition mem_rbind {A B} (r : mem_res A) (f : A -> mem_res B) : mem_res B :=
  match r with ROk a => f a | RFault => RFault | RPanic s => RPanic s end.

Fixpoint mem_list_set {A} (l : list A) (i : nat) (x : A) : list A :=
  match l, i with
  | [], _ => []
  | _ :: l', O => x :: l'
  | y :: l', S i' => y :: mem_list_set l' i' x
  end.

(* bytes [pos, pos+|data|) of [old] replaced; never extends (Go's copy) *)
Definition mem_splice (old : bytes) (pos : nat) (data : bytes) : bytes :=
  firstn pos old ++ firstn (length old - pos) data ++ skipn (pos + length data) old.

(* memmove of [data] to offset [pos] of region [p].  Nothing is touched when data is empty. *)
Definition mem_write (m : mem_lmem) (p : mem_eprov) (pos : nat) (data : bytes) : mem_res mem_lmem :=
  match data with
  | [] => ROk m
  | _ =>
    match p with
    | EOwn => ROk {| m_own := mem_splice (m_own m) pos data; m_fresh := m_fresh m; m_cfg := m_cfg m; m_dirty := m_dirty m |}
    | EFresh k => ROk {| m_own := m_own m;
                         m_fresh := mem_list_set (m_fresh m) k (mem_splice (nth k (m_fresh m) []) pos data);
                         m_cfg := m_cfg m; m_dirty := m_dirty m |}
    | EShared s => ROk {| m_own := m_own m; m_fresh := m_fresh m;
                          m_cfg := mem_list_set (m_cfg m) s (mem_splice (nth s (m_cfg m) []) pos data);
                          m_dirty := true |}
    | EStatic _ => RFault
    end
  end.

(* allocate a new byte array holding [data]; returns the string over all of it *)
Definition mem_alloc (m : mem_lmem) (data : bytes) : mem_lmem * mem_estr :=
  ({| m_own := m_own m; m_fresh := m_fresh m ++ [data]; m_cfg := m_cfg m; m_dirty := m_dirty m |},
   EStr (EFresh (length (m_fresh m))) 0 (length data)).

(* ---- UTF-8 (unicode/utf8.DecodeRune acceptance ranges) and strings.ToValidUTF8(s, "") ---- *)

Definition mem_in (lo hi c : N) : bool := (lo <=? c) && (c <=? hi).
Definition mem_cont (c : N) : bool := mem_in 128 191 c.

(* length of the valid encoded rune at the start of s; 1 if there is none (RuneError, width 1) *)
Definition mem_rune_width (s : bytes) : nat :=
  match s with
  | [] => 1%nat
  | c0 :: t =>
    if c0 <? 128 then 1%nat
    else if mem_in 194 223 c0 then
      match t with c1 :: _ => if mem_cont c1 then 2%nat else 1%nat | _ => 1%nat end
    else if mem_in 224 239 c0 then
      match t with
      | c1 :: c2 :: _ =>
        let lo := if c0 =? 224 then 160 else 128 in
        let hi := if c0 =? 237 then 159 else 191 in
        if mem_in lo hi c1 && mem_cont c2 then 3%nat else 1%nat
      | _ => 1%nat
      end
    else if mem_in 240 244 c0 then
      match t with
      | c1 :: c2 :: c3 :: _ =>
        let lo := if c0 =? 240 then 144 else 128 in
        let hi := if c0 =? 244 then 143 else 191 in
        if mem_in lo hi c1 && mem_cont c2 && mem_cont c3 then 4%nat else 1%nat
      | _ => 1%nat
      end
    else 1%nat
  end.

(* strings.ToValidUTF8(s, ""): invalid bytes are removed one at a time *)
Fixpoint mem_to_valid_fuel (fuel : nat) (s : bytes) : bytes :=
  match fuel with
  | O => []
  | S f =>
    match s with
    | [] => []
    | c :: t =>
      if c <? 128 then c :: mem_to_valid_fuel f t
      else
        let w := mem_rune_width s in
        if Nat.eqb w 1 then mem_to_valid_fuel f t
        else firstn w s ++ mem_to_valid_fuel f (skipn w s)
    end
  end.
Definition mem_to_valid_utf8 (s : bytes) : bytes := mem_to_valid_fuel (length s) s.

(* util.findLastEndOfASCII *)
Fixpoint mem_last_ascii_end_aux (s : bytes) (i : nat) (best : nat) : nat :=
  match s with
  | [] => best
  | c :: t => mem_last_ascii_end_aux t (S i) (if c <=? 127 then S i else best)
  end.
Definition mem_last_ascii_end (s : bytes) : nat := mem_last_ascii_end_aux s 0 0.

(* util.OverwriteNTruncate(main, start, tail) where main is the span (p, off, len):
   n := copy(main[start:], tail); return main[:start+n].   start > len: slice bounds panic *)
Definition mem_overwrite_n_truncate (m : mem_lmem) (p : mem_eprov) (off len : nat) (start : nat) (tail : bytes)
  : mem_res (mem_lmem * nat) :=
  if Nat.ltb len start then RPanic 3
  else
    let n := Nat.min (len - start) (length tail) in
    mem_rbind (mem_write m p (off + start) (firstn n tail)) (fun m' => ROk (m', (start + n)%nat)).

(* util.CleanUTF8(s) on the span (p, off, len), in place; returns the new length *)
Definition mem_clean_utf8 (m : mem_lmem) (p : mem_eprov) (off len : nat) : mem_res (mem_lmem * nat) :=
  match len with
  | O => ROk (m, O)
  | _ =>
    let s := firstn len (skipn off (mem_region m p)) in
    let e := mem_last_ascii_end s in
    mem_overwrite_n_truncate m p off len e (mem_to_valid_utf8 (skipn e s))
  end.

(* ================================================================== *)
(* C. syslogparser.Parse                                               *)
(* ================================================================== *)

Record mem_params := {
  p_min_pool : N;     (* defs.InputLogMinRecordBytesToPool *)
  p_max_msg : N;      (* defs.InputLogMaxMessageBytes *)
  p_max_rec : N       (* defs.InputLogMaxRecordBytes *)
}.

(* field indices of the schema used throughout (the syslog fields first, then free fields) *)
Definition F_facility := 0%nat.
Definition F_level := 1%nat.
Definition F_log := 8%nat.

Fixpoint mem_index_byte (c : N) (s : bytes) : option nat :=
  match s with
  | [] => None
  | x :: t => if x =? c then Some 0%nat else option_map S (mem_index_byte c t)
  end.

(* strconv.Atoi restricted to what matters here: optional sign, at least one digit, digits only,
   result within int64 *)
Definition mem_atoi (s : bytes) : option Z :=
  let body (neg : bool) (d : bytes) :=
    match d with
    | [] => None
    | _ => match N_of_dec_acc d 0 with
           | Some n => if (n <=? 9223372036854775807) then Some (if neg then (- Z.of_N n)%Z else Z.of_N n)
                       else if (neg && (n =? 9223372036854775808))%bool then Some (- Z.of_N n)%Z else None
           | None => None
           end
    end in
  match s with
  | 43 :: d => body false d
  | 45 :: d => body true d
  | _ => body false s
  end.

Inductive mem_parse_status := PsOk | PsMalformed.

(* the record struct as the parser and the transforms see it (owner erased) *)
Record mem_lrec := {
  lr_fields : list mem_estr;
  lr_rawlen : Z;
  lr_ts : Z;
  lr_unesc : bool
}.

Definition mem_set_field (r : mem_lrec) (i : nat) (v : mem_estr) : mem_lrec :=
  {| lr_fields := mem_list_set (lr_fields r) i v; lr_rawlen := lr_rawlen r; lr_ts := lr_ts r; lr_unesc := lr_unesc r |}.
Definition mem_get_field (r : mem_lrec) (i : nat) : mem_estr := nth i (lr_fields r) EEmpty.

(* nextFieldBySpace on the span [off, off+len) of the record's own bytes:
   Some (length of the value) when a space exists *)
Definition mem_next_field (own : bytes) (off len : nat) : option nat :=
  mem_index_byte 32 (firstn len (skipn off own)).

(* the six header fields after the PRI: indices 2..7 (time host app pid source extradata) *)
Fixpoint mem_parse_rest (own : bytes) (r : mem_lrec) (idx : nat) (count : nat) (off len : nat)
  : option (mem_lrec * nat * nat) :=
  match count with
  | O => Some (r, off, len)
  | S c =>
    match mem_next_field own off len with
    | None => None
    | Some e => mem_parse_rest own (mem_set_field r idx (EStr EOwn off e)) (S idx) c (off + e + 1) (len - e - 1)
    end
  end.

(* level names: the input's levelMapping (8 configuration strings at sites lm..lm+7) or, when the
   configuration gives none, syslogprotocol.SeverityNames *)
Definition mem_level_str (level_sites : option nat) (m : mem_lmem) (sev : nat) : mem_estr :=
  match level_sites with
  | Some base => EStr (EShared (base + sev)) 0 (length (nth (base + sev) (m_cfg m) []))
  | None => EStr (EStatic (24 + sev)) 0 (length (nth (24 + sev) mem_static_tbl []))
  end.

(* Parse after NewRecord: [r] is the struct as it came from the pool (RawLength and Timestamp
   already assigned), m_own m = the input.  First the header (nothing is written)... *)
Inductive mem_head_res :=
| HdBad (r : mem_lrec)                   (* onMalformed; the fields set so far stay until Release clears them *)
| HdPanic (site : N)                     (* not produced any more: the first-token slice panic was repaired (C09) *)
| HdOk (r : mem_lrec) (off len : nat).   (* header fields set; the rest [off, off+len) is the message *)

Definition mem_first_is (c : N) (s : bytes) : bool :=
  match s with x :: _ => x =? c | [] => false end.

Definition mem_parse_head (level_sites : option nat) (m : mem_lmem) (r : mem_lrec) : mem_head_res :=
  let own := m_own m in
  let n := length own in
  if Nat.ltb n 32 then HdBad r else
  if negb (mem_first_is 60 own) then HdBad r else
    match mem_next_field own 0 n with
    | None => HdBad r
    | Some e =>
      if Nat.ltb e 2 then HdBad r (* !strings.HasSuffix(val, ">1"): a first token shorter than two bytes (after C09's repair; it used to panic) *)
      else
        let val := firstn e own in
        if negb (bytes_eqb (skipn (e - 2) val) [62; 49]) then HdBad r else
        match mem_atoi (firstn (e - 3) (skipn 1 val)) with
        | None => HdBad r
        | Some pri =>
          let fac := Z.shiftr pri 3 in
          if (fac <? 0)%Z || (24 <=? fac)%Z then HdBad r else
          let facn := Z.to_nat fac in
          let sev := Z.to_nat (Z.land pri 7) in
          let r1 := mem_set_field r F_facility (EStr (EStatic facn) 0 (length (nth facn mem_static_tbl []))) in
          let r2 := mem_set_field r1 F_level (mem_level_str level_sites m sev) in
          match mem_parse_rest own r2 2 6 (e + 1) (n - e - 1) with
          | None => HdBad r2
          | Some (r3, off, len) => HdOk r3 off len
          end
        end
    end.

(* ... then the message: cut at the limit, cleaned IN PLACE when it was cut or the record is long, Unescaped set.
   Returns memory, struct, and whether the message overflowed. *)
Definition mem_parse_msg (pa : mem_params) (m : mem_lmem) (r3 : mem_lrec) (off len : nat)
  : mem_res (mem_lmem * mem_lrec * bool) :=
  let n := length (m_own m) in
  let over := p_max_msg pa <? N.of_nat len in
  let len1 := if over then N.to_nat (p_max_msg pa) else len in
  mem_rbind (if over || (p_max_rec pa <=? N.of_nat n) then mem_clean_utf8 m EOwn off len1 else ROk (m, len1)) (fun ml =>
    let m' := fst ml in
    let len2 := snd ml in
    let msg := firstn len2 (skipn off (m_own m')) in
    ROk (m', {| lr_fields := mem_list_set (lr_fields r3) F_log (EStr EOwn off len2);
                lr_rawlen := lr_rawlen r3; lr_ts := lr_ts r3;
                lr_unesc := match mem_index_byte 10 msg with Some _ => true | None => false end |}, over)).

Definition mem_parse (pa : mem_params) (level_sites : option nat) (m : mem_lmem) (r : mem_lrec)
  : mem_res (mem_lmem * mem_lrec * mem_parse_status * bool) :=
  match mem_parse_head level_sites m r with
  | HdBad r' => ROk (m, r', PsMalformed, false)
  | HdPanic s => RPanic s
  | HdOk r3 off len =>
    mem_rbind (mem_parse_msg pa m r3 off len) (fun x => ROk (fst (fst x), snd (fst x), PsOk, snd x))
  end.

(* ================================================================== *)
(* D. transforms                                                       *)
(* ================================================================== *)

(* match conditions of tif / tdrop (bmatch): field, operator, operand *)
Inductive mem_cond :=
| CEq (f : nat) (v : bytes)        (* !!str-eq *)
| CNot (f : nat) (v : bytes)       (* !!str-not *)
| CAny (f : nat)                   (* !!str-any *)
| CLenGt (f : nat) (n : nat).      (* !!len-gt *)

(* a template part of addFields: literal text (configuration site) or a field *)
Inductive mem_part := PLit (site : nat) | PField (f : nat).

(* truncate before (in place) and after (copy) the fix of defect 19 *)
Inductive mem_trunc_mode := TruncInPlace | TruncCopy.

Inductive mem_stx :=
| TAddLit (dst : nat) (site : nat)                         (* addFields  dst: literal          (one part) *)
| TAddRef (dst : nat) (src : nat) (sl : option (option Z * option Z))
                                                           (* addFields  dst: $src / ${src[a:b]} (one part) *)
| TAddCat (dst : nat) (parts : list mem_part)              (* addFields  dst: several parts -> deep copy *)
| TMapValue (key : nat) (mapping : list (bytes * nat)) (dflt : option nat)
| TTruncate (key : nat) (maxlen : nat) (suffix : bytes)
| TUnescape (key : nat)
| TDelFields (keys : list nat).

Inductive mem_tx :=
| TSimple (t : mem_stx)
| TIf (conds : list mem_cond) (body : list mem_stx)
| TDrop (conds : list mem_cond).

Definition mem_cond_holds (m : mem_lmem) (r : mem_lrec) (c : mem_cond) : bool :=
  match c with
  | CEq f v => bytes_eqb (mem_read m (mem_get_field r f)) v
  | CNot f v => negb (bytes_eqb (mem_read m (mem_get_field r f)) v)
  | CAny f => Nat.ltb 0 (mem_elen (mem_get_field r f))
  | CLenGt f n => Nat.ltb n (mem_elen (mem_get_field r f))
  end.

(* stringtemplate.createVariableExpressionSolver: v[start:end] with Python-like clamping *)
Definition mem_slice_expr (v : mem_estr) (a b : option Z) : mem_estr :=
  let len := Z.of_nat (mem_elen v) in
  let start0 := match a with Some x => x | None => 0%Z end in
  let start1 := if (start0 <? 0)%Z then (start0 + len)%Z else start0 in
  let start2 := if (start1 <? 0)%Z then 0%Z else start1 in
  if (len <=? start2)%Z then EEmpty else
  let end0 := match b with Some x => x | None => 2147483647%Z end in
  let end1 := if (end0 <? 0)%Z then (end0 + len)%Z else end0 in
  if (end1 <? 0)%Z then EEmpty else
  let end2 := if (len <? end1)%Z then len else end1 in
  if (start2 <? end2)%Z then mem_substr v (Z.to_nat start2) (Z.to_nat end2) else EEmpty.

Definition mem_part_bytes (m : mem_lmem) (r : mem_lrec) (p : mem_part) : bytes :=
  match p with
  | PLit s => nth s (m_cfg m) []
  | PField f => mem_read m (mem_get_field r f)
  end.

(* bsupport.NewSyslogUnescaper + stringunescape.RunToBuffer *)
Definition mem_esc_map (c : N) : option N :=
  if c =? 98 then Some 8 else if c =? 102 then Some 12 else if c =? 110 then Some 10
  else if c =? 114 then Some 13 else if c =? 116 then Some 9 else if c =? 92 then Some 92 else None.

Fixpoint mem_unescape (s : bytes) : bytes :=
  match s with
  | [] => []
  | c :: t =>
    if c =? 92 then
      match t with
      | [] => [c]
      | d :: t' =>
        match mem_esc_map d with
        | Some x => x :: mem_unescape t'
        | None => c :: d :: mem_unescape t'
        end
      end
    else c :: mem_unescape t
  end.

Definition mem_mapping_lookup (mapping : list (bytes * nat)) (v : bytes) : option nat :=
  match find (fun kv => bytes_eqb (fst kv) v) mapping with
  | Some kv => Some (snd kv)
  | None => None
  end.

Definition mem_shared_str (m : mem_lmem) (site : nat) : mem_estr :=
  EStr (EShared site) 0 (length (nth site (m_cfg m) [])).

Definition mem_run_stx (mode : mem_trunc_mode) (m : mem_lmem) (r : mem_lrec) (t : mem_stx)
  : mem_res (mem_lmem * mem_lrec) :=
  match t with
  | TAddLit dst site =>
    let v := mem_shared_str m site in
    ROk (m, if Nat.ltb 0 (mem_elen v) then mem_set_field r dst v else r)
  | TAddRef dst src sl =>
    let v0 := mem_get_field r src in
    let v := match sl with None => v0 | Some (a, b) => mem_slice_expr v0 a b end in
    ROk (m, if Nat.ltb 0 (mem_elen v) then mem_set_field r dst v else r)
  | TAddCat dst parts =>
    let data := concat (map (mem_part_bytes m r) parts) in
    match data with
    | [] => ROk (m, r)
    | _ => let (m', v) := mem_alloc m data in ROk (m', mem_set_field r dst v)
    end
  | TMapValue key mapping dflt =>
    let old := mem_get_field r key in
    if Nat.eqb (mem_elen old) 0 then ROk (m, r) else
    let site := match mem_mapping_lookup mapping (mem_read m old) with Some s => Some s | None => dflt end in
    ROk (m, mem_set_field r key (match site with Some s => mem_shared_str m s | None => EEmpty end))
  | TTruncate key maxlen suffix =>
    match mem_get_field r key with
    | EEmpty => ROk (m, r)
    | EStr p off len =>
      if Nat.ltb (maxlen + length suffix) len then
        match mode with
        | TruncInPlace =>
          mem_rbind (mem_clean_utf8 m p off maxlen) (fun ml =>
            let '(m1, tl) := ml in
            mem_rbind (mem_overwrite_n_truncate m1 p off len tl suffix) (fun ml2 =>
              let '(m2, nl) := ml2 in ROk (m2, mem_set_field r key (EStr p off nl))))
        | TruncCopy =>
          (* buf := make([]byte, maxLen, ..); copy(buf, value); buf = CleanUTF8(buf); buf = append(buf, suffix...) *)
          let (m1, v) := mem_alloc m (firstn maxlen (mem_read m (EStr p off len))) in
          match v with
          | EStr q qoff _ =>
            mem_rbind (mem_clean_utf8 m1 q qoff maxlen) (fun ml =>
              let '(m2, tl) := ml in
              let k := length (m_fresh m) in
              let data := firstn tl (nth k (m_fresh m2) []) ++ suffix in
              ROk ({| m_own := m_own m2; m_fresh := mem_list_set (m_fresh m2) k data; m_cfg := m_cfg m2; m_dirty := m_dirty m2 |},
                   mem_set_field r key (EStr q 0 (length data))))
          | EEmpty => ROk (m1, r)
          end
        end
      else ROk (m, r)
    end
  | TUnescape key =>
    if lr_unesc r then ROk (m, r) else
    let r1 := {| lr_fields := lr_fields r; lr_rawlen := lr_rawlen r; lr_ts := lr_ts r; lr_unesc := true |} in
    let v := mem_get_field r key in
    let data := mem_read m v in
    match mem_index_byte 92 data with
    | None => ROk (m, r1)
    | Some _ =>
      (* dst := make([]byte, len(src)); the result is dst[:dend] *)
      let out := mem_unescape data in
      let (m', s) := mem_alloc m (out ++ repeat 0 (length data - length out)) in
      ROk (m', mem_set_field r1 key (mem_substr s 0 (length out)))
    end
  | TDelFields keys =>
    ROk (m, fold_left (fun acc k => mem_set_field acc k EEmpty) keys r)
  end.

Fixpoint mem_run_stxs (mode : mem_trunc_mode) (m : mem_lmem) (r : mem_lrec) (ts : list mem_stx)
  : mem_res (mem_lmem * mem_lrec) :=
  match ts with
  | [] => ROk (m, r)
  | t :: ts' => mem_rbind (mem_run_stx mode m r t) (fun mr => mem_run_stxs mode (fst mr) (snd mr) ts')
  end.

(* bsupport.RunTransforms: true = PASS, false = DROP (the first DROP ends the run) *)
Fixpoint mem_run_txs (mode : mem_trunc_mode) (m : mem_lmem) (r : mem_lrec) (ts : list mem_tx)
  : mem_res (mem_lmem * mem_lrec * bool) :=
  match ts with
  | [] => ROk (m, r, true)
  | TSimple t :: ts' =>
    mem_rbind (mem_run_stx mode m r t) (fun mr => mem_run_txs mode (fst mr) (snd mr) ts')
  | TIf conds body :: ts' =>
    if forallb (mem_cond_holds m r) conds
    then mem_rbind (mem_run_stxs mode m r body) (fun mr => mem_run_txs mode (fst mr) (snd mr) ts')
    else mem_run_txs mode m r ts'
  | TDrop conds :: ts' =>
    if forallb (mem_cond_holds m r) conds then ROk (m, r, false) else mem_run_txs mode m r ts'
  end.

(* ================================================================== *)
(* E. serializer, decoded view                                         *)
(* ================================================================== *)

(* rewriter chain of one field: inline fields (with their "name=" headers), then copy or unescape *)
Record mem_rw := { rw_inline : list (nat * bytes); rw_unescape : bool }.

Record mem_outcfg := {
  oc_env : list nat;                 (* environmentFields *)
  oc_hidden : list nat;              (* hiddenFields *)
  oc_rewrite : list (nat * mem_rw)   (* rewriteFields *)
}.

(* what a consumer decodes from one serialized record *)
Record mem_decoded := {
  d_ts : Z;
  d_fields : list (nat * bytes);     (* visible, non-empty fields in schema order *)
  d_env : list (nat * bytes)         (* every environment field, empty ones included *)
}.

Definition mem_nat_in (x : nat) (l : list nat) : bool := existsb (Nat.eqb x) l.

Fixpoint mem_find_rw (l : list (nat * mem_rw)) (i : nat) : option mem_rw :=
  match l with
  | [] => None
  | (j, w) :: l' => if Nat.eqb i j then Some w else mem_find_rw l' i
  end.

Definition mem_inline_bytes (m : mem_lmem) (r : mem_lrec) (inl : list (nat * bytes)) : bytes :=
  concat (map (fun fh => let v := mem_get_field r (fst fh) in
                         if Nat.ltb 0 (mem_elen v) then snd fh ++ mem_read m v ++ [32] else []) inl).

(* the rewriter_sets_flag parameter: the unescape REWRITER sets record.Unescaped (current code, true) *)
Definition mem_rewrite_value (rw_sets_flag : bool) (m : mem_lmem) (r : mem_lrec) (w : mem_rw) (v : mem_estr)
  : bytes * mem_lrec :=
  let head := mem_inline_bytes m r (rw_inline w) in
  if rw_unescape w then
    if lr_unesc r then (head ++ mem_read m v, r)
    else (head ++ mem_unescape (mem_read m v),
          if rw_sets_flag
          then {| lr_fields := lr_fields r; lr_rawlen := lr_rawlen r; lr_ts := lr_ts r; lr_unesc := true |}
          else r)
  else (head ++ mem_read m v, r).

(* fields 0..nfields-1 in order *)
Fixpoint mem_ser_fields (rw_sets_flag : bool) (oc : mem_outcfg) (m : mem_lmem) (r : mem_lrec)
         (i : nat) (fs : list mem_estr) : list (nat * bytes) * mem_lrec :=
  match fs with
  | [] => ([], r)
  | v :: fs' =>
    if mem_nat_in i (oc_env oc) || mem_nat_in i (oc_hidden oc) || Nat.eqb (mem_elen v) 0
    then mem_ser_fields rw_sets_flag oc m r (S i) fs'
    else
      let '(b, r1) := match mem_find_rw (oc_rewrite oc) i with
                      | Some w => mem_rewrite_value rw_sets_flag m r w v
                      | None => (mem_read m v, r)
                      end in
      let '(rest, r2) := mem_ser_fields rw_sets_flag oc m r1 (S i) fs' in
      ((i, b) :: rest, r2)
  end.

Definition mem_serialize (rw_sets_flag : bool) (nfields : nat) (oc : mem_outcfg) (m : mem_lmem) (r : mem_lrec)
  : mem_decoded * mem_lrec :=
  let '(vis, r') := mem_ser_fields rw_sets_flag oc m r 0 (firstn nfields (lr_fields r)) in
  ({| d_ts := lr_ts r; d_fields := vis;
      d_env := map (fun f => (f, mem_read m (mem_get_field r f))) (oc_env oc) |}, r').

(* ================================================================== *)
(* F. allocator, pools, reference counts, the pipeline as events       *)
(* ================================================================== *)

Record mem_config := {
  c_params : mem_params;
  c_nfields : nat;                    (* named fields of the schema *)
  c_maxfields : nat;                  (* schema.maxFields >= c_nfields: length of LogRecord.Fields *)
  c_level_sites : option nat;         (* input levelMapping (8 sites) or none *)
  c_cfg_init : list bytes;            (* configuration strings as loaded *)
  c_extract : list mem_tx;            (* input extractions (run by compositeParser) *)
  c_transforms : list mem_tx;         (* pipeline transformations *)
  c_outputs : list mem_outcfg;        (* one per output; reference count = their number *)
  c_trunc_mode : mem_trunc_mode;
  c_rw_sets_flag : bool
}.

Definition mem_nout (c : mem_config) : Z := Z.of_nat (length (c_outputs c)).

(* base.LogRecord *)
Record mem_rstruct := {
  r_fields : list mem_str;
  r_rawlen : Z;
  r_ts : Z;                  (* 0 stands for time.Time{} *)
  r_unesc : bool;
  r_backbuf : option nat;    (* id of the pooled buffer *)
  r_refc : Z
}.

(* newLogRecord *)
Definition mem_new_struct (maxfields : nat) : mem_rstruct :=
  {| r_fields := repeat MEmpty maxfields; r_rawlen := 0; r_ts := 0; r_unesc := false; r_backbuf := None; r_refc := 0 |}.

Inductive mem_phase := PhParsed | PhOut (done : nat).

Record mem_live := {
  l_rid : nat;            (* ghost: number of this use of the struct, unique per NewRecord *)
  l_n : nat;              (* length of the input *)
  l_copy : bytes;         (* private deep copy of the input (short records), [] when a pooled buffer is used *)
  l_fresh : list bytes;   (* allocations made for this record; garbage once the record is released *)
  l_phase : mem_phase
}.

Inductive mem_slot_state := SInPool | SLive (l : mem_live) | SAbandoned.
Record mem_slot := { sl_rec : mem_rstruct; sl_state : mem_slot_state }.

(* a pooled backing buffer *)
Record mem_buf := { b_data : bytes; b_class : N; b_free : bool; b_gen : nat }.

Inductive mem_status := StMalformed | StDropped | StPassed.

Record mem_gstate := {
  g_slots : list mem_slot;
  g_bufs : list mem_buf;
  g_cfg : list bytes;                             (* shared configuration memory *)
  g_dirty : bool;
  g_next_rid : nat;
  g_log : list (nat * bytes * Z);                 (* ghost: rid, input, fallback timestamp *)
  g_status : list (nat * mem_status);             (* ghost: what happened to rid *)
  g_out : list (nat * nat * mem_decoded)          (* rid, output index, decoded record: copied into the chunk *)
}.

Definition mem_init (c : mem_config) : mem_gstate :=
  {| g_slots := []; g_bufs := []; g_cfg := c_cfg_init c; g_dirty := false; g_next_rid := 0;
     g_log := []; g_status := []; g_out := [] |}.

Inductive mem_event :=
| EvParse (cs : option nat) (cb : option nat) (input : bytes) (ts : Z)
    (* one Parse call.  cs: which pooled struct recordPool.Get() returns (None = a new one);
       cb: which pooled buffer of the right class backbufPools.Get() returns (None = a new one) *)
| EvTransform (h : nat)   (* the worker runs the transformations on slot h *)
| EvOutput (h : nat).     (* the worker serializes slot h for its next output and releases it once *)

(* failure of a step *)
Inductive mem_stop :=
| NotEnabled            (* the event is not possible in this state (not an execution of the system) *)
| Dangling              (* a string pointing into another record's memory was dereferenced *)
| Fault                 (* write to read-only memory *)
| GoPanic (site : N)    (* a Go panic inside the parser or a transform *)
| NegativeRefCount      (* LogAllocator.Release: "negative reference count in record" *)
| PoolIndexPanic.       (* BytesPoolBy2n: index out of range *)

Inductive mem_step_res := StepOk (g : mem_gstate) | StepStop (s : mem_stop).

Definition mem_upd_slot (g : mem_gstate) (h : nat) (s : mem_slot) : list mem_slot := mem_list_set (g_slots g) h s.

(* own bytes of a live record: the first n bytes of its pooled buffer, or its private copy *)
Definition mem_own_view (g : mem_gstate) (r : mem_rstruct) (l : mem_live) : bytes :=
  match r_backbuf r with
  | Some b => firstn (l_n l) (b_data (nth b (g_bufs g) {| b_data := []; b_class := 0; b_free := true; b_gen := 0 |}))
  | None => l_copy l
  end.

Definition mem_dummy_buf : mem_buf := {| b_data := []; b_class := 0; b_free := true; b_gen := 0 |}.

(* write the own bytes back *)
Definition mem_store_own (bufs : list mem_buf) (r : mem_rstruct) (l : mem_live) (own : bytes)
  : list mem_buf * mem_live :=
  match r_backbuf r with
  | Some b =>
    let old := nth b bufs mem_dummy_buf in
    (mem_list_set bufs b {| b_data := own ++ skipn (l_n l) (b_data old); b_class := b_class old;
                            b_free := b_free old; b_gen := b_gen old |}, l)
  | None => (bufs, {| l_rid := l_rid l; l_n := l_n l; l_copy := own; l_fresh := l_fresh l; l_phase := l_phase l |})
  end.

Definition mem_local_of (g : mem_gstate) (r : mem_rstruct) (l : mem_live) : option (mem_lmem * mem_lrec) :=
  match mem_erase_fields (l_rid l) (r_fields r) with
  | None => None
  | Some ef =>
    Some ({| m_own := mem_own_view g r l; m_fresh := l_fresh l; m_cfg := g_cfg g; m_dirty := g_dirty g |},
          {| lr_fields := ef; lr_rawlen := r_rawlen r; lr_ts := r_ts r; lr_unesc := r_unesc r |})
  end.

(* put the result of local processing back into the global state *)
Definition mem_global_of (g : mem_gstate) (h : nat) (r : mem_rstruct) (l : mem_live) (ph : mem_phase)
           (m : mem_lmem) (lr : mem_lrec) : mem_gstate :=
  let l1 := {| l_rid := l_rid l; l_n := l_n l; l_copy := l_copy l; l_fresh := m_fresh m; l_phase := ph |} in
  let '(bufs, l2) := mem_store_own (g_bufs g) r l1 (m_own m) in
  let r' := {| r_fields := map (mem_tag_str (l_rid l)) (lr_fields lr); r_rawlen := lr_rawlen lr; r_ts := lr_ts lr;
               r_unesc := lr_unesc lr; r_backbuf := r_backbuf r; r_refc := r_refc r |} in
  {| g_slots := mem_upd_slot g h {| sl_rec := r'; sl_state := SLive l2 |};
     g_bufs := bufs; g_cfg := m_cfg m; g_dirty := m_dirty m; g_next_rid := g_next_rid g;
     g_log := g_log g; g_status := g_status g; g_out := g_out g |}.

(* LogAllocator.Release on slot h *)
Definition mem_release (g : mem_gstate) (h : nat) : mem_step_res :=
  match nth_error (g_slots g) h with
  | None => StepStop NotEnabled
  | Some s =>
    let r := sl_rec s in
    let rc := (r_refc r - 1)%Z in
    if (rc <? 0)%Z then StepStop NegativeRefCount
    else if (0 <? rc)%Z then
      StepOk {| g_slots := mem_upd_slot g h {| sl_rec := {| r_fields := r_fields r; r_rawlen := r_rawlen r; r_ts := r_ts r;
                                                            r_unesc := r_unesc r; r_backbuf := r_backbuf r; r_refc := rc |};
                                               sl_state := sl_state s |};
                g_bufs := g_bufs g; g_cfg := g_cfg g; g_dirty := g_dirty g; g_next_rid := g_next_rid g;
                g_log := g_log g; g_status := g_status g; g_out := g_out g |}
    else
      (* every field "", RawLength 0, Timestamp zero; Unescaped is NOT touched; then recycleRecord *)
      let cleared := {| r_fields := map (fun _ => MEmpty) (r_fields r); r_rawlen := 0; r_ts := 0;
                        r_unesc := r_unesc r; r_backbuf := None; r_refc := rc |} in
      match r_backbuf r with
      | None =>
        StepOk {| g_slots := mem_upd_slot g h {| sl_rec := cleared; sl_state := SInPool |};
                  g_bufs := g_bufs g; g_cfg := g_cfg g; g_dirty := g_dirty g; g_next_rid := g_next_rid g;
                  g_log := g_log g; g_status := g_status g; g_out := g_out g |}
      | Some b =>
        let old := nth b (g_bufs g) mem_dummy_buf in
        match mem_put_class (N.of_nat (length (b_data old))) with
        | Ok c =>
          StepOk {| g_slots := mem_upd_slot g h {| sl_rec := cleared; sl_state := SInPool |};
                    g_bufs := mem_list_set (g_bufs g) b {| b_data := b_data old; b_class := c; b_free := true; b_gen := S (b_gen old) |};
                    g_cfg := g_cfg g; g_dirty := g_dirty g; g_next_rid := g_next_rid g;
                    g_log := g_log g; g_status := g_status g; g_out := g_out g |}
        | _ => StepStop PoolIndexPanic
        end
      end
  end.

(* a record that is released while other references remain is never recycled: garbage *)
Definition mem_abandon_if_live (g : mem_gstate) (h : nat) : mem_gstate :=
  match nth_error (g_slots g) h with
  | Some {| sl_rec := r; sl_state := SLive _ |} =>
    {| g_slots := mem_upd_slot g h {| sl_rec := r; sl_state := SAbandoned |};
       g_bufs := g_bufs g; g_cfg := g_cfg g; g_dirty := g_dirty g; g_next_rid := g_next_rid g;
       g_log := g_log g; g_status := g_status g; g_out := g_out g |}
  | _ => g
  end.

Definition mem_set_status (g : mem_gstate) (rid : nat) (st : mem_status) : mem_gstate :=
  {| g_slots := g_slots g; g_bufs := g_bufs g; g_cfg := g_cfg g; g_dirty := g_dirty g; g_next_rid := g_next_rid g;
     g_log := g_log g; g_status := g_status g ++ [(rid, st)]; g_out := g_out g |}.

(* Release of a record that will not be used again by its holder (malformed / dropped) *)
Definition mem_release_final (g : mem_gstate) (h : nat) (rid : nat) (st : mem_status) : mem_step_res :=
  match mem_release g h with
  | StepOk g' => StepOk (mem_set_status (mem_abandon_if_live g' h) rid st)
  | StepStop s => StepStop s
  end.

Definition mem_lres_stop {A} (r : mem_res A) : mem_stop :=
  match r with RFault => Fault | RPanic s => GoPanic s | ROk _ => NotEnabled end.

(* LogAllocator.NewRecord: struct from recordPool, buffer from backbufPools when the input is long *)
Definition mem_new_record (c : mem_config) (g : mem_gstate) (cs cb : option nat) (input : bytes)
  : option (nat * mem_rstruct * list mem_buf * bytes (* l_copy *) * list mem_slot) + mem_stop :=
  let n := N.of_nat (length input) in
  (* the struct *)
  let pick :=
    match cs with
    | None => Some (length (g_slots g), mem_new_struct (c_maxfields c), g_slots g ++ [{| sl_rec := mem_new_struct (c_maxfields c); sl_state := SInPool |}])
    | Some h =>
      match nth_error (g_slots g) h with
      | Some {| sl_rec := r; sl_state := SInPool |} => Some (h, r, g_slots g)
      | _ => None
      end
    end in
  match pick with
  | None => inl None
  | Some (h, r, slots) =>
    let r1 := {| r_fields := r_fields r; r_rawlen := r_rawlen r; r_ts := r_ts r; r_unesc := r_unesc r;
                 r_backbuf := r_backbuf r; r_refc := (r_refc r + mem_nout c)%Z |} in
    if (p_min_pool (c_params c) <? n) then
      match mem_get_class n with
      | Ok cl =>
        match cb with
        | None =>
          (* sync.Pool New: make([]byte, 1<<cl) *)
          let b := length (g_bufs g) in
          let data := input ++ repeat 0 (N.to_nat (mem_class_size cl) - length input) in
          inl (Some (h, {| r_fields := r_fields r1; r_rawlen := r_rawlen r1; r_ts := r_ts r1; r_unesc := r_unesc r1;
                           r_backbuf := Some b; r_refc := r_refc r1 |},
                     g_bufs g ++ [{| b_data := data; b_class := cl; b_free := false; b_gen := 0 |}], [], slots))
        | Some b =>
          match nth_error (g_bufs g) b with
          | Some old =>
            if b_free old && (b_class old =? cl) then
              (* n := copy(buffer, input): the stale tail stays *)
              let data := firstn (length (b_data old)) input ++ skipn (length input) (b_data old) in
              inl (Some (h, {| r_fields := r_fields r1; r_rawlen := r_rawlen r1; r_ts := r_ts r1; r_unesc := r_unesc r1;
                               r_backbuf := Some b; r_refc := r_refc r1 |},
                         mem_list_set (g_bufs g) b {| b_data := data; b_class := b_class old; b_free := false; b_gen := b_gen old |},
                         [], slots))
            else inl None
          | None => inl None
          end
        end
      | _ => inr PoolIndexPanic
      end
    else
      match cb with
      | None => inl (Some (h, r1, g_bufs g, input, slots))   (* util.DeepCopyStringFromBytes(input) *)
      | Some _ => inl None
      end
  end.

Definition mem_step (c : mem_config) (g : mem_gstate) (e : mem_event) : mem_step_res :=
  match e with
  | EvParse cs cb input ts =>
    match mem_new_record c g cs cb input with
    | inr s => StepStop s
    | inl None => StepStop NotEnabled
    | inl (Some (h, r, bufs, cpy, slots)) =>
      let rid := g_next_rid g in
      let l := {| l_rid := rid; l_n := length input; l_copy := cpy; l_fresh := []; l_phase := PhParsed |} in
      (* record.RawLength = len(input); record.Timestamp = timestamp *)
      let r1 := {| r_fields := r_fields r; r_rawlen := Z.of_nat (length input); r_ts := ts; r_unesc := r_unesc r;
                   r_backbuf := r_backbuf r; r_refc := r_refc r |} in
      let g1 := {| g_slots := mem_list_set slots h {| sl_rec := r1; sl_state := SLive l |};
                   g_bufs := bufs; g_cfg := g_cfg g; g_dirty := g_dirty g; g_next_rid := S rid;
                   g_log := g_log g ++ [(rid, input, ts)]; g_status := g_status g; g_out := g_out g |} in
      match mem_local_of g1 r1 l with
      | None => StepStop Dangling
      | Some (m, lr) =>
        match mem_parse (c_params c) (c_level_sites c) m lr with
        | ROk (m1, lr1, PsMalformed, _) =>
          mem_release_final (mem_global_of g1 h r1 l PhParsed m1 lr1) h rid StMalformed
        | ROk (m1, lr1, PsOk, _) =>
          (* compositeParser: the extractions run at once *)
          match mem_run_txs (c_trunc_mode c) m1 lr1 (c_extract c) with
          | ROk (m2, lr2, true) => StepOk (mem_global_of g1 h r1 l PhParsed m2 lr2)
          | ROk (m2, lr2, false) => mem_release_final (mem_global_of g1 h r1 l PhParsed m2 lr2) h rid StDropped
          | bad => StepStop (mem_lres_stop bad)
          end
        | bad => StepStop (mem_lres_stop bad)
        end
      end
    end
  | EvTransform h =>
    match nth_error (g_slots g) h with
    | Some {| sl_rec := r; sl_state := SLive l |} =>
      match l_phase l with
      | PhParsed =>
        match mem_local_of g r l with
        | None => StepStop Dangling
        | Some (m, lr) =>
          match mem_run_txs (c_trunc_mode c) m lr (c_transforms c) with
          | ROk (m2, lr2, true) => StepOk (mem_set_status (mem_global_of g h r l (PhOut 0) m2 lr2) (l_rid l) StPassed)
          | ROk (m2, lr2, false) => mem_release_final (mem_global_of g h r l PhParsed m2 lr2) h (l_rid l) StDropped
          | bad => StepStop (mem_lres_stop bad)
          end
        end
      | _ => StepStop NotEnabled
      end
    | _ => StepStop NotEnabled
    end
  | EvOutput h =>
    match nth_error (g_slots g) h with
    | Some {| sl_rec := r; sl_state := SLive l |} =>
      match l_phase l with
      | PhOut k =>
        match nth_error (c_outputs c) k with
        | None => StepStop NotEnabled
        | Some oc =>
          match mem_local_of g r l with
          | None => StepStop Dangling
          | Some (m, lr) =>
            let '(d, lr1) := mem_serialize (c_rw_sets_flag c) (c_nfields c) oc m lr in
            let g1 := mem_global_of g h r l (PhOut (S k)) m lr1 in
            let g2 := {| g_slots := g_slots g1; g_bufs := g_bufs g1; g_cfg := g_cfg g1; g_dirty := g_dirty g1;
                         g_next_rid := g_next_rid g1; g_log := g_log g1; g_status := g_status g1;
                         g_out := g_out g1 ++ [(l_rid l, k, d)] |} in
            mem_release g2 h
          end
        end
      | _ => StepStop NotEnabled
      end
    | _ => StepStop NotEnabled
    end
  end.

Fixpoint mem_run (c : mem_config) (g : mem_gstate) (evs : list mem_event) : mem_step_res :=
  match evs with
  | [] => StepOk g
  | e :: evs' =>
    match mem_step c g e with
    | StepOk g' => mem_run c g' evs'
    | StepStop s => StepStop s
    end
  end.

(* the record alone on a fresh pipeline: parse, transform, every output *)
Definition mem_alone_trace (c : mem_config) (input : bytes) (ts : Z) : list mem_event :=
  EvParse None None input ts :: EvTransform 0 :: repeat (EvOutput 0) (length (c_outputs c)).
