(* Model of buffer/hybridbuffer (bufferer.go, outputfeeder.go, chunkmanager.go, chunkoperator.go)
   as a labelled transition system.  No proofs in this file.

   Processes: the caller(s) of Accept / Destroy, the outputFeeder goroutine (program counter
   [fpc]), the consumer(s) registered through RegisterNewConsumer.  A Go channel is a bounded
   FIFO list.  One event = one goroutine's code between two communication points; the outcome
   of every system call is the environment's choice carried by the event (write script, read
   error) or follows from the modelled directory (Model/FileWrite.v).

   [step] is executable; a run is any event list accepted by [step].  The ghost fields (st_gh,
   st_ever) are history variables: they do not influence any decision of the buffer.

   Environment contract built into the enabling conditions (stated in design_notes/C03.md):
   - chunk IDs given to Accept are accepted by the output's chunk-ID matcher and fresh (never
     used before on this directory): output/shared/chunkidgen.go, property C11;
   - Accept is not called after Destroy (orchestrate/obase/pipelines.go stops the worker first;
     the real code would panic with "send on closed channel");
   - consumer callbacks are made only between RegisterNewConsumer and OnFinished
     (base.ChunkConsumerArgs);
   - channel capacities are at least 1 (an unbuffered channel is a rendezvous, not modelled);
   - files under names the matcher accepts are not modified behind the running buffer's back. *)
From SV Require Import Model.Common Model.FileWrite.

(* base.LogChunk *)
Record chunk := { c_id : name; c_data : option bytes (* None: Data == nil *); c_saved : bool }.

Definition dlen (c : chunk) : Z :=            (* len(chunk.Data) *)
  match c_data c with Some d => Z.of_nat (length d) | None => 0%Z end.

(* every metric of the package (prefix buffer_, label storage=hybridBuffer) *)
Record mets := {
  m_pbytes : Z;
  m_pchunks : Z;
  m_ioerr : Z;
  m_pending : Z;
  m_in_t : Z;
  m_in_p : Z;
  m_consumed : Z;
  m_leftover : Z;
  m_dropped : Z;
  m_q_t : Z;
  m_q_p : Z
}.
Definition add_pbytes (v : Z) (x : mets) : mets :=
  {| m_pbytes := (m_pbytes x + v)%Z; m_pchunks := m_pchunks x; m_ioerr := m_ioerr x; m_pending := m_pending x; m_in_t := m_in_t x; m_in_p := m_in_p x; m_consumed := m_consumed x; m_leftover := m_leftover x; m_dropped := m_dropped x; m_q_t := m_q_t x; m_q_p := m_q_p x |}.
Definition add_pchunks (v : Z) (x : mets) : mets :=
  {| m_pbytes := m_pbytes x; m_pchunks := (m_pchunks x + v)%Z; m_ioerr := m_ioerr x; m_pending := m_pending x; m_in_t := m_in_t x; m_in_p := m_in_p x; m_consumed := m_consumed x; m_leftover := m_leftover x; m_dropped := m_dropped x; m_q_t := m_q_t x; m_q_p := m_q_p x |}.
Definition add_ioerr (v : Z) (x : mets) : mets :=
  {| m_pbytes := m_pbytes x; m_pchunks := m_pchunks x; m_ioerr := (m_ioerr x + v)%Z; m_pending := m_pending x; m_in_t := m_in_t x; m_in_p := m_in_p x; m_consumed := m_consumed x; m_leftover := m_leftover x; m_dropped := m_dropped x; m_q_t := m_q_t x; m_q_p := m_q_p x |}.
Definition add_pending (v : Z) (x : mets) : mets :=
  {| m_pbytes := m_pbytes x; m_pchunks := m_pchunks x; m_ioerr := m_ioerr x; m_pending := (m_pending x + v)%Z; m_in_t := m_in_t x; m_in_p := m_in_p x; m_consumed := m_consumed x; m_leftover := m_leftover x; m_dropped := m_dropped x; m_q_t := m_q_t x; m_q_p := m_q_p x |}.
Definition add_in_t (v : Z) (x : mets) : mets :=
  {| m_pbytes := m_pbytes x; m_pchunks := m_pchunks x; m_ioerr := m_ioerr x; m_pending := m_pending x; m_in_t := (m_in_t x + v)%Z; m_in_p := m_in_p x; m_consumed := m_consumed x; m_leftover := m_leftover x; m_dropped := m_dropped x; m_q_t := m_q_t x; m_q_p := m_q_p x |}.
Definition add_in_p (v : Z) (x : mets) : mets :=
  {| m_pbytes := m_pbytes x; m_pchunks := m_pchunks x; m_ioerr := m_ioerr x; m_pending := m_pending x; m_in_t := m_in_t x; m_in_p := (m_in_p x + v)%Z; m_consumed := m_consumed x; m_leftover := m_leftover x; m_dropped := m_dropped x; m_q_t := m_q_t x; m_q_p := m_q_p x |}.
Definition add_consumed (v : Z) (x : mets) : mets :=
  {| m_pbytes := m_pbytes x; m_pchunks := m_pchunks x; m_ioerr := m_ioerr x; m_pending := m_pending x; m_in_t := m_in_t x; m_in_p := m_in_p x; m_consumed := (m_consumed x + v)%Z; m_leftover := m_leftover x; m_dropped := m_dropped x; m_q_t := m_q_t x; m_q_p := m_q_p x |}.
Definition add_leftover (v : Z) (x : mets) : mets :=
  {| m_pbytes := m_pbytes x; m_pchunks := m_pchunks x; m_ioerr := m_ioerr x; m_pending := m_pending x; m_in_t := m_in_t x; m_in_p := m_in_p x; m_consumed := m_consumed x; m_leftover := (m_leftover x + v)%Z; m_dropped := m_dropped x; m_q_t := m_q_t x; m_q_p := m_q_p x |}.
Definition add_dropped (v : Z) (x : mets) : mets :=
  {| m_pbytes := m_pbytes x; m_pchunks := m_pchunks x; m_ioerr := m_ioerr x; m_pending := m_pending x; m_in_t := m_in_t x; m_in_p := m_in_p x; m_consumed := m_consumed x; m_leftover := m_leftover x; m_dropped := (m_dropped x + v)%Z; m_q_t := m_q_t x; m_q_p := m_q_p x |}.
Definition add_q_t (v : Z) (x : mets) : mets :=
  {| m_pbytes := m_pbytes x; m_pchunks := m_pchunks x; m_ioerr := m_ioerr x; m_pending := m_pending x; m_in_t := m_in_t x; m_in_p := m_in_p x; m_consumed := m_consumed x; m_leftover := m_leftover x; m_dropped := m_dropped x; m_q_t := (m_q_t x + v)%Z; m_q_p := m_q_p x |}.
Definition add_q_p (v : Z) (x : mets) : mets :=
  {| m_pbytes := m_pbytes x; m_pchunks := m_pchunks x; m_ioerr := m_ioerr x; m_pending := m_pending x; m_in_t := m_in_t x; m_in_p := m_in_p x; m_consumed := m_consumed x; m_leftover := m_leftover x; m_dropped := m_dropped x; m_q_t := m_q_t x; m_q_p := (m_q_p x + v)%Z |}.

Definition mets0 : mets :=
  {| m_pbytes := 0; m_pchunks := 0; m_ioerr := 0; m_pending := 0; m_in_t := 0; m_in_p := 0;
     m_consumed := 0; m_leftover := 0; m_dropped := 0; m_q_t := 0; m_q_p := 0 |}%Z.

(* ---------- chunkOperator ---------- *)

(* OnChunkDropped *)
Definition op_on_dropped (m : mets) (c : chunk) : mets :=
  if c_saved c then add_pbytes (- dlen c) (add_pchunks (-1) m) else m.

(* RemoveChunk *)
Definition op_remove (dirok : bool) (d : dirT) (m : mets) (c : chunk) : dirT * mets :=
  if negb (c_saved c) then (d, m) else
  if negb dirok then (d, m) (* "BUG: cannot remove chunk with nil dir" *) else
  match unlink_file_at d (c_id c) with
  | (d', true) => (d', add_pbytes (- dlen c) (add_pchunks (-1) m))
  | (_, false) => (d, add_ioerr 1 m)
  end.

(* UnloadChunk, first half: everything up to the call of util.WriteFileAt *)
Inductive ucheck := UYes | UNo | UWrite (data : bytes).

Definition unload_check (dirok : bool) (maxb : Z) (m : mets) (c : chunk) : ucheck :=
  if c_saved c then UYes else
  match c_data c with
  | None => UNo                                   (* "BUG: cannot unload nil chunk" *)
  | Some data =>
    if negb dirok then UNo                        (* fail silently *)
    else if (m_pbytes m + Z.of_nat (length data) >? maxb)%Z then UNo   (* space limit reached *)
    else UWrite data
  end.

(* UnloadChunk, second half: the write and the bookkeeping after it *)
Inductive ures := URet (d : dirT) (m : mets) (c : chunk) (ok : bool) | UDied (d : dirT).

Definition unloaded (c : chunk) : chunk := {| c_id := c_id c; c_data := None; c_saved := true |}.

Definition unload_write (ws : wscript) (d : dirT) (m : mets) (c : chunk) (data : bytes) : ures :=
  match write_file_at ws d (c_id c) data with
  | (d', WOk) => URet d' (add_pbytes (Z.of_nat (length data)) (add_pchunks 1 m)) (unloaded c) true
  | (d', WErr) => URet d' (add_ioerr 1 m) c false
  | (d', WDied) => UDied d'
  end.

Definition unload (dirok : bool) (maxb : Z) (ws : wscript) (d : dirT) (m : mets) (c : chunk) : ures :=
  match unload_check dirok maxb m c with
  | UYes => URet d m c true
  | UNo => URet d m c false
  | UWrite data => unload_write ws d m c data
  end.

(* LoadChunk *)
Definition op_load (dirok rerr : bool) (d : dirT) (m : mets) (c : chunk) : mets * chunk * bool :=
  match c_data c with
  | Some _ => (m, c, true)
  | None =>
    if negb (c_saved c) then (m, c, false)        (* "BUG: cannot load unsaved chunk" *)
    else if negb dirok then (m, c, false)         (* "BUG: cannot load chunk with nil dir" *)
    else match read_file_at rerr d (c_id c) with
         | Some data => (m, {| c_id := c_id c; c_data := Some data; c_saved := c_saved c |}, true)
         | None => (add_ioerr 1 m, c, false)
         end
  end.

(* ---------- chunkManager ---------- *)

(* OnChunkDropped *)
Definition man_on_dropped (m : mets) (c : chunk) : mets :=
  add_dropped 1 (add_pending (-1) (op_on_dropped m c)).

(* OnChunkInput *)
Definition man_on_input (loaded : bool) (m : mets) : mets :=
  if loaded then add_in_t 1 (add_pending 1 m) else add_in_p 1 (add_pending 1 m).

(* ---------- the feeder's program counter (outputfeeder.go Run) ---------- *)
Inductive fpc :=
| FRecv                                  (* at  chunk, ok := <-feeder.inputChannel *)
| FLoad (c : chunk)                      (* received c; about to call loadToOutput(c) *)
| FPush (c loaded : chunk)               (* in loadToOutput at the select; c = Run's own copy *)
| FSave (last : option chunk)            (* in saveQueued (rest of inputChannel, lastInputChunk), between two chunks *)
| FSaveW (last : option chunk) (c : chunk)  (* in UnloadChunk(c): space check passed, write not yet done *)
| FWait                                  (* at consumerCounter.Wait() *)
| FSaveOut                               (* in saveOutput (what is left in outputChannel), between two chunks *)
| FSaveOutW (c : chunk)                  (* in UnloadChunk(c) called by saveOutput: check passed, write not yet done *)
| FStopped.                              (* after stopped.Signal() *)

(* ---------- history variables ---------- *)
Record ghost := {
  g_acc : list (name * bytes * bool);
  g_rec : list name;
  g_init : dirT;
  g_proc : list (name * bool);
  g_offered : list chunk;
  g_out : list (chunk * bool);
  g_confirmed : list name;
  g_dropped : list name;
  g_retained : list name;
  g_initbytes : Z;
  g_maxfw : Z
}.
Definition gset_acc (v : list (name * bytes * bool)) (x : ghost) : ghost :=
  {| g_acc := v; g_rec := g_rec x; g_init := g_init x; g_proc := g_proc x; g_offered := g_offered x; g_out := g_out x; g_confirmed := g_confirmed x; g_dropped := g_dropped x; g_retained := g_retained x; g_initbytes := g_initbytes x; g_maxfw := g_maxfw x |}.
Definition gset_rec (v : list name) (x : ghost) : ghost :=
  {| g_acc := g_acc x; g_rec := v; g_init := g_init x; g_proc := g_proc x; g_offered := g_offered x; g_out := g_out x; g_confirmed := g_confirmed x; g_dropped := g_dropped x; g_retained := g_retained x; g_initbytes := g_initbytes x; g_maxfw := g_maxfw x |}.
Definition gset_init (v : dirT) (x : ghost) : ghost :=
  {| g_acc := g_acc x; g_rec := g_rec x; g_init := v; g_proc := g_proc x; g_offered := g_offered x; g_out := g_out x; g_confirmed := g_confirmed x; g_dropped := g_dropped x; g_retained := g_retained x; g_initbytes := g_initbytes x; g_maxfw := g_maxfw x |}.
Definition gset_proc (v : list (name * bool)) (x : ghost) : ghost :=
  {| g_acc := g_acc x; g_rec := g_rec x; g_init := g_init x; g_proc := v; g_offered := g_offered x; g_out := g_out x; g_confirmed := g_confirmed x; g_dropped := g_dropped x; g_retained := g_retained x; g_initbytes := g_initbytes x; g_maxfw := g_maxfw x |}.
Definition gset_offered (v : list chunk) (x : ghost) : ghost :=
  {| g_acc := g_acc x; g_rec := g_rec x; g_init := g_init x; g_proc := g_proc x; g_offered := v; g_out := g_out x; g_confirmed := g_confirmed x; g_dropped := g_dropped x; g_retained := g_retained x; g_initbytes := g_initbytes x; g_maxfw := g_maxfw x |}.
Definition gset_out (v : list (chunk * bool)) (x : ghost) : ghost :=
  {| g_acc := g_acc x; g_rec := g_rec x; g_init := g_init x; g_proc := g_proc x; g_offered := g_offered x; g_out := v; g_confirmed := g_confirmed x; g_dropped := g_dropped x; g_retained := g_retained x; g_initbytes := g_initbytes x; g_maxfw := g_maxfw x |}.
Definition gset_confirmed (v : list name) (x : ghost) : ghost :=
  {| g_acc := g_acc x; g_rec := g_rec x; g_init := g_init x; g_proc := g_proc x; g_offered := g_offered x; g_out := g_out x; g_confirmed := v; g_dropped := g_dropped x; g_retained := g_retained x; g_initbytes := g_initbytes x; g_maxfw := g_maxfw x |}.
Definition gset_dropped (v : list name) (x : ghost) : ghost :=
  {| g_acc := g_acc x; g_rec := g_rec x; g_init := g_init x; g_proc := g_proc x; g_offered := g_offered x; g_out := g_out x; g_confirmed := g_confirmed x; g_dropped := v; g_retained := g_retained x; g_initbytes := g_initbytes x; g_maxfw := g_maxfw x |}.
Definition gset_retained (v : list name) (x : ghost) : ghost :=
  {| g_acc := g_acc x; g_rec := g_rec x; g_init := g_init x; g_proc := g_proc x; g_offered := g_offered x; g_out := g_out x; g_confirmed := g_confirmed x; g_dropped := g_dropped x; g_retained := v; g_initbytes := g_initbytes x; g_maxfw := g_maxfw x |}.
Definition gset_initbytes (v : Z) (x : ghost) : ghost :=
  {| g_acc := g_acc x; g_rec := g_rec x; g_init := g_init x; g_proc := g_proc x; g_offered := g_offered x; g_out := g_out x; g_confirmed := g_confirmed x; g_dropped := g_dropped x; g_retained := g_retained x; g_initbytes := v; g_maxfw := g_maxfw x |}.
Definition gset_maxfw (v : Z) (x : ghost) : ghost :=
  {| g_acc := g_acc x; g_rec := g_rec x; g_init := g_init x; g_proc := g_proc x; g_offered := g_offered x; g_out := g_out x; g_confirmed := g_confirmed x; g_dropped := g_dropped x; g_retained := g_retained x; g_initbytes := g_initbytes x; g_maxfw := v |}.

Definition ghost0 (d : dirT) : ghost :=
  {| g_acc := []; g_rec := []; g_init := d; g_proc := []; g_offered := []; g_out := [];
     g_confirmed := []; g_dropped := []; g_retained := []; g_initbytes := 0%Z; g_maxfw := 0%Z |}.

(* ---------- state ---------- *)
Record state := {
  st_dir : dirT;
  st_ever : list (name * bytes);
  st_gen : N;
  st_up : bool;
  st_dirok : bool;
  st_Q : nat;
  st_M : nat;
  st_max : Z;
  st_queue : list chunk;
  st_closed : bool;
  st_fpc : fpc;
  st_win : list chunk;
  st_hold : list chunk;
  st_cons : nat;
  st_met : mets;
  st_gh : ghost
}.
Definition set_dir (v : dirT) (x : state) : state :=
  {| st_dir := v; st_ever := st_ever x; st_gen := st_gen x; st_up := st_up x; st_dirok := st_dirok x; st_Q := st_Q x; st_M := st_M x; st_max := st_max x; st_queue := st_queue x; st_closed := st_closed x; st_fpc := st_fpc x; st_win := st_win x; st_hold := st_hold x; st_cons := st_cons x; st_met := st_met x; st_gh := st_gh x |}.
Definition set_ever (v : list (name * bytes)) (x : state) : state :=
  {| st_dir := st_dir x; st_ever := v; st_gen := st_gen x; st_up := st_up x; st_dirok := st_dirok x; st_Q := st_Q x; st_M := st_M x; st_max := st_max x; st_queue := st_queue x; st_closed := st_closed x; st_fpc := st_fpc x; st_win := st_win x; st_hold := st_hold x; st_cons := st_cons x; st_met := st_met x; st_gh := st_gh x |}.
Definition set_gen (v : N) (x : state) : state :=
  {| st_dir := st_dir x; st_ever := st_ever x; st_gen := v; st_up := st_up x; st_dirok := st_dirok x; st_Q := st_Q x; st_M := st_M x; st_max := st_max x; st_queue := st_queue x; st_closed := st_closed x; st_fpc := st_fpc x; st_win := st_win x; st_hold := st_hold x; st_cons := st_cons x; st_met := st_met x; st_gh := st_gh x |}.
Definition set_up (v : bool) (x : state) : state :=
  {| st_dir := st_dir x; st_ever := st_ever x; st_gen := st_gen x; st_up := v; st_dirok := st_dirok x; st_Q := st_Q x; st_M := st_M x; st_max := st_max x; st_queue := st_queue x; st_closed := st_closed x; st_fpc := st_fpc x; st_win := st_win x; st_hold := st_hold x; st_cons := st_cons x; st_met := st_met x; st_gh := st_gh x |}.
Definition set_dirok (v : bool) (x : state) : state :=
  {| st_dir := st_dir x; st_ever := st_ever x; st_gen := st_gen x; st_up := st_up x; st_dirok := v; st_Q := st_Q x; st_M := st_M x; st_max := st_max x; st_queue := st_queue x; st_closed := st_closed x; st_fpc := st_fpc x; st_win := st_win x; st_hold := st_hold x; st_cons := st_cons x; st_met := st_met x; st_gh := st_gh x |}.
Definition set_Q (v : nat) (x : state) : state :=
  {| st_dir := st_dir x; st_ever := st_ever x; st_gen := st_gen x; st_up := st_up x; st_dirok := st_dirok x; st_Q := v; st_M := st_M x; st_max := st_max x; st_queue := st_queue x; st_closed := st_closed x; st_fpc := st_fpc x; st_win := st_win x; st_hold := st_hold x; st_cons := st_cons x; st_met := st_met x; st_gh := st_gh x |}.
Definition set_M (v : nat) (x : state) : state :=
  {| st_dir := st_dir x; st_ever := st_ever x; st_gen := st_gen x; st_up := st_up x; st_dirok := st_dirok x; st_Q := st_Q x; st_M := v; st_max := st_max x; st_queue := st_queue x; st_closed := st_closed x; st_fpc := st_fpc x; st_win := st_win x; st_hold := st_hold x; st_cons := st_cons x; st_met := st_met x; st_gh := st_gh x |}.
Definition set_max (v : Z) (x : state) : state :=
  {| st_dir := st_dir x; st_ever := st_ever x; st_gen := st_gen x; st_up := st_up x; st_dirok := st_dirok x; st_Q := st_Q x; st_M := st_M x; st_max := v; st_queue := st_queue x; st_closed := st_closed x; st_fpc := st_fpc x; st_win := st_win x; st_hold := st_hold x; st_cons := st_cons x; st_met := st_met x; st_gh := st_gh x |}.
Definition set_queue (v : list chunk) (x : state) : state :=
  {| st_dir := st_dir x; st_ever := st_ever x; st_gen := st_gen x; st_up := st_up x; st_dirok := st_dirok x; st_Q := st_Q x; st_M := st_M x; st_max := st_max x; st_queue := v; st_closed := st_closed x; st_fpc := st_fpc x; st_win := st_win x; st_hold := st_hold x; st_cons := st_cons x; st_met := st_met x; st_gh := st_gh x |}.
Definition set_closed (v : bool) (x : state) : state :=
  {| st_dir := st_dir x; st_ever := st_ever x; st_gen := st_gen x; st_up := st_up x; st_dirok := st_dirok x; st_Q := st_Q x; st_M := st_M x; st_max := st_max x; st_queue := st_queue x; st_closed := v; st_fpc := st_fpc x; st_win := st_win x; st_hold := st_hold x; st_cons := st_cons x; st_met := st_met x; st_gh := st_gh x |}.
Definition set_fpc (v : fpc) (x : state) : state :=
  {| st_dir := st_dir x; st_ever := st_ever x; st_gen := st_gen x; st_up := st_up x; st_dirok := st_dirok x; st_Q := st_Q x; st_M := st_M x; st_max := st_max x; st_queue := st_queue x; st_closed := st_closed x; st_fpc := v; st_win := st_win x; st_hold := st_hold x; st_cons := st_cons x; st_met := st_met x; st_gh := st_gh x |}.
Definition set_win (v : list chunk) (x : state) : state :=
  {| st_dir := st_dir x; st_ever := st_ever x; st_gen := st_gen x; st_up := st_up x; st_dirok := st_dirok x; st_Q := st_Q x; st_M := st_M x; st_max := st_max x; st_queue := st_queue x; st_closed := st_closed x; st_fpc := st_fpc x; st_win := v; st_hold := st_hold x; st_cons := st_cons x; st_met := st_met x; st_gh := st_gh x |}.
Definition set_hold (v : list chunk) (x : state) : state :=
  {| st_dir := st_dir x; st_ever := st_ever x; st_gen := st_gen x; st_up := st_up x; st_dirok := st_dirok x; st_Q := st_Q x; st_M := st_M x; st_max := st_max x; st_queue := st_queue x; st_closed := st_closed x; st_fpc := st_fpc x; st_win := st_win x; st_hold := v; st_cons := st_cons x; st_met := st_met x; st_gh := st_gh x |}.
Definition set_cons (v : nat) (x : state) : state :=
  {| st_dir := st_dir x; st_ever := st_ever x; st_gen := st_gen x; st_up := st_up x; st_dirok := st_dirok x; st_Q := st_Q x; st_M := st_M x; st_max := st_max x; st_queue := st_queue x; st_closed := st_closed x; st_fpc := st_fpc x; st_win := st_win x; st_hold := st_hold x; st_cons := v; st_met := st_met x; st_gh := st_gh x |}.
Definition set_met (v : mets) (x : state) : state :=
  {| st_dir := st_dir x; st_ever := st_ever x; st_gen := st_gen x; st_up := st_up x; st_dirok := st_dirok x; st_Q := st_Q x; st_M := st_M x; st_max := st_max x; st_queue := st_queue x; st_closed := st_closed x; st_fpc := st_fpc x; st_win := st_win x; st_hold := st_hold x; st_cons := st_cons x; st_met := v; st_gh := st_gh x |}.
Definition set_gh (v : ghost) (x : state) : state :=
  {| st_dir := st_dir x; st_ever := st_ever x; st_gen := st_gen x; st_up := st_up x; st_dirok := st_dirok x; st_Q := st_Q x; st_M := st_M x; st_max := st_max x; st_queue := st_queue x; st_closed := st_closed x; st_fpc := st_fpc x; st_win := st_win x; st_hold := st_hold x; st_cons := st_cons x; st_met := st_met x; st_gh := v |}.

Definition gh (f : ghost -> ghost) (s : state) : state := set_gh (f (st_gh s)) s.

Definition g_accept (id : name) (data : bytes) (enq : bool) (g : ghost) : ghost :=
  gset_acc (g_acc g ++ [(id, data, enq)]) g.
Definition g_drop (id : name) (g : ghost) : ghost := gset_dropped (g_dropped g ++ [id]) g.
Definition g_retain (id : name) (g : ghost) : ghost := gset_retained (g_retained g ++ [id]) g.
Definition g_confirm (id : name) (g : ghost) : ghost := gset_confirmed (g_confirmed g ++ [id]) g.
Definition g_process (id : name) (offered : bool) (g : ghost) : ghost := gset_proc (g_proc g ++ [(id, offered)]) g.
Definition g_offer (c : chunk) (g : ghost) : ghost := gset_offered (g_offered g ++ [c]) g.
Definition g_outadd (c : chunk) (by_consumer : bool) (g : ghost) : ghost := gset_out (g_out g ++ [(c, by_consumer)]) g.

Definition mem_name (n : name) (l : list name) : bool := existsb (name_eqb n) l.

Definition remove_nth {A} (i : nat) (l : list A) : list A := firstn i l ++ skipn (S i) l.

Definition is_stopped (p : fpc) : bool := match p with FStopped => true | _ => false end.

(* the process is gone (killed / never started) or the bufferer has been destroyed completely *)
Definition down (s : state) : bool := negb (st_up s) || is_stopped (st_fpc s).

Definition crash_with (d : dirT) (s : state) : state := set_up false (set_dir d s).

Definition zero_length (c : chunk) : bool :=       (* len(chunk.Data) == 0 *)
  match c_data c with Some (_ :: _) => false | _ => true end.

Section Buffer.
Variable matchf : name -> bool.     (* the output's chunk-ID matcher (bconfig MatchChunkID) *)
Variable dirsize : Z.               (* st_size of a sub-directory on this file system *)

(* ---------- start-up: chunkOperator.ScanExistingChunks + bufferer.recoverExistingChunks ---------- *)

Definition id_file_name : name := [46; 105; 100]. (* ".id" *)

Definition scan (dirok : bool) (d : dirT) : list chunk :=
  if dirok then
    map (fun n => {| c_id := n; c_data := None; c_saved := true |})
        (filter (fun n => negb (name_eqb n id_file_name) && matchf n) (dir_names d))
  else [].

(* OnChunkInputRecovered + OnChunkRecovered + the queue gauge *)
Definition recover_one (d : dirT) (m : mets) (c : chunk) : mets :=
  let m1 := add_pchunks 1 (add_in_p 1 (add_pending 1 m)) in
  let m2 := match stat_size dirsize d (c_id c) with
            | Some sz => add_pbytes sz m1
            | None => add_ioerr 1 m1
            end in
  add_q_p 1 m2.

(* newBufferer + Start: the first Q scanned chunks are enqueued, the others ("too many chunk
   files, skip") stay on disk untouched *)
Definition restart (Q M : nat) (maxb : Z) (dirok : bool) (s : state) : state :=
  let rec := firstn Q (scan dirok (st_dir s)) in
  let m0 := if dirok then mets0 else add_ioerr 1 mets0 in
  let m := fold_left (recover_one (st_dir s)) rec m0 in
  {| st_dir := st_dir s; st_ever := st_ever s; st_gen := st_gen s + 1; st_up := true;
     st_dirok := dirok; st_Q := Q; st_M := M; st_max := maxb;
     st_queue := rec; st_closed := false; st_fpc := FRecv; st_win := []; st_hold := [];
     st_cons := 0; st_met := m;
     st_gh := gset_initbytes (m_pbytes m) (gset_rec (map c_id rec) (ghost0 (st_dir s))) |}.

(* ---------- events ---------- *)
Inductive event :=
| EAccept (id : name) (data : bytes) (ws : wscript)   (* bufferer.Accept, atomic *)
| EFeedTake                                           (* feeder: receive from inputChannel *)
| EFeedLoad (rerr : bool)                             (* feeder: LoadOrDropChunk + zero-length rule *)
| EFeedPush                                           (* feeder: send to outputChannel *)
| EFeedStop                                           (* feeder: leaves the main loop, closes outputChannel *)
| ESaveCheck                                          (* saveQueued / saveOutput: next chunk, UnloadChunk up to the write *)
| ESaveWrite (ws : wscript)                           (* saveEverything: the write and what follows *)
| ESaveEnd                                            (* saveQueued / saveOutput returns *)
| EFeedStopped                                        (* consumerCounter.Wait returns *)
| ERegister                                           (* RegisterNewConsumer *)
| EConsTake                                           (* a consumer receives from outputChannel *)
| EConsumed (i : nat)                                 (* OnChunkConsumed(i-th chunk held) *)
| ELeftover (i : nat) (ws : wscript)                  (* OnChunkLeftover(i-th chunk held) *)
| EConsFinish                                         (* OnFinished *)
| EDestroy                                            (* Destroy: close(inputChannel); inputClosed.Signal() *)
| ERestart (Q M : nat) (maxb : Z) (dirok : bool)      (* a new bufferer on the same directory *)
| ECrash                                              (* the process is killed *)
| ETamper (n : name) (e : option entry).              (* somebody else creates / replaces / removes a file *)

(* an ID the environment may pass to Accept *)
Definition fresh (id : name) (s : state) : bool :=
  matchf id && negb (mem_name id (map fst (st_ever s))) && negb (mem_name id (g_rec (st_gh s))) &&
  match dir_get (st_dir s) id with None => true | Some _ => false end.

(* bufferer.Accept, second half: the non-blocking send *)
Definition enqueue (id : name) (data : bytes) (c : chunk) (s : state) : state :=
  if Nat.ltb (length (st_queue s)) (st_Q s) then
    let m := match c_data c with Some _ => add_q_t 1 (st_met s) | None => add_q_p 1 (st_met s) end in
    gh (g_accept id data true) (set_met m (set_queue (st_queue s ++ [c]) s))
  else
    gh (fun g => g_drop id (g_accept id data false g)) (set_met (man_on_dropped (st_met s) c) s).

Definition do_accept (id : name) (data : bytes) (ws : wscript) (s : state) : option state :=
  if st_up s && negb (st_closed s) && fresh id s then
    let s := set_ever (st_ever s ++ [(id, data)]) s in
    let c0 := {| c_id := id; c_data := Some data; c_saved := false |} in
    if Nat.leb (st_M s / 2) (length (st_win s)) then
      (* unload chunk for queuing *)
      let m1 := man_on_input false (st_met s) in
      match unload (st_dirok s) (st_max s) ws (st_dir s) m1 c0 with
      | URet d m c true => Some (enqueue id data c (set_met m (set_dir d s)))
      | URet d m _ false =>
        Some (gh (fun g => g_drop id (g_accept id data false g))
                 (set_met (man_on_dropped m c0) (set_dir d s)))
      | UDied d => Some (crash_with d s)
      end
    else
      (* pass chunk to queue *)
      Some (enqueue id data c0 (set_met (man_on_input true (st_met s)) s))
  else None.

Definition do_feed_take (s : state) : option state :=
  match st_fpc s, st_queue s with
  | FRecv, c :: q =>
    let m := match c_data c with Some _ => add_q_t (-1) (st_met s) | None => add_q_p (-1) (st_met s) end in
    Some (set_fpc (FLoad c) (set_met m (set_queue q s)))
  | _, _ => None
  end.

Definition do_feed_load (rerr : bool) (s : state) : option state :=
  match st_fpc s with
  | FLoad c =>
    match op_load (st_dirok s) rerr (st_dir s) (st_met s) c with
    | (m, _, false) =>
      (* LoadOrDropChunk failed: OnChunkDropped, loadToOutput returns true *)
      Some (gh (fun g => g_drop (c_id c) (g_process (c_id c) false g))
               (set_fpc FRecv (set_met (man_on_dropped m c) s)))
    | (m, c', true) =>
      if zero_length c' then
        (* OnChunkCorrupted *)
        let (d, m1) := op_remove (st_dirok s) (st_dir s) m c' in
        Some (gh (fun g => g_drop (c_id c) (g_process (c_id c) false g))
                 (set_fpc FRecv (set_met (add_dropped 1 (add_pending (-1) m1)) (set_dir d s))))
      else Some (set_fpc (FPush c c') (set_met m s))
    end
  | _ => None
  end.

Definition do_feed_push (s : state) : option state :=
  match st_fpc s with
  | FPush c c' =>
    if Nat.ltb (length (st_win s)) (st_M s) then
      Some (gh (fun g => g_offer c' (g_process (c_id c) true g))
               (set_fpc FRecv (set_win (st_win s ++ [c']) s)))
    else None
  | _ => None
  end.

Definition do_feed_stop (s : state) : option state :=
  match st_fpc s with
  | FRecv =>
    match st_queue s with
    | [] => if st_closed s then Some (set_fpc (FSave None) s) else None
    | _ :: _ => None
    end
  | FPush c _ =>
    if st_closed s then
      (* lastInputChunk = chunk;  saved later only if lastInputChunk.ID != "" *)
      Some (set_fpc (FSave (match c_id c with [] => None | _ :: _ => Some c end)) s)
    else None
  | _ => None
  end.

(* The chunk the feeder saves next, and the program counter to come back to.
   saveQueued (before consumerCounter.Wait): the rest of inputChannel, then lastInputChunk;
   saveOutput (after consumerCounter.Wait): what is left in outputChannel. *)
Definition save_next (s : state) : option (chunk * fpc * state) :=
  match st_fpc s with
  | FSave last =>
    match st_queue s with
    | c :: q => Some (c, FSave last, set_queue q s)
    | [] =>
      match last with
      | Some c => Some (c, FSave None, s)
      | None => None
      end
    end
  | FSaveOut =>
    match st_win s with
    | c :: w => Some (c, FSaveOut, gh (g_outadd c false) (set_win w s))
    | [] => None
    end
  | _ => None
  end.

Definition writing_pc (back : fpc) (c : chunk) : fpc :=
  match back with
  | FSave last => FSaveW last c
  | _ => FSaveOutW c
  end.

Definition do_save_check (s : state) : option state :=
  match save_next s with
  | Some (c, back, s1) =>
    match unload_check (st_dirok s1) (st_max s1) (st_met s1) c with
    | UYes => Some (gh (g_retain (c_id c)) (set_fpc back s1))
    | UNo => Some (gh (g_drop (c_id c)) (set_fpc back (set_met (man_on_dropped (st_met s1) c) s1)))
    | UWrite _ =>
      Some (gh (fun g => gset_maxfw (Z.max (g_maxfw g) (dlen c)) g) (set_fpc (writing_pc back c) s1))
    end
  | None => None
  end.

(* the chunk being written by the feeder and where the feeder goes on afterwards *)
Definition saving (p : fpc) : option (chunk * fpc) :=
  match p with
  | FSaveW last c => Some (c, FSave last)
  | FSaveOutW c => Some (c, FSaveOut)
  | _ => None
  end.

Definition do_save_write (ws : wscript) (s : state) : option state :=
  match saving (st_fpc s) with
  | Some (c, back) =>
    match c_data c with
    | Some data =>
      match unload_write ws (st_dir s) (st_met s) c data with
      | URet d m _ true => Some (gh (g_retain (c_id c)) (set_fpc back (set_met m (set_dir d s))))
      | URet d m _ false =>
        Some (gh (g_drop (c_id c)) (set_fpc back (set_met (man_on_dropped m c) (set_dir d s))))
      | UDied d => Some (crash_with d s)
      end
    | None => None
    end
  | None => None
  end.

(* saveQueued returns (-> consumerCounter.Wait) / saveOutput returns (-> Close, stopped.Signal) *)
Definition do_save_end (s : state) : option state :=
  match st_fpc s with
  | FSave None => match st_queue s with [] => Some (set_fpc FWait s) | _ :: _ => None end
  | FSaveOut => match st_win s with [] => Some (set_fpc FStopped s) | _ :: _ => None end
  | _ => None
  end.

(* consumerCounter.Wait returns: every consumer has called OnFinished *)
Definition do_feed_stopped (s : state) : option state :=
  match st_fpc s, st_cons s with
  | FWait, O => Some (set_fpc FSaveOut s)
  | _, _ => None
  end.

Definition do_cons_take (s : state) : option state :=
  match st_win s with
  | c :: w => if Nat.ltb 0 (st_cons s)
              then Some (gh (g_outadd c true) (set_hold (st_hold s ++ [c]) (set_win w s)))
              else None
  | [] => None
  end.

(* chunkManager.OnChunkConsumed *)
Definition do_consumed (i : nat) (s : state) : option state :=
  match nth_error (st_hold s) i with
  | Some c =>
    if Nat.ltb 0 (st_cons s) then
      let (d, m) := op_remove (st_dirok s) (st_dir s) (st_met s) c in
      Some (gh (g_confirm (c_id c))
               (set_met (add_consumed 1 (add_pending (-1) m)) (set_dir d (set_hold (remove_nth i (st_hold s)) s))))
    else None
  | None => None
  end.

(* chunkManager.OnChunkLeftover (as repaired: a failed UnloadChunk counts the chunk as dropped) *)
Definition do_leftover (i : nat) (ws : wscript) (s : state) : option state :=
  match nth_error (st_hold s) i with
  | Some c =>
    if Nat.ltb 0 (st_cons s) then
      let s1 := set_hold (remove_nth i (st_hold s)) s in
      match unload (st_dirok s) (st_max s) ws (st_dir s) (st_met s) c with
      | URet d m _ true =>
        Some (gh (g_retain (c_id c)) (set_met (add_leftover 1 (add_pending (-1) m)) (set_dir d s1)))
      | URet d m _ false =>
        Some (gh (g_drop (c_id c)) (set_met (man_on_dropped m c) (set_dir d s1)))
      | UDied d => Some (crash_with d s1)
      end
    else None
  | None => None
  end.

Definition apply_tamper (n : name) (e : option entry) (d : dirT) : dirT :=
  match e with Some x => dir_set d n x | None => dir_del d n end.

Definition do_tamper (n : name) (e : option entry) (s : state) : option state :=
  if matchf n then
    (* a name of the chunk namespace: only while no bufferer runs, and never a chunk this history produced *)
    if down s && negb (mem_name n (map fst (st_ever s)))
    then Some (set_up false (set_dir (apply_tamper n e (st_dir s)) s))
    else None
  else Some (set_dir (apply_tamper n e (st_dir s)) s).

Definition step (s : state) (e : event) : option state :=
  match e with
  | ERestart Q M maxb dirok =>
    if down s && Nat.ltb 0 Q && Nat.ltb 0 M then Some (restart Q M maxb dirok s) else None
  | ETamper n x => do_tamper n x s
  | _ =>
    if st_up s then
      match e with
      | EAccept id data ws => do_accept id data ws s
      | EFeedTake => do_feed_take s
      | EFeedLoad rerr => do_feed_load rerr s
      | EFeedPush => do_feed_push s
      | EFeedStop => do_feed_stop s
      | ESaveCheck => do_save_check s
      | ESaveWrite ws => do_save_write ws s
      | ESaveEnd => do_save_end s
      | EFeedStopped => do_feed_stopped s
      | ERegister => if is_stopped (st_fpc s) then None else Some (set_cons (S (st_cons s)) s)
      | EConsTake => do_cons_take s
      | EConsumed i => do_consumed i s
      | ELeftover i ws => do_leftover i ws s
      | EConsFinish => match st_cons s with S n => Some (set_cons n s) | O => None end
      | EDestroy => if st_closed s then None else Some (set_closed true s)
      | ECrash => Some (set_up false s)
      | ERestart _ _ _ _ | ETamper _ _ => None
      end
    else None
  end.

Fixpoint run (s : state) (evs : list event) : option state :=
  match evs with
  | [] => Some s
  | e :: evs' => match step s e with Some s' => run s' evs' | None => None end
  end.

(* before the first start: nothing but a directory *)
Definition init (d : dirT) : state :=
  {| st_dir := d; st_ever := []; st_gen := 0; st_up := false; st_dirok := false; st_Q := 0; st_M := 0;
     st_max := 0%Z; st_queue := []; st_closed := false; st_fpc := FRecv; st_win := []; st_hold := [];
     st_cons := 0; st_met := mets0; st_gh := ghost0 d |}.

(* ---------- replayer: observed operations in, hidden feeder steps filled in ---------- *)

Definition is_hidden (e : event) : bool :=
  match e with
  | EFeedTake | EFeedLoad _ | EFeedPush | EFeedStop | ESaveCheck | ESaveWrite _ | ESaveEnd | EFeedStopped => true
  | _ => false
  end.

(* the feeder's next step, if it is not blocked.  The harness performs every operation only when
   the feeder goroutine is blocked, so at most one branch of the feeder's select is ready. *)
Definition next_hidden (s : state) : option event :=
  if st_up s then
    match st_fpc s with
    | FRecv => match st_queue s with
               | _ :: _ => Some EFeedTake
               | [] => if st_closed s then Some EFeedStop else None
               end
    | FLoad _ => Some (EFeedLoad false)
    | FPush _ _ => if st_closed s then Some EFeedStop
                   else if Nat.ltb (length (st_win s)) (st_M s) then Some EFeedPush else None
    | FSave _ | FSaveOut => match save_next s with Some _ => Some ESaveCheck | None => Some ESaveEnd end
    | FSaveW _ _ | FSaveOutW _ => Some (ESaveWrite ws_ok)
    | FWait => match st_cons s with O => Some EFeedStopped | S _ => None end
    | FStopped => None
    end
  else None.

(* The harness can keep the feeder goroutine from running - deterministically, without touching the code - by
   making the first recovered chunk file a FIFO: the feeder blocks in open(2) inside LoadChunk until the harness
   opens the FIFO for writing.  [hold = Some n]: the feeder does not get past the load of the chunk named n. *)
Definition stalled (hold : option name) (s : state) : bool :=
  match hold, st_fpc s with
  | Some n, FLoad c => st_up s && name_eqb (c_id c) n
  | _, _ => false
  end.

Fixpoint quiesce (hold : option name) (fuel : nat) (s : state) : option state :=
  if stalled hold s then Some s else
  match next_hidden s with
  | None => Some s
  | Some e =>
    match fuel with
    | O => None
    | S f => match step s e with Some s' => quiesce hold f s' | None => None end
    end
  end.

Definition quiesce_fuel (s : state) : nat := 4 * (length (st_queue s) + length (st_win s) + 4).

(* observables after an operation (all read by the harness at quiescence) *)
Definition observe (s : state) : list Z :=
  let m := st_met s in
  [Z.of_nat (length (st_queue s)); Z.of_nat (length (st_win s));
   m_pbytes m; m_pchunks m; m_ioerr m; m_pending m; m_in_t m; m_in_p m;
   m_consumed m; m_leftover m; m_dropped m; m_q_t m; m_q_p m].

Definition mix (h v : Z) : Z := ((h * 1000003 + (v mod 4294967296) + 7) mod 4294967296)%Z.

(* operations of the harness: an event of the LTS; or "plant an empty FIFO under name n, start a bufferer, and
   let the feeder run only up to the load of n" (two events: ETamper, ERestart); or "let the feeder go on"
   (no event: scheduling only); or "the consumer polls the window and finds it empty" (no event) *)
Inductive rop :=
| ROp (e : event)
| RHold (n : name) (Q M : nat) (maxb : Z)
| RRelease
| RProbe.

Definition events_of (o : rop) : list event :=
  match o with
  | ROp e => [e]
  | RHold n Q M maxb => [ETamper n (Some (EFile [])); ERestart Q M maxb true]
  | RRelease => []
  | RProbe => []
  end.

(* while the feeder is held the harness only accepts chunks, registers consumers and touches foreign files *)
Definition allowed_while_held (e : event) : bool :=
  match e with
  | EAccept _ _ _ | ERegister => true
  | ETamper n _ => negb (matchf n)
  | _ => false
  end.

(* the held chunk must be the first one recovered *)
Definition sorts_first (n : name) (d : dirT) : bool :=
  negb (existsb (fun m => matchf m && negb (name_eqb m id_file_name) && name_ltb m n) (dir_names d)).

(* inl (final state, hash of all observations)  |  inr (index of the operation that is not enabled) *)
Fixpoint replay (i : nat) (ops : list rop) (hold : option name) (s : state) (h : Z) : (state * Z) + nat :=
  match ops with
  | [] => inl (s, h)
  | o :: ops' =>
    let go (s1 : state) (hold' : option name) :=
      match quiesce hold' (quiesce_fuel s1) s1 with
      | None => inr i
      | Some s2 => replay (S i) ops' hold' s2 (fold_left mix (observe s2) h)
      end in
    match o with
    | ROp e =>
      if is_hidden e then inr i
      else if match hold with Some _ => negb (allowed_while_held e) | None => false end then inr i
      else match step s e with
           | None => inr i
           | Some s1 => go s1 hold
           end
    | RHold n Q M maxb =>
      match hold with
      | Some _ => inr i
      | None =>
        if sorts_first n (st_dir s) then
          match run s (events_of o) with
          | None => inr i
          | Some s1 => go s1 (Some n)
          end
        else inr i
      end
    | RRelease =>
      if stalled hold s then go s None else inr i
    | RProbe =>
      (* the consumer polls the window and finds nothing (no event: an observation) *)
      match hold, st_win s with
      | None, [] => go s hold
      | _, _ => inr i
      end
    end
  end.

End Buffer.

(* ---------- correspondence entry point ----------
   kind 0.  sargs: pool of byte strings (file names, chunk data).
   zargs: dirsize, then 4 integers per operation:  opcode a b c
     1 Restart   a=Q b=M c=maxBytes  (directory usable)      11 Restart, directory cannot be opened
     2 Accept    a=name b=data c=write script
     3 Register  4 Take   5 Consumed a=index   6 Leftover a=index c=write script
     7 Finish    8 Destroy  9 Crash
     10 Tamper   a=name b=kind (0 remove, 1 file with data c, 2 sub-directory)
     12 Hold     a=name b=1000*Q+M c=maxBytes: empty FIFO under the name, Restart, feeder stops at its load
     13 Release  the feeder goes on
     14 Probe    the consumer polls the window and finds it empty
   write script  c = kind + 16*n:  0 none, 1 open fails, 2 rename fails, 3 short write of n bytes without
     error, 4 write error after n bytes, 5..8 killed at kill point 1..4 (n bytes written), 9 close fails.
   The matcher is the one of the fluentd-forward output: strings.HasSuffix(id, ".ff"). *)

Fixpoint has_suffix (sfx s : bytes) : bool :=
  if bytes_eqb sfx s then true else
  match s with [] => false | _ :: s' => has_suffix sfx s' end.

Definition ff_suffix : bytes := [46; 102; 102].
Definition match_ff (n : name) : bool := has_suffix ff_suffix n.

Definition decode_ws (c : Z) : wscript :=
  let kind := (c mod 16)%Z in
  let n := Z.to_nat (c / 16) in
  let mk oe wn we ce re k :=
    {| ws_open_err := oe; ws_n := wn; ws_write_err := we; ws_close_err := ce; ws_rename_err := re; ws_kill := k |} in
  if (kind =? 1)%Z then mk true None false false false 0%nat
  else if (kind =? 2)%Z then mk false None false false true 0%nat
  else if (kind =? 3)%Z then mk false (Some n) false false false 0%nat
  else if (kind =? 4)%Z then mk false (Some n) true false false 0%nat
  else if (kind =? 5)%Z then mk false None false false false 1%nat
  else if (kind =? 6)%Z then mk false (Some n) false false false 2%nat
  else if (kind =? 7)%Z then mk false None false false false 3%nat
  else if (kind =? 8)%Z then mk false None false false false 4%nat
  else if (kind =? 9)%Z then mk false None false true false 0%nat
  else ws_ok.

Definition pool_get (pool : list bytes) (i : Z) : bytes := nth (Z.to_nat i) pool [].

Fixpoint parse_ops (fuel : nat) (pool : list bytes) (zs : list Z) : option (list rop) :=
  match zs with
  | [] => Some []
  | opc :: a :: b :: c :: zs' =>
    match fuel with
    | O => None
    | S f =>
      let ev :=
        if (opc =? 1)%Z then Some (ROp (ERestart (Z.to_nat a) (Z.to_nat b) c true))
        else if (opc =? 11)%Z then Some (ROp (ERestart (Z.to_nat a) (Z.to_nat b) c false))
        else if (opc =? 2)%Z then Some (ROp (EAccept (pool_get pool a) (pool_get pool b) (decode_ws c)))
        else if (opc =? 3)%Z then Some (ROp ERegister)
        else if (opc =? 4)%Z then Some (ROp EConsTake)
        else if (opc =? 5)%Z then Some (ROp (EConsumed (Z.to_nat a)))
        else if (opc =? 6)%Z then Some (ROp (ELeftover (Z.to_nat a) (decode_ws c)))
        else if (opc =? 7)%Z then Some (ROp EConsFinish)
        else if (opc =? 8)%Z then Some (ROp EDestroy)
        else if (opc =? 9)%Z then Some (ROp ECrash)
        else if (opc =? 10)%Z then
          Some (ROp (ETamper (pool_get pool a)
                        (if (b =? 0)%Z then None
                         else if (b =? 1)%Z then Some (EFile (pool_get pool c)) else Some EDir)))
        else if (opc =? 12)%Z then Some (RHold (pool_get pool a) (Z.to_nat (b / 1000)) (Z.to_nat (b mod 1000)) c)
        else if (opc =? 13)%Z then Some RRelease
        else if (opc =? 14)%Z then Some RProbe
        else None in
      match ev, parse_ops f pool zs' with
      | Some e, Some es => Some (e :: es)
      | _, _ => None
      end
    end
  | _ => None
  end.

Definition semicolon : N := 59.
Definition str_of (l : list N) : bytes := l.

Definition show_entry (kv : name * entry) : bytes :=
  fst kv ++ colon :: match snd kv with EFile c => hex c | EDir => [68] (* "D" *) end.

Definition show_taken (cb : chunk * bool) : option bytes :=
  if snd cb then
    let c := fst cb in
    Some (c_id c ++ colon :: match c_data c with Some d => hex d | None => [110] end ++
          colon :: (if c_saved c then [115] else [109]))    (* s: saved on disk, m: memory only *)
  else None.

Fixpoint filter_map {A B} (f : A -> option B) (l : list A) : list B :=
  match l with
  | [] => []
  | a :: l' => match f a with Some b => b :: filter_map f l' | None => filter_map f l' end
  end.

Definition show_fpc (p : fpc) : bytes :=
  match p with
  | FRecv => [114] | FLoad _ => [108] | FPush _ _ => [112] | FSave _ => [115] | FSaveW _ _ => [119]
  | FWait => [97] | FSaveOut => [111] | FSaveOutW _ => [118] | FStopped => [122]
  end.

Definition show_state (s : state) (h : Z) : bytes :=
  str_ok ++ colon ::
  [100; 105; 114; 61] (* dir= *) ++ join comma (map show_entry (st_dir s)) ++ semicolon ::
  [116; 97; 107; 101; 110; 61] (* taken= *) ++ join comma (filter_map show_taken (g_out (st_gh s))) ++ semicolon ::
  [109; 101; 116; 61] (* met= *) ++ join comma (map dec_of_Z (skipn 2 (observe s))) ++ semicolon ::
  [102; 112; 99; 61] (* fpc= *) ++ (if st_up s then show_fpc (st_fpc s) else [120]) ++ semicolon ::
  [104; 61] (* h= *) ++ dec_of_Z h.

Definition str_reject : bytes := [114; 101; 106; 101; 99; 116]. (* "reject" *)

Definition run_case_C03 (c : case) : bytes :=
  match c_zargs c with
  | dirsize :: zs =>
    match parse_ops (length zs) (c_sargs c) zs with
    | Some ops =>
      match replay match_ff dirsize 0 ops None (init []) 0 with
      | inl (s, h) => show_state s h
      | inr i => str_reject ++ colon :: dec_of_Z (Z.of_nat i)
      end
    | None => bad_case_output
    end
  | [] => bad_case_output
  end.
