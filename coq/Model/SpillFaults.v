(* C04: the fault scenarios of chunk persistence, on top of Model/FileWrite.v (the system calls of
   util.WriteFileAt with a fault / crash script) and Model/Buffer.v (Restart, load, zero-length rule).
   No proofs in this file.

   The scenarios of the property - "for every chunk size, every offset k at which the write stops,
   every position of the affected chunk in the queue, followed by a restart" - are particular runs of
   the buffer LTS: the k-bytes-then-stop behaviour is the write script carried by the EAccept /
   ELeftover / ESaveWrite event (ws_n = Some k with or without error; ws_kill = 1..4), the restart
   is ERestart.  [spill_run] builds the canonical one used by the example theorems; the theorems of
   Props/C04.v are stated for ALL runs. *)
From SV Require Import Model.Common Model.FileWrite Model.Buffer Model.ConcWrite.

(* a short write of k bytes that reports no error (RLIMIT_FSIZE = k >= 1, disk full half way) *)
Definition ws_short (k : nat) : wscript :=
  {| ws_open_err := false; ws_n := Some k; ws_write_err := false; ws_close_err := false;
     ws_rename_err := false; ws_kill := 0 |}.

(* the process is killed at kill point p after k bytes reached the file *)
Definition ws_killed (p k : nat) : wscript :=
  {| ws_open_err := false; ws_n := Some k; ws_write_err := false; ws_close_err := false;
     ws_rename_err := false; ws_kill := p |}.

Section Scenario.
Variable matchf : name -> bool.
Variable dirsize : Z.

(* Accept the chunks one after the other into a buffer whose window is "half full" from the start
   (M = 1: every chunk is spilled), the one at position [pos] with write script [ws] *)
Fixpoint accept_all (pos : nat) (ws : wscript) (chunks : list (name * bytes)) : list (event) :=
  match chunks with
  | [] => []
  | (id, data) :: rest =>
    EAccept id data (match pos with O => ws | S _ => ws_ok end)
    :: accept_all (Nat.pred pos) (match pos with O => ws_ok | S _ => ws end) rest
  end.

(* the whole story: start, spill the chunks (fault at [pos]), [after] (nothing if the process died;
   an orderly Destroy otherwise), start again *)
Definition spill_run (Q : nat) (pos : nat) (ws : wscript) (chunks : list (name * bytes))
           (after : list event) : list event :=
  ERestart Q 1 1000000%Z true :: accept_all pos ws chunks ++ after ++ [ERestart Q 1 1000000%Z true].

(* consumer that takes and confirms n times, with the feeder running in between (replayer semantics) *)
Fixpoint drain_ops (n : nat) : list event :=
  match n with O => [] | S n' => EConsTake :: EConsumed 0 :: drain_ops n' end.

End Scenario.

(* ---------- correspondence entry point ----------
   kind 0: an operation list in the format of run_case_C03 (the victim process executes it on the real
           bufferer; write scripts 3..8 are made to happen with RLIMIT_FSIZE and the kill points).
   kind 1: one call of util.WriteFileAt.  sargs: name, data, previous content.
           zargs: write script, what is under the name before (0 nothing, 1 file, 2 directory),
           what is under name.tmp before (0 nothing, 1 file "x", 2 directory).
           Output "w:<ok|err|died>;dir=<entries>".
   kind 2: several goroutines call UnloadChunk on one directory at once; kind 3: shutdown, the consumer's
           leftovers against the feeder's saveQueued (Model/ConcWrite.v, run_conc). *)
Definition show_wres (r : wres) : bytes :=
  match r with
  | WOk => str_ok
  | WErr => str_err
  | WDied => [100; 105; 101; 100]
  end.

Definition run_case_C04 (c : case) : bytes :=
  if (c_kind c =? 0)%N then run_case_C03 c
  else if (c_kind c =? 1)%N then
    let n := sarg c 0 in
    let data := sarg c 1 in
    let pre := sarg c 2 in
    let d0 : dirT := [] in
    let d1 := if (zarg c 1 =? 1)%Z then dir_set d0 n (EFile pre)
              else if (zarg c 1 =? 2)%Z then dir_set d0 n EDir else d0 in
    let d2 := if (zarg c 2 =? 1)%Z then dir_set d1 (tmp_name n) (EFile [120])
              else if (zarg c 2 =? 2)%Z then dir_set d1 (tmp_name n) EDir else d1 in
    let (d3, r) := write_file_at (decode_ws (zarg c 0)) d2 n data in
    [119] ++ colon :: show_wres r ++ semicolon :: [100; 105; 114; 61] ++ join comma (map show_entry d3)
  else if (c_kind c =? 2)%N then
    if conc_case_ok true (c_sargs c) (c_zargs c) then run_conc true (c_sargs c) (c_zargs c) else bad_case_output
  else if (c_kind c =? 3)%N then
    if conc_case_ok false (c_sargs c) (c_zargs c) then run_conc false (c_sargs c) (c_zargs c) else bad_case_output
  else bad_case_output.
