(* C02 — executable trace acceptor for the client LTS (powerset simulation with closure under
   hidden events) and the correspondence entry point run_case_C02.  No proofs in this file. *)
From SV Require Import Model.Common Model.Client Model.AckParse.

(* ---------- decidable equality of states (used only to keep the state sets small) ---------- *)

Fixpoint list_eqb {A} (eqb : A -> A -> bool) (a b : list A) : bool :=
  match a, b with
  | [], [] => true
  | x :: a', y :: b' => eqb x y && list_eqb eqb a' b'
  | _, _ => false
  end.
Definition opt_eqb {A} (eqb : A -> A -> bool) (a b : option A) : bool :=
  match a, b with
  | None, None => true
  | Some x, Some y => eqb x y
  | _, _ => false
  end.
Definition from_eqb (a b : from) : bool :=
  match a, b with FResend, FResend | FInput, FInput => true | _, _ => false end.
Definition policy_eqb (a b : policy) : bool :=
  match a, b with PNone, PNone | PDelay, PDelay | PNow, PNow => true | _, _ => false end.
Definition mpc_eqb (a b : mpc) : bool :=
  match a, b with
  | MStart, MStart | MConnecting, MConnecting | MResend, MResend | MInput, MInput
  | MRetryWait, MRetryWait | MFinal, MFinal | MDone, MDone => true
  | MSend f c, MSend f' c' | MEnqueue f c, MEnqueue f' c' => from_eqb f f' && (c =? c')
  | MSoftWait p, MSoftWait p' => policy_eqb p p'
  | MHardWait v p, MHardWait v' p' => Bool.eqb v v' && policy_eqb p p'
  | _, _ => false
  end.
Definition apc_eqb (a b : apc) : bool :=
  match a, b with
  | AIdle, AIdle | AEnded, AEnded => true
  | AReading c, AReading c' | AAcked c, AAcked c' => c =? c'
  | _, _ => false
  end.
Definition ackres_eqb (a b : ackres) : bool :=
  match a, b with
  | AId i, AId j => i =? j
  | AEmpty, AEmpty | AErr, AErr => true
  | _, _ => false
  end.
Definition ostate_eqb (a b : ostate) : bool :=
  match a, b with
  | ONone, ONone | OSpawned, OSpawned | ODialing, ODialing => true
  | OResult x, OResult y => Bool.eqb x y
  | _, _ => false
  end.
Definition sess_eqb (a b : sess) : bool :=
  Nat.eqb (s_id a) (s_id b) && Bool.eqb (s_creq a) (s_creq b) && list_eqb N.eqb (s_achan a) (s_achan b)
  && Bool.eqb (s_aclosed a) (s_aclosed b) && Bool.eqb (s_abort a) (s_abort b) && Bool.eqb (s_ended a) (s_ended b)
  && opt_eqb (list_eqb N.eqb) (s_unacked a) (s_unacked b) && list_eqb N.eqb (s_pending a) (s_pending b)
  && apc_eqb (s_apc a) (s_apc b).
Definition state_eqb (a b : state) : bool :=
  mpc_eqb (pc a) (pc b) && list_eqb N.eqb (inq a) (inq b) && Bool.eqb (in_closed a) (in_closed b)
  && Bool.eqb (stop_sig a) (stop_sig b) && Bool.eqb (aborter_done a) (aborter_done b)
  && ostate_eqb (opener a) (opener b) && list_eqb N.eqb (lo a) (lo b)
  && opt_eqb N.eqb (last a) (last b) && opt_eqb sess_eqb (cur a) (cur b) && Nat.eqb (nconn a) (nconn b)
  && list_eqb Nat.eqb (close_pend a) (close_pend b) && Nat.eqb (sig_flight a) (sig_flight b)
  && Nat.eqb (sig_pend a) (sig_pend b)
  && list_eqb N.eqb (h_offered a) (h_offered b) && list_eqb N.eqb (h_taken a) (h_taken b)
  && list_eqb (fun x y => Nat.eqb (fst x) (fst y) && (snd x =? snd y)) (h_sent a) (h_sent b)
  && list_eqb (fun x y => Nat.eqb (fst (fst x)) (fst (fst y)) && ackres_eqb (snd (fst x)) (snd (fst y)) && (snd x =? snd y))
              (h_acks a) (h_acks b)
  && list_eqb N.eqb (h_consumed a) (h_consumed b) && list_eqb N.eqb (h_handed a) (h_handed b)
  && Bool.eqb (h_finished a) (h_finished b)
  && list_eqb (fun x y => Nat.eqb (fst x) (fst y) && list_eqb N.eqb (snd x) (snd y)) (h_los a) (h_los b).

(* ---------- hidden events that may be enabled in a state ---------- *)

Definition hd_events (f : chunk -> event) (l : list chunk) : list event :=
  match l with c :: _ => [f c] | [] => [] end.

(* [bug] = whether runs outside the connection contract (EBugTimeout) are searched as well *)
Definition taus (bug : bool) (s : state) : list event :=
  [EMainSpawn; EMainConn; EMainStopConn; EAborter; EResendStop; EResendDone; EEnqueue; EEnqStop; EEnqEnded;
   EInClosedSeen; EMaxAge; ESigDeliver; ESigSeen; ESoftDone; ECollected; ERetryStop; ERetryTimeout;
   EAckerClosed; EAckerAbort]
  ++ (if bug then [EBugTimeout] else [])
  ++ hd_events EResendTake (lo s) ++ hd_events ETake (inq s)
  ++ match cur s with Some ss => hd_events EAckerTake (s_achan ss) | None => [] end.

Fixpoint add_new (l : list state) (acc : list state) : list state :=
  match l with
  | [] => acc
  | x :: l' => if existsb (state_eqb x) acc then add_new l' acc else add_new l' (acc ++ [x])
  end.

Fixpoint filter_map {A B} (f : A -> option B) (l : list A) : list B :=
  match l with
  | [] => []
  | x :: l' => match f x with Some y => y :: filter_map f l' | None => filter_map f l' end
  end.

Definition tau_succ (P : params) (bug : bool) (S : list state) : list state :=
  flat_map (fun s => filter_map (step P s) (taus bug s)) S.

(* closure of a state set under hidden events, at most [fuel] rounds *)
Fixpoint closure (P : params) (bug : bool) (fuel : nat) (S : list state) : list state :=
  match fuel with
  | O => S
  | Datatypes.S f =>
    let S' := add_new (tau_succ P bug S) S in
    if Nat.eqb (length S') (length S) then S else closure P bug f S'
  end.

Definition obs_succ (P : params) (S : list state) (o : event) : list state :=
  add_new (filter_map (fun s => step P s o) S) [].

(* states after the observations [os]; the second component is the number of observations consumed
   before the set became empty (= length os if it never did) *)
Fixpoint sim (P : params) (bug : bool) (fuel : nat) (S : list state) (os : list event) (n : nat)
  : list state * nat :=
  match os with
  | [] => (closure P bug fuel S, n)
  | o :: os' =>
    match obs_succ P (closure P bug fuel S) o with
    | [] => ([], n)
    | S' => sim P bug fuel S' os' (Datatypes.S n)
    end
  end.

Definition fuel0 : nat := 400.

(* ---------- the observable projection of a state ---------- *)

Definition proj_eqb (a b : state) : bool :=
  list_eqb N.eqb (h_taken a) (h_taken b) && list_eqb N.eqb (h_consumed a) (h_consumed b)
  && list_eqb N.eqb (h_handed a) (h_handed b) && Bool.eqb (h_finished a) (h_finished b)
  && list_eqb N.eqb (inq a) (inq b).

Definition semi : N := 59.
Definition eqc : N := 61.
Definition render_ids (l : list chunk) : bytes :=
  match l with [] => [45] | _ => join 46 (map dec_of_N l) end.

(* "t=<taken>;c=<consumed>;h=<handed back>;q=<left in the input channel>;f=<finished>", ids in
   chronological order separated by '.', "-" for none *)
Definition render_proj (s : state) : bytes :=
  [116; eqc] ++ render_ids (rev (h_taken s)) ++ [semi; 99; eqc] ++ render_ids (rev (h_consumed s))
  ++ [semi; 104; eqc] ++ render_ids (rev (h_handed s)) ++ [semi; 113; eqc] ++ render_ids (inq s)
  ++ [semi; 102; eqc] ++ (if h_finished s then [49] else [48]).

Definition str_accept : bytes := [97;99;99;101;112;116].      (* "accept" *)
Definition str_reject : bytes := [114;101;106;101;99;116].    (* "reject" *)
Definition str_ambig : bytes := [97;109;98;105;103].          (* "ambig" *)

Definition accept_out (P : params) (bug : bool) (os : list event) : bytes :=
  match sim P bug fuel0 [init] os 0 with
  | ([], n) => str_reject ++ colon :: dec_of_Z (Z.of_nat n)
  | (s :: rest, _) =>
    if forallb (proj_eqb s) rest then str_accept ++ colon :: render_proj s
    else str_ambig ++ colon :: render_proj s
  end.

(* ---------- decoding of the observed trace ----------
   zargs = cap, maxage(0/1), bug(0/1), then 4 integers per observation: code, a, b, c
     1 offer c=a | 2 stop | 3 inclose | 4 reconnreq | 5 connstart k=a | 6 connret k=a ok=b
     7 sendret k=a c=b ok=c(1 ok, 0 err) | 8 pingret k=a ok=b | 9 ackret k=a kind=b (0 id=c, 1 empty, 2 error)
     10 consumed c=a | 11 leftover c=a | 12 finished | 13 close k=a *)
Definition res_of (z : Z) : res := if (z =? 0)%Z then RErr else ROk.

Definition decode_obs (code a b c : Z) : option event :=
  match code with
  | 1%Z => Some (EOffer (Z.to_N a))
  | 2%Z => Some EStop
  | 3%Z => Some EInClose
  | 4%Z => Some EReconnReq
  | 5%Z => Some (EConnStart (Z.to_nat a))
  | 6%Z => Some (EConnRet (Z.to_nat a) (negb (b =? 0)%Z))
  | 7%Z => Some (ESendRet (Z.to_nat a) (Z.to_N b) (res_of c))
  | 8%Z => Some (EPingRet (Z.to_nat a) (res_of b))
  | 9%Z => Some (EAckRet (Z.to_nat a)
                   (if (b =? 0)%Z then AId (Z.to_N c) else if (b =? 1)%Z then AEmpty else AErr))
  | 10%Z => Some (EConsumed (Z.to_N a))
  | 11%Z => Some (ELeftover (Z.to_N a))
  | 12%Z => Some EFinished
  | 13%Z => Some (EClose (Z.to_nat a))
  | _ => None
  end.

Fixpoint decode_trace (fuel : nat) (zs : list Z) : option (list event) :=
  match fuel with
  | O => match zs with [] => Some [] | _ => None end
  | S f =>
    match zs with
    | [] => Some []
    | code :: a :: b :: c :: rest =>
      match decode_obs code a b c, decode_trace f rest with
      | Some e, Some es => Some (e :: es)
      | _, _ => None
      end
    | _ => None
    end
  end.

Definition str_badtrace : bytes := [98;97;100;116;114;97;99;101]. (* "badtrace" *)

(* correspondence entry point for kinds 1-5 (run_case_C02 itself is in Model/Datadog.v, which adds kind 6).  kinds 1-4: an observed trace (same encoding, different scenario families on the Go
   side); kind 5: bytes sent by an upstream, read by the fluentdforward connection's ReadChunkAck *)
Definition run_case_C02_trace (c : case) : bytes :=
  if c_kind c =? 5 then render_ack (parse_ack (ack_case_payload c)) else
  match c_zargs c with
  | cap :: maxage :: bug :: rest =>
    match decode_trace (length rest) rest with
    | Some os =>
      accept_out (mkParams (Z.to_nat cap) (negb (maxage =? 0)%Z) true) (negb (bug =? 0)%Z) os
    | None => str_badtrace
    end
  | _ => str_badtrace
  end.
