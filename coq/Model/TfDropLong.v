(* C15: the deficit counters of transform/tdrop/tdrop.go on their own, for LONG streams.
     dropTransform.Transform, after the matcher said yes:
        if targetRate == 100 { countDropped; return DROP }
        if totalMatched > 0 && 100*totalDropped/totalMatched < targetRate { totalMatched++; totalDropped++; DROP }
        else { totalMatched++; PASS }
   The counters are unbounded Z.  [scale] is the counter-rescaling hook that the code does NOT have
   ([no_scale]); [halve_at w] is the variant "when totalMatched reaches w both counters are halved".
   A long stream is not a list of records but a rule (record i is not matched iff (i*a+b) mod q < u,
   RawLength = 10 + i mod 7), iterated with N.iter: case kind 3 of run_case_C15.
   No proofs in this file. *)
From SV Require Import Model.Common.
Open Scope Z_scope.

Definition drop_decide (rate matched dropped : Z) : bool :=
  (matched >? 0) && (100 * dropped / matched <? rate).

Definition no_scale (st : Z * Z) : Z * Z := st.
Definition halve_at (w : Z) (st : Z * Z) : Z * Z :=
  if fst st >=? w then (fst st / 2, snd st / 2) else st.

(* one MATCHED record: new (totalMatched, totalDropped) and "was it dropped" *)
Definition drop_counters_step (scale : Z * Z -> Z * Z) (rate : Z) (st : Z * Z) : (Z * Z) * bool :=
  if rate =? 100 then (st, true) else
  let st1 := scale st in
  if drop_decide rate (fst st1) (snd st1)
  then ((fst st1 + 1, snd st1 + 1), true)
  else ((fst st1 + 1, snd st1), false).

(* n matched records in a row: (counters of the node, really matched, really dropped) *)
Definition sample_step (scale : Z * Z -> Z * Z) (rate : Z) (s : (Z * Z) * (Z * Z)) : (Z * Z) * (Z * Z) :=
  let '(st', b) := drop_counters_step scale rate (fst s) in
  (st', (fst (snd s) + 1, snd (snd s) + (if b then 1 else 0))).

Definition sample_run (scale : Z * Z -> Z * Z) (rate : Z) (n : N) : (Z * Z) * (Z * Z) :=
  N.iter n (sample_step scale rate) ((0, 0), (0, 0)).

(* ---- the long stream of case kind 3 ---- *)

Record lstate := {
  l_i : Z;            (* index of the next record *)
  l_st : Z * Z;       (* totalMatched, totalDropped of the node *)
  l_M : Z; l_D : Z;   (* records matched / dropped so far *)
  l_dl : Z; l_rl : Z; (* RawLength sums of the "label" and "!label" counters *)
  l_out : list bytes  (* checkpoints, newest first *)
}.

Definition long_unmatched (a b q u i : Z) : bool := ((i * a + b) mod q <? u).
Definition long_rawlen (i : Z) : Z := 10 + i mod 7.

Definition checkpoint (M D : Z) : bytes := dec_of_Z M ++ 47%N :: dec_of_Z D.

Definition long_step (scale : Z * Z -> Z * Z) (rate a b q u every : Z) (s : lstate) : lstate :=
  let i := l_i s in
  let s1 :=
    if long_unmatched a b q u i then
      {| l_i := i + 1; l_st := l_st s; l_M := l_M s; l_D := l_D s; l_dl := l_dl s; l_rl := l_rl s; l_out := l_out s |}
    else
      let '(st', dropped) := drop_counters_step scale rate (l_st s) in
      if dropped then
        {| l_i := i + 1; l_st := st'; l_M := l_M s + 1; l_D := l_D s + 1;
           l_dl := l_dl s + long_rawlen i; l_rl := l_rl s; l_out := l_out s |}
      else
        {| l_i := i + 1; l_st := st'; l_M := l_M s + 1; l_D := l_D s;
           l_dl := l_dl s; l_rl := l_rl s + long_rawlen i; l_out := l_out s |} in
  if (every >? 0) && ((i + 1) mod every =? 0)
  then {| l_i := l_i s1; l_st := l_st s1; l_M := l_M s1; l_D := l_D s1; l_dl := l_dl s1; l_rl := l_rl s1;
          l_out := checkpoint (l_M s1) (l_D s1) :: l_out s1 |}
  else s1.

Definition long_run (scale : Z * Z -> Z * Z) (rate n a b q u every : Z) : lstate :=
  N.iter (Z.to_N n) (long_step scale rate a b q u every)
    {| l_i := 0; l_st := (0, 0); l_M := 0; l_D := 0; l_dl := 0; l_rl := 0; l_out := [] |}.

(* "ok:L" rate ":" checkpoints ("matched/dropped" joined by ';') "#" dropped "/" length "," retained "/" length *)
Definition run_long_drop_case (zs : list Z) : bytes :=
  let z k := nth k zs 0 in
  let rate := z 0%nat in let n := z 1%nat in let q := z 4%nat in
  if (rate <? 1) || (rate >? 100) || (n <? 0) || (q <? 1) || (z 2%nat <? 0) || (z 3%nat <? 0) || (n >? 50000000) then [98;97;100;112;114;111;103]%N else
  let s := long_run no_scale rate n (z 2%nat) (z 3%nat) q (z 5%nat) (z 6%nat) in
  (str_ok ++ colon :: 76%N :: dec_of_Z rate ++ colon ::
   join 59%N (rev (l_out s)) ++ 35%N ::
   dec_of_Z (l_D s) ++ 47%N :: dec_of_Z (l_dl s) ++ comma :: dec_of_Z (l_M s - l_D s) ++ 47%N :: dec_of_Z (l_rl s))%list.
