(* Model of input/syslogparser/syslogparser.go after the fix: commits 91dcfb8 (HasSuffix guard) and
   e7bedba (clean when truncated) (NewParser's mapping check, Parse,
   onMalformed, onOverflow, nextFieldBySpace), the counters of
   base/loginputcounterset.go (CountRecordPass / CountRecordDrop and the custom
   "overflow" counter) and the tables of input/syslogprotocol/syslogprotocol.go.
   Go slice expressions go through checked accessors: a slice-bounds or index
   panic of the Go code is an explicit [Panic site] here.  No proofs in this file. *)
From SV Require Import Model.Common Model.Utf8.
Open Scope N_scope.

(* ---------- syslogprotocol ---------- *)

Definition facility_names : list bytes :=
  [
   [107;101;114;110];   (* 0 kern *)
   [117;115;101;114];   (* 1 user *)
   [109;97;105;108];   (* 2 mail *)
   [100;97;101;109;111;110];   (* 3 daemon *)
   [97;117;116;104];   (* 4 auth *)
   [115;121;115;108;111;103];   (* 5 syslog *)
   [108;112;114];   (* 6 lpr *)
   [110;101;119;115];   (* 7 news *)
   [117;117;99;112];   (* 8 uucp *)
   [99;114;111;110];   (* 9 cron *)
   [97;117;116;104;112;114;105;118];   (* 10 authpriv *)
   [102;116;112];   (* 11 ftp *)
   [110;116;112];   (* 12 ntp *)
   [97;117;100;105;116];   (* 13 audit *)
   [97;108;101;114;116];   (* 14 alert *)
   [99;108;111;99;107];   (* 15 clock *)
   [108;111;99;97;108;48];   (* 16 local0 *)
   [108;111;99;97;108;49];   (* 17 local1 *)
   [108;111;99;97;108;50];   (* 18 local2 *)
   [108;111;99;97;108;51];   (* 19 local3 *)
   [108;111;99;97;108;52];   (* 20 local4 *)
   [108;111;99;97;108;53];   (* 21 local5 *)
   [108;111;99;97;108;54];   (* 22 local6 *)
   [108;111;99;97;108;55]    (* 23 local7 *)
  ].

Definition severity_names : list bytes :=
  [
   [101;109;101;114;103];   (* 0 emerg *)
   [97;108;101;114;116];   (* 1 alert *)
   [99;114;105;116];   (* 2 crit *)
   [101;114;114];   (* 3 err *)
   [119;97;114;110];   (* 4 warn *)
   [110;111;116;105;99;101];   (* 5 notice *)
   [105;110;102;111];   (* 6 info *)
   [100;101;98;117;103]    (* 7 debug *)
  ].

(* ---------- configuration, counters, record ---------- *)

(* defs.InputLogMaxMessageBytes, defs.InputLogMaxRecordBytes (package variables,
   assumed non-negative) and the parser's levelMapping *)
Record config := {
  max_msg : N;
  max_rec : N;
  level_mapping : list bytes }.

(* NewParser: an empty mapping selects SeverityNames, any other length than 8 is an error *)
Definition new_parser (mm mr : N) (mapping : list bytes) : outcome config :=
  match mapping with
  | [] => Ok {| max_msg := mm; max_rec := mr; level_mapping := severity_names |}
  | _ => if (length mapping =? 8)%nat
         then Ok {| max_msg := mm; max_rec := mr; level_mapping := mapping |}
         else Err 1
  end.

(* LogInputCounterSet as read after UpdateMetrics: passed/dropped records and
   bytes, and the custom counter pair registered under the label "overflow".
   (uint64 in Go; unbounded here, see the trusted base.) *)
Record counters := {
  passed_n : N; passed_bytes : N;
  dropped_n : N; dropped_bytes : N;
  overflow_n : N; overflow_bytes : N }.

Definition counters_zero : counters :=
  {| passed_n := 0; passed_bytes := 0; dropped_n := 0; dropped_bytes := 0; overflow_n := 0; overflow_bytes := 0 |}.

Record record := {
  f_facility : bytes; f_level : bytes;
  f_time : bytes; f_host : bytes; f_app : bytes; f_pid : bytes; f_source : bytes; f_extradata : bytes;
  f_log : bytes;
  raw_length : nat;
  unescaped : bool }.

(* CountRecordPass / CountRecordDrop / overflowCounter(len(rawLog)) *)
Definition count_pass (c : counters) (rawlen : nat) : counters :=
  {| passed_n := passed_n c + 1; passed_bytes := passed_bytes c + N.of_nat rawlen;
     dropped_n := dropped_n c; dropped_bytes := dropped_bytes c;
     overflow_n := overflow_n c; overflow_bytes := overflow_bytes c |}.

Definition count_drop (c : counters) (rawlen : nat) : counters :=
  {| passed_n := passed_n c; passed_bytes := passed_bytes c;
     dropped_n := dropped_n c + 1; dropped_bytes := dropped_bytes c + N.of_nat rawlen;
     overflow_n := overflow_n c; overflow_bytes := overflow_bytes c |}.

Definition count_overflow (c : counters) (rawlen : nat) : counters :=
  {| passed_n := passed_n c; passed_bytes := passed_bytes c;
     dropped_n := dropped_n c; dropped_bytes := dropped_bytes c;
     overflow_n := overflow_n c + 1; overflow_bytes := overflow_bytes c + N.of_nat rawlen |}.

(* ---------- Go string primitives ---------- *)

(* strings.IndexByte *)
Fixpoint index_byte (s : bytes) (c : N) : option nat :=
  match s with
  | [] => None
  | b :: s' => if b =? c then Some 0%nat else option_map S (index_byte s' c)
  end.

(* s[a:b] and s[a:] with Go int indices (which may be negative): None = "slice bounds out of range" *)
Definition go_slice (s : bytes) (a b : Z) : option bytes :=
  if ((a <? 0) || (b <? a) || (Z.of_nat (length s) <? b))%Z then None
  else Some (firstn (Z.to_nat b - Z.to_nat a) (skipn (Z.to_nat a) s)).

Definition go_slice_from (s : bytes) (a : Z) : option bytes :=
  go_slice s a (Z.of_nat (length s)).

(* s[:b] for a non-negative b *)
Definition go_slice_to (s : bytes) (b : N) : option bytes :=
  if N.of_nat (length s) <? b then None else Some (firstn (N.to_nat b) s).

(* strconv.Atoi on a 64-bit platform: optional sign, at least one digit, digits
   only, value within int64 (the fast path for fewer than 19 bytes cannot
   overflow; longer inputs go through ParseInt(s, 10, 0), which reports a range
   error outside int64).  None = any error. *)
Definition atoi (s : bytes) : option Z :=
  let neg := match s with c :: _ => c =? 45 | [] => false end in                       (* s[0] == '-' *)
  let digits := match s with c :: t => if (c =? 43) || (c =? 45) then t else s | [] => s end in
  match digits with
  | [] => None
  | _ =>
    match N_of_dec_acc digits 0 with
    | None => None
    | Some n =>
      let v := if neg then (- Z.of_N n)%Z else Z.of_N n in
      if ((v <? - 9223372036854775808) || (9223372036854775807 <? v))%Z then None else Some v
    end
  end.

(* strings.HasSuffix: len(s) >= len(suffix) && s[len(s)-len(suffix):] == suffix *)
Definition has_suffix (s suffix : bytes) : bool :=
  (length suffix <=? length s)%nat && bytes_eqb (skipn (length s - length suffix) s) suffix.

(* nextFieldBySpace: (value, remaining part not including the space) *)
Definition next_field_by_space (s : bytes) : option (bytes * bytes) :=
  match index_byte s 32 with
  | None => None
  | Some e => Some (firstn e s, skipn (S e) s)
  end.

(* ---------- Parse ---------- *)

(* Panic sites *)
Definition site_pri_digits : N := 2.     (* val[1 : len(val)-2] *)
Definition site_facility : N := 3.       (* FacilityNames[facility] *)
Definition site_level : N := 4.          (* levelMapping[severity] *)
Definition site_cut : N := 5.            (* remaining[:InputLogMaxMessageBytes] *)

Definition starts_with_lt (s : bytes) : bool :=      (* remaining[0] == '<' (the length is checked before) *)
  match s with c :: _ => c =? 60 | [] => false end.

(* Parse(input): (nil | record | panic, counters afterwards).
   onMalformed = CountRecordDrop + Release, result nil. *)
Definition parse (cfg : config) (cnt : counters) (input : bytes) : outcome (option record) * counters :=
  let rawlen := length input in                      (* record.RawLength = len(input) *)
  let remaining := input in                          (* allocator.NewRecord: a copy of input *)
  let malformed := (Ok None, count_drop cnt rawlen) in
  if (length remaining <? 32)%nat || negb (starts_with_lt remaining) then malformed else
  (* the pri field, e.g. "<163>1" *)
  match next_field_by_space remaining with
  | None => malformed
  | Some (val, next) =>
  if negb (has_suffix val [62; 49]) then malformed else             (* !strings.HasSuffix(val, ">1") *)
  match go_slice val 1 (Z.of_nat (length val) - 2) with
  | None => (Panic site_pri_digits, cnt)
  | Some pri =>
  match atoi pri with
  | None => malformed
  | Some pri_val =>
  let facility := Z.shiftr pri_val 3 in
  if ((facility <? 0) || (Z.of_nat (length facility_names) <=? facility))%Z then malformed else
  match nth_error facility_names (Z.to_nat facility) with
  | None => (Panic site_facility, cnt)
  | Some facility_name =>
  let severity := Z.land pri_val 7 in
  match nth_error (level_mapping cfg) (Z.to_nat severity) with
  | None => (Panic site_level, cnt)
  | Some severity_name =>
  (* rest of header fields delimited by whitespace: time host app pid source extradata *)
  match next_field_by_space next with None => malformed | Some (v_time, r1) =>
  match next_field_by_space r1 with None => malformed | Some (v_host, r2) =>
  match next_field_by_space r2 with None => malformed | Some (v_app, r3) =>
  match next_field_by_space r3 with None => malformed | Some (v_pid, r4) =>
  match next_field_by_space r4 with None => malformed | Some (v_source, r5) =>
  match next_field_by_space r5 with None => malformed | Some (v_extradata, r6) =>
  (* all the rest goes to the "log" field *)
  let overflow := max_msg cfg <? N.of_nat (length r6) in
  let cnt1 := if overflow then count_overflow cnt rawlen else cnt in
  match (if overflow then go_slice_to r6 (max_msg cfg) else Some r6) with
  | None => (Panic site_cut, cnt1)
  | Some msg =>
  let truncated := overflow in
  let msg := if truncated || (max_rec cfg <=? N.of_nat rawlen) then clean_utf8 msg else msg in
  let rec := {| f_facility := facility_name; f_level := severity_name;
                f_time := v_time; f_host := v_host; f_app := v_app; f_pid := v_pid;
                f_source := v_source; f_extradata := v_extradata; f_log := msg;
                raw_length := rawlen;
                unescaped := match index_byte msg 10 with Some _ => true | None => false end |} in
  (Ok (Some rec), count_pass cnt1 rawlen)
  end end end end end end end end end end end end.

(* A sequence of messages through one parser instance: the counters are the only state
   that Parse carries from one call to the next. *)
Fixpoint parse_stream (cfg : config) (cnt : counters) (msgs : list bytes) : list (outcome (option record) * counters) :=
  match msgs with
  | [] => []
  | m :: ms => let r := parse cfg cnt m in r :: parse_stream cfg (snd r) ms
  end.

(* sysloginput's composite parser (this parser followed by the input's extraction transforms) is
   modelled in Model/Composite.v. *)

(* ---------- correspondence entry point ----------
   kind 0: sargs = input :: mapping (no further item = default mapping, else the level mapping),
           zargs = [InputLogMaxMessageBytes; InputLogMaxRecordBytes; InputLogMinRecordBytesToPool]
           (the last one only selects the allocator path in Go)
   kind 1: sargs = [head; unit; tail], zargs = [maxMsg; maxRec; minPool; reps]:
           input = head ++ unit^reps ++ tail, default mapping; the log field is printed as a digest
   kind 2: a sequence of messages handed one after the other to ONE new parser (default mapping):
           sargs = [head; unit; tail; m1; m2; ...], zargs = [maxMsg; maxRec; minPool; reps; i1; i2; ...];
           message table T0 = head ++ unit^reps ++ tail, Tk = mk; the sequence is T(i1), T(i2), ...;
           output "seq:" + the results joined by "/", each with the counters accumulated so far and
           the log field as a digest
   output: "cfgerr" | "drop:<counters>" | "panic:<counters>" |
           "ok:<hex facility>,<hex level>,<hex time>,...,<hex extradata>,<log>,<0|1 unescaped>;<counters>"
           counters = passed,passedBytes,dropped,droppedBytes,overflow,overflowBytes (increments)
           log = hex (kind 0) or "<len>.<sum of bytes>.<sum of the running sums>" (kind 1) *)

Fixpoint repeat_app (u : bytes) (n : nat) (tail : bytes) : bytes :=
  match n with O => tail | S k => u ++ repeat_app u k tail end.

Fixpoint digest_acc (s : bytes) (n s1 s2 : N) : N * N * N :=
  match s with
  | [] => (n, s1, s2)
  | b :: s' => digest_acc s' (n + 1) (s1 + b) (s2 + (s1 + b))
  end.

Definition dec_N (n : N) : bytes := dec_of_Z (Z.of_N n).

Definition digest (s : bytes) : bytes :=
  match digest_acc s 0 0 0 with
  | (n, s1, s2) => dec_N n ++ 46 :: dec_N s1 ++ 46 :: dec_N s2
  end.

Definition str_drop : bytes := [100;114;111;112].       (* "drop" *)
Definition str_cfgerr : bytes := [99;102;103;101;114;114]. (* "cfgerr" *)

Definition str_seq : bytes := [115;101;113].               (* "seq" *)

Definition show_counters (c : counters) : bytes :=
  join comma (map dec_N [passed_n c; passed_bytes c; dropped_n c; dropped_bytes c; overflow_n c; overflow_bytes c]).

Definition show_record (compact : bool) (r : record) : bytes :=
  join comma (map hex [f_facility r; f_level r; f_time r; f_host r; f_app r; f_pid r; f_source r; f_extradata r]
              ++ [if compact then digest (f_log r) else hex (f_log r);
                  if unescaped r then [49] else [48]]).

Definition show_result (compact : bool) (res : outcome (option record) * counters) : bytes :=
  match res with
  | (Ok (Some r), c) => str_ok ++ colon :: show_record compact r ++ 59 :: show_counters c
  | (Ok None, c) => str_drop ++ colon :: show_counters c
  | (Err _, c) => str_err ++ colon :: show_counters c
  | (Panic _, c) => str_panic ++ colon :: show_counters c
  end.

(* kinds 0-2; Model/Composite.v adds kind 3 and defines run_case_C09 *)
Definition run_case_C09_parser (c : case) : bytes :=
  let mm := Z.to_N (zarg c 0) in
  let mr := Z.to_N (zarg c 1) in
  match c_kind c with
  | 2 =>
    match new_parser mm mr [] with
    | Ok cfg =>
      let table := (sarg c 0 ++ repeat_app (sarg c 1) (Z.to_nat (zarg c 3)) (sarg c 2)) :: skipn 3 (c_sargs c) in
      let msgs := map (fun i => nth (Z.to_nat i) table []) (skipn 4 (c_zargs c)) in
      str_seq ++ colon :: join 47 (map (show_result true) (parse_stream cfg counters_zero msgs))
    | _ => str_cfgerr
    end
  | 0 =>
    match new_parser mm mr (tl (c_sargs c)) with
    | Ok cfg => show_result false (parse cfg counters_zero (sarg c 0))
    | _ => str_cfgerr
    end
  | _ =>
    match new_parser mm mr [] with
    | Ok cfg =>
      show_result true (parse cfg counters_zero
                          (sarg c 0 ++ repeat_app (sarg c 1) (Z.to_nat (zarg c 3)) (sarg c 2)))
    | _ => str_cfgerr
    end
  end.
