(* C17 - life cycle of the pipeline sets ("generations") created by orchestrate/obykeyset.NewOrchestrator before and
   after each reload: re-creation of the pipelines of queued chunks (initialPipelineIDs), creation on demand by
   traffic, Shutdown (GlobalCachedMap.Destroy).

   One generation = one byKeySetOrchestrator:
     g_todo  the rest of initialPipelineIDs the loop in NewOrchestrator has not reached yet
     g_made  keys of workerMap.globalMap in creation order (append-only, NOT emptied by Destroy)
     g_ret   NewOrchestrator has returned (only then the caller - launchOrchestrator / reload() - holds the object,
             can create sinks on it and can call Shutdown)
     g_shut  Shutdown has returned
   Steps (each one is atomic in the code: getOrCreate and Destroy run under globalMutex):
     RNew ids     NewOrchestrator is entered.  reload() calls completeRenewal() only after oldDownstream.Shutdown()
                  returned, the agent starts with no generation: enabled when every earlier generation is shut down.
     RCreate g    one iteration of the loop over initialPipelineIDs: localMap.GetOrCreate -> getOrCreate: a pipeline
                  is started unless the key is in the map.  NOTHING in getOrCreate looks at whether Destroy has run:
                  the step is enabled whenever g_todo is not empty.
     RReturn g    NewOrchestrator returns.  [sync = true] (the code): after the loop, i.e. when g_todo = [].
                  [sync = false] (variant: the loop runs in a goroutine): at any time.
     RDemand g k  a sink of generation g asks for the pipeline of key set k (Accept -> GetOrCreate).  Sinks exist only
                  after RReturn; reloadable.go hands no record to a sink of a generation that is shut down
                  (C17_no_record_to_dead_pipeline), so: enabled when g_ret and not g_shut.
     RShutdown g  Destroy: closes the channel of every pipeline in the map at that moment, waits for them to stop.
                  Enabled when g_ret (the caller has the object) and not yet shut down.
   The guard against "a pipeline is created after its set was shut down" is therefore nothing but the ORDER
   loop-then-return; the theorems in Proofs/ReloadRecoverProofs.v depend on it.  No proofs in this file. *)
From SV Require Import Model.Common.
From Coq Require Import Arith List Bool.
Import ListNotations.
Local Open Scope nat_scope.

Inductive pev := PStart (g id : nat) | PStop (g id : nat) | ShutRet (g : nat).

Record rstate := mkR {
  r_n : nat;                   (* number of generations created so far *)
  r_ids : nat -> list nat;     (* per generation: initialPipelineIDs *)
  r_todo : nat -> list nat;    (* g_todo *)
  r_made : nat -> list nat;    (* g_made *)
  r_ret : nat -> bool;         (* g_ret *)
  r_shut : nat -> bool;        (* g_shut *)
  r_live : list (nat * nat);   (* running pipelines (generation, queue dir), newest first *)
  r_log : list pev             (* history, newest first *)
}.

Inductive revent := RNew (ids : list nat) | RCreate (g : nat) | RReturn (g : nat) | RDemand (g id : nat) | RShutdown (g : nat).

Definition rinit : rstate := mkR 0 (fun _ => []) (fun _ => []) (fun _ => []) (fun _ => false) (fun _ => false) [] [].

Definition upd {A} (f : nat -> A) (g : nat) (x : A) : nat -> A := fun i => if i =? g then x else f i.

Definition mem (id : nat) (l : list nat) : bool := existsb (Nat.eqb id) l.

Definition all_shut (st : rstate) : bool := forallb (r_shut st) (seq 0 (r_n st)).

(* GlobalCachedMap.getOrCreate with the rest of the todo list given *)
Definition get_or_create (st : rstate) (g id : nat) (todo : list nat) : rstate :=
  if mem id (r_made st g)
  then mkR (r_n st) (r_ids st) (upd (r_todo st) g todo) (r_made st) (r_ret st) (r_shut st) (r_live st) (r_log st)
  else mkR (r_n st) (r_ids st) (upd (r_todo st) g todo) (upd (r_made st) g (r_made st g ++ [id])) (r_ret st) (r_shut st)
           ((g, id) :: r_live st) (PStart g id :: r_log st).

Definition rstep (sync : bool) (st : rstate) (e : revent) : option rstate :=
  match e with
  | RNew ids =>
      if all_shut st
      then Some (mkR (S (r_n st)) (upd (r_ids st) (r_n st) ids) (upd (r_todo st) (r_n st) ids) (upd (r_made st) (r_n st) [])
                     (upd (r_ret st) (r_n st) false) (upd (r_shut st) (r_n st) false) (r_live st) (r_log st))
      else None
  | RCreate g =>
      if g <? r_n st then
        match r_todo st g with
        | [] => None
        | id :: rest => Some (get_or_create st g id rest)
        end
      else None
  | RReturn g =>
      if (g <? r_n st) && negb (r_ret st g) && (negb sync || match r_todo st g with [] => true | _ => false end)
      then Some (mkR (r_n st) (r_ids st) (r_todo st) (r_made st) (upd (r_ret st) g true) (r_shut st) (r_live st) (r_log st))
      else None
  | RDemand g id =>
      if (g <? r_n st) && r_ret st g && negb (r_shut st g) then Some (get_or_create st g id (r_todo st g)) else None
  | RShutdown g =>
      if (g <? r_n st) && r_ret st g && negb (r_shut st g)
      then Some (mkR (r_n st) (r_ids st) (r_todo st) (r_made st) (r_ret st) (upd (r_shut st) g true)
                     (filter (fun p => negb (fst p =? g)) (r_live st))
                     (ShutRet g :: rev (map (PStop g) (r_made st g)) ++ r_log st))
      else None
  end.

Fixpoint rrun (sync : bool) (st : rstate) (evs : list revent) : option rstate :=
  match evs with
  | [] => Some st
  | e :: r => match rstep sync st e with Some st' => rrun sync st' r | None => None end
  end.

(* ---------- correspondence: kind 3 ----------
   zargs: n, delay, (op, arg)*  with op 1 = reload (valid), 2 = reload (invalid: no step), 3 = record of key set arg.
   The harness runs: start (NewOrchestrator with ids 0..n-1); the ops; Close; Shutdown.  The ids given to a new
   generation are 0..n-1 followed by the key sets that got a pipeline since, in order of first appearance. *)

(* NewOrchestrator as the code runs it: enter, the whole loop, return *)
Definition new_generation_events (g : nat) (ids : list nat) : list revent :=
  RNew ids :: map (fun _ => RCreate g) ids ++ [RReturn g].

Fixpoint sched_events (ops : list (Z * Z)) (cur : nat) (ids : list nat) : list revent :=
  match ops with
  | [] => [RShutdown cur]
  | (op, a) :: r =>
      if Z.eqb op 1 then RShutdown cur :: new_generation_events (S cur) ids ++ sched_events r (S cur) ids
      else if Z.eqb op 3 then
        let k := Z.to_nat a in
        RDemand cur k :: sched_events r cur (if mem k ids then ids else ids ++ [k])
      else sched_events r cur ids
  end.

Fixpoint pairs_of (l : list Z) : option (list (Z * Z)) :=
  match l with
  | [] => Some []
  | op :: a :: r =>
      if (Z.leb 1 op && Z.leb op 3 && Z.leb 0 a && Z.leb a 99)%bool
      then match pairs_of r with Some ps => Some ((op, a) :: ps) | None => None end
      else None
  | _ => None
  end.

Definition dec_nat (n : nat) : bytes := dec_of_N (N.of_nat n).

Definition pev_tok (e : pev) : bytes :=
  match e with
  | PStart g id => 115%N :: dec_nat g ++ 46%N :: dec_nat id
  | PStop g id => 120%N :: dec_nat g ++ 46%N :: dec_nat id
  | ShutRet g => 100%N :: dec_nat g
  end.

Definition count_records (ops : list (Z * Z)) : nat := length (filter (fun p => Z.eqb (fst p) 3) ops).

Definition run_recover (c : case) : bytes :=
  match c_zargs c with
  | n :: delay :: rest =>
      if (Z.leb 0 n && Z.leb n 64 && Z.leb 0 delay && Z.leb delay 1000)%bool then
        match pairs_of rest with
        | Some ops =>
            let ids := seq 0 (Z.to_nat n) in
            match rrun true rinit (new_generation_events 0 ids ++ sched_events ops 0 ids) with
            | Some st =>
                str_ok ++ colon :: join comma (map pev_tok (rev (r_log st)))
                  ++ [59;108;105;118;101;61]%N ++ dec_nat (length (r_live st))
                  ++ [59;114;101;99;115;61]%N ++ dec_nat (count_records ops)
            | None => str_err
            end
        | None => bad_case_output
        end
      else bad_case_output
  | _ => bad_case_output
  end.
