(* C06 - model of the routing / tagging / queue-naming code of slog-agent:
     util/mergedkey.go            AppendMergedKey                   -> uvarint, merged_key
     util/localcachedmap          GetOrCreate, getOrCreate          -> local_get_or_create, global_get_or_create
     orchestrate/obykeyset        NewOrchestrator, newPipeline,
                                  sink.Accept                       -> init_ids, new_pipeline, run_ops
     orchestrate/obase/tagbuilder + util/stringtemplate             -> parse_template, build_tag
     buffer/hybridbuffer/queuedirs.go makeBufferQueueDir,
                                  listBufferQueueIDs, sanitizeDirName -> make_queue_dir, list_buffer_ids, sanitize
     base/logprocesscounterset.go SelectMetricKeySet, MetricLabelValues -> metric_select, metric_label_values
                                  (strings.ToValidUTF8(v, "") = Model/Utf8.v to_valid_utf8)
   md5 is a Section variable of the queue-directory part; the correspondence run instantiates it
   with Model/Md5.v.  No proofs in this file. *)
From SV Require Import Model.Common Model.Md5.
From SV Require Model.Utf8.
Open Scope N_scope.

Definition obind {A B} (o : outcome A) (f : A -> outcome B) : outcome B :=
  match o with Ok a => f a | Err e => Err e | Panic s => Panic s end.
Local Notation "x <- e ;; f" := (obind e (fun x => f)) (at level 61, e at next level, right associativity).
Local Notation "' p <- e ;; f" := (obind e (fun p => f)) (at level 61, p pattern, e at next level, right associativity).

(* ------------------------------------------------------------------------------------------ *)
(* merged key                                                                                 *)

(* binary.AppendUvarint:  for x >= 0x80 { append(byte(x)|0x80); x >>= 7 }; append(byte(x)).
   The fuel N.log2 x is more than the number of 7-bit groups, so the [O] branch is only reached
   with x < 128 (Proofs/RoutingProofs.v, uvarint_fuel_enough). *)
Fixpoint uvarint_fuel (fuel : nat) (x : N) : bytes :=
  match fuel with
  | O => [x]
  | S f => if x <? 128 then [x] else (128 + x mod 128) :: uvarint_fuel f (x / 128)
  end.

Definition uvarint (x : N) : bytes := uvarint_fuel (N.to_nat (N.log2 x)) x.

(* util.AppendMergedKey (the repaired code): every key preceded by its length *)
Fixpoint append_merged_key (buf : bytes) (keys : list bytes) : bytes :=
  match keys with
  | [] => buf
  | k :: r => append_merged_key ((buf ++ uvarint (N.of_nat (length k))) ++ k) r
  end.

Definition merged_key (keys : list bytes) : bytes := append_merged_key [] keys.

(* the merged key of the original code (plain concatenation), kept to state what was wrong with it *)
Fixpoint concat_key (buf : bytes) (keys : list bytes) : bytes :=
  match keys with
  | [] => buf
  | k :: r => concat_key (buf ++ k) r
  end.

(* Go map[string]V as an association list, newest first; keys are never re-bound *)
Definition amap := list (bytes * nat).

Fixpoint lookup (k : bytes) (m : amap) : option nat :=
  match m with
  | [] => None
  | (k', v) :: r => if bytes_eqb k k' then Some v else lookup k r
  end.

(* ------------------------------------------------------------------------------------------ *)
(* tag templates: stringtemplate.NewExpander / Expander.RunWithBuffer / TagBuilder            *)

Inductive tpart :=
| TLit (s : bytes)                       (* literal text *)
| TVar (i : nat)                         (* $name : the i-th key *)
| TSub (i : nat) (s e : option Z).       (* ${name} / ${name[s:e]} *)

Definition is_word (c : N) : bool :=
  ((48 <=? c) && (c <=? 57)) || ((65 <=? c) && (c <=? 90)) || ((97 <=? c) && (c <=? 122)) || (c =? 95).

Fixpoint span (p : N -> bool) (s : bytes) : bytes * bytes :=
  match s with
  | [] => ([], [])
  | c :: r => if p c then let (a, b) := span p r in (c :: a, b) else ([], s)
  end.

Fixpoint has_dollar_dollar (s : bytes) : bool :=
  match s with
  | 36 :: ((36 :: _) as r) => true
  | _ :: r => has_dollar_dollar r
  | [] => false
  end.

Inductive scan_part := SLit (s : bytes) | SVar (name : bytes) | SExpr (vexpr : bytes).

(* partRegex.FindAllString(template, -1) with partRegex = (\$\w+|\$\{\w+[^}]*\}|[^$]+):
   the parts in order and whether some byte was matched by no alternative (then the lengths do
   not add up and NewExpander fails with "unenclosed variable quotes"). fuel > length t. *)
Fixpoint scan_parts (fuel : nat) (t : bytes) : list scan_part * bool :=
  match fuel with
  | O => ([], false)
  | S f =>
    match t with
    | [] => ([], false)
    | c :: r =>
      if c =? 36 then
        let (w, r') := span is_word r in
        match w with
        | _ :: _ => let (ps, sk) := scan_parts f r' in (SVar w :: ps, sk)
        | [] =>
          let skip := let (ps, _) := scan_parts f r in (ps, true) in
          match r with
          | 123 :: r1 =>
            let (w1, r2) := span is_word r1 in
            match w1 with
            | [] => skip
            | _ :: _ =>
              let (x, r3) := span (fun c => negb (c =? 125)) r2 in
              match r3 with
              | 125 :: r4 => let (ps, sk) := scan_parts f r4 in (SExpr (w1 ++ x) :: ps, sk)
              | _ => skip
              end
            end
          | _ => skip
          end
        end
      else
        let (l, r') := span (fun c => negb (c =? 36)) t in
        let (ps, sk) := scan_parts f r' in (SLit l :: ps, sk)
    end
  end.

Fixpoint index_of (name : bytes) (names : list bytes) : option nat :=
  match names with
  | [] => None
  | x :: r => if bytes_eqb name x then Some O else option_map S (index_of name r)
  end.

(* (-?[0-9]+)? at the head of s: the number if there is one, and the rest; None = no match possible *)
Definition parse_opt_int (s : bytes) : option (option Z * bytes) :=
  match s with
  | 45 :: r =>
    let (d, r') := span is_digit r in
    match d with
    | [] => None
    | _ => match N_of_dec_acc d 0 with Some n => Some (Some (- Z.of_N n)%Z, r') | None => None end
    end
  | _ =>
    let (d, r') := span is_digit s in
    match d with
    | [] => Some (None, s)
    | _ => match N_of_dec_acc d 0 with Some n => Some (Some (Z.of_N n), r') | None => None end
    end
  end.

(* variableExpressionRegex  ^(\w+)(\[(-?[0-9]+)?:(-?[0-9]+)?\])?$  on the text between the braces *)
Definition parse_vexpr (vexpr : bytes) : option (bytes * option Z * option Z) :=
  let (name, rest) := span is_word vexpr in
  match name, rest with
  | [], _ => None
  | _, [] => Some (name, None, None)
  | _, 91 :: r1 =>
    match parse_opt_int r1 with
    | Some (s, 58 :: r2) =>
      match parse_opt_int r2 with
      | Some (e, [93]) => Some (name, s, e)
      | _ => None
      end
    | _ => None
    end
  | _, _ => None
  end.

Fixpoint resolve_parts (names : list bytes) (ps : list scan_part) : option (list tpart) :=
  match ps with
  | [] => Some []
  | p :: r =>
    let this :=
      match p with
      | SLit s => Some (TLit s)
      | SVar name => option_map TVar (index_of name names)
      | SExpr vexpr =>
        match parse_vexpr vexpr with
        | Some (name, s, e) => option_map (fun i => TSub i s e) (index_of name names)
        | None => None
        end
      end in
    match this, resolve_parts names r with
    | Some x, Some xs => Some (x :: xs)
    | _, _ => None
    end
  end.

(* obase.NewTagBuilder(template, keyNames): None = error *)
Definition parse_template (names : list bytes) (t : bytes) : option (list tpart) :=
  if has_dollar_dollar t then None else
  let (ps, skipped) := scan_parts (S (length t)) t in
  match resolve_parts names ps with
  | Some parts => if skipped then None else Some parts
  | None => None
  end.

(* the closure returned by createVariableExpressionSolver; v[start:end] through the checked slice *)
Definition go_substr (v : bytes) (ps pe : option Z) : outcome bytes :=
  let len := Z.of_nat (length v) in
  let start := match ps with Some s => s | None => 0%Z end in
  let start := if (start <? 0)%Z then (start + len)%Z else start in
  let start := if (start <? 0)%Z then 0%Z else start in
  if (start >=? len)%Z then Ok [] else
  let e := match pe with Some e => e | None => 2147483647%Z end in
  let e := if (e <? 0)%Z then (e + len)%Z else e in
  if (e <? 0)%Z then Ok [] else
  let e := if (e >? len)%Z then len else e in
  if (start <? e)%Z then
    match slice v (Z.to_nat start) (Z.to_nat e) with
    | Some r => Ok r
    | None => Panic 2
    end
  else Ok [].

(* labelValues[li] : index out of range = Panic 1 *)
Definition key_at (keys : list bytes) (i : nat) : outcome bytes :=
  match nth_error keys i with Some k => Ok k | None => Panic 1 end.

Definition expand_part (keys : list bytes) (p : tpart) : outcome bytes :=
  match p with
  | TLit s => Ok s
  | TVar i => key_at keys i
  | TSub i s e => v <- key_at keys i ;; go_substr v s e
  end.

Fixpoint expand_parts (keys : list bytes) (ps : list tpart) (buf : bytes) : outcome bytes :=
  match ps with
  | [] => Ok buf
  | p :: r => x <- expand_part keys p ;; expand_parts keys r (buf ++ x)
  end.

(* Expander.RunWithBuffer, with its one-part shortcut *)
Definition build_tag (parts : list tpart) (keys : list bytes) : outcome bytes :=
  match parts with
  | [p] => expand_part keys p
  | _ => expand_parts keys parts []
  end.

(* ------------------------------------------------------------------------------------------ *)
(* the by-key-set orchestrator                                                                *)

(* base.MetricLabelValues (fix b1856f7): where field values become Prometheus label values they go through
   strings.ToValidUTF8(value, ""): every byte that is not part of a well-formed UTF-8 sequence is removed, valid
   strings are unchanged.  The routing keys themselves (merged key, id, tag, queue name) are NOT changed. *)
Definition metric_label_values (values : list bytes) : list bytes := map Utf8.to_valid_utf8 values.

(* p_keys: the key values the pipeline was created for (the [keys] argument of newPipeline);
   p_labels: the values of the key_* labels fixed in the pipeline's metric creator
   (AddOrGetPrefix("process_", "orchestrator" :: key_*, "byKeySet" :: MetricLabelValues(keys)); the constant
   first label is left out) *)
Record pipeline := { p_keys : list bytes; p_id : bytes; p_tag : bytes; p_labels : list bytes }.

(* workerMap: merged key -> index into the list of pipelines (creation order) *)
Record gstate := { g_map : amap; g_pipes : list pipeline }.

Definition g_init : gstate := {| g_map := []; g_pipes := [] |}.

Definition pipeline_id (keys : list bytes) : bytes := join comma keys.

(* byKeySetOrchestrator.newPipeline *)
Definition new_pipeline (parts : list tpart) (keys : list bytes) : outcome pipeline :=
  tag <- build_tag parts keys ;;
  Ok {| p_keys := keys; p_id := pipeline_id keys; p_tag := tag; p_labels := metric_label_values keys |}.

(* GlobalCachedMap.getOrCreate *)
Definition global_get_or_create (parts : list tpart) (g : gstate) (keys : list bytes) (mk : bytes)
  : outcome (gstate * nat) :=
  match lookup mk (g_map g) with
  | Some i => Ok (g, i)
  | None =>
    p <- new_pipeline parts keys ;;
    let i := length (g_pipes g) in
    Ok ({| g_map := (mk, i) :: g_map g; g_pipes := g_pipes g ++ [p] |}, i)
  end.

(* LocalCachedMap.GetOrCreate *)
Definition local_get_or_create (parts : list tpart) (g : gstate) (lm : amap) (keys : list bytes)
  : outcome (gstate * amap * nat) :=
  let mk := merged_key keys in
  match lookup mk lm with
  | Some i => Ok (g, lm, i)
  | None =>
    '(g', i) <- global_get_or_create parts g keys mk ;;
    Ok (g', (mk, i) :: lm, i)
  end.

(* NewOrchestrator: keys := strings.Split(pipelineID, ","); arity filter *)
Definition recover_keys (n : nat) (id : bytes) : option (list bytes) :=
  let ks := split_on comma id in
  if Nat.eqb (length ks) n then Some ks else None.

Fixpoint init_ids (parts : list tpart) (n : nat) (g : gstate) (lm : amap) (ids : list bytes)
  : outcome (gstate * amap) :=
  match ids with
  | [] => Ok (g, lm)
  | id :: r =>
    match recover_keys n id with
    | None => init_ids parts n g lm r
    | Some ks =>
      '(g', lm', _) <- local_get_or_create parts g lm ks ;;
      init_ids parts n g' lm' r
    end
  end.

Definition orch_init (parts : list tpart) (n : nat) (ids : list bytes) : outcome gstate :=
  '(g, _) <- init_ids parts n g_init [] ids ;; Ok g.

(* sinks: one local map per connection; an operation = (sink number, key tuple of the record) *)
Definition op := (nat * list bytes)%type.

Fixpoint set_nth {A} (l : list A) (i : nat) (x : A) : list A :=
  match l, i with
  | [], _ => []
  | _ :: r, O => x :: r
  | y :: r, S j => y :: set_nth r j x
  end.

Definition step (parts : list tpart) (g : gstate) (lms : list amap) (o : op)
  : outcome (gstate * list amap * nat) :=
  let (si, keys) := o in
  '(g', lm', i) <- local_get_or_create parts g (nth si lms []) keys ;;
  Ok (g', set_nth lms si lm', i).

(* Accept record by record: final state and the pipeline index each record was appended to *)
Fixpoint run_ops (parts : list tpart) (g : gstate) (lms : list amap) (ops : list op)
  : outcome (gstate * list amap * list nat) :=
  match ops with
  | [] => Ok (g, lms, [])
  | o :: r =>
    '(g', lms', i) <- step parts g lms o ;;
    '(g'', lms'', is) <- run_ops parts g' lms' r ;;
    Ok (g'', lms'', i :: is)
  end.

(* ------------------------------------------------------------------------------------------ *)
(* metric key sets: LogProcessCounterSet.SelectMetricKeySet                                    *)

(* keySetPairs: merged metric key -> index of the counter pair; per pair the key values it was created for
   (permKeys) and the label values of its counters (labelValues := MetricLabelValues(permKeys)) *)
Record mstate := { m_map : amap; m_sets : list (list bytes); m_labels : list (list bytes) }.

Definition m_init : mstate := {| m_map := []; m_sets := []; m_labels := [] |}.

Definition metric_select (m : mstate) (keys : list bytes) : mstate * nat :=
  let mk := merged_key keys in
  match lookup mk (m_map m) with
  | Some i => (m, i)
  | None =>
    let i := length (m_sets m) in
    ({| m_map := (mk, i) :: m_map m; m_sets := m_sets m ++ [keys];
        m_labels := m_labels m ++ [metric_label_values keys] |}, i)
  end.

Fixpoint metric_run (m : mstate) (recs : list (list bytes)) : mstate * list nat :=
  match recs with
  | [] => (m, [])
  | ks :: r =>
    let (m', i) := metric_select m ks in
    let (m'', is) := metric_run m' r in
    (m'', i :: is)
  end.

(* ------------------------------------------------------------------------------------------ *)
(* sorting (sort.Strings = bytewise order)                                                    *)

Fixpoint bytes_leb (a b : bytes) : bool :=
  match a, b with
  | [], _ => true
  | _ :: _, [] => false
  | x :: a', y :: b' => if x <? y then true else if y <? x then false else bytes_leb a' b'
  end.

Fixpoint insert_by {A} (key : A -> bytes) (x : A) (l : list A) : list A :=
  match l with
  | [] => [x]
  | y :: r => if bytes_leb (key x) (key y) then x :: l else y :: insert_by key x r
  end.

Fixpoint sort_by {A} (key : A -> bytes) (l : list A) : list A :=
  match l with
  | [] => []
  | x :: r => insert_by key x (sort_by key r)
  end.

(* ------------------------------------------------------------------------------------------ *)
(* queue directories                                                                          *)

(* sanitizeDirName *)
Definition sanitize (s : bytes) : bytes := map (fun c => if (c =? 0) || (c =? 47) then 95 else c) s.

(* hash[len(hash)-queueDirHashLength:] *)
Definition tail8 (h : bytes) : bytes := skipn (length h - 8) h.

(* what is found in the root directory *)
Record fsentry := {
  fe_name : bytes;
  fe_mode : N;                (* st_mode *)
  fe_id : option bytes;       (* content of <entry>/.id if it can be read (no xattr fallback in the model) *)
  fe_chunks : nat             (* number of files in it accepted by matchChunkID *)
}.

Definition S_IFMT : N := 61440.   (* 0o170000 *)
Definition S_IFDIR : N := 16384.  (* 0o040000 *)
Definition S_IFREG : N := 32768.  (* 0o100000 *)

Definition is_dir_mode (m : N) : bool := N.land m S_IFMT =? S_IFDIR.

(* the loop of listBufferQueueIDs over the sorted entry names *)
Fixpoint list_ids (es : list fsentry) : list bytes :=
  match es with
  | [] => []
  | e :: r =>
    if negb (is_dir_mode (fe_mode e)) then list_ids r else
    match fe_id e with
    | None => list_ids r
    | Some [] => list_ids r
    | Some id => if Nat.ltb 0 (fe_chunks e) then id :: list_ids r else list_ids r
    end
  end.

Definition list_buffer_ids (es : list fsentry) : list bytes := list_ids (sort_by fe_name es).

(* a queue directory of the root, and the root itself *)
Record qdir := { qd_name : bytes; qd_perm : N; qd_id : option bytes; qd_chunks : list nat }.
Record qroot := { qr_id : option bytes; qr_chunks : list nat; qr_dirs : list qdir }.

Definition qroot_empty : qroot := {| qr_id := None; qr_chunks := []; qr_dirs := [] |}.

Inductive qref := QRoot | QSub (name : bytes) | QNone.

Fixpoint has_dir (name : bytes) (ds : list qdir) : bool :=
  match ds with
  | [] => false
  | d :: r => bytes_eqb name (qd_name d) || has_dir name r
  end.

Fixpoint upd_dir (name : bytes) (f : qdir -> qdir) (ds : list qdir) : list qdir :=
  match ds with
  | [] => []
  | d :: r => if bytes_eqb name (qd_name d) then f d :: r else d :: upd_dir name f r
  end.

Definition NAME_MAX : nat := 255.

Section QueueDirs.
  Variable md5hex : bytes -> bytes.        (* util.MD5ToHexdigest *)

  (* the last path element chosen by makeBufferQueueDir; None = the root directory itself *)
  Definition queue_dir_name (id : bytes) : option bytes :=
    match id with
    | [] => None
    | _ => Some (sanitize id ++ [46] ++ tail8 (md5hex id))
    end.

  (* makeBufferQueueDir: MkdirAll (0755 minus umask, only if absent) + WriteFile(.id).
     A name longer than NAME_MAX cannot be created: nothing is written and the bufferer works
     without a directory (QNone). *)
  Definition make_queue_dir (umask : N) (root : qroot) (id : bytes) : qroot * qref :=
    match queue_dir_name id with
    | None => ({| qr_id := Some []; qr_chunks := qr_chunks root; qr_dirs := qr_dirs root |}, QRoot)
    | Some name =>
      if Nat.ltb NAME_MAX (length name) then (root, QNone) else
      if has_dir name (qr_dirs root)
      then ({| qr_id := qr_id root; qr_chunks := qr_chunks root;
               qr_dirs := upd_dir name (fun d => {| qd_name := qd_name d; qd_perm := qd_perm d;
                                                    qd_id := Some id; qd_chunks := qd_chunks d |}) (qr_dirs root) |},
            QSub name)
      else ({| qr_id := qr_id root; qr_chunks := qr_chunks root;
               qr_dirs := qr_dirs root ++ [{| qd_name := name; qd_perm := N.land 493 (N.lxor umask 511);
                                              qd_id := Some id; qd_chunks := [] |}] |},
            QSub name)
    end.

  (* chunkOperator.UnloadChunk into the directory the bufferer opened *)
  Definition store_chunk (root : qroot) (ref : qref) (r : nat) : qroot :=
    match ref with
    | QRoot => {| qr_id := qr_id root; qr_chunks := qr_chunks root ++ [r]; qr_dirs := qr_dirs root |}
    | QSub name =>
      {| qr_id := qr_id root; qr_chunks := qr_chunks root;
         qr_dirs := upd_dir name (fun d => {| qd_name := qd_name d; qd_perm := qd_perm d; qd_id := qd_id d;
                                              qd_chunks := qd_chunks d ++ [r] |}) (qr_dirs root) |}
    | QNone => root
    end.

  (* the pipelines create their queue directories in creation order *)
  Fixpoint make_dirs (umask : N) (root : qroot) (ps : list pipeline) : qroot * list qref :=
    match ps with
    | [] => (root, [])
    | p :: r =>
      let (root', ref) := make_queue_dir umask root (p_id p) in
      let (root'', refs) := make_dirs umask root' r in
      (root'', ref :: refs)
    end.

  (* record number r (0,1,..) was routed to pipeline (nth r where); its chunk goes to that pipeline's directory *)
  Fixpoint store_chunks (root : qroot) (refs : list qref) (where_ : list nat) (r : nat) : qroot :=
    match where_ with
    | [] => root
    | pi :: rest => store_chunks (store_chunk root (nth pi refs QNone) r) refs rest (S r)
    end.

  (* the root directory as listBufferQueueIDs sees it: queue directories, the root's own .id file and
     the chunk files spilled into the root ("r<n>.ck") *)
  Definition chunk_file_name (r : nat) : bytes := 114 :: dec_of_N (N.of_nat r) ++ [46; 99; 107].

  Definition root_entries (umask : N) (root : qroot) : list fsentry :=
    let fmode := S_IFREG + N.land 420 (N.lxor umask 511) in
    map (fun d => {| fe_name := qd_name d; fe_mode := S_IFDIR + qd_perm d; fe_id := qd_id d;
                     fe_chunks := length (qd_chunks d) |}) (qr_dirs root)
    ++ (match qr_id root with
        | Some _ => [{| fe_name := [46; 105; 100]; fe_mode := fmode; fe_id := None; fe_chunks := O |}]
        | None => []
        end)
    ++ map (fun r => {| fe_name := chunk_file_name r; fe_mode := fmode; fe_id := None; fe_chunks := O |})
           (qr_chunks root).
End QueueDirs.

Fixpoint dedup (seen : list bytes) (l : list bytes) : list bytes :=
  match l with
  | [] => []
  | x :: r => if existsb (bytes_eqb x) seen then dedup seen r else x :: dedup (x :: seen) r
  end.

(* ------------------------------------------------------------------------------------------ *)
(* correspondence entry point                                                                 *)

Definition str_badcase : bytes := bad_case_output.
Definition str_err_tmpl : bytes := [101;114;114;58;116;109;112;108]. (* "err:tmpl" *)
Definition dash : bytes := [45].

Definition hex_tuple (t : list bytes) : bytes := join 46 (map hex t).

Definition dec_nat (n : nat) : bytes := dec_of_N (N.of_nat n).

Definition pipe_out (with_dir : bool) (p : pipeline) : bytes :=
  hex (p_id p) ++ 47 :: hex (p_tag p) ++ 47 :: hex_tuple (p_labels p)
  ++ (if with_dir then 47 :: match queue_dir_name md5_hex (p_id p) with None => dash | Some nm => hex nm end else []).

Definition pipes_out (with_dir : bool) (ps : list pipeline) : bytes := join 59 (map (pipe_out with_dir) ps).

Fixpoint chunks_of (fuel n : nat) (l : list bytes) : list (list bytes) :=
  match fuel with
  | O => []
  | S f => match l with [] => [] | _ => firstn n l :: chunks_of f n (skipn n l) end
  end.

Definition tuples_of (n : nat) (l : list bytes) : option (list (list bytes)) :=
  if Nat.eqb (Nat.modulo (length l) n) 0 then Some (chunks_of (length l) n l) else None.

Definition nat_of_Z (z : Z) : nat := Z.to_nat z.

Definition in_range (z lo hi : Z) : bool := ((lo <=? z) && (z <=? hi))%Z.

(* kind 1: sargs = template, n key names, ninit initial ids, then the records' key values;
           zargs = n, nsinks, ninit, then the sink of each record *)
Definition run_route (c : case) : bytes :=
  match c_zargs c, c_sargs c with
  | zn :: zs :: zi :: zsinks, tmpl :: rest =>
    if negb (in_range zn 1 8 && in_range zs 1 16 && (0 <=? zi)%Z)%bool then str_badcase else
    let n := nat_of_Z zn in let nsinks := nat_of_Z zs in let ninit := nat_of_Z zi in
    if Nat.ltb (length rest) (n + ninit) then str_badcase else
    let names := firstn n rest in
    let inits := firstn ninit (skipn n rest) in
    match tuples_of n (skipn (n + ninit) rest) with
    | None => str_badcase
    | Some tuples =>
      if negb (Nat.eqb (length zsinks) (length tuples)) then str_badcase else
      match parse_template names tmpl with
      | None => str_err_tmpl
      | Some parts =>
        let ops := combine (map (fun z => let s := nat_of_Z z in
                                          if ((z <? 0)%Z || negb (Nat.ltb s nsinks))%bool then O else s) zsinks) tuples in
        match (g <- orch_init parts n inits ;; run_ops parts g (repeat [] nsinks) ops) with
        | Ok (g, _, is) =>
          str_ok ++ colon :: pipes_out false (g_pipes g) ++ 35 :: join comma (map dec_nat is)
        | _ => str_panic
        end
      end
    end
  | _, _ => str_badcase
  end.

Definition ints_out (l : list nat) : bytes :=
  match l with [] => dash | _ => join 46 (map dec_nat l) end.

Definition id_out (o : option bytes) : bytes := match o with None => dash | Some i => hex i end.

Definition eq_ : N := 61.

(* kind 2: sargs = template, n key names, the records' key values; zargs = n, umask *)
Definition run_disk (c : case) : bytes :=
  match c_zargs c, c_sargs c with
  | [zn; zu], tmpl :: rest =>
    if negb (in_range zn 1 8 && in_range zu 0 511)%bool then str_badcase else
    let n := nat_of_Z zn in let umask := Z.to_N zu in
    if Nat.ltb (length rest) n then str_badcase else
    let names := firstn n rest in
    match tuples_of n (skipn n rest) with
    | None => str_badcase
    | Some tuples =>
      match parse_template names tmpl with
      | None => str_err_tmpl
      | Some parts =>
        match run_ops parts g_init [[]] (map (fun t => (O, t)) tuples) with
        | Ok (g, _, is) =>
          (* phase A: directories and chunks *)
          let (root0, refs) := make_dirs md5_hex umask qroot_empty (g_pipes g) in
          let root := store_chunks root0 refs is O in
          let dirs := sort_by qd_name (qr_dirs root) in
          let dout := join 59 ((dash ++ eq_ :: id_out (qr_id root) ++ eq_ :: ints_out (qr_chunks root))
                               :: map (fun d => hex (qd_name d) ++ eq_ :: id_out (qd_id d) ++ eq_ :: ints_out (qd_chunks d)) dirs) in
          (* phase C: restart *)
          (* the harness sorts the listed ids: their order is not part of the contract (the caller builds a set) *)
          let listed := sort_by (fun x => x) (list_buffer_ids (root_entries umask root)) in
          match orch_init parts n (dedup [] listed) with
          | Ok g2 =>
            str_ok ++ colon :: join 59 (map (fun p => hex (p_id p)) (g_pipes g)) ++ 35 :: dout ++ 35 ::
            join 59 (map hex listed) ++ 35 :: pipes_out true (g_pipes g2)
          | _ => str_panic
          end
        | _ => str_panic
        end
      end
    end
  | _, _ => str_badcase
  end.

(* kind 3: entry i: sargs 2i = name, 2i+1 = .id content; zargs 5i.. = type, perm, has .id, chunks, other files *)
Fixpoint list_entries (ss : list bytes) (zs : list Z) : option (list fsentry) :=
  match ss, zs with
  | [], [] => Some []
  | nm :: id :: ss', zt :: zp :: zh :: zc :: zo :: zs' =>
    match list_entries ss' zs' with
    | Some r =>
      let isdir := (zt =? 1)%Z in
      Some ({| fe_name := nm; fe_mode := (if isdir then S_IFDIR else S_IFREG) + Z.to_N zp;
               fe_id := if (isdir && (zh =? 1)%Z)%bool then Some id else None;
               fe_chunks := if isdir then nat_of_Z zc else O |} :: r)
    | None => None
    end
  | _, _ => None
  end.

Definition run_list (c : case) : bytes :=
  match list_entries (c_sargs c) (c_zargs c) with
  | Some es => str_ok ++ colon :: join 59 (map hex (sort_by (fun x => x) (list_buffer_ids es)))
  | None => str_badcase
  end.

Fixpoint count_eq (i : nat) (l : list nat) : nat :=
  match l with [] => O | x :: r => (if Nat.eqb x i then 1 else 0) + count_eq i r end.

(* counter sets whose label values coincide write into the same exported series (AddOrGetPrefix / WithLabelValues
   hand out the same Prometheus counters): rows with the same label tuple - adjacent after sorting - add up *)
Fixpoint merge_rows (rows : list (bytes * nat)) : list (bytes * nat) :=
  match rows with
  | [] => []
  | (k, c) :: r =>
    match merge_rows r with
    | (k', c') :: r' => if bytes_eqb k k' then (k, (c + c')%nat) :: r' else (k, c) :: (k', c') :: r'
    | [] => [(k, c)]
    end
  end.

(* kind 4: sargs = n key names, the records' metric key values; zargs = n.
   Output: the counter set (map entry) selected for each record; the gathered series: label values = passed = labelled *)
Definition run_metric (c : case) : bytes :=
  match c_zargs c with
  | [zn] =>
    if negb (in_range zn 1 8) then str_badcase else
    let n := nat_of_Z zn in
    if Nat.ltb (length (c_sargs c)) n then str_badcase else
    match tuples_of n (skipn n (c_sargs c)) with
    | None => str_badcase
    | Some tuples =>
      let (m, is) := metric_run m_init tuples in
      let rows := map (fun ik => (hex_tuple (snd ik), count_eq (fst ik) is))
                      (combine (seq 0 (length (m_labels m))) (m_labels m)) in
      let rows := merge_rows (sort_by fst rows) in
      str_ok ++ colon :: join comma (map dec_nat is) ++ 35 ::
      join 59 (map (fun r => fst r ++ eq_ :: dec_nat (snd r) ++ eq_ :: dec_nat (snd r)) rows)
    end
  | _ => str_badcase
  end.

(* kind 5 (whole pipeline, observed at the consumer): sargs = template, n key names, the records' key values;
   zargs = n, mode (0 live, 1 spill + restart, 2 = 1 with two outputs of which only the second still holds chunks).  Per record: hex tag "/" key set of the delivering pipeline,
   or "-" when the record is not delivered. *)
Definition str_err_config : bytes := [101;114;114;58;99;111;110;102;105;103]. (* "err:config" *)

Fixpoint find_attached (name : bytes) (ps : list (option bytes * pipeline)) : option pipeline :=
  match ps with
  | [] => None
  | (Some nm, p) :: r => if bytes_eqb nm name then Some p else find_attached name r
  | (None, _) :: r => find_attached name r
  end.

Fixpoint find_dir (name : bytes) (ds : list qdir) : option qdir :=
  match ds with
  | [] => None
  | d :: r => if bytes_eqb name (qd_name d) then Some d else find_dir name r
  end.

Definition run_e2e (c : case) : bytes :=
  match c_zargs c, c_sargs c with
  | [zn; zm], tmpl :: rest =>
    if negb (in_range zn 1 8 && in_range zm 0 2)%bool then str_badcase else
    let n := nat_of_Z zn in
    if Nat.ltb (length rest) n then str_badcase else
    let names := firstn n rest in
    match tuples_of n (skipn n rest) with
    | None => str_badcase
    | Some tuples =>
      match tmpl, parse_template names tmpl with
      | [], _ => str_err_config                       (* ".tag is unspecified" *)
      | _, None => str_err_config
      | _, Some parts =>
        match run_ops parts g_init [[]] (map (fun t => (O, t)) tuples) with
        | Ok (g, _, is) =>
          let deliver_live := fun i =>
            match nth_error (g_pipes g) i with
            | Some p => hex (p_tag p) ++ 47 :: hex_tuple (p_labels p)
            | None => dash
            end in
          if (zm =? 0)%Z then str_ok ++ colon :: join 59 (map deliver_live is) else
          let (root0, refs) := make_dirs md5_hex 18 qroot_empty (g_pipes g) in
          let root := store_chunks root0 refs is O in
          let listed := list_buffer_ids (root_entries 18 root) in
          match orch_init parts n (dedup [] listed) with
          | Ok g2 =>
            let attached := map (fun p => (queue_dir_name md5_hex (p_id p), p)) (g_pipes g2) in
            let deliver := fun i =>
              match nth_error (g_pipes g) i, nth i refs QNone with
              | Some p, QSub name =>
                match find_dir name (qr_dirs root) with
                | Some d =>
                  match qd_id d with
                  | Some id =>
                    if existsb (bytes_eqb id) listed then
                      match find_attached name attached with
                      | Some p2 => hex (p_tag p) ++ 47 :: hex_tuple (p_labels p2)
                      | None => dash
                      end
                    else dash
                  | None => dash
                  end
                | None => dash
                end
              | _, _ => dash
              end in
            (* mode 2: two outputs with their own roots; only the second root still holds chunks at the restart,
               and only its deliveries are reported: same as mode 1 *)
            str_ok ++ colon :: join 59 (map deliver is)
          | _ => str_panic
          end
        | _ => str_panic
        end
      end
    end
  | _, _ => str_badcase
  end.

(* kind 6 (the merged keys themselves): sargs = key values of the tuples; zargs = n, 1 if the counter set is
   exercised too.  Output: merged key of every tuple; the keys held by a LocalCachedMap after GetOrCreate of every
   tuple (sorted); the keys held by a LogProcessCounterSet (sorted) or "-". *)
Definition run_key (c : case) : bytes :=
  match c_zargs c with
  | [zn; zc] =>
    if negb (in_range zn 1 8) then str_badcase else
    match tuples_of (nat_of_Z zn) (c_sargs c) with
    | None => str_badcase
    | Some tuples =>
      let ops := map (fun t => (O, t)) tuples in
      match run_ops [] g_init [[]] ops with
      | Ok (g, lms, _) =>
        let walk := sort_by (fun x => x) (map (fun e => hex (fst e)) (nth O lms [])) in
        let (m, _) := metric_run m_init tuples in
        let cnt := sort_by (fun x => x) (map (fun e => hex (fst e)) (m_map m)) in
        str_ok ++ colon :: join 59 (map (fun t => hex (merged_key t)) tuples) ++ 35 :: join 59 walk ++ 35 ::
        (if (zc =? 1)%Z then join 59 cnt else dash)
      | _ => str_panic
      end
    end
  | _ => str_badcase
  end.

Definition run_case_C06_base (c : case) : bytes :=
  match c_kind c with
  | 1 => run_route c
  | 2 => run_disk c
  | 3 => run_list c
  | 4 => run_metric c
  | 5 => run_e2e c
  | 6 => run_key c
  | _ => str_badcase
  end.
