(* Model/MetricsMem.v — C19, part G: the pipeline worker's counter set at the level of MEMORY.

   Model/Metrics.v part C treats the metric-key values of a record as VALUES.  In the Go code they are
   strings whose bytes live in the record's backing buffer:

     base/logallocator.go      NewRecord: a message longer than defs.InputLogMinRecordBytesToPool is copied into
                               a buffer taken from a pool (util.BytesPoolBy2n); the record's fields are
                               substrings of that buffer (util.StringFromBytes, no copy).  Release puts the
                               buffer back; the next NewRecord that gets it OVERWRITES it.
     base/fieldsetextractor.go Extract: "returned slices and values are only usable until next call.
                               They MUST be copied for storing."
     base/logprocesscounterset.go  SelectMetricKeySet: tempKeys (transient) -> merged key -> map lookup; a new
                               entry stores permKeys = util.DeepCopyStrings(tempKeys) (the label values) under
                               permMergedKey = util.DeepCopyStringFromBytes(tempMergedKey)
     base/bsupport/logprocessingworker.go  onInput: SelectMetricKeySet, transforms (custom counters of the
                               CURRENT key set), CountRecordDrop / CountRecordPass, Release

   Here a string is either a copy its holder owns or a header (buffer, offset, length) that is read through
   the heap at the moment it is used; the heap changes when the parser recycles a buffer.  The machine has
   code variants for what SelectMetricKeySet remembers between records:

     mv_copy_keys   true:  permKeys are deep copies (this tree)      false: the transient strings are stored
     mv_cache       NoCache: every record goes through the map (this tree)
                    CacheCopies: a fast path "same key values as the previous record" that remembers COPIES
                    CacheTransient: the same fast path remembering the transient strings (slice of headers)

   A step returns None when the event is not enabled.  No proofs here (Proofs/MetricsMemProofs.v).
   The file ends with the correspondence entry point of C19: run_case_C19 = kind 4 (this file) + the kinds
   of Model/Metrics.v. *)
From SV Require Import Model.Common Model.Metrics.
Local Open Scope Z_scope.

(* ------------------------------------------------------------------------------------------ *)
(* memory: pooled buffers and strings                                                           *)

Definition heap := list bytes.      (* buffer number -> current content *)

Record span := SP { sp_buf : nat; sp_off : nat; sp_len : nat }.   (* a Go string header into a buffer *)

Definition cut (c : bytes) (off len : nat) : bytes := firstn len (skipn off c).
Definition rd (h : heap) (s : span) : bytes := cut (nth (sp_buf s) h []) (sp_off s) (sp_len s).

(* the parser writes a message into buffer b; b = length h: the pool had nothing, a new buffer is made *)
Fixpoint heap_set (h : heap) (b : nat) (c : bytes) : heap :=
  match h, b with
  | [], _ => [c]
  | _ :: t, O => c :: t
  | x :: t, S b' => x :: heap_set t b' c
  end.

Inductive sref :=
| Own (v : bytes)      (* a copy (util.DeepCopyString): immutable *)
| Alias (s : span).    (* shares the bytes of a pooled buffer *)

Definition sval (h : heap) (r : sref) : bytes := match r with Own v => v | Alias s => rd h s end.

(* slices.Equal on strings *)
Fixpoint vals_eqb (a b : list bytes) : bool :=
  match a, b with
  | [], [] => true
  | x :: a', y :: b' => bytes_eqb x y && vals_eqb a' b'
  | _, _ => false
  end.

(* ------------------------------------------------------------------------------------------ *)
(* the machine                                                                                  *)

(* a parsed record: where its metric-key fields are, RawLength, and what the transforms of the pipeline
   will do with it (labels counted, DROP or not) *)
Record mrec := MR { mr_keys : list span; mr_len : Z; mr_fired : list bytes; mr_drop : bool }.

(* keySetPairs entry: label values as stored, LogInputCounterSet, custom counters *)
Record mentry := ME { me_keys : list sref; me_in : icount; me_lab : labmap }.

Inductive cache_mode := NoCache | CacheCopies | CacheTransient.
Record mvariant := MV { mv_copy_keys : bool; mv_cache : cache_mode }.

(* the code of this tree *)
Definition mv_tree : mvariant := MV true NoCache.

Record mstate := MS {
  ms_heap : heap;
  ms_live : list (nat * mrec);            (* records parsed and not yet released, by buffer *)
  ms_map : list (bytes * mentry);         (* keySetPairs (the map key is a copy in every variant) *)
  ms_cur : option (list sref * bytes)     (* fast path: remembered key strings, map key of the selected pair *)
}.
Definition m_init : mstate := MS [] [] [] None.

Inductive m_event :=
| MParse (b : nat) (content : bytes) (keys : list (nat * nat)) (fired : list bytes) (drop : bool)
    (* syslogParser.Parse -> allocator.NewRecord: buffer b comes out of the pool and receives the message;
       the metric-key fields are at (offset, length) in it *)
| MWork (b : nat).
    (* LogProcessingWorker.onInput for the record in buffer b, then Release: b goes back to the pool *)

Fixpoint live_get (l : list (nat * mrec)) (b : nat) : option mrec :=
  match l with
  | [] => None
  | (k, r) :: l' => if Nat.eqb k b then Some r else live_get l' b
  end.

Fixpoint live_del (l : list (nat * mrec)) (b : nat) : list (nat * mrec) :=
  match l with
  | [] => []
  | (k, r) :: l' => if Nat.eqb k b then live_del l' b else (k, r) :: live_del l' b
  end.

Fixpoint mmap_upd (m : list (bytes * mentry)) (mk : bytes) (nk : list sref) (f : mentry -> mentry)
  : list (bytes * mentry) :=
  match m with
  | [] => [(mk, f (ME nk ic0 []))]
  | (k, e) :: m' => if bytes_eqb k mk then (k, f e) :: m' else (k, e) :: mmap_upd m' mk nk f
  end.

Definition cache_on (c : cache_mode) : bool := match c with NoCache => false | _ => true end.

Definition m_step (mg : list bytes -> bytes) (v : mvariant) (s : mstate) (e : m_event) : option mstate :=
  match e with
  | MParse b content keys fired drop =>
    match live_get (ms_live s) b with
    | Some _ => None                                        (* the buffer is in use: the pool cannot hand it out *)
    | None =>
      if Nat.leb b (length (ms_heap s)) then
        Some (MS (heap_set (ms_heap s) b content)
                 ((b, MR (map (fun k => SP b (fst k) (snd k)) keys) (Z.of_nat (length content)) fired drop)
                    :: ms_live s)
                 (ms_map s) (ms_cur s))
      else None
    end
  | MWork b =>
    match live_get (ms_live s) b with
    | None => None
    | Some r =>
      let h := ms_heap s in
      let temp := map Alias (mr_keys r) in                  (* metricKeyExtractor.Extract(record) *)
      let vals := map (sval h) temp in
      let hit :=
        match ms_cur s with
        | Some (cks, cmk) =>
          if cache_on (mv_cache v) && vals_eqb vals (map (sval h) cks) then Some (cks, cmk) else None
        | None => None
        end in
      let f := fun e => ME (me_keys e)
                           (if mr_drop r then ic_drop (me_in e) (mr_len r) else ic_pass (me_in e) (mr_len r))
                           (lab_add_all (me_lab e) (mr_fired r) (mr_len r)) in
      match hit with
      | Some (cks, cmk) =>
        (* fast path: the pair selected for the previous record *)
        Some (MS h (live_del (ms_live s) b) (mmap_upd (ms_map s) cmk cks f) (ms_cur s))
      | None =>
        let mk := mg vals in                                (* merged key; the map stores a copy *)
        let perm := if mv_copy_keys v then map Own vals else temp in
        let cur' := match mv_cache v with
                    | NoCache => ms_cur s
                    | CacheCopies => Some (map Own vals, mk)
                    | CacheTransient => Some (temp, mk)
                    end in
        Some (MS h (live_del (ms_live s) b) (mmap_upd (ms_map s) mk perm f) cur')
      end
    end
  end.

Fixpoint m_run (mg : list bytes -> bytes) (v : mvariant) (s : mstate) (evs : list m_event) : option mstate :=
  match evs with
  | [] => Some s
  | e :: evs' => match m_step mg v s e with Some s' => m_run mg v s' evs' | None => None end
  end.

(* what a scrape shows: the label values are read when the series are gathered *)
Definition m_view (s : mstate) : list (bytes * kcount) :=
  map (fun p : bytes * mentry =>
         (fst p, KC (map (sval (ms_heap s)) (me_keys (snd p))) (me_in (snd p)) (me_lab (snd p)))) (ms_map s).

(* ------------------------------------------------------------------------------------------ *)
(* correspondence, kind 4: a history of parses and worker steps on pooled records                *)
(*
   sargs: the head of every record's message (record i = sarg i); the message is the head followed by
          pad_i bytes 'x'
   zargs: flags (bit 1 = length-prefixed merged key, as in kind 1), nkeys, nrec,
          then per record: class, pad, (offset, length) * nkeys     -- where its metric-key fields are
          then the history:  1 i b = record i is parsed into buffer b;  2 b = the worker processes (and
          releases) the record in buffer b.  Buffer numbers are the ones OBSERVED on the real allocator.
   classes (the transforms of the harness' pipeline): 0 passes unlabelled, 1 label "marker" and DROP,
          2 label "tagged" and passes, 3 labels "tagged" and "marker" and DROP
   output: like kind 1:  ok:i=<input counters>;l=;w=/<hex key>.<hex key>=<pn>,<pb>,<dn>,<db>[/labels];...  *)

Definition label_tagged : bytes := [116;97;103;103;101;100]%N.

Record mdesc := MD { md_class : Z; md_pad : Z; md_keys : list (nat * nat) }.

Fixpoint take_pairs (n : nat) (l : list Z) : option (list (nat * nat) * list Z) :=
  match n with
  | O => Some ([], l)
  | S n' =>
    match l with
    | o :: k :: l' =>
      if (0 <=? o) && (0 <=? k) then
        match take_pairs n' l' with
        | Some (r, rest) => Some ((Z.to_nat o, Z.to_nat k) :: r, rest)
        | None => None
        end
      else None
    | _ => None
    end
  end.

Fixpoint take_descs (n nkeys : nat) (l : list Z) : option (list mdesc * list Z) :=
  match n with
  | O => Some ([], l)
  | S n' =>
    match l with
    | cl :: pad :: l' =>
      if (0 <=? pad) && (pad <=? 100000) then
        match take_pairs nkeys l' with
        | Some (ks, rest) =>
          match take_descs n' nkeys rest with
          | Some (r, rest') => Some (MD cl pad ks :: r, rest')
          | None => None
          end
        | None => None
        end
      else None
    | _ => None
    end
  end.

Definition class_fired (cl : Z) : list bytes :=
  match cl with 1 => [label_marker] | 2 => [label_tagged] | 3 => [label_tagged; label_marker] | _ => [] end.
Definition class_drop (cl : Z) : bool := match cl with 1 | 3 => true | _ => false end.

Definition pad_byte : N := 120%N.

Fixpoint parse_mevents (fuel : nat) (heads : list bytes) (ds : list mdesc) (l : list Z) : option (list m_event) :=
  match fuel with
  | O => None
  | S f =>
    match l with
    | [] => Some []
    | 1 :: i :: b :: l' =>
      if (0 <=? i) && (0 <=? b) then
        match nth_error ds (Z.to_nat i), nth_error heads (Z.to_nat i) with
        | Some d, Some hd =>
          match parse_mevents f heads ds l' with
          | Some r =>
            Some (MParse (Z.to_nat b) (hd ++ repeat pad_byte (Z.to_nat (md_pad d))) (md_keys d)
                         (class_fired (md_class d)) (class_drop (md_class d)) :: r)
          | None => None
          end
        | _, _ => None
        end
      else None
    | 2 :: b :: l' =>
      if 0 <=? b then
        match parse_mevents f heads ds l' with
        | Some r => Some (MWork (Z.to_nat b) :: r)
        | None => None
        end
      else None
    | _ => None
    end
  end.

Definition parse_in_event (e : m_event) : list in_event :=
  match e with
  | MParse _ content _ _ _ => [InParsed (Z.of_nat (length content)) false [] false]
  | MWork _ => []
  end.

Definition view_text (m : list (bytes * kcount)) : bytes :=
  join ch_semi (sort_by (fun x : bytes => x) (map (fun kv : bytes * kcount => entry_text [] (snd kv)) m)).

Definition run_kind4 (c : case) : bytes :=
  match c_zargs c with
  | flags :: nkeys :: nrec :: rest =>
    if (0 <=? nkeys) && (nkeys <=? 8) && (0 <=? nrec) && (nrec <=? 10000) then
      match take_descs (Z.to_nat nrec) (Z.to_nat nkeys) rest with
      | Some (ds, ops) =>
        match parse_mevents (S (length ops)) (c_sargs c) ds ops with
        | Some evs =>
          match m_run (merge_key (Z.testbit flags 1)) mv_tree m_init evs with
          | Some s =>
            let i := in_run code_counts_extraction_drops (flat_map parse_in_event evs) in
            str_ok ++ colon :: [105; 61]%N ++ ic_text (i_cnt i)
            ++ ch_semi :: [108; 61]%N ++ lab_text (i_lab i)
            ++ ch_semi :: [119; 61]%N ++ view_text (m_view s)
          | None => str_reject
          end
        | None => bad_case_output
        end
      | None => bad_case_output
      end
    else bad_case_output
  | _ => bad_case_output
  end.

(* the correspondence entry point of C19: kind 4 here, every other kind in Model/Metrics.v
   (Extract/C19.v imports this file last, so that run_case_C19 denotes this definition) *)
Definition run_case_C19 (c : case) : bytes :=
  match c_kind c with
  | 4%N => run_kind4 c
  | _ => Metrics.run_case_C19 c
  end.
