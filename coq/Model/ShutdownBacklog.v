(* Model/ShutdownBacklog.v — C18: the output feeder of the hybrid buffer around a stop request, at event
   granularity, with a backlog of ARBITRARY length in the persistent queue.

   buffer/hybridbuffer/outputfeeder.go (Run, loadToOutput, saveQueued, saveOutput) and bufferer.go (Destroy):

     Run:   for { chunk, ok := <-inputChannel          (a CLOSED channel still delivers what is buffered in it)
                  if !ok { break }
                  if !loadToOutput(chunk) { lastInputChunk = chunk; break } }
            close(outputChannel); outputClosed.Signal(); saveQueued(lastInputChunk);
            consumerCounter.Wait(); saveOutput(); chunkMan.Close(); stopped.Signal()
     loadToOutput:  LoadOrDropChunk / zero-length test (failure: return true, the loop goes on), then
                    select { case outputChannel <- chunk: return true      (needs room in the window)
                             case <-inputClosed:          return false }   (ready once Destroy has signalled)

   While the queue is non-empty, that select is the ONLY place where the main loop can notice the stop request.
   Go resolves a select with several ready cases by a uniformly random choice; here the scheduler (the event
   list) resolves it.  The property side: what the feeder forwards after the stop request depends on those
   choices only, never on the length of the backlog.

   [fc_fast] selects a code VARIANT that is NOT the code in the repository (an "optimisation" seeded for testing
   this check): a non-blocking  select { case outputChannel <- chunk: return true; default: }  in front of the
   two-way select.  It is here to show that the theorems are about the shape of the select: for the variant
   they are false (C18_fast_path_variant_refuted).

   No proofs here.  The last part is the replay used by the correspondence (run_case_C18, kind 2). *)
From SV Require Import Model.Common.
Local Open Scope nat_scope.

(* a chunk in the queue: its id and whether LoadOrDropChunk succeeds with non-empty data *)
Record fchunk := FC { fc_id : Z; fc_ok : bool }.

Record fcfg := FCFG {
  fg_wcap : nat;     (* defs.BufferMaxNumChunksInMemory: capacity of outputChannel *)
  fg_qcap : nat;     (* defs.BufferMaxNumChunksInQueue: capacity of inputChannel *)
  fg_fast : bool     (* false = loadToOutput as it is; true = the variant with the non-blocking send first *)
}.

(* where the feeder goroutine is *)
Inductive fpc :=
| PRecv                              (* chunk, ok := <-feeder.inputChannel *)
| PFast (c : fchunk)                 (* variant only: select { case outputChannel <- chunk: ; default: } *)
| PSelect (c : fchunk)               (* select { case outputChannel <- chunk: ; case <-inputClosed: } *)
| PSaveQueue (last : option fchunk)  (* output closed and signalled; saveQueued: for chunk := range inputChannel *)
| PSaveLast (c : fchunk)             (* saveQueued: lastInputChunk *)
| PWaitConsumers                     (* consumerCounter.Wait() *)
| PSaveOutput                        (* saveOutput: for chunk := range outputChannel *)
| PStopped.                          (* chunkMan.Close(); stopped.Signal() *)

Record fstate := FS {
  f_pc : fpc;
  f_queue : list fchunk;     (* inputChannel *)
  f_closed : bool;           (* Destroy has run: close(inputChannel); inputClosed.Signal() *)
  f_window : list fchunk;    (* outputChannel *)
  f_oclosed : bool;          (* close(outputChannel); outputClosed.Signal() *)
  f_cons : bool;             (* the consumer has not called OnFinished yet *)
  f_out : list fchunk;       (* history: every chunk ever sent to outputChannel, newest first *)
  f_mark : option nat;       (* history: length of f_out when Destroy ran *)
  f_saved : list fchunk;     (* history: chunks handed to UnloadOrDropChunk during the cleanup, newest first *)
  f_bad : list fchunk;       (* history: chunks whose load failed (dropped / corrupted), newest first *)
  f_taken : nat;             (* history: chunks the consumer received *)
  f_loops : nat              (* history: chunks the main loop received from inputChannel *)
}.

Definition f_init : fstate := FS PRecv [] false [] false true [] None [] [] 0 0.

Inductive f_event :=
(* the environment *)
| EAccept (c : fchunk)   (* recoverExistingChunks / bufferer.Accept: one more chunk in the queue (dropped on overflow) *)
| EDestroy               (* bufferer.Destroy: the stop request *)
| ETake                  (* the consumer receives from outputChannel *)
| EConsFinish            (* the consumer calls OnFinished (only after the output side was closed) *)
(* the feeder goroutine *)
| FRecv                  (* receive from inputChannel, LoadOrDropChunk, zero-length test *)
| FEnd                   (* the receive reports "closed and empty": break *)
| FSend                  (* a select takes  outputChannel <- chunk *)
| FDefault               (* variant: the non-blocking select takes its default *)
| FStop                  (* the two-way select takes  <-inputClosed *)
| FSave                  (* one iteration (or the end) of a cleanup loop: saveQueued / lastInputChunk / saveOutput *)
| FWaitDone.             (* consumerCounter.Wait() returns *)

Definition feeder_event (e : f_event) : bool :=
  match e with FRecv | FEnd | FSend | FDefault | FStop | FSave | FWaitDone => true | _ => false end.

Definition all_feeder_events : list f_event := [FRecv; FEnd; FSend; FDefault; FStop; FSave; FWaitDone].

Definition same_fev (a b : f_event) : bool :=
  match a, b with
  | FRecv, FRecv | FEnd, FEnd | FSend, FSend | FDefault, FDefault | FStop, FStop | FSave, FSave
  | FWaitDone, FWaitDone => true
  | _, _ => false
  end.

Definition set_pc (s : fstate) (pc : fpc) : fstate :=
  FS pc (f_queue s) (f_closed s) (f_window s) (f_oclosed s) (f_cons s) (f_out s) (f_mark s) (f_saved s) (f_bad s) (f_taken s) (f_loops s).

Definition has_room (cfg : fcfg) (s : fstate) : bool := Nat.ltb (length (f_window s)) (fg_wcap cfg).

(* the send of chunk c succeeds: it is in the window, the main loop goes back to the receive *)
Definition do_send (s : fstate) (c : fchunk) : fstate :=
  FS PRecv (f_queue s) (f_closed s) (f_window s ++ [c]) (f_oclosed s) (f_cons s) (c :: f_out s) (f_mark s)
     (f_saved s) (f_bad s) (f_taken s) (f_loops s).

(* leaving the main loop: close(outputChannel); outputClosed.Signal() *)
Definition do_leave (s : fstate) (last : option fchunk) : fstate :=
  FS (PSaveQueue last) (f_queue s) (f_closed s) (f_window s) true (f_cons s) (f_out s) (f_mark s)
     (f_saved s) (f_bad s) (f_taken s) (f_loops s).

Definition f_step (cfg : fcfg) (s : fstate) (e : f_event) : option fstate :=
  match e with
  | EAccept c =>
    if f_closed s then None   (* the pipeline does not call Accept after Destroy *)
    else if Nat.ltb (length (f_queue s)) (fg_qcap cfg) then
      Some (FS (f_pc s) (f_queue s ++ [c]) false (f_window s) (f_oclosed s) (f_cons s) (f_out s) (f_mark s)
               (f_saved s) (f_bad s) (f_taken s) (f_loops s))
    else Some s               (* queue overflow: the chunk is dropped *)
  | EDestroy =>
    if f_closed s then None
    else Some (FS (f_pc s) (f_queue s) true (f_window s) (f_oclosed s) (f_cons s) (f_out s)
                  (Some (length (f_out s))) (f_saved s) (f_bad s) (f_taken s) (f_loops s))
  | ETake =>
    match f_cons s, f_window s with
    | true, _ :: w =>
      Some (FS (f_pc s) (f_queue s) (f_closed s) w (f_oclosed s) true (f_out s) (f_mark s) (f_saved s) (f_bad s)
               (S (f_taken s)) (f_loops s))
    | _, _ => None
    end
  | EConsFinish =>
    if f_cons s && f_oclosed s then
      Some (FS (f_pc s) (f_queue s) (f_closed s) (f_window s) true false (f_out s) (f_mark s) (f_saved s) (f_bad s)
               (f_taken s) (f_loops s))
    else None
  | FRecv =>
    match f_pc s, f_queue s with
    | PRecv, c :: q =>
      if fc_ok c then
        Some (FS (if fg_fast cfg then PFast c else PSelect c) q (f_closed s) (f_window s) (f_oclosed s) (f_cons s)
                 (f_out s) (f_mark s) (f_saved s) (f_bad s) (f_taken s) (S (f_loops s)))
      else
        (* loadToOutput returns true without reaching the select: the loop goes on *)
        Some (FS PRecv q (f_closed s) (f_window s) (f_oclosed s) (f_cons s) (f_out s) (f_mark s) (f_saved s)
                 (c :: f_bad s) (f_taken s) (S (f_loops s)))
    | _, _ => None
    end
  | FEnd =>
    match f_pc s, f_queue s with
    | PRecv, [] => if f_closed s then Some (do_leave s None) else None   (* open and empty: the receive blocks *)
    | _, _ => None
    end
  | FSend =>
    match f_pc s with
    | PFast c | PSelect c => if has_room cfg s then Some (do_send s c) else None
    | _ => None
    end
  | FDefault =>
    match f_pc s with
    | PFast c => if has_room cfg s then None else Some (set_pc s (PSelect c))   (* default only when no case is ready *)
    | _ => None
    end
  | FStop =>
    match f_pc s with
    | PSelect c => if f_closed s then Some (do_leave s (Some c)) else None
    | _ => None
    end
  | FSave =>
    match f_pc s with
    | PSaveQueue last =>
      match f_queue s with
      | c :: q =>
        Some (FS (PSaveQueue last) q (f_closed s) (f_window s) (f_oclosed s) (f_cons s) (f_out s) (f_mark s)
                 (c :: f_saved s) (f_bad s) (f_taken s) (f_loops s))
      | [] => Some (set_pc s (match last with Some c => PSaveLast c | None => PWaitConsumers end))
      end
    | PSaveLast c =>
      Some (FS PWaitConsumers (f_queue s) (f_closed s) (f_window s) (f_oclosed s) (f_cons s) (f_out s) (f_mark s)
               (c :: f_saved s) (f_bad s) (f_taken s) (f_loops s))
    | PSaveOutput =>
      match f_window s with
      | c :: w =>
        Some (FS PSaveOutput (f_queue s) (f_closed s) w (f_oclosed s) (f_cons s) (f_out s) (f_mark s)
                 (c :: f_saved s) (f_bad s) (f_taken s) (f_loops s))
      | [] => Some (set_pc s PStopped)
      end
    | _ => None
    end
  | FWaitDone =>
    match f_pc s with
    | PWaitConsumers => if f_cons s then None else Some (set_pc s PSaveOutput)
    | _ => None
    end
  end.

Fixpoint f_run (cfg : fcfg) (s : fstate) (evs : list f_event) : option fstate :=
  match evs with
  | [] => Some s
  | e :: evs' => match f_step cfg s e with Some s' => f_run cfg s' evs' | None => None end
  end.

Definition enabled (cfg : fcfg) (s : fstate) (e : f_event) : bool :=
  match f_step cfg s e with Some _ => true | None => false end.

(* ---- observables of a run ---- *)

(* chunks sent to the output channel after the stop request (from the history variables) *)
Definition fwd_after (s : fstate) : nat :=
  match f_mark s with Some m => length (f_out s) - m | None => 0 end.

(* an event that resolves a select in favour of the send although the stop branch was offered *)
Definition is_choice (cfg : fcfg) (s : fstate) (e : f_event) : bool :=
  same_fev e FSend && f_closed s && enabled cfg s FStop.

(* number of such resolutions along a run *)
Fixpoint f_choices (cfg : fcfg) (s : fstate) (evs : list f_event) : nat :=
  match evs with
  | [] => O
  | e :: evs' =>
    match f_step cfg s e with
    | Some s' => (if is_choice cfg s e then 1 else 0) + f_choices cfg s' evs'
    | None => O
    end
  end.

(* steps of the feeder goroutine along a run *)
Definition f_steps (evs : list f_event) : nat := length (filter feeder_event evs).

(* the cost of what is left once the stop request is in: one cleanup iteration per chunk in the queue and in the
   window (a file write for a chunk that is only in memory, nothing for a chunk that is on disk already) plus a
   constant per program point *)
Definition pc_cost (pc : fpc) : nat :=
  match pc with
  | PRecv | PFast _ | PSelect _ => 5
  | PSaveQueue (Some _) => 4
  | PSaveQueue None => 3
  | PSaveLast _ => 3
  | PWaitConsumers => 2
  | PSaveOutput => 1
  | PStopped => 0
  end.

Definition stop_cost (s : fstate) : nat := length (f_queue s) + length (f_window s) + pc_cost (f_pc s).

(* e is the ONLY step the feeder can make in s (whatever the scheduler wants) *)
Definition forced (cfg : fcfg) (s : fstate) (e : f_event) : bool :=
  forallb (fun e' => negb (enabled cfg s e') || same_fev e' e) all_feeder_events.

(* a run in which every feeder step is forced; environment events are free *)
Fixpoint f_run_forced (cfg : fcfg) (s : fstate) (evs : list f_event) : option fstate :=
  match evs with
  | [] => Some s
  | e :: evs' =>
    if negb (feeder_event e) || forced cfg s e then
      match f_step cfg s e with Some s' => f_run_forced cfg s' evs' | None => None end
    else None
  end.

(* ---- schedules ---- *)

Fixpoint rep {A} (n : nat) (l : list A) : list A := match n with O => [] | S n' => l ++ rep n' l end.

(* a backlog of n loadable chunks, then the stop request *)
Fixpoint backlog_from (i : Z) (n : nat) : list fchunk :=
  match n with O => [] | S n' => FC i true :: backlog_from (i + 1)%Z n' end.
Definition backlog (n : nat) : list fchunk := backlog_from 0%Z n.
Definition accepts (l : list fchunk) : list f_event := map EAccept l.

(* the state after  accepts l  from the initial state (Proofs: run_accepts_lemma), written down directly so that the
   replay is linear in the length of the backlog *)
Definition with_queue (l : list fchunk) : fstate := FS PRecv l false [] false true [] None [] [] 0 0.

(* one chunk through the feeder to a consumer that takes it at once *)
Definition pass_one : list f_event := [FRecv; FSend; ETake].

(* ------------------------------------------------------------------------------------------ *)
(* replay for the correspondence (kind 2 of run_case_C18)                                       *)

(* after the last forward: the feeder prefers the stop branch, the consumer drains the window and finishes *)
Definition finish_order : list f_event := [FStop; FEnd; FRecv; FDefault; ETake; EConsFinish; FWaitDone; FSave].

Fixpoint first_enabled (cfg : fcfg) (s : fstate) (l : list f_event) : option (f_event * fstate) :=
  match l with
  | [] => None
  | e :: l' => match f_step cfg s e with Some s' => Some (e, s') | None => first_enabled cfg s l' end
  end.

Fixpoint finish (cfg : fcfg) (s : fstate) (fuel : nat) : fstate :=
  match fuel with
  | O => s
  | S fuel' =>
    match f_pc s with
    | PStopped => s
    | _ => match first_enabled cfg s finish_order with Some (_, s') => finish cfg s' fuel' | None => s end
    end
  end.

(* The scenario: n chunk files at the start, window w, a consumer that takes every chunk at once.  The consumer
   received [pre] chunks that were sent before the stop request and [post] chunks sent after it (each of the latter
   a resolution of the select in favour of the send), then the feeder takes the stop branch.
   Result: (number of such resolutions, chunks forwarded after the stop, chunks received, chunks left to the cleanup,
   chunks the main loop took from the queue, feeder stopped), or None when the model has no such run. *)
Definition replay_backlog (cfg : fcfg) (n pre post : nat) : option (nat * nat * nat * nat * nat * bool) :=
  let ev1 := rep pre pass_one ++ [EDestroy] in
  let ev2 := rep post pass_one in
  if Nat.ltb (fg_qcap cfg) n then None else
  match f_run cfg (with_queue (backlog n)) ev1 with
  | None => None
  | Some s1 =>
    match f_run cfg s1 ev2 with
    | None => None
    | Some s2 =>
      let s3 := finish cfg s2 (length (f_queue s2) + length (f_queue s2) + fg_wcap cfg + 12) in
      Some (f_choices cfg s1 ev2, fwd_after s3, f_taken s3, length (f_saved s3), f_loops s3,
            match f_pc s3 with PStopped => true | _ => false end)
    end
  end.
