(* C07: output/fluentdforward/eventserializer.go SerializeRecord AFTER the fix
   "fluentd event serializer uses a one-off buffer for a record that may not fit the preallocated one":

       buffer := packer.buffer
       if maxLength := packer.maxEncodedLength(record); maxLength >= len(buffer) {
           buffer = make([]byte, maxLength+1)
       }
       length := packer.encodeRecord(record, buffer)
       return buffer[:length]

   this is C10's [Serializer.serialize_record] (C10 mirrors the fix as well).  [fixed = false] is the code before
   the fix ([Serializer.serialize_on] the preallocated buffer: index out of range when the event does not fit).
   No proofs in this file. *)
From SV Require Import Model.Common Model.Msgpack Model.Serializer.
Open Scope nat_scope.

(* maxEncodedLength and the choice of the buffer are part of C10's model since C10 follows the fix
   (Model/Serializer.v: max_fields_len, max_env_len, fixed_overhead, max_encoded_length, choose_buffer,
   serialize_record); the names used by C07 are kept here. *)
Definition max_fields_len := Serializer.max_fields_len.
Definition max_env_len := Serializer.max_env_len.
Definition fixed_overhead : nat := Serializer.fixed_overhead.
Definition max_encoded_length := Serializer.max_encoded_length.

Definition with_buflen (ser : serializer) (n : nat) : serializer :=
  {| s_masks := s_masks ser; s_env_locs := s_env_locs ser; s_rewriters := s_rewriters ser;
     s_keys := s_keys ser; s_env_keys := s_env_keys ser; s_buflen := n |}.

(* SerializeRecord.  The contents of the reused buffer do not matter (C10_buffer_contents_irrelevant): as in
   C10's correspondence the buffer starts zeroed.  [fixed = false]: encodeRecord on the preallocated buffer. *)
Definition serialize_record_fixed (fixed : bool) (ser : serializer) (rec : record) : outcome bytes :=
  if fixed then serialize_record ser rec
  else serialize_on ser rec (repeat 0%N (s_buflen ser)).
