(* C07: output/fluentdforward/eventserializer.go SerializeRecord AFTER the fix
   "fluentd event serializer uses a one-off buffer for a record that may not fit the preallocated one":

       buffer := packer.buffer
       if maxLength := packer.maxEncodedLength(record); maxLength >= len(buffer) {
           buffer = make([]byte, maxLength+1)
       }
       length := packer.encodeRecord(record, buffer)
       return buffer[:length]

   built on C10's model of encodeRecord ([Serializer.encode_record_on] / [serialize_record]); only the new
   function maxEncodedLength and the choice of the buffer are modelled here.  [fixed = false] is the code before
   the fix (C10's [serialize_record]: the preallocated buffer, index out of range when the event does not fit).
   No proofs in this file. *)
From SV Require Import Model.Common Model.Msgpack Model.Serializer.
Open Scope nat_scope.

(* the loop over the visible fields: len(serializedFieldKeys[i]) + 5 + (MaxFieldLength | len(value)) *)
Fixpoint max_fields_len (masks : list bool) (keys : list bytes) (rws : list (option rewriter))
         (fields : list bytes) (rec : record) (acc : nat) : outcome nat :=
  match fields with
  | [] => Ok acc
  | value :: fields' =>
    match masks, keys, rws with
    | m :: masks', key :: keys', rw :: rws' =>
      if m || is_nil value then max_fields_len masks' keys' rws' fields' rec acc
      else
        n <-- match rw with
              | Some head => max_field_length head value rec
              | None => Ok (length value)
              end ;;
        max_fields_len masks' keys' rws' fields' rec (acc + length key + 5 + n)
    | _, _, _ => Panic site_index
    end
  end.

(* the loop over the environment fields: len(serializedEnvFieldKeys[i]) + 5 + len(loc.Get(fields)) *)
Fixpoint max_env_len (locs : list nat) (keys : list bytes) (fields : list bytes) (acc : nat) : outcome nat :=
  match locs with
  | [] => Ok acc
  | loc :: locs' =>
    match keys with
    | key :: keys' =>
      value <-- get_field fields loc ;;
      max_env_len locs' keys' fields (acc + length key + 5 + length value)
    | [] => Panic site_index
    end
  end.

(* root-array header 1, timestamp 10, root-map header 3, "environment" key 12, environment-map header 3 *)
Definition fixed_overhead : nat := 1 + 10 + 3 + 12 + 3.

(* maxEncodedLength *)
Definition max_encoded_length (ser : serializer) (rec : record) : outcome nat :=
  let nfields := length (s_masks ser) in
  fields <-- (if (nfields <=? length (r_fields rec))%nat       (* record.Fields[0:len(fieldMasks)] *)
              then Ok (firstn nfields (r_fields rec)) else Panic site_slice) ;;
  n <-- max_fields_len (s_masks ser) (s_keys ser) (s_rewriters ser) fields rec fixed_overhead ;;
  max_env_len (s_env_locs ser) (s_env_keys ser) fields n.

Definition with_buflen (ser : serializer) (n : nat) : serializer :=
  {| s_masks := s_masks ser; s_env_locs := s_env_locs ser; s_rewriters := s_rewriters ser;
     s_keys := s_keys ser; s_env_keys := s_env_keys ser; s_buflen := n |}.

(* SerializeRecord.  The contents of the reused buffer do not matter (C10_buffer_contents_irrelevant): as in
   C10's correspondence the buffer starts zeroed. *)
Definition serialize_record_fixed (fixed : bool) (ser : serializer) (rec : record) : outcome bytes :=
  if fixed then
    m <-- max_encoded_length ser rec ;;
    if (s_buflen ser <=? m)%nat then serialize_record (with_buflen ser (S m)) rec
    else serialize_record ser rec
  else serialize_record ser rec.
