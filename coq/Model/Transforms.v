(* C15: the transform language of slog-agent as an interpreter.
     base/bsupport/logtransforms.go   RunTransforms, NewTransformsFromConfig, VerifyTransformConfigs
     transform/t*                     VerifyConfig / NewTransform / Transform of every node kind
     base/bmatch                      value matchers (YAML tags), LogMatcher.Match
   Go's regexp and gobwas/glob enter through the record [oracles] (a Section variable).
   No proofs in this file.  The correspondence entry point [run_case_C15] is at the end. *)
From SV Require Import Model.Common Model.TfUtf8 Model.TfUtf8Dec Model.TfUnescape Model.Template Model.Extractor Model.TinyRegex Model.TfDropLong.
Open Scope N_scope.

(* ---------------------------------------------------------------------------------------------- *)
(* configuration AST (what the YAML says)                                                          *)

(* value match: op = 0 plain scalar (tag !!str), 1 !!str-any, 2 !!str-eq, 3 !!str-not,
   4 !!str-start, 5 !!str-end, 6 !!str-contain, 7 !!glob, 8 !!regex, 9 !!len-gt, 10 !!len-lt *)
Definition vmatch_cfg := (N * bytes)%type.
Definition matcher_cfg := list (bytes * vmatch_cfg).

Inductive cfg :=
| CAddFields (fs : list (bytes * bytes))
| CDelFields (ks : list bytes)
| CMapValue (k : bytes) (m : list (bytes * bytes)) (d : bytes)
| CIf (m : matcher_cfg) (th : list cfg)
| CSwitch (cs : list (matcher_cfg * list cfg))
| CBlock (b : list cfg)
| CDrop (m : matcher_cfg) (pct label : bytes)
| CExtractSp (head : bool) (k pat maxlen dk : bytes)
| CTruncate (k maxlen suffix : bytes)
| CUnescape (k : bytes)
| CReplace (k pat repl : bytes)
| CExtractRe (k pat : bytes).

(* ---------------------------------------------------------------------------------------------- *)
(* compiled transforms (what NewTransform builds); drop carries its two deficit counters           *)

Inductive vm :=
| VAny | VEq (s : bytes) | VNot (s : bytes) | VStart (s : bytes) | VEnd (s : bytes)
| VContain (s : bytes) | VGlob (s : bytes) | VRegex (s : bytes) | VLenGt (n : Z) | VLenLt (n : Z).

Definition matcher := list (nat * vm).

Inductive tf :=
| TAddFields (pairs : list (nat * list part))
| TDelFields (locs : list nat)
| TMapValue (loc : nat) (m : list (bytes * bytes)) (d : bytes)
| TIf (m : matcher) (th : tfs)
| TSwitch (cs : tcases)
| TBlock (b : tfs)
| TDrop (m : matcher) (rate : Z) (label : bytes) (matched dropped : Z)
| TExtractSp (ex : extractor) (src dst : nat)
| TTruncate (loc : nat) (maxlen : Z) (suffix : bytes)
| TUnescape (loc : nat)
| TReplace (loc : nat) (pat repl : bytes)
| TExtractRe (loc : nat) (pat : bytes) (locs : list (option nat))
with tfs := TNil | TCons (t : tf) (ts : tfs)
with tcases := KNil | KCons (m : matcher) (th : tfs) (ks : tcases).

Record rec := { r_fields : list bytes; r_rawlen : Z; r_unesc : bool }.

(* custom counters by label, sorted by label: (count, total length) *)
Definition counters := list (bytes * (Z * Z)).

Fixpoint bytes_cmp (a b : bytes) : comparison :=
  match a, b with
  | [], [] => Eq
  | [], _ :: _ => Lt
  | _ :: _, [] => Gt
  | x :: a', y :: b' => match x ?= y with Eq => bytes_cmp a' b' | c => c end
  end.

Fixpoint cnt_add (cs : counters) (label : bytes) (dc dl : Z) : counters :=
  match cs with
  | [] => [(label, (dc, dl))]
  | (l, (c, n)) :: cs' =>
    match bytes_cmp label l with
    | Eq => (l, (c + dc, n + dl)%Z) :: cs'
    | Lt => (label, (dc, dl)) :: cs
    | Gt => (l, (c, n)) :: cnt_add cs' label dc dl
    end
  end.

Fixpoint set_nth (fs : list bytes) (loc : nat) (v : bytes) : list bytes :=
  match fs, loc with
  | [], _ => []
  | _ :: t, O => v :: t
  | x :: t, S n => x :: set_nth t n v
  end.

Definition set_field (r : rec) (loc : nat) (v : bytes) : rec :=
  {| r_fields := set_nth (r_fields r) loc v; r_rawlen := r_rawlen r; r_unesc := r_unesc r |}.

Definition bytes_nonempty (s : bytes) : bool := match s with [] => false | _ => true end.

Fixpoint assoc (m : list (bytes * bytes)) (k : bytes) : option bytes :=
  match m with
  | [] => None
  | (a, b) :: m' => if bytes_eqb a k then Some b else assoc m' k
  end.

(* ---------------------------------------------------------------------------------------------- *)

Record oracles := {
  o_re_compiles : bytes -> bool;                      (* regexp.Compile succeeds *)
  o_re_match : bytes -> bytes -> bool;                (* MatchString: pattern, value *)
  o_re_replace : bytes -> bytes -> bytes -> bytes;    (* ReplaceAllString: pattern, replacement, value *)
  o_re_names : bytes -> list bytes;                   (* SubexpNames (entry 0 is "") *)
  o_re_find : bytes -> bytes -> option (list (Z * Z)); (* FindStringSubmatchIndex as pairs *)
  o_glob_compiles : bytes -> bool;
  o_glob_match : bytes -> bytes -> bool
}.

Section WithOracles.
Variable O : oracles.

(* ---------- bmatch ---------- *)

Definition vm_match (m : vm) (v : bytes) : bool :=
  match m with
  | VAny => bytes_nonempty v
  | VEq s => bytes_eqb v s
  | VNot s => negb (bytes_eqb v s)
  | VStart s => is_prefix s v
  | VEnd s => is_suffix s v
  | VContain s => match index_of s v with Some _ => true | None => false end
  | VGlob s => o_glob_match O s v
  | VRegex s => o_re_match O s v
  | VLenGt n => (Z.of_nat (length v) >? n)%Z
  | VLenLt n => (Z.of_nat (length v) <? n)%Z
  end.

(* LogMatcher.Match: AND over the field matches (their order is by cost, which does not
   change the conjunction) *)
Fixpoint matches (m : matcher) (fields : list bytes) : bool :=
  match m with
  | [] => true
  | (loc, v) :: m' => if vm_match v (get_field fields loc) then matches m' fields else false
  end.

(* ---------- single transforms ---------- *)

Fixpoint run_addfields (pairs : list (nat * list part)) (r : rec) : outcome rec :=
  match pairs with
  | [] => Ok r
  | (dst, tpl) :: ps =>
    v <-- expand (r_fields r) tpl ;;
    run_addfields ps (match v with [] => r | _ => set_field r dst v end)
  end.

Fixpoint run_delfields (locs : list nat) (r : rec) : rec :=
  match locs with
  | [] => r
  | l :: ls => run_delfields ls (set_field r l [])
  end.

Definition run_mapvalue (loc : nat) (m : list (bytes * bytes)) (d : bytes) (r : rec) : rec :=
  match get_field (r_fields r) loc with
  | [] => r
  | old => set_field r loc (match assoc m old with Some v => v | None => d end)
  end.

Definition run_extractsp (ex : extractor) (src dst : nat) (r : rec) : outcome rec :=
  match get_field (r_fields r) src with
  | [] => Ok r
  | value =>
    p <-- extract ex value ;;
    let (extracted, remaining) := p in
    if (length remaining =? length value)%nat then Ok r
    else Ok (set_field (set_field r src remaining) dst extracted)
  end.

Definition run_truncate (loc : nat) (maxlen : Z) (suffix : bytes) (r : rec) : outcome rec :=
  let value := get_field (r_fields r) loc in
  if (Z.of_nat (length value) >? maxlen + Z.of_nat (length suffix))%Z then
    (* make([]byte, maxLength, ...) + copy: a fresh buffer holding the first maxLength bytes *)
    if (maxlen <? 0)%Z then Panic 62 else
    trimmed <-- clean_utf8 (firstn (Z.to_nat maxlen) value) ;;
    Ok (set_field r loc (trimmed ++ suffix))
  else Ok r.

Definition run_unescape (loc : nat) (r : rec) : outcome rec :=
  if r_unesc r then Ok r else
  let r1 := {| r_fields := r_fields r; r_rawlen := r_rawlen r; r_unesc := true |} in
  match get_field (r_fields r1) loc with
  | [] => Ok r1
  | value =>
    match index_byte value (u_esc syslog_unescaper) with
    | None => Ok r1
    | Some first =>
      match run_from_first syslog_unescaper value first with
      | Some res => Ok (set_field r1 loc res)
      | None => Panic Extractor.p_fuel
      end
    end
  end.

Definition run_replace (loc : nat) (pat repl : bytes) (r : rec) : rec :=
  match get_field (r_fields r) loc with
  | [] => r
  | value => set_field r loc (o_re_replace O pat repl value)
  end.

(* the loop over subexpFieldLocators with the submatch index pairs *)
Fixpoint run_extractre_loop (locs : list (option nat)) (idx : list (Z * Z)) (value : bytes) (r : rec) : outcome rec :=
  match locs with
  | [] => Ok r
  | l :: locs' =>
    match l with
    | None => run_extractre_loop locs' (tl idx) value r
    | Some loc =>
      match idx with
      | [] => Panic 80 (* index out of range: cannot happen with a sane oracle *)
      | (a, b) :: idx' =>
        if ((a <? 0) || (b <? 0))%Z then run_extractre_loop locs' idx' value r
        else v <-- go_slice value a b ;; run_extractre_loop locs' idx' value (set_field r loc v)
      end
    end
  end.

Definition run_extractre (loc : nat) (pat : bytes) (locs : list (option nat)) (r : rec) : outcome rec :=
  let value := get_field (r_fields r) loc in
  match o_re_find O pat value with
  | None => Ok r
  | Some idx => run_extractre_loop locs idx value r
  end.

(* dropTransform.Transform after the matcher said yes: (transform', counters', PASS?) *)
Definition run_drop_matched (m : matcher) (rate : Z) (label : bytes) (matched dropped : Z)
           (cs : counters) (rawlen : Z) : tf * counters * bool :=
  if (rate =? 100)%Z then (TDrop m rate label matched dropped, cnt_add cs label 1 rawlen, false)
  else if ((matched >? 0) && (100 * dropped / matched <? rate))%Z
  then (TDrop m rate label (matched + 1) (dropped + 1), cnt_add cs label 1 rawlen, false)
  else (TDrop m rate label (matched + 1) dropped, cnt_add cs (33 :: label) 1 rawlen, true).

(* ---------- the interpreter: RunTransforms, first DROP wins ---------- *)

Definition lift (t : tf) (cs : counters) (o : outcome rec) : outcome (tf * counters * rec * bool) :=
  match o with
  | Ok r => Ok (t, cs, r, true)
  | Err e => Err e
  | Panic s => Panic s
  end.

Fixpoint run_tf (t : tf) (cs : counters) (r : rec) {struct t} : outcome (tf * counters * rec * bool) :=
  match t with
  | TAddFields pairs => lift t cs (run_addfields pairs r)
  | TDelFields locs => Ok (t, cs, run_delfields locs r, true)
  | TMapValue loc m d => Ok (t, cs, run_mapvalue loc m d r, true)
  | TIf m th =>
    if matches m (r_fields r) then
      match run_tfs th cs r with
      | Ok (th', cs', r', b) => Ok (TIf m th', cs', r', b)
      | Err e => Err e
      | Panic s => Panic s
      end
    else Ok (t, cs, r, true)
  | TSwitch ks =>
    match run_cases ks cs r with
    | Ok (ks', cs', r', b) => Ok (TSwitch ks', cs', r', b)
    | Err e => Err e
    | Panic s => Panic s
    end
  | TBlock b =>
    match run_tfs b cs r with
    | Ok (b', cs', r', p) => Ok (TBlock b', cs', r', p)
    | Err e => Err e
    | Panic s => Panic s
    end
  | TDrop m rate label matched dropped =>
    if matches m (r_fields r) then
      let '(t', cs', b) := run_drop_matched m rate label matched dropped cs (r_rawlen r) in
      Ok (t', cs', r, b)
    else Ok (t, cs, r, true)
  | TExtractSp ex src dst => lift t cs (run_extractsp ex src dst r)
  | TTruncate loc maxlen suffix => lift t cs (run_truncate loc maxlen suffix r)
  | TUnescape loc => lift t cs (run_unescape loc r)
  | TReplace loc pat repl => Ok (t, cs, run_replace loc pat repl r, true)
  | TExtractRe loc pat locs => lift t cs (run_extractre loc pat locs r)
  end
with run_tfs (ts : tfs) (cs : counters) (r : rec) {struct ts} : outcome (tfs * counters * rec * bool) :=
  match ts with
  | TNil => Ok (TNil, cs, r, true)
  | TCons t ts' =>
    match run_tf t cs r with
    | Ok (t', cs', r', true) =>
      match run_tfs ts' cs' r' with
      | Ok (ts'', cs'', r'', b) => Ok (TCons t' ts'', cs'', r'', b)
      | Err e => Err e
      | Panic s => Panic s
      end
    | Ok (t', cs', r', false) => Ok (TCons t' ts', cs', r', false)
    | Err e => Err e
    | Panic s => Panic s
    end
  end
with run_cases (ks : tcases) (cs : counters) (r : rec) {struct ks} : outcome (tcases * counters * rec * bool) :=
  match ks with
  | KNil => Ok (KNil, cs, r, true)
  | KCons m th ks' =>
    if matches m (r_fields r) then
      match run_tfs th cs r with
      | Ok (th', cs', r', b) => Ok (KCons m th' ks', cs', r', b)
      | Err e => Err e
      | Panic s => Panic s
      end
    else
      match run_cases ks' cs r with
      | Ok (ks'', cs', r', b) => Ok (KCons m th ks'', cs', r', b)
      | Err e => Err e
      | Panic s => Panic s
      end
  end.

(* ---------------------------------------------------------------------------------------------- *)
(* loading: YAML unmarshalling of the value matchers, VerifyTransformConfigs, NewTransformsFromConfig *)

Definition load_vm (c : vmatch_cfg) : option vm :=
  let (op, arg) := c in
  if (op =? 0) || (op =? 2) then (if bytes_nonempty arg then Some (VEq arg) else None)
  else if op =? 1 then (if bytes_nonempty arg then None else Some VAny)
  else if op =? 3 then (if bytes_nonempty arg then Some (VNot arg) else None)
  else if op =? 4 then (if bytes_nonempty arg then Some (VStart arg) else None)
  else if op =? 5 then (if bytes_nonempty arg then Some (VEnd arg) else None)
  else if op =? 6 then (if bytes_nonempty arg then Some (VContain arg) else None)
  else if op =? 7 then (if o_glob_compiles O arg then Some (VGlob arg) else None)
  else if op =? 8 then (if o_re_compiles O arg then Some (VRegex arg) else None)
  else if op =? 9 then option_map VLenGt (atoi arg)
  else if op =? 10 then option_map VLenLt (atoi arg)
  else None.

Definition matcher_unmarshals (m : matcher_cfg) : bool :=
  forallb (fun kv => match load_vm (snd kv) with Some _ => true | None => false end) m.

Definition int_ok (s : bytes) : bool := match atoi s with Some _ => true | None => false end.

(* stage 1: every custom UnmarshalYAML succeeds (and the int fields are ints) *)
Fixpoint unmarshals (c : cfg) : bool :=
  match c with
  | CIf m th => matcher_unmarshals m && forallb unmarshals th
  | CSwitch cs => forallb (fun mc => matcher_unmarshals (fst mc) && forallb unmarshals (snd mc)) cs
  | CBlock b => forallb unmarshals b
  | CDrop m pct _ => matcher_unmarshals m && int_ok pct
  | CExtractSp _ _ _ maxlen _ => int_ok maxlen
  | CTruncate _ maxlen _ => int_ok maxlen
  | _ => true
  end.

Definition zval (s : bytes) : Z := match atoi s with Some z => z | None => 0%Z end.

Definition known (schema : list bytes) (k : bytes) : bool :=
  match find_index schema k with Some _ => true | None => false end.

(* verification results: Ok tt / Err _ / Panic _ *)
Definition vfail : outcome unit := Err 1.
Definition vguard (b : bool) (k : outcome unit) : outcome unit := if b then k else vfail.

Fixpoint verify_addfields (schema : list bytes) (fs : list (bytes * bytes)) : outcome unit :=
  match fs with
  | [] => Ok tt
  | (k, tpl) :: fs' =>
    vguard (known schema k)
      (match new_expander schema tpl with
       | Ok _ => verify_addfields schema fs'
       | Err e => Err e
       | Panic s => Panic s
       end)
  end.

(* LogMatcherConfig.VerifyConfig (the values are non-nil once unmarshalled) *)
Definition verify_matcher (schema : list bytes) (m : matcher_cfg) : bool :=
  forallb (fun kv => known schema (fst kv)) m.

Definition key_ok (schema : list bytes) (k : bytes) : bool := bytes_nonempty k && known schema k.

Fixpoint insert_pair (p : bytes * bytes) (l : list (bytes * bytes)) : list (bytes * bytes) :=
  match l with
  | [] => [p]
  | q :: l' => match bytes_cmp (fst p) (fst q) with Gt => q :: insert_pair p l' | _ => p :: l end
  end.

(* the order in which addFields visits its fields: sorted by destination key *)
Definition sort_pairs (l : list (bytes * bytes)) : list (bytes * bytes) := fold_right insert_pair [] l.

Fixpoint verify (schema : list bytes) (c : cfg) {struct c} : outcome unit :=
  let verify_list := fix vl (l : list cfg) : outcome unit :=
    match l with
    | [] => Ok tt
    | x :: l' => _ <-- verify schema x ;; vl l'
    end in
  match c with
  | CAddFields fs => vguard (match fs with [] => false | _ => true end) (verify_addfields schema (sort_pairs fs))
  | CDelFields ks => vguard (match ks with [] => false | _ => true end) (vguard (forallb (known schema) ks) (Ok tt))
  | CMapValue k m _ => vguard (key_ok schema k) (vguard (match m with [] => false | _ => true end) (Ok tt))
  | CIf m th =>
    vguard (match m with [] => false | _ => true end)
      (vguard (verify_matcher schema m) (vguard (match th with [] => false | _ => true end) (verify_list th)))
  | CSwitch cs =>
    vguard (match cs with [] => false | _ => true end)
      ((fix vc (l : list (matcher_cfg * list cfg)) : outcome unit :=
          match l with
          | [] => Ok tt
          | (m, th) :: l' =>
            _ <-- vguard (match m with [] => false | _ => true end)
                   (vguard (verify_matcher schema m) (vguard (match th with [] => false | _ => true end) (verify_list th))) ;;
            vc l'
          end) cs)
  | CBlock b => vguard (match b with [] => false | _ => true end) (verify_list b)
  | CDrop m pct label =>
    vguard (match m with [] => false | _ => true end)
      (vguard (verify_matcher schema m)
         (vguard ((1 <=? zval pct) && (zval pct <=? 100))%Z (vguard (bytes_nonempty label) (Ok tt))))
  | CExtractSp head k pat maxlen dk =>
    vguard (key_ok schema k)
      (vguard (bytes_nonempty pat)
         (match new_string_extractor_simple head pat (zval maxlen) with
          | Ok _ => vguard (0 <? zval maxlen)%Z (vguard (key_ok schema dk) (Ok tt))
          | Err e => Err e
          | Panic s => Panic s
          end))
  | CTruncate k maxlen suffix =>
    vguard (key_ok schema k) (vguard (0 <? zval maxlen)%Z (vguard (bytes_nonempty suffix) (Ok tt)))
  | CUnescape k => vguard (key_ok schema k) (Ok tt)
  | CReplace k pat _ => vguard (key_ok schema k) (vguard (bytes_nonempty pat) (vguard (o_re_compiles O pat) (Ok tt)))
  | CExtractRe k pat =>
    vguard (key_ok schema k) (vguard (bytes_nonempty pat) (vguard (o_re_compiles O pat)
      (vguard (forallb (fun n => negb (bytes_nonempty n) || known schema n) (o_re_names O pat)) (Ok tt))))
  end.

Fixpoint verify_all (schema : list bytes) (l : list cfg) : outcome unit :=
  match l with
  | [] => Ok tt
  | x :: l' => _ <-- verify schema x ;; verify_all schema l'
  end.

(* MustCreateFieldLocator *)
Definition p_locator : N := 81.
Definition must_loc (schema : list bytes) (k : bytes) : outcome nat :=
  match find_index schema k with Some i => Ok i | None => Panic p_locator end.

Fixpoint new_matcher (schema : list bytes) (m : matcher_cfg) : outcome matcher :=
  match m with
  | [] => Ok []
  | (k, v) :: m' =>
    loc <-- must_loc schema k ;;
    match load_vm v with
    | None => Panic 82 (* nil match function: excluded by stage 1 *)
    | Some x => rest <-- new_matcher schema m' ;; Ok ((loc, x) :: rest)
    end
  end.

Fixpoint new_addfields (schema : list bytes) (fs : list (bytes * bytes)) : outcome (list (nat * list part)) :=
  match fs with
  | [] => Ok []
  | (k, tpl) :: fs' =>
    loc <-- must_loc schema k ;;
    match new_expander schema tpl with
    | Ok ps => rest <-- new_addfields schema fs' ;; Ok ((loc, ps) :: rest)
    | Err _ => Panic 83 (* panic(err) *)
    | Panic s => Panic s
    end
  end.

Fixpoint new_locs (schema : list bytes) (ks : list bytes) : outcome (list nat) :=
  match ks with
  | [] => Ok []
  | k :: ks' => loc <-- must_loc schema k ;; rest <-- new_locs schema ks' ;; Ok (loc :: rest)
  end.

(* extract: SubexpNames -> locators ("" = MissingFieldLocator) *)
Fixpoint new_subexp_locs (schema : list bytes) (names : list bytes) : outcome (list (option nat)) :=
  match names with
  | [] => Ok []
  | [] :: ns => rest <-- new_subexp_locs schema ns ;; Ok (None :: rest)
  | n :: ns => loc <-- must_loc schema n ;; rest <-- new_subexp_locs schema ns ;; Ok (Some loc :: rest)
  end.

Fixpoint new_tf (schema : list bytes) (c : cfg) {struct c} : outcome tf :=
  let new_list := fix nl (l : list cfg) : outcome tfs :=
    match l with
    | [] => Ok TNil
    | x :: l' => t <-- new_tf schema x ;; ts <-- nl l' ;; Ok (TCons t ts)
    end in
  match c with
  | CAddFields fs => ps <-- new_addfields schema (sort_pairs fs) ;; Ok (TAddFields ps)
  | CDelFields ks => ls <-- new_locs schema ks ;; Ok (TDelFields ls)
  | CMapValue k m d => loc <-- must_loc schema k ;; Ok (TMapValue loc m d)
  | CIf m th => mm <-- new_matcher schema m ;; ts <-- new_list th ;; Ok (TIf mm ts)
  | CSwitch cs =>
    ks <-- (fix nc (l : list (matcher_cfg * list cfg)) : outcome tcases :=
              match l with
              | [] => Ok KNil
              | (m, th) :: l' => mm <-- new_matcher schema m ;; ts <-- new_list th ;; ks <-- nc l' ;; Ok (KCons mm ts ks)
              end) cs ;;
    Ok (TSwitch ks)
  | CBlock b => ts <-- new_list b ;; Ok (TBlock ts)
  | CDrop m pct label => mm <-- new_matcher schema m ;; Ok (TDrop mm (zval pct) label 0 0)
  | CExtractSp head k pat maxlen dk =>
    match new_string_extractor_simple head pat (zval maxlen) with
    | Ok ex => src <-- must_loc schema k ;; dst <-- must_loc schema dk ;; Ok (TExtractSp ex src dst)
    | Err _ => Panic 84 (* panic(err) *)
    | Panic s => Panic s
    end
  | CTruncate k maxlen suffix => loc <-- must_loc schema k ;; Ok (TTruncate loc (zval maxlen) suffix)
  | CUnescape k => loc <-- must_loc schema k ;; Ok (TUnescape loc)
  | CReplace k pat repl =>
    loc <-- must_loc schema k ;;
    if o_re_compiles O pat then Ok (TReplace loc pat repl) else Panic 85
  | CExtractRe k pat =>
    if o_re_compiles O pat then
      locs <-- new_subexp_locs schema (o_re_names O pat) ;;
      loc <-- must_loc schema k ;; Ok (TExtractRe loc pat locs)
    else Panic 85
  end.

Fixpoint new_all (schema : list bytes) (l : list cfg) : outcome tfs :=
  match l with
  | [] => Ok TNil
  | x :: l' => t <-- new_tf schema x ;; ts <-- new_all schema l' ;; Ok (TCons t ts)
  end.

(* the labels registered by the drop transforms (RegisterCustomCounter) *)
Fixpoint reg_tf (t : tf) (cs : counters) {struct t} : counters :=
  match t with
  | TIf _ th => reg_tfs th cs
  | TSwitch ks => reg_cases ks cs
  | TBlock b => reg_tfs b cs
  | TDrop _ rate label _ _ =>
    let cs1 := cnt_add cs label 0 0 in
    if (rate <? 100)%Z then cnt_add cs1 (33 :: label) 0 0 else cs1
  | _ => cs
  end
with reg_tfs (ts : tfs) (cs : counters) {struct ts} : counters :=
  match ts with TNil => cs | TCons t ts' => reg_tfs ts' (reg_tf t cs) end
with reg_cases (ks : tcases) (cs : counters) {struct ks} : counters :=
  match ks with KNil => cs | KCons _ th ks' => reg_cases ks' (reg_tfs th cs) end.

Inductive load_result :=
| LErrUnmarshal | LErrVerify | LPanicVerify | LPanicNew | LOk (ts : tfs).

Definition load (schema : list bytes) (l : list cfg) : load_result :=
  if negb (forallb unmarshals l) then LErrUnmarshal else
  match verify_all schema l with
  | Err _ => LErrVerify
  | Panic _ => LPanicVerify
  | Ok _ =>
    match new_all schema l with
    | Ok ts => LOk ts
    | _ => LPanicNew
    end
  end.

(* ---------- running a list of records through one instance of the transforms ---------- *)

Inductive rec_result := RPass (r : rec) | RDrop (r : rec) | RPanic.

Fixpoint run_records (ts : tfs) (cs : counters) (rs : list rec) : list rec_result * counters :=
  match rs with
  | [] => ([], cs)
  | r :: rs' =>
    match run_tfs ts cs r with
    | Ok (ts', cs', r', b) =>
      let (out, cs'') := run_records ts' cs' rs' in
      ((if b then RPass r' else RDrop r') :: out, cs'')
    | _ => ([RPanic], cs)
    end
  end.

End WithOracles.

(* ---------------------------------------------------------------------------------------------- *)
(* the program encoding shared with the Go harness                                                 *)

Definition p_byte (s : bytes) : option (N * bytes) :=
  match s with b :: t => Some (b, t) | [] => None end.

Definition p_str (s : bytes) : option (bytes * bytes) :=
  match s with
  | n :: t => if (N.to_nat n <=? length t)%nat then Some (firstn (N.to_nat n) t, skipn (N.to_nat n) t) else None
  | [] => None
  end.

Fixpoint p_list {A} (p : bytes -> option (A * bytes)) (n : nat) (s : bytes) : option (list A * bytes) :=
  match n with
  | O => Some ([], s)
  | S n' =>
    match p s with
    | Some (x, r) => match p_list p n' r with Some (xs, r') => Some (x :: xs, r') | None => None end
    | None => None
    end
  end.

Definition p_listc {A} (p : bytes -> option (A * bytes)) (s : bytes) : option (list A * bytes) :=
  match s with n :: t => p_list p (N.to_nat n) t | [] => None end.

Definition p_pair {A B} (pa : bytes -> option (A * bytes)) (pb : bytes -> option (B * bytes)) (s : bytes)
  : option ((A * B) * bytes) :=
  match pa s with
  | Some (a, r) => match pb r with Some (b, r') => Some ((a, b), r') | None => None end
  | None => None
  end.

Definition p_matcher : bytes -> option (matcher_cfg * bytes) := p_listc (p_pair p_str (p_pair p_byte p_str)).

Definition pmap {A B} (f : A -> B) (o : option (A * bytes)) : option (B * bytes) :=
  match o with Some (a, r) => Some (f a, r) | None => None end.

Fixpoint p_node (fuel : nat) (s : bytes) : option (cfg * bytes) :=
  match fuel with
  | O => None
  | S f =>
    match s with
    | [] => None
    | tag :: s1 =>
      if tag =? 1 then pmap CAddFields (p_listc (p_pair p_str p_str) s1)
      else if tag =? 2 then pmap CDelFields (p_listc p_str s1)
      else if tag =? 3 then
        pmap (fun x => match x with (k, (m, d)) => CMapValue k m d end)
             (p_pair p_str (p_pair (p_listc (p_pair p_str p_str)) p_str) s1)
      else if tag =? 4 then
        pmap (fun x => CIf (fst x) (snd x)) (p_pair p_matcher (p_listc (p_node f)) s1)
      else if tag =? 5 then
        pmap CSwitch (p_listc (p_pair p_matcher (p_listc (p_node f))) s1)
      else if tag =? 6 then pmap CBlock (p_listc (p_node f) s1)
      else if tag =? 7 then
        pmap (fun x => match x with (m, (p, l)) => CDrop m p l end) (p_pair p_matcher (p_pair p_str p_str) s1)
      else if (tag =? 8) || (tag =? 9) then
        pmap (fun x => match x with (k, (p, (n, d))) => CExtractSp (tag =? 8) k p n d end)
             (p_pair p_str (p_pair p_str (p_pair p_str p_str)) s1)
      else if tag =? 10 then
        pmap (fun x => match x with (k, (n, sfx)) => CTruncate k n sfx end) (p_pair p_str (p_pair p_str p_str) s1)
      else if tag =? 11 then pmap CUnescape (p_str s1)
      else if tag =? 12 then
        pmap (fun x => match x with (k, (p, rp)) => CReplace k p rp end) (p_pair p_str (p_pair p_str p_str) s1)
      else if tag =? 13 then pmap (fun x => CExtractRe (fst x) (snd x)) (p_pair p_str p_str s1)
      else None
    end
  end.

Definition parse_program (s : bytes) : option (list cfg) :=
  match p_listc (p_node (S (length s))) s with
  | Some (l, []) => Some l
  | _ => None
  end.

(* ---------------------------------------------------------------------------------------------- *)
(* correspondence entry point                                                                      *)

Definition tiny_oracles : oracles := {|
  o_re_compiles := tiny_re_compiles;
  o_re_match := tiny_re_match;
  o_re_replace := tiny_re_replace;
  o_re_names := tiny_re_names;
  o_re_find := tiny_re_find;
  o_glob_compiles := tiny_glob_compiles;
  o_glob_match := tiny_glob_match
|}.

Fixpoint take_records (nf n : nat) (ss : list bytes) (zs : list Z) : list rec :=
  match n with
  | O => []
  | S n' =>
    {| r_fields := firstn nf ss; r_rawlen := hd 0%Z zs; r_unesc := negb (hd 0 (tl zs) =? 0)%Z |}
      :: take_records nf n' (skipn nf ss) (skipn 2 zs)
  end.

Definition out_fields (r : rec) : bytes :=
  (if r_unesc r then 117 else 110) :: flat_map (fun f => comma :: hex f) (r_fields r).

Definition out_rec (x : rec_result) : bytes :=
  match x with
  | RPass r => 80 :: out_fields r
  | RDrop r => 68 :: out_fields r
  | RPanic => [88]
  end.

Definition out_counter (c : bytes * (Z * Z)) : bytes :=
  hex (fst c) ++ 61 :: dec_of_Z (fst (snd c)) ++ 47 :: dec_of_Z (snd (snd c)).

(* "cfgerr:unmarshal" etc. *)
Definition s_cfgerr_unmarshal : bytes := [99;102;103;101;114;114;58;117;110;109;97;114;115;104;97;108].
Definition s_cfgerr_verify : bytes := [99;102;103;101;114;114;58;118;101;114;105;102;121].
Definition s_cfgpanic_verify : bytes := [99;102;103;112;97;110;105;99;58;118;101;114;105;102;121].
Definition s_cfgpanic_new : bytes := [99;102;103;112;97;110;105;99;58;110;101;119].
Definition s_badprog : bytes := [98;97;100;112;114;111;103].

(* kind 1 transports long values compactly: every field is a unit string and a repeat count *)
Fixpoint repeat_fields (units : list bytes) (counts : list Z) : list bytes :=
  match units, counts with
  | u :: us, k :: ks => concat (repeat u (Z.to_nat k)) :: repeat_fields us ks
  | _, _ => []
  end.

(* kind 0: sargs = program :: schema (names joined by ',') :: the fields of the records (schema
   order, record after record); zargs = number of records :: (RawLength, Unescaped) per record.
   output: "ok:" records joined by ';' then '#' then the custom counters joined by ','.
   a record: P|D (PASS/DROP) u|n (Unescaped) then ",hex" per field; X = panic (the run stops)
   kind 1: the same, but the field values are units, and after the (RawLength, Unescaped) pairs zargs
   holds one repeat count per field: value = the unit repeated that many times
   kind 2: util.CleanUTF8 alone on every byte string of S, by the rune-level loop of Model/TfUtf8Dec.v
   (run_clean_case: cleaned bytes + utf8.DecodeRune along the input)
   kind 3: one sampled drop node on a LONG rule-defined stream (Model/TfDropLong.v): zargs = rate, n records,
   a, b, q, u (record i is not matched iff (i*a+b) mod q < u), checkpoint interval *)
Definition run_case_C15 (c : case) : bytes :=
  if c_kind c =? 2 then run_clean_case (c_sargs c) else
  if c_kind c =? 3 then run_long_drop_case (c_zargs c) else
  match parse_program (sarg c 0) with
  | None => s_badprog
  | Some prog =>
    let schema := split_on 44 (sarg c 1) in
    match load tiny_oracles schema prog with
    | LErrUnmarshal => s_cfgerr_unmarshal
    | LErrVerify => s_cfgerr_verify
    | LPanicVerify => s_cfgpanic_verify
    | LPanicNew => s_cfgpanic_new
    | LOk ts =>
      let n := Z.to_nat (zarg c 0) in
      let fields :=
        if c_kind c =? 1
        then repeat_fields (skipn 2 (c_sargs c)) (skipn (1 + 2 * n) (c_zargs c))
        else skipn 2 (c_sargs c) in
      let rs := take_records (length schema) n fields (tl (c_zargs c)) in
      let (out, cs) := run_records tiny_oracles ts (reg_tfs ts []) rs in
      str_ok ++ colon :: join 59 (map out_rec out) ++ 35 :: join comma (map out_counter cs)
    end
  end.
