(* C16 - correspondence entry point.  kind 0 / 1: one configuration / a sequence of configurations through the
   model of the loader (Model/Config.v: run_case_config).  kind 2 / 3: one YAML node through the model of the
   config holder (Model/ConfigHolder.v):
     kind 2  the node decoded into a ConfigHolder[C] by yaml.v3 (direct call), output hnil: | hok:<type> | herr: | panic:
             (which error is not compared: the property only asks for an error value)
     kind 3  the node written at a typed component site of a valid configuration file and the file loaded by
             run.ParseConfigFile: a node the holder rejects makes the whole file an error value
   Tokens: shape text (what the harness writes into the file; not used here), component class name (not used
   here), the registered type names of the class (count, names), the answer of NodeDecodeKnownFields (0/1), the
   node in pre-order (kind 1 2 4 8 16 as in yaml.v3, short tag, value, number of children, children; the
   target of an alias is its only child).  No proofs in this file. *)
From SV Require Import Model.Common Model.ConfigTemplate Model.ConfigExtractor Model.Config Model.ConfigHolder.
Open Scope N_scope.

Definition ykind_of_nat (k : nat) : option ykind :=
  match k with
  | 1%nat => Some KDocument | 2%nat => Some KSequence | 4%nat => Some KMapping | 8%nat => Some KScalar
  | 16%nat => Some KAlias | _ => None
  end.

Fixpoint p_ynode (fuel : nat) : parser ynode := fun ts =>
  match fuel with
  | O => None
  | S fuel' =>
    match p_nat ts with
    | Some (k, tag :: value :: ts1) =>
      match ykind_of_nat k, p_list (p_ynode fuel') ts1 with
      | Some kd, Some (cs, r) => Some (YNode kd tag value cs, r)
      | _, _ => None
      end
    | _ => None
    end
  end.

Definition s_notrejected : bytes := [110;111;116;114;101;106;101;99;116;101;100;58]. (* "notrejected:" *)

(* the answer of run.ParseConfigFile on a file in which the node stands at a typed component site *)
Definition file_output (o : outcome hres) : bytes :=
  match o with
  | Err _ => str_err ++ colon :: s_verify_err
  | Panic _ => str_panic ++ colon :: s_verify_panic
  | Ok _ => s_notrejected
  end.

Definition run_holder_case (file_level : bool) (c : case) : bytes :=
  match c_sargs c with
  | _ :: _ :: ts =>
    match p_strlist ts with
    | Some (table, ts1) =>
      match p_bool ts1 with
      | Some (d, ts2) =>
        match p_ynode (length ts2) ts2 with
        | Some (n, []) =>
          let o := site_decode table (fun _ _ => d) n in
          if file_level then file_output o else holder_output o
        | _ => s_badcase
        end
      | None => s_badcase
      end
    | None => s_badcase
    end
  | _ => s_badcase
  end.

Definition run_case_C16 (c : case) : bytes :=
  if (c_kind c =? 2) then run_holder_case false c
  else if (c_kind c =? 3) then run_holder_case true c
  else run_case_config c.
