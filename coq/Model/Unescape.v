(* Model of util/stringunescape/unescape.go (Unescaper: FindFirst, Run, RunFromFirst, RunToBuffer) and of
   base/bsupport/unescape.go (NewSyslogUnescaper).  Reusable: rewrite/runescape and transform/tunescape both
   call this code.

   RunToBuffer keeps Go's shape: indices [si] into the source and [di] into the destination, the
   [strings.IndexByte] chunking, byte stores through checked accessors.  The destination [dst] is a Go slice,
   i.e. a window of some fixed buffer (the serializer passes [buffer[position:]]): it is modelled by the list of
   the bytes of that window, whose length never changes; the caller puts the window back.  No proofs here. *)
From SV Require Import Model.Common Model.Msgpack.
Open Scope N_scope.

(* An Unescaper: the escape byte and the 256-entry table (0 = not escapable).
   NewUnescaper sets table[escapeChar] = escapeChar after the mapping. *)
Record unescaper := { u_esc : N; u_map : N -> N }.

Definition new_unescaper (esc : N) (mapping : list (N * N)) : unescaper :=
  {| u_esc := esc;
     u_map := fun c =>
       if c =? esc then esc
       else match find (fun kv => fst kv =? c) mapping with Some kv => snd kv | None => 0 end |}.

(* bsupport.NewSyslogUnescaper: '\\' with b f n r t *)
Definition syslog_unescaper : unescaper :=
  new_unescaper 92 [(98, 8); (102, 12); (110, 10); (114, 13); (116, 9)].

(* strings.IndexByte *)
Fixpoint index_byte (s : bytes) (c : N) : option nat :=
  match s with
  | [] => None
  | x :: s' => if x =? c then Some O else option_map S (index_byte s' c)
  end.

(* FindFirst *)
Definition find_first (u : unescaper) (s : bytes) : option nat := index_byte s (u_esc u).

(* src[i] *)
Definition src_at (src : bytes) (i : nat) : outcome N :=
  match nth_error src i with Some c => Ok c | None => Panic site_index end.

(* src[a:b] *)
Definition src_slice (src : bytes) (a b : nat) : outcome bytes :=
  match slice src a b with Some s => Ok s | None => Panic site_slice end.

(* the loop of RunToBuffer; [len] = len(src); fuel = number of iterations allowed *)
Fixpoint unescape_loop (fuel : nat) (u : unescaper) (src : bytes) (len : nat) (si : nat)
         (dst : bytes) (di : nat) : outcome (bytes * nat) :=
  if (si + 1 <? len)%nat then            (* si < slimit, slimit = len(src) - 1 *)
    match fuel with
    | O => Err err_fuel
    | S fuel' =>
      val <-- src_at src (si + 1) ;;
      let c := u_map u val in
      '(dst, di) <--
        (if c =? 0 then
           d1 <-- put dst di (u_esc u) ;;
           d2 <-- put d1 (di + 1) val ;;
           Ok (d2, (di + 2)%nat)
         else
           d1 <-- put dst di c ;;
           Ok (d1, (di + 1)%nat)) ;;
      let si := (si + 2)%nat in
      rest <-- src_slice src si len ;;
      let n := match index_byte rest (u_esc u) with Some n => n | None => (len - si)%nat end in
      chunk <-- src_slice src si (si + n) ;;
      '(dst, k) <-- copy_at dst di chunk ;;
      unescape_loop fuel' u src len (si + n) dst (di + k)
    end
  else if (si <? len)%nat then
    tail <-- src_slice src si len ;;
    '(dst, k) <-- copy_at dst di tail ;;
    Ok (dst, (di + k)%nat)
  else Ok (dst, di).

(* RunToBuffer(src, first, dst); returns the new contents of dst and the end index *)
Definition run_to_buffer (u : unescaper) (src : bytes) (first : nat) (dst : bytes) : outcome (bytes * nat) :=
  head <-- src_slice src 0 first ;;
  '(dst, di) <-- copy_at dst 0 head ;;
  unescape_loop (length src) u src (length src) first dst di.

(* RunFromFirst: dst := make([]byte, len(src)); dst[:RunToBuffer(src, first, dst)] *)
Definition run_from_first (u : unescaper) (src : bytes) (first : nat) : outcome bytes :=
  '(dst, dend) <-- run_to_buffer u src first (repeat 0 (length src)) ;;
  src_slice dst 0 dend.

(* Run *)
Definition unescape_run (u : unescaper) (src : bytes) : outcome bytes :=
  match find_first u src with
  | None => Ok src
  | Some first => run_from_first u src first
  end.
