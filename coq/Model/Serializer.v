(* Model of output/fluentdforward/eventserializer.go (NewEventSerializer, SerializeRecord, encodeRecord,
   serializeStrings), fluentdforward/config.go (the serialization part of VerifyConfig),
   base/bsupport/logrewrites.go (NewRewritersFromConfig, VerifyRewriterConfigs) and the three rewriters
   rewrite/rinline, rewrite/runescape (after the fix: it no longer sets record.Unescaped), rewrite/rcopy.

   The serializer owns one preallocated buffer of 2*defs.InputLogMaxRecordBytes bytes.  Since fix 413c995
   SerializeRecord first computes maxEncodedLength(record), an upper bound of the encoded length, and encodes into a
   one-off buffer of maxLength+1 bytes when maxLength >= len(buffer).  encodeRecord reserves the
   root map header, writes the visible fields (pre-serialized key, then the value; a rewritten value gets a
   header reserved for its MAXIMUM length which is patched afterwards), patches the map header, then writes
   the nested "environment" map.  position == len(buffer) at the end yields the empty stream.
   No proofs in this file. *)
From SV Require Import Model.Common Model.Msgpack Model.Unescape.
Open Scope N_scope.

(* ---------- configuration ---------- *)

Inductive rewriter_cfg :=
| RcCopy
| RcUnescape
| RcInline (field : bytes).

Record ser_config := {
  c_env : list bytes;                                 (* EnvironmentFields *)
  c_hidden : list bytes;                              (* HiddenFields *)
  c_rewrite : list (bytes * list rewriter_cfg)        (* RewriteFields (a Go map: keys distinct) *)
}.

Record record := {
  r_fields : list bytes;
  r_unix : Z;          (* Timestamp.Unix() *)
  r_nsec : Z;          (* Timestamp.Nanosecond() *)
  r_unescaped : bool
}.

(* slices.Index on strings *)
Fixpoint index_of (names : list bytes) (name : bytes) : option nat :=
  match names with
  | [] => None
  | x :: names' => if bytes_eqb x name then Some O else option_map S (index_of names' name)
  end.

Definition has_name (names : list bytes) (name : bytes) : bool :=
  match index_of names name with Some _ => true | None => false end.

Definition is_nil {A} (l : list A) : bool := match l with [] => true | _ => false end.

(* RewriteFields[name] *)
Fixpoint lookup_rewrite (m : list (bytes * list rewriter_cfg)) (name : bytes) : option (list rewriter_cfg) :=
  match m with
  | [] => None
  | (k, v) :: m' => if bytes_eqb k name then Some v else lookup_rewrite m' name
  end.

(* ---------- VerifyConfig ---------- *)

Definition verify_rewriter (schema : list bytes) (rc : rewriter_cfg) (has_next : bool) : bool :=
  match rc with
  | RcCopy => negb has_next
  | RcUnescape => negb has_next
  | RcInline f => has_next && negb (is_nil f) && has_name schema f
  end.

Fixpoint verify_rewriters (schema : list bytes) (l : list rewriter_cfg) : bool :=
  match l with
  | [] => true
  | rc :: rest => verify_rewriter schema rc (negb (is_nil rest)) && verify_rewriters schema rest
  end.

(* environmentFields non-empty; every environment field and every hidden field is a schema field
   (schema.CreateFieldLocators); every rewritten field is a schema field with a valid chain *)
Definition verify_config (schema : list bytes) (cfg : ser_config) : bool :=
  negb (is_nil (c_env cfg)) &&
  forallb (has_name schema) (c_env cfg) &&
  forallb (has_name schema) (c_hidden cfg) &&
  forallb (fun kv => has_name schema (fst kv) && verify_rewriters schema (snd kv)) (c_rewrite cfg).

(* ---------- rewriters ---------- *)

Inductive rewriter :=
| RwCopy
| RwUnescape
| RwInline (header : bytes) (loc : nat) (next : rewriter).

(* NewRewritersFromConfig: built from the last to the first; the constructors panic on a misplaced rewriter *)
Fixpoint new_rewriters (schema : list bytes) (l : list rewriter_cfg) : outcome (option rewriter) :=
  match l with
  | [] => Ok None
  | rc :: rest =>
    next <-- new_rewriters schema rest ;;
    match rc, next with
    | RcCopy, None => Ok (Some RwCopy)
    | RcUnescape, None => Ok (Some RwUnescape)
    | RcInline f, Some nx =>
      match index_of schema f with
      | Some loc => Ok (Some (RwInline (nth loc schema [] ++ [61]) loc nx))   (* Name(schema) + "=" *)
      | None => Panic site_config
      end
    | _, _ => Panic site_config
    end
  end.

(* fieldLocator.Get(fields) *)
Definition get_field (fields : list bytes) (loc : nat) : outcome bytes :=
  match nth_error fields loc with Some v => Ok v | None => Panic site_index end.

Fixpoint max_field_length (rw : rewriter) (value : bytes) (rec : record) : outcome nat :=
  match rw with
  | RwCopy => Ok (length value)
  | RwUnescape => Ok (length value)
  | RwInline header loc next =>
    fv <-- get_field (r_fields rec) loc ;;
    n <-- max_field_length next value rec ;;
    if is_nil fv then Ok n else Ok (length header + length fv + 1 + n)%nat
  end.

(* buffer[off:] as a window: the list of the bytes from off on (slice bounds checked) *)
Definition window (buf : bytes) (off : nat) : outcome bytes :=
  if (off <=? length buf)%nat then Ok (skipn off buf) else Panic site_slice.

(* the bytes of a window written back behind the first [off] bytes (the window aliases the buffer) *)
Definition unwindow (buf : bytes) (off : nat) (win : bytes) : bytes := firstn off buf ++ win.

(* WriteFieldBody(value, record, buffer): [dst] is the window the caller passed; returns its new contents
   and the end position in it *)
Fixpoint write_field_body (rw : rewriter) (value : bytes) (rec : record) (dst : bytes)
  : outcome (bytes * nat) :=
  match rw with
  | RwCopy => copy_at dst 0 value
  | RwUnescape =>
    if r_unescaped rec then copy_at dst 0 value
    else match find_first syslog_unescaper value with
         | None => copy_at dst 0 value
         | Some first => run_to_buffer syslog_unescaper value first dst
         end
  | RwInline header loc next =>
    fv <-- get_field (r_fields rec) loc ;;
    if is_nil fv then write_field_body next value rec dst
    else
      '(dst, e1) <-- copy_at dst 0 header ;;
      '(dst, e2) <-- copy_at dst e1 fv ;;
      '(dst, e3) <-- copy_at dst (e1 + e2) [32] ;;
      let e := (e1 + e2 + e3)%nat in
      sub <-- window dst e ;;
      '(sub, n) <-- write_field_body next value rec sub ;;
      Ok (unwindow dst e sub, (e + n)%nat)
  end.

(* ---------- the serializer ---------- *)

Record serializer := {
  s_masks : list bool;
  s_env_locs : list nat;
  s_rewriters : list (option rewriter);
  s_keys : list bytes;
  s_env_keys : list bytes;
  s_buflen : nat
}.

(* serializeStrings: one key into its own 5+len buffer, cut at the end position *)
Definition serialize_string (key : bytes) : outcome bytes :=
  '(b, e) <-- encode_string_auto (repeat 0 (5 + length key)) 0 key ;;
  src_slice b 0 e.

Fixpoint serialize_strings (keys : list bytes) : outcome (list bytes) :=
  match keys with
  | [] => Ok []
  | k :: keys' => s <-- serialize_string k ;; r <-- serialize_strings keys' ;; Ok (s :: r)
  end.

Definition err_unknown_env : N := 1.

Fixpoint locate_all (schema : list bytes) (names : list bytes) : outcome (list nat) :=
  match names with
  | [] => Ok []
  | n :: names' =>
    match index_of schema n with
    | None => Err err_unknown_env
    | Some loc => r <-- locate_all schema names' ;; Ok (loc :: r)
    end
  end.

Fixpoint build_rewriters (schema : list bytes) (cfg : ser_config) (names : list bytes)
  : outcome (list (option rewriter)) :=
  match names with
  | [] => Ok []
  | n :: names' =>
    rw <-- match lookup_rewrite (c_rewrite cfg) n with
           | None => Ok None
           | Some chain => new_rewriters schema chain
           end ;;
    r <-- build_rewriters schema cfg names' ;;
    Ok (rw :: r)
  end.

(* NewEventSerializer; buflen = 2*defs.InputLogMaxRecordBytes *)
Definition new_serializer (schema : list bytes) (cfg : ser_config) (buflen : nat) : outcome serializer :=
  locs <-- locate_all schema (c_env cfg) ;;
  rws <-- build_rewriters schema cfg schema ;;
  keys <-- serialize_strings schema ;;
  env_keys <-- serialize_strings (c_env cfg) ;;
  Ok {| s_masks := map (fun n => has_name (c_env cfg) n || has_name (c_hidden cfg) n) schema;
        s_env_locs := locs;
        s_rewriters := rws;
        s_keys := keys;
        s_env_keys := env_keys;
        s_buflen := buflen |}.

Definition str_environment : bytes := [101;110;118;105;114;111;110;109;101;110;116].

(* the headRewriter != nil branch of the field loop: reserve the header for the maximum length, let the chain
   write into buffer[position:], patch the header (same width) when the actual length differs *)
Definition encode_rewritten (head : rewriter) (value : bytes) (rec : record) (buf : bytes) (pos : nat)
  : outcome (bytes * nat) :=
  let reserved := pos in
  maxlen <-- max_field_length head value rec ;;
  let small := N.of_nat maxlen <? 65536 in
  '(buf, pos) <-- (if small then encode_string_len16 buf pos maxlen
                   else encode_string_len32 buf pos maxlen) ;;
  win <-- window buf pos ;;
  '(win, actual) <-- write_field_body head value rec win ;;
  let buf := unwindow buf pos win in
  buf <-- (if (actual =? maxlen)%nat then Ok buf
           else '(b, _) <-- (if small then encode_string_len16 buf reserved actual
                             else encode_string_len32 buf reserved actual) ;; Ok b) ;;
  Ok (buf, (pos + actual)%nat).

(* the field loop of encodeRecord; the four slices are indexed by the same i *)
Fixpoint encode_fields (masks : list bool) (keys : list bytes) (rws : list (option rewriter))
         (fields : list bytes) (rec : record) (buf : bytes) (pos cnt : nat) : outcome (bytes * nat * nat) :=
  match fields with
  | [] => Ok (buf, pos, cnt)
  | value :: fields' =>
    match masks, keys, rws with
    | m :: masks', key :: keys', rw :: rws' =>
      if m || is_nil value then encode_fields masks' keys' rws' fields' rec buf pos cnt
      else
        '(buf, n) <-- copy_at buf pos key ;;
        let pos := (pos + n)%nat in
        '(buf, pos) <--
          match rw with
          | Some head => encode_rewritten head value rec buf pos
          | None => encode_string_auto buf pos value
          end ;;
        encode_fields masks' keys' rws' fields' rec buf pos (S cnt)
    | _, _, _ => Panic site_index
    end
  end.

(* the environment loop *)
Fixpoint encode_env (locs : list nat) (keys : list bytes) (fields : list bytes) (buf : bytes) (pos : nat)
  : outcome (bytes * nat) :=
  match locs with
  | [] => Ok (buf, pos)
  | loc :: locs' =>
    match keys with
    | key :: keys' =>
      '(buf, n) <-- copy_at buf pos key ;;
      value <-- get_field fields loc ;;
      '(buf, pos) <-- encode_string_auto buf (pos + n) value ;;
      encode_env locs' keys' fields buf pos
    | [] => Panic site_index
    end
  end.

(* encodeRecord on a given buffer; returns the buffer and the end position (0 when full) *)
Definition encode_record_on (ser : serializer) (rec : record) (buffer : bytes) : outcome (bytes * nat) :=
  let nfields := length (s_masks ser) in
  fields <-- (if (nfields <=? length (r_fields rec))%nat       (* record.Fields[0:len(fieldMasks)] *)
              then Ok (firstn nfields (r_fields rec)) else Panic site_slice) ;;
  '(buf, pos) <-- encode_array_len4 buffer 0 2 ;;
  '(buf, pos) <-- encode_event_time buf pos (r_unix rec) (r_nsec rec) ;;
  let reserved := pos in
  let small := N.of_nat (length fields + 1) <? 16 in
  let pos := if small then reserve_len4 pos else reserve_len16 pos in
  '(buf, pos, cnt) <-- encode_fields (s_masks ser) (s_keys ser) (s_rewriters ser) fields rec buf pos 1 ;;
  '(buf, _) <-- (if small then encode_map_len4 buf reserved cnt else encode_map_len16 buf reserved cnt) ;;
  '(buf, pos) <-- encode_string4 buf pos str_environment ;;
  let nenv := length (s_env_locs ser) in
  '(buf, pos) <-- (if N.of_nat nenv <? 16 then encode_map_len4 buf pos nenv else encode_map_len16 buf pos nenv) ;;
  '(buf, pos) <-- encode_env (s_env_locs ser) (s_env_keys ser) fields buf pos ;;
  if (pos =? length buf)%nat then Ok (buf, O) else Ok (buf, pos).

(* encodeRecord(record, buffer) followed by buffer[:length], on a GIVEN buffer (the whole of SerializeRecord before
   fix 413c995; since then the buffer is chosen first, see below) *)
Definition serialize_on (ser : serializer) (rec : record) (buffer : bytes) : outcome bytes :=
  '(buf, e) <-- encode_record_on ser rec buffer ;;
  src_slice buf 0 e.

(* ---------- maxEncodedLength (fix 413c995) ---------- *)

(* the loop over the visible fields: len(serializedFieldKeys[i]) + 5 + (MaxFieldLength(value, record) | len(value)) *)
Fixpoint max_fields_len (masks : list bool) (keys : list bytes) (rws : list (option rewriter))
         (fields : list bytes) (rec : record) (acc : nat) : outcome nat :=
  match fields with
  | [] => Ok acc
  | value :: fields' =>
    match masks, keys, rws with
    | m :: masks', key :: keys', rw :: rws' =>
      if m || is_nil value then max_fields_len masks' keys' rws' fields' rec acc
      else
        n <-- match rw with
              | Some head => max_field_length head value rec
              | None => Ok (length value)
              end ;;
        max_fields_len masks' keys' rws' fields' rec (acc + length key + 5 + n)%nat
    | _, _, _ => Panic site_index
    end
  end.

(* the loop over the environment fields: len(serializedEnvFieldKeys[i]) + 5 + len(loc.Get(fields)) *)
Fixpoint max_env_len (locs : list nat) (keys : list bytes) (fields : list bytes) (acc : nat) : outcome nat :=
  match locs with
  | [] => Ok acc
  | loc :: locs' =>
    match keys with
    | key :: keys' =>
      value <-- get_field fields loc ;;
      max_env_len locs' keys' fields (acc + length key + 5 + length value)%nat
    | [] => Panic site_index
    end
  end.

(* root-array header 1, timestamp 10, root-map header 3, "environment" key 12, environment-map header 3 *)
Definition fixed_overhead : nat := (1 + 10 + 3 + 12 + 3)%nat.

(* maxEncodedLength(record): Go int is 64 bits wide, no wrap-around for sizes that fit a machine *)
Definition max_encoded_length (ser : serializer) (rec : record) : outcome nat :=
  let nfields := length (s_masks ser) in
  fields <-- (if (nfields <=? length (r_fields rec))%nat       (* record.Fields[0:len(fieldMasks)] *)
              then Ok (firstn nfields (r_fields rec)) else Panic site_slice) ;;
  n <-- max_fields_len (s_masks ser) (s_keys ser) (s_rewriters ser) fields rec fixed_overhead ;;
  max_env_len (s_env_locs ser) (s_env_keys ser) fields n.

(* buffer := packer.buffer; if maxLength >= len(buffer) { buffer = make([]byte, maxLength+1) } *)
Definition choose_buffer (buffer : bytes) (maxlen : nat) : bytes :=
  if (length buffer <=? maxlen)%nat then repeat 0 (maxlen + 1) else buffer.

(* SerializeRecord, the preallocated buffer being as the previous records left it *)
Definition serialize_record_from (ser : serializer) (rec : record) (buffer : bytes) : outcome bytes :=
  maxlen <-- max_encoded_length ser rec ;;
  serialize_on ser rec (choose_buffer buffer maxlen).

(* ... and with a fresh, zeroed preallocated buffer (what the correspondence run evaluates; the theorems hold for
   any contents) *)
Definition serialize_record (ser : serializer) (rec : record) : outcome bytes :=
  serialize_record_from ser rec (repeat 0 (s_buflen ser)).

(* ---------- correspondence entry point ----------
   kind 0: a sequence of records through the same serializers.
   zargs: M, nschema, nrec, nenv, nhidden, nrw, nout, skipverify, nrecords, then per rewrite entry: chain length k
   and k codes (0 copy, 1 unescape, 2 inline), then per record: unix, nsec, unescaped.
   sargs: schema names, environment names, hidden names, then per rewrite entry the field name followed by the
   field of every inline step, then the nrec field values of every record.  Output: see harness/c10.go. *)

Fixpoint parse_steps (k : nat) (zs : list Z) (ss : list bytes) : option (list rewriter_cfg * list Z * list bytes) :=
  match k with
  | O => Some ([], zs, ss)
  | S k' =>
    match zs with
    | [] => None
    | code :: zs' =>
      if (code =? 2)%Z then
        match ss with
        | [] => None
        | f :: ss' =>
          match parse_steps k' zs' ss' with
          | Some (st, zs'', ss'') => Some (RcInline f :: st, zs'', ss'')
          | None => None
          end
        end
      else
        match parse_steps k' zs' ss with
        | Some (st, zs'', ss'') => Some ((if (code =? 1)%Z then RcUnescape else RcCopy) :: st, zs'', ss'')
        | None => None
        end
    end
  end.

Fixpoint parse_rewrites (n : nat) (zs : list Z) (ss : list bytes)
  : option (list (bytes * list rewriter_cfg) * list Z * list bytes) :=
  match n with
  | O => Some ([], zs, ss)
  | S n' =>
    match zs, ss with
    | k :: zs', f :: ss' =>
      match parse_steps (Z.to_nat k) zs' ss' with
      | Some (st, zs'', ss'') =>
        match parse_rewrites n' zs'' ss'' with
        | Some (r, zs3, ss3) => Some ((f, st) :: r, zs3, ss3)
        | None => None
        end
      | None => None
      end
    | _, _ => None
    end
  end.

Fixpoint parse_records (n nrec : nat) (zs : list Z) (ss : list bytes) : option (list record) :=
  match n with
  | O => Some []
  | S n' =>
    match zs with
    | u :: ns :: ue :: zs' =>
      if (length ss <? nrec)%nat then None else
      match parse_records n' nrec zs' (skipn nrec ss) with
      | Some r => Some ({| r_fields := firstn nrec ss; r_unix := u; r_nsec := ns;
                           r_unescaped := negb (ue =? 0)%Z |} :: r)
      | None => None
      end
    | _ => None
    end
  end.

Fixpoint no_dup_names (l : list bytes) : bool :=
  match l with
  | [] => true
  | x :: l' => negb (has_name l' x) && no_dup_names l'
  end.

(* digest of a long stream: sum of the bytes and sum of the running sums (position dependent); plain additions
   only, cheap on binary numbers *)
Fixpoint sums (s : bytes) (a b : N) : N * N :=
  match s with
  | [] => (a, b)
  | x :: s' => let a' := a + x in sums s' a' (b + a')
  end.

Definition last_n (n : nat) (s : bytes) : bytes := skipn (length s - n) s.

Definition s_full : bytes := [102;117;108;108].
Definition s_big : bytes := [98;105;103;44]. (* "big," *)

Definition canon_stream (o : outcome bytes) : bytes :=
  match o with
  | Ok [] => s_full
  | Ok s =>
    if (length s <=? 400)%nat then str_ok ++ colon :: hex s
    else let (a, b) := sums s 0 0 in
         str_ok ++ colon :: s_big ++ dec_of_N (N.of_nat (length s)) ++ comma :: dec_of_N a ++ comma :: dec_of_N b
                ++ comma :: hex (firstn 48 s) ++ comma :: hex (last_n 48 s)
  | Err _ => str_err
  | Panic _ => str_panic
  end.

Definition s_badcase : bytes := bad_case_output.
Definition s_badschema : bytes := [98;97;100;115;99;104;101;109;97].
Definition s_reject : bytes := [114;101;106;101;99;116].
Definition s_newerr : bytes := [110;101;119;101;114;114].
Definition s_panic_new : bytes := [112;97;110;105;99;45;110;101;119].

Definition run_case_serializer (c : case) : bytes :=
  let zs := c_zargs c in
  let ss := c_sargs c in
  if (length zs <? 9)%nat then s_badcase else
  let m := zarg c 0 in
  let nschema := Z.to_nat (zarg c 1) in
  let nrec := Z.to_nat (zarg c 2) in
  let nenv := Z.to_nat (zarg c 3) in
  let nhidden := Z.to_nat (zarg c 4) in
  let nrw := Z.to_nat (zarg c 5) in
  let nout := Z.to_nat (zarg c 6) in
  let nrecords := Z.to_nat (zarg c 8) in
  if (length ss <? nschema + nenv + nhidden)%nat then s_badcase else
  let schema := firstn nschema ss in
  let ss1 := skipn nschema ss in
  let env := firstn nenv ss1 in
  let ss2 := skipn nenv ss1 in
  let hidden := firstn nhidden ss2 in
  let ss3 := skipn nhidden ss2 in
  match parse_rewrites nrw (skipn 9 zs) ss3 with
  | None => s_badcase
  | Some (rws, zs', ss4) =>
    match parse_records nrecords nrec zs' ss4 with
    | None => s_badcase
    | Some recs =>
      if (m <? 1)%Z || (nrec <? nschema)%nat || (nout <? 1)%nat then s_badcase else
      if negb (forallb (fun n => negb (is_nil n)) schema && no_dup_names schema) then s_badschema else
      let cfg := {| c_env := env; c_hidden := hidden; c_rewrite := rws |} in
      if negb (zarg c 7 =? 0)%Z || verify_config schema cfg then
        match new_serializer schema cfg (2 * Z.to_nat m) with
        | Err _ => s_newerr
        | Panic _ => s_panic_new
        | Ok ser =>
          join 47 (map (fun rec => join 59 (repeat (canon_stream (serialize_record ser rec)) nout)) recs)
        end
      else s_reject
    end
  end.
