(* C15: util/stringtemplate/stringtemplate.go — NewExpander (the partRegex tokenizer and the
   variableExpressionRegex), createVariableExpressionSolver (python-like slices), Run /
   RunWithBuffer.  Variables are resolved against a schema (list of field names) as
   base.LogSchema.CreateTemplateVariableResolver does.  No proofs in this file. *)
From SV Require Import Model.Common Model.TfUnescape.
Open Scope N_scope.

(* \w of Go's regexp (ASCII only) *)
Definition is_word (c : N) : bool :=
  ((48 <=? c) && (c <=? 57)) || ((65 <=? c) && (c <=? 90)) || ((97 <=? c) && (c <=? 122)) || (c =? 95).

Fixpoint span (p : N -> bool) (s : bytes) : bytes * bytes :=
  match s with
  | c :: t => if p c then let (a, b) := span p t in (c :: a, b) else ([], s)
  | [] => ([], [])
  end.

Definition not_dollar (c : N) : bool := negb (c =? 36).

Inductive rawpart :=
| RLit (s : bytes)          (* [^$]+ *)
| RVar (name : bytes)       (* \$\w+ *)
| RBraced (inner : bytes).  (* \$\{\w+[^}]*\} ; inner = the text between "${" and "}" *)

(* partRegex.FindAllString(template, -1), leftmost-first:
     (\$\w+|\$\{\w+[^}]*\}|[^$]+)
   A '$' at which no alternative matches is skipped by the regexp search; the flag records
   that (NewExpander then finds extractedLen != len(template)).  None = out of fuel. *)
Fixpoint tokenize (fuel : nat) (s : bytes) : option (list rawpart * bool) :=
  match fuel with
  | O => None
  | S f =>
    match s with
    | [] => Some ([], false)
    | c0 :: t =>
      if c0 =? 36 then
        let skip := match tokenize f t with Some (ps, _) => Some (ps, true) | None => None end in
        match t with
        | c :: t' =>
          if is_word c then
            let (w, r) := span is_word t in
            match tokenize f r with Some (ps, sk) => Some (RVar w :: ps, sk) | None => None end
          else if c =? 123 then
            match t' with
            | d :: _ =>
              if is_word d then
                match index_byte t' 125 with
                | Some n =>
                  match tokenize f (skipn (S n) t') with
                  | Some (ps, sk) => Some (RBraced (firstn n t') :: ps, sk)
                  | None => None
                  end
                | None => skip
                end
              else skip
            | [] => skip
            end
          else skip
        | [] => skip
        end
      else
        let (l, r) := span not_dollar s in
        match tokenize f r with Some (ps, sk) => Some (RLit l :: ps, sk) | None => None end
    end
  end.

(* (-?[0-9]+)? : the optional signed number at the head of s *)
Definition parse_optint (s : bytes) : option bytes * bytes :=
  match s with
  | 45 :: t =>
    let (d, r) := span is_digit t in
    match d with [] => (None, s) | _ => (Some (45 :: d), r) end
  | _ =>
    let (d, r) := span is_digit s in
    match d with [] => (None, s) | _ => (Some d, r) end
  end.

(* variableExpressionRegex: ^(?P<name>\w+)(\[(?P<start>-?[0-9]+)?:(?P<end>-?[0-9]+)?\])?$
   result: name, start text, end text ("" when the group did not take part) *)
Definition parse_varexpr (inner : bytes) : option (bytes * bytes * bytes) :=
  let (name, r) := span is_word inner in
  match name with
  | [] => None
  | _ =>
    match r with
    | [] => Some (name, [], [])
    | 91 :: r1 =>
      let (a, r2) := parse_optint r1 in
      match r2 with
      | 58 :: r3 =>
        let (b, r4) := parse_optint r3 in
        match r4 with
        | [93] => Some (name, match a with Some x => x | None => [] end,
                              match b with Some x => x | None => [] end)
        | _ => None
        end
      | _ => None
      end
    | _ => None
    end
  end.

(* strconv.Atoi on a string matching -?[0-9]+ : error iff outside int64 *)
Definition min_int64 : Z := (-9223372036854775808)%Z.
Definition max_int64 : Z := 9223372036854775807%Z.
Definition max_int32 : Z := 2147483647%Z.

Definition atoi (s : bytes) : option Z :=
  match Z_of_dec s with
  | Some z => if ((min_int64 <=? z) && (z <=? max_int64))%Z then Some z else None
  | None => None
  end.

Inductive part :=
| PLit (s : bytes)
| PVar (loc : nat)
| PSlice (loc : nat) (pstart pend : Z).

Fixpoint find_index (names : list bytes) (name : bytes) : option nat :=
  match names with
  | [] => None
  | n :: t => if bytes_eqb n name then Some O else option_map S (find_index t name)
  end.

Definition has_double_dollar (s : bytes) : bool :=
  (fix go (s : bytes) : bool :=
     match s with
     | 36 :: ((36 :: _) as t) => true
     | _ :: t => go t
     | [] => false
     end) s.

(* errors of NewExpander *)
Definition e_tpl_dollar : N := 1.       (* "$$" *)
Definition e_tpl_varexpr : N := 2.      (* unrecognized variable expression *)
Definition e_tpl_unknown : N := 3.      (* variable not in the schema *)
Definition e_tpl_unenclosed : N := 4.   (* extractedLen != len(template) *)
Definition e_tpl_atoi : N := 5.         (* strconv.Atoi error in createVariableExpressionSolver: bound out of range *)
Definition p_fuel : N := 99.

Definition compile_part (schema : list bytes) (p : rawpart) : outcome part :=
  match p with
  | RLit s => Ok (PLit s)
  | RVar name =>
    match find_index schema name with
    | Some loc => Ok (PVar loc)
    | None => Err e_tpl_unknown
    end
  | RBraced inner =>
    match parse_varexpr inner with
    | None => Err e_tpl_varexpr
    | Some (name, a, b) =>
      match find_index schema name with
      | None => Err e_tpl_unknown
      | Some loc =>
        (* createVariableExpressionSolver: paramStart := 0, paramEnd := math.MaxInt32 *)
        match (match a with [] => Some 0%Z | _ => atoi a end) with
        | None => Err e_tpl_atoi
        | Some ps =>
          match (match b with [] => Some max_int32 | _ => atoi b end) with
          | None => Err e_tpl_atoi
          | Some pe => Ok (PSlice loc ps pe)
          end
        end
      end
    end
  end.

Fixpoint compile_parts (schema : list bytes) (ps : list rawpart) : outcome (list part) :=
  match ps with
  | [] => Ok []
  | p :: ps' =>
    match compile_part schema p with
    | Ok x =>
      match compile_parts schema ps' with
      | Ok xs => Ok (x :: xs)
      | Err e => Err e
      | Panic s => Panic s
      end
    | Err e => Err e
    | Panic s => Panic s
    end
  end.

(* NewExpander *)
Definition new_expander (schema : list bytes) (template : bytes) : outcome (list part) :=
  if has_double_dollar template then Err e_tpl_dollar else
  match tokenize (S (length template)) template with
  | None => Panic p_fuel
  | Some (raw, skipped) =>
    match compile_parts schema raw with
    | Ok ps => if skipped then Err e_tpl_unenclosed else Ok ps
    | Err e => Err e
    | Panic s => Panic s
    end
  end.

(* v[start:end] of Go; a violated bound is a panic *)
Definition go_slice (v : bytes) (a b : Z) : outcome bytes :=
  if ((0 <=? a) && (a <=? b) && (b <=? Z.of_nat (length v)))%Z
  then Ok (firstn (Z.to_nat (b - a)) (skipn (Z.to_nat a) v))
  else Panic 61.

(* the closure returned by createVariableExpressionSolver *)
Definition solve_slice (v : bytes) (pstart pend : Z) : outcome bytes :=
  let len := Z.of_nat (length v) in
  let start := if (pstart <? 0)%Z then (pstart + len)%Z else pstart in
  let start := if (start <? 0)%Z then 0%Z else start in
  if (start >=? len)%Z then Ok [] else
  let e := if (pend <? 0)%Z then (pend + len)%Z else pend in
  if (e <? 0)%Z then Ok [] else
  let e := if (e >? len)%Z then len else e in
  if (start <? e)%Z then go_slice v start e else Ok [].

Definition get_field (fields : list bytes) (loc : nat) : bytes := nth loc fields [].

Definition part_value (fields : list bytes) (p : part) : outcome bytes :=
  match p with
  | PLit s => Ok s
  | PVar loc => Ok (get_field fields loc)
  | PSlice loc a b => solve_slice (get_field fields loc) a b
  end.

Fixpoint expand_all (fields : list bytes) (ps : list part) : outcome bytes :=
  match ps with
  | [] => Ok []
  | p :: ps' =>
    match part_value fields p with
    | Ok v =>
      match expand_all fields ps' with
      | Ok r => Ok (v ++ r)
      | Err e => Err e
      | Panic s => Panic s
      end
    | Err e => Err e
    | Panic s => Panic s
    end
  end.

(* Expander.RunWithBuffer: a single provider is returned as is (no copy), otherwise the
   parts are appended to the buffer and copied out; the value is the same *)
Definition expand (fields : list bytes) (ps : list part) : outcome bytes :=
  match ps with
  | [p] => part_value fields p
  | _ => expand_all fields ps
  end.
