(* C07 - no input can crash or wedge the agent: the COMPOSITION of the component models.

     bytes of one record
       -> syslogparser.Parse                                   Model/Parser.v          (C09)
       -> field locators (record.Fields[loc] = value)          here: [place]
       -> sysloginput.compositeParser: extraction transforms   Model/Transforms.v      (C15) + x-nodes below
       -> byKeySetOrchestratorSink.Accept: key extraction, LocalCachedMap.GetOrCreate, newPipeline
                                                               Model/Routing.v         (C06)
       -> LogProcessingWorker.onInput: SelectMetricKeySet (Prometheus label rule = oracle [label_ok]),
          RunTransforms (incl. parseTime = Model/ParseTime.v (C13), redactEmail = Model/Redact.v (C14)),
          per output SerializeRecord                           Model/Serializer.v      (C10) + PipelineSerializer.v
                     WriteStream                               Model/Packer.v          (C11)
     connection level: byte stream -> multiLineReader + runConnection   Model/Framing.v (C08) -> the above per record

   Nothing of the components is re-modelled: their functions are called.  New here: the glue (locators with Go's
   index check, the two transform kinds C15 leaves out, key extraction, metric key set selection with the label
   oracle, pipeline construction, the output loop), every Go panic site of the glue explicit, and two switches
   [c_fix_labels] / [c_fix_ser] that select the code before / after the two repairs made for this property.
   No proofs in this file.  Correspondence entry point [run_case_C07] at the end. *)
From SV Require Import Model.Common.
From SV Require Model.Utf8 Model.Parser Model.ParseTime Model.Redact Model.Template Model.Extractor Model.Transforms
               Model.Routing Model.Serializer Model.PipelineSerializer Model.Packer Model.Framing.


Definition pbind {A B} (o : outcome A) (f : A -> outcome B) : outcome B :=
  match o with
  | Ok a => f a
  | Err e => Err e
  | Panic s => Panic s
  end.
Notation "x <~ e ;; f" := (pbind e (fun x => f)) (at level 61, e at next level, right associativity).
Notation "' p <~ e ;; f" := (pbind e (fun x => match x with p => f end))
  (at level 61, p pattern, e at next level, right associativity).

(* ---------- panic sites of the glue ---------- *)
Definition site_field : N := 701.           (* fields[loc]: index out of range (LogFieldLocator.Get / Set) *)
Definition site_label : N := 702.           (* promext LazyRWCounterVec.WithLabelValues: "label value ... is not valid UTF-8" *)
Definition site_pipe : N := 703.            (* lists of the model out of step (no Go counterpart; excluded by the theorems) *)
Definition site_new_serializer : N := 704.  (* MustNewEventSerializer: logger.Panic on a constructor error *)

(* ================================================================================================ *)
(* 1. from the parser's result to record.Fields                                                     *)

(* the locators the syslog parser creates in NewParser *)
Record field_locs := {
  l_facility : nat; l_level : nat; l_time : nat; l_host : nat; l_app : nat; l_pid : nat;
  l_source : nat; l_extradata : nat; l_log : nat }.

(* loc.Set(fields, v): fields[loc] = v *)
Definition set_checked (fields : list bytes) (loc : nat) (v : bytes) : outcome (list bytes) :=
  if (loc <? length fields)%nat then Ok (Transforms.set_nth fields loc v) else Panic site_field.

(* loc.Get(fields): fields[loc] *)
Definition get_checked (fields : list bytes) (loc : nat) : outcome bytes :=
  match nth_error fields loc with
  | Some v => Ok v
  | None => Panic site_field
  end.

(* Parse: facility, level, the six header tokens, then the message; a new record has maxFields empty fields *)
Definition place (nfields : nat) (l : field_locs) (r : Parser.record) : outcome (list bytes) :=
  f <~ set_checked (repeat [] nfields) (l_facility l) (Parser.f_facility r) ;;
  f <~ set_checked f (l_level l) (Parser.f_level r) ;;
  f <~ set_checked f (l_time l) (Parser.f_time r) ;;
  f <~ set_checked f (l_host l) (Parser.f_host r) ;;
  f <~ set_checked f (l_app l) (Parser.f_app r) ;;
  f <~ set_checked f (l_pid l) (Parser.f_pid r) ;;
  f <~ set_checked f (l_source l) (Parser.f_source r) ;;
  f <~ set_checked f (l_extradata l) (Parser.f_extradata r) ;;
  set_checked f (l_log l) (Parser.f_log r).

(* ================================================================================================ *)
(* 2. transforms: C15's interpreter extended by the two node kinds it leaves out                     *)

(* A program is a tree whose leaves are C15 transforms ([XBase t] runs [Transforms.run_tf t], whatever t is - also a whole
   C15 sub-program) or one of the two transforms with models of their own, parseTime (C13) and redactEmail (C14);
   the inner nodes if / switch / block repeat C15's control flow so that the new leaves can sit anywhere. *)
Inductive xtf :=
| XBase (t : Transforms.tf)
| XIf (m : Transforms.matcher) (th : xtfs)
| XSwitch (cs : xcases)
| XBlock (b : xtfs)
| XParseTime (loc : nat) (label : bytes)      (* key, errorLabel *)
| XRedact (loc : nat) (label : bytes)         (* key, metricLabel *)
with xtfs := XNil | XCons (t : xtf) (ts : xtfs)
with xcases := XKNil | XKCons (m : Transforms.matcher) (th : xtfs) (ks : xcases).

(* the record as the transforms see it: C15's record and record.Timestamp as (unix seconds, nanoseconds) *)
Definition prec := (Transforms.rec * (Z * Z))%type.

Section Run.
Variable O : Transforms.oracles.       (* Go's regexp and glob: trusted libraries *)
Variable local_off : Z.       (* offset of time.Local *)

(* parseTimeTransform.Transform *)
Definition run_parse_time (loc : nat) (label : bytes) (cs : Transforms.counters) (p : prec) : outcome (Transforms.counters * prec) :=
  let (r, ts) := p in
  v <~ get_checked (Transforms.r_fields r) loc ;;
  match ParseTime.transform_parse_time local_off v with
  | ParseTime.TpSkip => Ok (cs, p)
  | ParseTime.TpSet u n => Ok (cs, (r, (u, n)))
  | ParseTime.TpError => Ok (Transforms.cnt_add cs label 1 (Transforms.r_rawlen r), p)
  | ParseTime.TpPanic s => Panic s
  end.

(* redactEmailTransform.Transform *)
Definition run_redact (loc : nat) (label : bytes) (cs : Transforms.counters) (p : prec) : outcome (Transforms.counters * prec) :=
  let (r, ts) := p in
  v <~ get_checked (Transforms.r_fields r) loc ;;
  tr <~ Redact.transform_redact v ;;
  if Redact.tr_counted tr
  then Ok (Transforms.cnt_add cs label 1 (Transforms.r_rawlen r), (Transforms.set_field r loc (Redact.tr_value tr), ts))
  else Ok (cs, p).

(* RunTransforms: first DROP wins; result (program with its new state, counters, record, PASS?) *)
Fixpoint run_xtf (t : xtf) (cs : Transforms.counters) (p : prec) {struct t} : outcome (xtf * Transforms.counters * prec * bool) :=
  match t with
  | XBase b =>
    '(b', cs', r', pass) <~ Transforms.run_tf O b cs (fst p) ;; Ok (XBase b', cs', (r', snd p), pass)
  | XIf m th =>
    if Transforms.matches O m (Transforms.r_fields (fst p)) then
      '(th', cs', p', pass) <~ run_xtfs th cs p ;; Ok (XIf m th', cs', p', pass)
    else Ok (t, cs, p, true)
  | XSwitch ks =>
    '(ks', cs', p', pass) <~ run_xcases ks cs p ;; Ok (XSwitch ks', cs', p', pass)
  | XBlock b =>
    '(b', cs', p', pass) <~ run_xtfs b cs p ;; Ok (XBlock b', cs', p', pass)
  | XParseTime loc label =>
    '(cs', p') <~ run_parse_time loc label cs p ;; Ok (t, cs', p', true)
  | XRedact loc label =>
    '(cs', p') <~ run_redact loc label cs p ;; Ok (t, cs', p', true)
  end
with run_xtfs (ts : xtfs) (cs : Transforms.counters) (p : prec) {struct ts} : outcome (xtfs * Transforms.counters * prec * bool) :=
  match ts with
  | XNil => Ok (XNil, cs, p, true)
  | XCons t ts' =>
    '(t', cs', p', pass) <~ run_xtf t cs p ;;
    if pass then
      '(ts'', cs'', p'', pass') <~ run_xtfs ts' cs' p' ;; Ok (XCons t' ts'', cs'', p'', pass')
    else Ok (XCons t' ts', cs', p', false)
  end
with run_xcases (ks : xcases) (cs : Transforms.counters) (p : prec) {struct ks} : outcome (xcases * Transforms.counters * prec * bool) :=
  match ks with
  | XKNil => Ok (XKNil, cs, p, true)
  | XKCons m th ks' =>
    if Transforms.matches O m (Transforms.r_fields (fst p)) then
      '(th', cs', p', pass) <~ run_xtfs th cs p ;; Ok (XKCons m th' ks', cs', p', pass)
    else
      '(ks'', cs', p', pass) <~ run_xcases ks' cs p ;; Ok (XKCons m th ks'', cs', p', pass)
  end.

End Run.

(* does the program register a custom counter (RegisterCustomCounter: drop labels, errorLabel, metricLabel)? *)
Fixpoint xtf_registers (t : xtf) : bool :=
  match t with
  | XBase b => negb (Serializer.is_nil (Transforms.reg_tf b []))
  | XIf _ th => xtfs_registers th
  | XSwitch ks => xcases_registers ks
  | XBlock b => xtfs_registers b
  | XParseTime _ _ => true
  | XRedact _ _ => true
  end
with xtfs_registers (ts : xtfs) : bool :=
  match ts with XNil => false | XCons t ts' => xtf_registers t || xtfs_registers ts' end
with xcases_registers (ks : xcases) : bool :=
  match ks with XKNil => false | XKCons _ th ks' => xtfs_registers th || xcases_registers ks' end.

(* ================================================================================================ *)
(* 3. configuration and state                                                                       *)

(* an output: fluentdForward with its serialization section, or datadog (hidden fields; "ddtags" defaults to the tag) *)
Inductive out_kind :=
| OFluentd (sc : Serializer.ser_config)
| ODatadog (hidden : list bytes).

Record out_cfg := {
  oc_kind : out_kind;
  oc_pack : Packer.config         (* message mode, chunk limits (the tag is the pipeline's) *)
}.

Record config := {
  c_parser : Parser.config;           (* InputLogMaxMessageBytes, InputLogMaxRecordBytes, levelMapping *)
  c_nfields : nat;                (* schema.maxFields = len(record.Fields) *)
  c_schema : list bytes;          (* schema.fields *)
  c_locs : field_locs;
  c_extract : xtfs;               (* inputs[0].extractions as constructed for a connection *)
  c_okeys : list nat;             (* orchestration.keys as locators *)
  c_tag : list Routing.tpart;           (* orchestration.tag compiled by NewTagBuilder *)
  c_mkeys : list nat;             (* metricKeys as locators *)
  c_transforms : xtfs;            (* transformations as constructed for a pipeline *)
  c_outputs : list out_cfg;       (* outputBufferPairs *)
  c_buflen : nat;                 (* 2*defs.InputLogMaxRecordBytes when a serializer is created *)
  c_linebuf : nat;                (* defs.ListenerLineBufferSize *)
  c_local_off : Z;
  c_json : list (bytes * bytes) -> bytes;   (* encoding/json.Marshal of a map[string]string (datadog output): an oracle *)
  c_fix_labels : bool;            (* true: after "fix: field values used as metric label values are made valid UTF-8" *)
  c_fix_ser : bool                (* true: after "fix: fluentd event serializer uses a one-off buffer ..." *)
}.

(* a constructed serializer: fluentdforward.eventSerializer (C10) or datadog.eventSerializer (field masks, ddtags) *)
Inductive ser_inst :=
| SFluentd (s : Serializer.serializer)
| SDatadog (masks : list bool) (ddtags : bytes).

(* one pipeline = one orchestration key set: what obase.PrepareSequentialPipeline builds *)
Record pinst := {
  pi_keys : list bytes;
  pi_tag : bytes;
  pi_labels : list bytes;         (* label values curried into the pipeline's metric creator *)
  pi_tfs : xtfs;
  pi_custom : Transforms.counters;         (* labelled_records_total / labelled_record_bytes_total, summed over the metric key sets *)
  pi_msets : Routing.mstate;            (* LogProcessCounterSet.keySetPairs *)
  pi_mlabels : list (list bytes); (* the label values handed to the registry for each new metric key set *)
  pi_passed : N;
  pi_dropped : N;
  pi_sers : list ser_inst;
  pi_packs : list (Packer.pstate bytes)
}.

(* the part shared by all connections, and the part owned by one connection *)
Record gstate := { g_route : Routing.gstate; g_pipes : list pinst }.
Record cstate := { cs_input : Parser.counters; cs_extract : xtfs; cs_ecnt : Transforms.counters; cs_local : Routing.amap }.

Definition g_init : gstate := {| g_route := Routing.g_init; g_pipes := [] |}.
Definition new_conn (cfg : config) : cstate :=
  {| cs_input := Parser.counters_zero; cs_extract := c_extract cfg; cs_ecnt := []; cs_local := [] |}.

(* ================================================================================================ *)
(* 4. the Prometheus label rule (oracle) and the two places where field values become label values   *)

(* prometheus/client_golang validateLabelValues: utf8.ValidString *)
Definition label_ok (v : bytes) : bool := Utf8.valid v.

(* base.MetricLabelValues (after the fix): strings.ToValidUTF8(value, ""); before the fix the values themselves *)
Definition metric_label_values (fixed : bool) (values : list bytes) : list bytes :=
  if fixed then map Utf8.to_valid_utf8 values else values.

(* LazyRWCounterVec.WithLabelValues: panics on the error of GetMetricWithLabelValues *)
Definition with_label_values (lvs : list bytes) : outcome unit :=
  if forallb label_ok lvs then Ok tt else Panic site_label.

(* Label values that are only CURRIED (MetricCreator.AddOrGetPrefix ... CurryWith) are not validated when they are
   stored; the pedantic registry reports them at every Gather.  [metrics_ok] = Gather would succeed. *)
Definition pinst_metrics_ok (pi : pinst) : bool :=
  forallb label_ok (pi_labels pi) && forallb (forallb label_ok) (pi_mlabels pi).
Definition metrics_ok (g : gstate) : bool := forallb pinst_metrics_ok (g_pipes g).

(* ================================================================================================ *)
(* 5. orchestration                                                                                 *)

(* FieldSetExtractor.Extract *)
Fixpoint extract_keys (locs : list nat) (fields : list bytes) : outcome (list bytes) :=
  match locs with
  | [] => Ok []
  | l :: locs' => v <~ get_checked fields l ;; r <~ extract_keys locs' fields ;; Ok (v :: r)
  end.

(* NewSerializer of every output: MustNewEventSerializer (fluentd) / datadog.NewEventSerializer *)
Fixpoint new_serializers (cfg : config) (tag : bytes) (outs : list out_cfg) : outcome (list ser_inst) :=
  match outs with
  | [] => Ok []
  | o :: outs' =>
    match oc_kind o with
    | OFluentd sc =>
      match Serializer.new_serializer (c_schema cfg) sc (c_buflen cfg) with
      | Ok s => r <~ new_serializers cfg tag outs' ;; Ok (SFluentd s :: r)
      | _ => Panic site_new_serializer
      end
    | ODatadog hidden =>
      r <~ new_serializers cfg tag outs' ;;
      Ok (SDatadog (map (fun n => Serializer.is_nil n || Serializer.has_name hidden n) (c_schema cfg)) tag :: r)
    end
  end.

(* byKeySetOrchestrator.newPipeline after the tag is built: metric creator with the key values as labels,
   startPipeline = transforms, process counter, serializers, chunk makers *)
Definition new_pinst (cfg : config) (p : Routing.pipeline) : outcome pinst :=
  sers <~ new_serializers cfg (Routing.p_tag p) (c_outputs cfg) ;;
  Ok {| pi_keys := Routing.p_keys p; pi_tag := Routing.p_tag p;
        pi_labels := metric_label_values (c_fix_labels cfg) (Routing.p_keys p);
        pi_tfs := c_transforms cfg; pi_custom := [];
        pi_msets := Routing.m_init; pi_mlabels := [];
        pi_passed := 0; pi_dropped := 0;
        pi_sers := sers;
        pi_packs := map (fun _ => Packer.pstate_init) (c_outputs cfg) |}.

Fixpoint new_pinsts (cfg : config) (ps : list Routing.pipeline) : outcome (list pinst) :=
  match ps with
  | [] => Ok []
  | p :: ps' => x <~ new_pinst cfg p ;; r <~ new_pinsts cfg ps' ;; Ok (x :: r)
  end.

(* LocalCachedMap.GetOrCreate (C06's model) + the construction of the pipelines it created *)
Definition get_or_create (cfg : config) (g : gstate) (c : cstate) (okeys : list bytes)
  : outcome (gstate * cstate * nat) :=
  match Routing.local_get_or_create (c_tag cfg) (g_route g) (cs_local c) okeys with
  | Ok (rg, lm, i) =>
    news <~ new_pinsts cfg (skipn (length (g_pipes g)) (Routing.g_pipes rg)) ;;
    Ok ({| g_route := rg; g_pipes := g_pipes g ++ news |},
        {| cs_input := cs_input c; cs_extract := cs_extract c; cs_ecnt := cs_ecnt c; cs_local := lm |}, i)
  | Err e => Err e
  | Panic s => Panic s
  end.

(* ================================================================================================ *)
(* 6. LogProcessingWorker.onInput for one record                                                    *)

(* SelectMetricKeySet *)
Definition select_metric_key_set (cfg : config) (pi : pinst) (mkeys : list bytes) : outcome pinst :=
  let (m', i) := Routing.metric_select (pi_msets pi) mkeys in
  if (i <? length (Routing.m_sets (pi_msets pi)))%nat then Ok pi          (* found *)
  else
    let lvs := metric_label_values (c_fix_labels cfg) mkeys in
    (* one WithLabelValues per registered custom counter vector *)
    _ <~ (if xtfs_registers (c_transforms cfg) then with_label_values lvs else Ok tt) ;;
    Ok {| pi_keys := pi_keys pi; pi_tag := pi_tag pi; pi_labels := pi_labels pi; pi_tfs := pi_tfs pi;
          pi_custom := pi_custom pi; pi_msets := m'; pi_mlabels := pi_mlabels pi ++ [lvs];
          pi_passed := pi_passed pi; pi_dropped := pi_dropped pi; pi_sers := pi_sers pi; pi_packs := pi_packs pi |}.

Definition with_tag (k : Packer.config) (tag : bytes) : Packer.config :=
  {| Packer.cf_kind := Packer.cf_kind k; Packer.cf_as_array := Packer.cf_as_array k; Packer.cf_compress := Packer.cf_compress k;
     Packer.cf_max_records := Packer.cf_max_records k; Packer.cf_max_bytes := Packer.cf_max_bytes k;
     Packer.cf_suffix := Packer.cf_suffix k; Packer.cf_tag := tag |}.

Definition stream_len (s : bytes) : Z := Z.of_nat (length s).

(* datadog.eventSerializer.SerializeRecord: the non-hidden, non-empty fields (record.Fields[i] with Go's index check),
   "timestamp" in milliseconds, "ddtags" defaulting to the tag; json.Marshal of that map is the oracle [c_json] *)
Fixpoint dd_fields (i : nat) (names : list bytes) (masks : list bool) (fields : list bytes)
  : outcome (list (bytes * bytes)) :=
  match names with
  | [] => Ok []
  | n :: names' =>
    match masks with
    | [] => Panic site_pipe
    | m :: masks' =>
      if m then dd_fields (S i) names' masks' fields
      else
        v <~ get_checked fields i ;;
        r <~ dd_fields (S i) names' masks' fields ;;
        Ok (if Serializer.is_nil v then r else (n, v) :: r)
    end
  end.

Definition b_timestamp : bytes := [116;105;109;101;115;116;97;109;112]%N.
Definition b_ddtags : bytes := [100;100;116;97;103;115]%N.

Definition dd_serialize (cfg : config) (masks : list bool) (ddtags : bytes) (rec : Serializer.record) : outcome bytes :=
  m <~ dd_fields 0 (c_schema cfg) masks (Serializer.r_fields rec) ;;
  let millis := (Serializer.r_unix rec * 1000 + Serializer.r_nsec rec / 1000000)%Z in
  let m1 := m ++ [(b_timestamp, dec_of_Z millis)] in
  let has_tags := existsb (fun kv => bytes_eqb (fst kv) b_ddtags) m in
  let m2 := if negb has_tags && negb (Serializer.is_nil ddtags) then m1 ++ [(b_ddtags, ddtags)] else m1 in
  Ok (c_json cfg m2).

Definition serialize_with (cfg : config) (s : ser_inst) (rec : Serializer.record) : outcome bytes :=
  match s with
  | SFluentd ser => PipelineSerializer.serialize_record_fixed (c_fix_ser cfg) ser rec
  | SDatadog masks ddtags => dd_serialize cfg masks ddtags rec
  end.

(* for i, output := range worker.outputList: SerializeRecord, WriteStream *)
Fixpoint run_outputs (cfg : config) (tag : bytes) (clk : Z) (outs : list out_cfg) (sers : list ser_inst)
         (packs : list (Packer.pstate bytes)) (rec : Serializer.record)
  : outcome (list (Packer.pstate bytes) * list bytes * list (option (Packer.echunk bytes))) :=
  match outs with
  | [] => Ok ([], [], [])
  | o :: outs' =>
    match sers, packs with
    | s :: sers', p :: packs' =>
      stream <~ serialize_with cfg s rec ;;
      let (p', ch) := Packer.write_stream bytes stream_len (with_tag (oc_pack o) tag) clk p stream in
      '(ps, ss, cs) <~ run_outputs cfg tag clk outs' sers' packs' rec ;;
      Ok (p' :: ps, stream :: ss, ch :: cs)
    | _, _ => Panic site_pipe
    end
  end.

(* what happened to one record *)
Inductive rec_result :=
| RDropParse                                  (* malformed: rejected by the parser, counted as dropped input *)
| RDropExtract                                (* DROP in the extractions: released, counted as dropped input instead of passed *)
| RDropTransform (pipe : nat)                 (* DROP in the pipeline's transforms: counted dropped there *)
| RPassed (pipe : nat) (streams : list bytes) (chunks : list (option (Packer.echunk bytes))).

Definition to_srecord (p : prec) : Serializer.record :=
  {| Serializer.r_fields := Transforms.r_fields (fst p); Serializer.r_unix := fst (snd p); Serializer.r_nsec := snd (snd p);
     Serializer.r_unescaped := Transforms.r_unesc (fst p) |}.

Fixpoint set_pinst (l : list pinst) (i : nat) (x : pinst) : list pinst :=
  match l, i with
  | [], _ => []
  | _ :: r, O => x :: r
  | y :: r, S j => y :: set_pinst r j x
  end.

Section Process.
Variable O : Transforms.oracles.

(* the worker of pipeline [idx] *)
Definition worker_step (cfg : config) (pi : pinst) (idx : nat) (clk : Z) (p : prec) : outcome (pinst * rec_result) :=
  mkeys <~ extract_keys (c_mkeys cfg) (Transforms.r_fields (fst p)) ;;
  pi1 <~ select_metric_key_set cfg pi mkeys ;;
  '(tfs', cnt', p2, pass) <~ run_xtfs O (c_local_off cfg) (pi_tfs pi1) (pi_custom pi1) p ;;
  if pass then
    '(packs', streams, chunks) <~ run_outputs cfg (pi_tag pi1) clk (c_outputs cfg) (pi_sers pi1) (pi_packs pi1) (to_srecord p2) ;;
    Ok ({| pi_keys := pi_keys pi1; pi_tag := pi_tag pi1; pi_labels := pi_labels pi1; pi_tfs := tfs';
           pi_custom := cnt'; pi_msets := pi_msets pi1; pi_mlabels := pi_mlabels pi1;
           pi_passed := pi_passed pi1 + 1; pi_dropped := pi_dropped pi1; pi_sers := pi_sers pi1; pi_packs := packs' |},
        RPassed idx streams chunks)
  else
    Ok ({| pi_keys := pi_keys pi1; pi_tag := pi_tag pi1; pi_labels := pi_labels pi1; pi_tfs := tfs';
           pi_custom := cnt'; pi_msets := pi_msets pi1; pi_mlabels := pi_mlabels pi1;
           pi_passed := pi_passed pi1; pi_dropped := pi_dropped pi1 + 1; pi_sers := pi_sers pi1; pi_packs := pi_packs pi1 |},
        RDropTransform idx).

(* LogInputCounterSet.CountRecordPassToDrop: a record the parser has counted as passed is counted as dropped instead
   (it follows CountRecordPass at once, so the subtraction never goes below zero) *)
Definition pass_to_drop (c : Parser.counters) (rawlen : nat) : Parser.counters :=
  {| Parser.passed_n := Parser.passed_n c - 1; Parser.passed_bytes := Parser.passed_bytes c - N.of_nat rawlen;
     Parser.dropped_n := Parser.dropped_n c + 1; Parser.dropped_bytes := Parser.dropped_bytes c + N.of_nat rawlen;
     Parser.overflow_n := Parser.overflow_n c; Parser.overflow_bytes := Parser.overflow_bytes c |}.

Definition with_input (c : cstate) (cnt : Parser.counters) : cstate :=
  {| cs_input := cnt; cs_extract := cs_extract c; cs_ecnt := cs_ecnt c; cs_local := cs_local c |}.

(* a record the parser has accepted (and counted): everything after syslogParser.Parse.
   [now] = the receiver's timestamp (sess.now), [clk] = the clock reading a new chunk id would get.
   The input counters are only carried along, except that a DROP in the extractions re-counts the record. *)
Definition process_parsed (cfg : config) (g : gstate) (c : cstate) (now : Z * Z) (clk : Z) (r : Parser.record)
  : outcome (gstate * cstate * rec_result) :=
  fields <~ place (c_nfields cfg) (c_locs cfg) r ;;
  let r0 := {| Transforms.r_fields := fields; Transforms.r_rawlen := Z.of_nat (Parser.raw_length r); Transforms.r_unesc := Parser.unescaped r |} in
  (* compositeParser.Parse *)
  '(ex', ecnt', p1, pass) <~ run_xtfs O (c_local_off cfg) (cs_extract c) (cs_ecnt c) (r0, now) ;;
  let c1 := {| cs_input := cs_input c; cs_extract := ex'; cs_ecnt := ecnt'; cs_local := cs_local c |} in
  if negb pass then
    (* DROP in the extractions: CountRecordPassToDrop, Release *)
    Ok (g, {| cs_input := pass_to_drop (cs_input c) (Parser.raw_length r); cs_extract := ex'; cs_ecnt := ecnt';
              cs_local := cs_local c |}, RDropExtract)
  else
  (* byKeySetOrchestratorSink.Accept *)
  okeys <~ extract_keys (c_okeys cfg) (Transforms.r_fields (fst p1)) ;;
  '(g1, c2, idx) <~ get_or_create cfg g c1 okeys ;;
  match nth_error (g_pipes g1) idx with
  | None => Panic site_pipe
  | Some pi =>
    '(pi', res) <~ worker_step cfg pi idx clk p1 ;;
    Ok ({| g_route := g_route g1; g_pipes := set_pinst (g_pipes g1) idx pi' |}, c2, res)
  end.

(* ONE record: the bytes handed to logParsingReceiverSink.Accept, through everything *)
Definition process_record (cfg : config) (g : gstate) (c : cstate) (now : Z * Z) (clk : Z) (input : bytes)
  : outcome (gstate * cstate * rec_result) :=
  match Parser.parse (c_parser cfg) (cs_input c) input with
  | (Panic s, _) => Panic s
  | (Err e, _) => Err e
  | (Ok None, cnt) => Ok (g, with_input c cnt, RDropParse)
  | (Ok (Some r), cnt) => process_parsed cfg g (with_input c cnt) now clk r
  end.

(* a sequence of records of one connection, in arrival order *)
Fixpoint process_records (cfg : config) (g : gstate) (c : cstate) (now : Z * Z) (clk : Z) (inputs : list bytes)
  : outcome (gstate * cstate * list rec_result) :=
  match inputs with
  | [] => Ok (g, c, [])
  | x :: inputs' =>
    '(g1, c1, res) <~ process_record cfg g c now clk x ;;
    '(g2, c2, rs) <~ process_records cfg g1 c1 now clk inputs' ;;
    Ok (g2, c2, res :: rs)
  end.

(* ================================================================================================ *)
(* 7. one TCP connection: what the connection's reader returns (data in any fragmentation, with or without  *)
(*    deadline renewal, timeouts, finally an error / EOF) -> runConnection + multiLineReader -> the records   *)

Definition record_limit (cfg : config) : nat := N.to_nat (Parser.max_rec (c_parser cfg)).

Definition conn_records (cfg : config) (evs : list Framing.event) : outcome (list bytes) :=
  match Framing.run_ops Framing.trs (Framing.conn_ops evs) (Framing.new_mlr (c_linebuf cfg) (record_limit cfg)) [] with
  | Ok (_, records) => Ok records
  | Err e => Err e                     (* OutOfFuel: the read loop would spin on a full buffer *)
  | Panic s => Panic s
  end.

Definition conn_run (cfg : config) (g : gstate) (now : Z * Z) (clk : Z) (evs : list Framing.event)
  : outcome (gstate * cstate * list rec_result) :=
  records <~ conn_records cfg evs ;;
  process_records cfg g (new_conn cfg) now clk records.

(* the agent over its life: one connection after the other on the same shared state (a client that reconnects
   after its bad input, or after an abrupt disconnect, is the next element of the list) *)
Fixpoint agent_run (cfg : config) (g : gstate) (now : Z * Z) (clk : Z) (conns : list (list Framing.event))
  : outcome (gstate * list (list rec_result)) :=
  match conns with
  | [] => Ok (g, [])
  | evs :: conns' =>
    '(g1, _, rs) <~ conn_run cfg g now clk evs ;;
    '(g2, rss) <~ agent_run cfg g1 now clk conns' ;;
    Ok (g2, rs :: rss)
  end.

End Process.
