(* The correspondence entry point of C10.

   kind 0: the serializer (Model/Serializer.v, [run_case_serializer]): configuration + sequence of records.
   kind 1: validation of the SPECIFICATION decoder (Spec/MsgpackSpec.v) against the MessagePack library used on the
           Go side: sargs = [bytes]; output "dec:<rendering of the value>/<hex of the rest>" or "none".
   kind 2: validation of the SPECIFICATION unescaper (Spec/SerializerSpec.v, [unescape_syslog]) and of the model of
           Unescaper.Run against bsupport.NewSyslogUnescaper().Run: sargs = [bytes];
           output "un:<hex of unescape_syslog s>;<hex of the model's Run s | panic | err>".
   kind 3: one long-lived rewriter chain instance over a history of records whose fields are references into a
           recycled buffer (Model/RewriterMem.v, [run_case_rewriter_mem]).
   No proofs in this file. *)
From SV Require Import Model.Common Model.Msgpack Model.Unescape Model.Serializer Model.RewriterMem
     Spec.MsgpackSpec Spec.SerializerSpec.
Open Scope N_scope.

Section Render.
  Variable render : value -> bytes.
  Fixpoint render_list (l : list value) : bytes :=
    match l with
    | [] => []
    | [v] => render v
    | v :: l' => render v ++ 44 :: render_list l'
    end.
  Fixpoint render_pairs (l : list (value * value)) : bytes :=
    match l with
    | [] => []
    | [(k, v)] => render k ++ 58 :: render v
    | (k, v) :: l' => render k ++ 58 :: render v ++ 44 :: render_pairs l'
    end.
End Render.

(* n | t | f | u<dec> | s<hex> | b<hex> | x<type>.<hex> | [a,b] | {k:v,k:v} *)
Fixpoint render (v : value) : bytes :=
  match v with
  | VNil => [110]
  | VBool true => [116]
  | VBool false => [102]
  | VUint n => 117 :: dec_of_N n
  | VStr s => 115 :: hex s
  | VBin s => 98 :: hex s
  | VExt ty d => 120 :: dec_of_N ty ++ 46 :: hex d
  | VArr l => 91 :: render_list render l ++ [93]
  | VMap l => 123 :: render_pairs render l ++ [125]
  end.

Definition s_dec : bytes := [100;101;99;58].    (* "dec:" *)
Definition s_none : bytes := [110;111;110;101]. (* "none" *)
Definition s_un : bytes := [117;110;58].        (* "un:" *)

Definition run_case_decoder (c : case) : bytes :=
  match decode_all (sarg c 0) with
  | Some (v, rest) => s_dec ++ render v ++ 47 :: hex rest
  | None => s_none
  end.

Definition run_case_unescape (c : case) : bytes :=
  s_un ++ hex (unescape_syslog (sarg c 0)) ++ 59 ::
  match unescape_run syslog_unescaper (sarg c 0) with
  | Ok s => hex s
  | Panic _ => str_panic
  | Err _ => str_err
  end.

Definition run_case_C10 (c : case) : bytes :=
  if c_kind c =? 0 then run_case_serializer c
  else if c_kind c =? 1 then run_case_decoder c
  else if c_kind c =? 2 then run_case_unescape c
  else if c_kind c =? 3 then run_case_rewriter_mem c
  else bad_case_output.
