(* C01Case.v — the correspondence entry point of C01: kinds 1, 2 (Model/SystemAccept.v), 3 (Model/SystemConnEnd.v:
   graceful stop with open connections), 4 (Model/SystemQuota.v: histories of repeated spilling). *)
From Coq Require Import List NArith ZArith.
From SV Require Import Model.Common Model.System Model.SystemAccept Model.SystemConnEnd Model.SystemQuota.

Definition run_case_C01 (c : case) : bytes :=
  if N.eqb (c_kind c) 4 then run_spill_case c
  else SystemConnEnd.run_case_C01 c.
