(* C15 (self-contained copy for the transforms): util/stringunescape/unescape.go —
   NewUnescaper, FindFirst, FindFirstUnescaped, Run, RunFromFirst, RunToBuffer — and the two
   unescapers the transforms use (bsupport.NewSyslogUnescaper, textractspecial.patternUnescaper).
   No proofs in this file. *)
From SV Require Import Model.Common.
Open Scope N_scope.

(* escapableCharMap as a function; 0 = "not escapable" exactly as in the Go table *)
Record unescaper := { u_esc : N; u_map : N -> N }.

Definition mk_unescaper (esc : N) (mapping : list (N * N)) : unescaper :=
  {| u_esc := esc;
     u_map := fun c =>
       if c =? esc then esc
       else (fix look (l : list (N * N)) : N :=
               match l with
               | [] => 0
               | (k, v) :: l' => if c =? k then v else look l'
               end) mapping |}.

(* bsupport.NewSyslogUnescaper: \b \f \n \r \t and \\ *)
Definition syslog_unescaper : unescaper :=
  mk_unescaper 92 [(98, 8); (102, 12); (110, 10); (114, 13); (116, 9)].

(* textractspecial.patternUnescaper: \[ \] \* and \\ *)
Definition pattern_unescaper : unescaper :=
  mk_unescaper 92 [(91, 91); (93, 93); (42, 42)].

(* strings.IndexByte *)
Fixpoint index_byte (s : bytes) (c : N) : option nat :=
  match s with
  | [] => None
  | b :: t => if b =? c then Some O else option_map S (index_byte t c)
  end.

(* FindFirstUnescaped: "pos += 2" after an escape byte whatever follows; the escape byte is
   tested before the target.  Panics when the target is not escapable. *)
Fixpoint ffu_loop (u : unescaper) (target : N) (s : bytes) (pos : nat) (skip : bool) : option nat :=
  match s with
  | [] => None
  | c :: t =>
    if skip then ffu_loop u target t (S pos) false
    else if c =? u_esc u then ffu_loop u target t (S pos) true
    else if c =? target then Some pos
    else ffu_loop u target t (S pos) false
  end.

Definition find_first_unescaped (u : unescaper) (s : bytes) (target : N) : outcome (option nat) :=
  if u_map u target =? 0 then Panic 50 else Ok (ffu_loop u target s O false).

(* RunToBuffer, from the first escape byte on.  [rest] = src[si:]; at the head of each
   iteration src[si] is the escape byte.  The loop runs while si < len(src)-1; each round
   handles the escape pair and copies the chunk up to the next escape byte (IndexByte).
   The destination is written strictly left to right, so it is modelled as the list of
   bytes written so far ([out]); that it never exceeds len(src) is a theorem. *)
Fixpoint run_loop (fuel : nat) (u : unescaper) (rest out : bytes) : option bytes :=
  match fuel with
  | O => None
  | S f =>
    match rest with
    | e :: val :: rest' =>
      let out1 := if u_map u val =? 0 then out ++ [u_esc u; val] else out ++ [u_map u val] in
      let n := match index_byte rest' (u_esc u) with Some n => n | None => length rest' end in
      run_loop f u (skipn n rest') (out1 ++ firstn n rest')
    | _ => Some (out ++ rest)
    end
  end.

(* RunFromFirst(src, first); None = fuel exhausted (excluded by a theorem) *)
Definition run_from_first (u : unescaper) (src : bytes) (first : nat) : option bytes :=
  run_loop (S (length src)) u (skipn first src) (firstn first src).

(* Run(src) *)
Definition unescape_run (u : unescaper) (src : bytes) : option bytes :=
  match index_byte src (u_esc u) with
  | None => Some src
  | Some first => run_from_first u src first
  end.
