(* C12, part G: stores that outlive a record.
   util/localcachedmap (GetOrCreate: the orchestrator's map key set -> pipeline) and
   base/logprocesscounterset.go (SelectMetricKeySet: metric key set -> counters) look a record's key fields up
   in a long-lived map and, when the key set is new, keep it.  The code keeps DEEP COPIES
   (util.DeepCopyStrings / DeepCopyStringFromBytes); the extractor's fieldSetBuffer holds the record's own
   strings only until the next call.  The model has both behaviours: [KeepCopy] (the code) and [KeepRef] (what
   would happen if the strings themselves were kept), to show what the copies are needed for.  No proofs here. *)
From SV Require Import Model.Common Model.Memory.
Open Scope nat_scope.

Inductive mem_keep := KeepCopy | KeepRef.

(* what the store holds for one key field *)
Inductive mem_stored :=
| StBytes (b : bytes)                        (* a copy, or a string in garbage-collected memory that nobody overwrites *)
| StBuf (buf : nat) (off len : nat).         (* a string over bytes of pooled buffer [buf]: reads whatever is there NOW *)

Definition mem_stored_read (g : mem_gstate) (s : mem_stored) : bytes :=
  match s with
  | StBytes b => b
  | StBuf buf off len => firstn len (skipn off (b_data (nth buf (g_bufs g) mem_dummy_buf)))
  end.

(* the key fields of the live record in slot h: their current bytes, and the reference a careless store would keep *)
Definition mem_key_fields (g : mem_gstate) (h : nat) (keys : list nat) : option (list (bytes * mem_stored)) :=
  match nth_error (g_slots g) h with
  | Some {| sl_rec := r; sl_state := SLive l |} =>
    match mem_local_of g r l with
    | Some (m, lr) =>
      Some (map (fun k =>
                   let v := mem_get_field lr k in
                   let b := mem_read m v in
                   (b, match v, r_backbuf r with
                       | EStr EOwn off len, Some buf => StBuf buf off len
                       | _, _ => StBytes b
                       end)) keys)
    | None => None
    end
  | _ => None
  end.

Definition mem_store := list (list mem_stored).   (* one entry per known key set, in order of creation *)

Fixpoint mem_keys_eqb (a b : list bytes) : bool :=
  match a, b with
  | [], [] => true
  | x :: a', y :: b' => bytes_eqb x y && mem_keys_eqb a' b'
  | _, _ => false
  end.

Fixpoint mem_store_find (g : mem_gstate) (st : mem_store) (key : list bytes) (i : nat) : option nat :=
  match st with
  | [] => None
  | e :: st' => if mem_keys_eqb (map (mem_stored_read g) e) key then Some i else mem_store_find g st' key (S i)
  end.

(* GetOrCreate / SelectMetricKeySet for the record in slot h: the index of its key set's entry *)
Definition mem_store_route (keep : mem_keep) (g : mem_gstate) (st : mem_store) (h : nat) (keys : list nat)
  : option (mem_store * nat) :=
  match mem_key_fields g h keys with
  | None => None
  | Some kf =>
    let key := map fst kf in
    match mem_store_find g st key 0 with
    | Some i => Some (st, i)
    | None =>
      Some (st ++ [match keep with
                   | KeepCopy => map (fun x => StBytes (fst x)) kf
                   | KeepRef => map snd kf
                   end], length st)
    end
  end.

(* what the stored key sets read as now *)
Definition mem_store_view (g : mem_gstate) (st : mem_store) : list (list bytes) :=
  map (map (mem_stored_read g)) st.
