(* Model of transform/textractspecial/stringextractor.go (after the fixes: the unbounded '*' is
   rejected by newStringExtractor, the range loop counts with an int) and of the pattern
   unescaper of util/stringunescape.  No proofs in this file. *)
From SV Require Import Model.Common Model.ConfigTemplate.
Open Scope nat_scope.

Definition err_pat_unclosed : N := 111.
Definition err_pat_nowildcard : N := 112.
Definition err_pat_parts : N := 113.
Definition err_pat_empty_expr : N := 114.
Definition err_pat_double_hyphen : N := 115.
Definition err_pat_unbounded : N := 116.

Definition ch_backslash : N := 92.
Definition ch_star : N := 42.
Definition ch_caret : N := 94.

(* patternUnescaper: escape char '\', escapable: '[' ']' '*' and '\' itself (each mapped to itself) *)
Definition escapable (c : N) : bool :=
  ((c =? ch_lbracket) || (c =? ch_rbracket) || (c =? ch_star) || (c =? ch_backslash))%N.

(* Unescaper.FindFirstUnescaped *)
Fixpoint find_first_unescaped (s : bytes) (target : N) (pos : nat) : option nat :=
  match s with
  | [] => None
  | c :: r =>
    if (c =? ch_backslash)%N then
      match r with
      | [] => None
      | _ :: r' => find_first_unescaped r' target (pos + 2)
      end
    else if (c =? target)%N then Some pos
    else find_first_unescaped r target (S pos)
  end.

(* Unescaper.Run *)
Fixpoint unescape_run (s : bytes) : bytes :=
  match s with
  | [] => []
  | c :: r =>
    if (c =? ch_backslash)%N then
      match r with
      | [] => [c]
      | v :: r' => if escapable v then v :: unescape_run r' else c :: v :: unescape_run r'
      end
    else c :: unescape_run r
  end.

(* splitPattern: (left boundary, wildcard text, right boundary) *)
Definition split_pattern (p : bytes) : outcome (bytes * bytes * bytes) :=
  match find_first_unescaped p ch_star 0 with
  | Some i => Ok (unescape_run (firstn i p), [ch_star], unescape_run (skipn (S i) p))
  | None =>
    match find_first_unescaped p ch_lbracket 0 with
    | Some bs =>
      match find_first_unescaped (skipn (S bs) p) ch_rbracket 0 with
      | None => Err err_pat_unclosed
      | Some be' =>
        let be := be' + bs + 1 in
        Ok (unescape_run (firstn bs p), firstn (be + 1 - bs) (skipn bs p), unescape_run (skipn (be + 1) p))
      end
    | None => Err err_pat_nowildcard
    end
  end.

(* the table of valid bytes: [negated] and the listed bytes; table[c] = (c listed) xor negated *)
Record ctable := { ct_neg : bool; ct_listed : list N }.

Definition table_get (t : ctable) (c : N) : bool :=
  let listed := existsb (fun x => (x =? c)%N) (ct_listed t) in
  if ct_neg t then negb listed else listed.

(* the bytes lo..hi (none if lo > hi): "for rc := int(lo); rc <= int(hi); rc++" *)
Definition byte_range (lo hi : N) : list N :=
  if (lo <=? hi)%N then map (fun k => (lo + N.of_nat k)%N) (seq 0 (N.to_nat (hi + 1 - lo))) else [].

(* the loop of fillValidCharsByRangeExpression over the unescaped expression.
   [first]: i = 0; [prev]: expr[i-1]; [lo]: expr[i-2] when a range has been started *)
Fixpoint fill_loop (e : bytes) (first : bool) (prev lo : N) (range_started : bool) (acc : list N) : outcome (list N) :=
  match e with
  | [] => Ok acc
  | c :: r =>
    if (c =? ch_minus)%N then
      if range_started then Err err_pat_double_hyphen
      else if negb first && (match r with [] => false | _ => true end)
           then fill_loop r false c prev true acc
           else fill_loop r false c lo false (ch_minus :: acc)
    else
      if range_started then fill_loop r false c lo false (byte_range lo c ++ acc)
      else fill_loop r false c lo false (c :: acc)
  end.

(* fillValidCharsByRangeExpression on "[...]" *)
Definition fill_valid_chars (w : bytes) : outcome ctable :=
  let inner := firstn (length w - 2) (skipn 1 w) in
  let expr := unescape_run inner in
  match expr with
  | [] => Err err_pat_empty_expr
  | c :: r =>
    if (c =? ch_caret)%N
    then let* l := fill_loop r true 0%N 0%N false [] in Ok {| ct_neg := true; ct_listed := l |}
    else let* l := fill_loop expr true 0%N 0%N false [] in Ok {| ct_neg := false; ct_listed := l |}
  end.

Inductive position := FromStart | FromEnd.

Record extractor := {
  ex_pos : position;
  ex_left : bytes;
  ex_right : bytes;
  ex_max : Z;
  ex_table : option ctable   (* None = nil slice: wildcard '*' *)
}.

(* newStringExtractor on the three parts.  [bounded_rule]: the fix that rejects '*' without the far boundary *)
Definition new_string_extractor (bounded_rule : bool) (pos : position) (parts : bytes * bytes * bytes) (maxr : Z) : outcome extractor :=
  let '(lbound, w, rbound) := parts in
  let* table :=
    match w with
    | [] => Err err_pat_parts
    | _ =>
      if bytes_eqb w [ch_star] then Ok None
      else if (Nat.ltb (length w) 2) || negb (nth 0 w 0%N =? ch_lbracket)%N || negb (nth (length w - 1) w 0%N =? ch_rbracket)%N
           then Err err_pat_parts
           else let* t := fill_valid_chars w in Ok (Some t)
    end in
  let unbounded := match table, pos, lbound, rbound with
                   | None, FromStart, _, [] => true
                   | None, FromEnd, [], _ => true
                   | _, _, _, _ => false
                   end in
  if bounded_rule && unbounded then Err err_pat_unbounded
  else Ok {| ex_pos := pos; ex_left := lbound; ex_right := rbound; ex_max := maxr; ex_table := table |}.

(* newStringExtractorSimple *)
Definition new_string_extractor_simple (bounded_rule : bool) (pos : position) (pattern : bytes) (maxr : Z) : outcome extractor :=
  let* parts := split_pattern pattern in new_string_extractor bounded_rule pos parts maxr.

(* ---------- run time ---------- *)

Fixpoint is_prefix (p s : bytes) : bool :=
  match p, s with
  | [], _ => true
  | a :: p', b :: s' => (a =? b)%N && is_prefix p' s'
  | _ :: _, [] => false
  end.

(* strings.Index *)
Fixpoint index_of (s pat : bytes) (pos : nat) : option nat :=
  if is_prefix pat s then Some pos else
  match s with
  | [] => None
  | _ :: s' => index_of s' pat (S pos)
  end.

(* strings.LastIndex *)
Fixpoint last_index_of (s pat : bytes) (pos : nat) : option nat :=
  match s with
  | [] => if is_prefix pat [] then Some pos else None
  | _ :: s' =>
    match last_index_of s' pat (S pos) with
    | Some i => Some i
    | None => if is_prefix pat s then Some pos else None
    end
  end.

Definition has_suffix (s suf : bytes) : bool := is_prefix (rev suf) (rev s).

(* validChars[c]: indexing the nil table panics *)
Definition table_at (t : option ctable) (c : N) : outcome bool :=
  match t with
  | Some tb => Ok (table_get tb c)
  | None => Panic site_nil_table
  end.

(* matchValidCharsFromStart *)
Fixpoint match_from_start (s : bytes) (t : option ctable) (pos : nat) : outcome nat :=
  match s with
  | [] => Ok pos
  | c :: r => let* v := table_at t c in if v then match_from_start r t (S pos) else Ok pos
  end.

(* matchValidCharsFromEnd: the begin of the longest valid suffix *)
Definition match_from_end (s : bytes) (t : option ctable) : outcome nat :=
  let* n := match_from_start (rev s) t 0 in Ok (length s - n).

Definition is_space_or_ctl (c : N) : bool := (c <=? 32)%N.

Fixpoint drop_while (p : N -> bool) (s : bytes) : bytes :=
  match s with
  | c :: r => if p c then drop_while p r else s
  | [] => []
  end.

Definition trim_ctl (s : bytes) : bytes := rev (drop_while is_space_or_ctl (rev (drop_while is_space_or_ctl s))).

(* the search window s[:maxRange] / s[len(s)-maxRange:] *)
Definition window_start (s : bytes) (maxr : Z) : outcome bytes :=
  if (Z.of_nat (length s) >? maxr)%Z then slice_z s 0%Z maxr else Ok s.

(* extractLabelAtStart after the left boundary has been cut: (label, remaining text); failure = ("", text) *)
Definition start_go (text rbound : bytes) (maxr : Z) (t : option ctable) (s : bytes) : outcome (bytes * bytes) :=
  let fail := Ok ([], text) in
  let* fast := match s, t with
               | c :: _, Some tb => Ok (negb (table_get tb c))
               | _, _ => Ok false
               end in
  if fast then fail else
  match rbound with
  | _ :: _ =>
    let* win := window_start s maxr in
    match index_of win rbound 0 with
    | None => fail
    | Some iend =>
      let tag := firstn iend s in
      let* bad := match t with
                  | Some _ => let* n := match_from_start tag t 0 in Ok (negb (Nat.eqb n (length tag)))
                  | None => Ok false
                  end in
      if bad then fail else Ok (trim_ctl tag, skipn (iend + length rbound) s)
    end
  | [] =>
    let* tag_end := match_from_start s t 0 in
    if Nat.eqb tag_end 0 then fail else Ok (trim_ctl (firstn tag_end s), skipn tag_end s)
  end.

Definition extract_at_start (text lbound rbound : bytes) (maxr : Z) (t : option ctable) : outcome (bytes * bytes) :=
  match lbound with
  | _ :: _ => if is_prefix lbound text then start_go text rbound maxr t (skipn (length lbound) text) else Ok ([], text)
  | [] => start_go text rbound maxr t text
  end.

(* extractLabelAtEnd after the right boundary has been cut *)
Definition end_go (text lbound : bytes) (maxr : Z) (t : option ctable) (s : bytes) : outcome (bytes * bytes) :=
  let fail := Ok ([], text) in
  let* fast := match rev s, t with
               | c :: _, Some tb => Ok (negb (table_get tb c))
               | _, _ => Ok false
               end in
  if fast then fail else
  match lbound with
  | _ :: _ =>
    let len := Z.of_nat (length s) in
    let* found :=
      if (len >? maxr)%Z then
        let* win := slice_z s (len - maxr)%Z len in
        Ok (option_map (fun i => i + Z.to_nat (len - maxr)%Z) (last_index_of win lbound 0))
      else Ok (last_index_of s lbound 0) in
    match found with
    | None => fail
    | Some iend =>
      let tag := skipn (iend + length lbound) s in
      let* bad := match t with
                  | Some _ => let* b := match_from_end tag t in Ok (negb (Nat.eqb b 0))
                  | None => Ok false
                  end in
      if bad then fail else Ok (trim_ctl tag, firstn iend s)
    end
  | [] =>
    let* tag_beg := match_from_end s t in
    if Nat.eqb tag_beg (length s) then fail else Ok (trim_ctl (skipn tag_beg s), firstn tag_beg s)
  end.

Definition extract_at_end (text lbound rbound : bytes) (maxr : Z) (t : option ctable) : outcome (bytes * bytes) :=
  match rbound with
  | _ :: _ => if has_suffix text rbound then end_go text lbound maxr t (firstn (length text - length rbound) text) else Ok ([], text)
  | [] => end_go text lbound maxr t text
  end.

Definition extract (ex : extractor) (text : bytes) : outcome (bytes * bytes) :=
  match ex_pos ex with
  | FromStart => extract_at_start text (ex_left ex) (ex_right ex) (ex_max ex) (ex_table ex)
  | FromEnd => extract_at_end text (ex_left ex) (ex_right ex) (ex_max ex) (ex_table ex)
  end.
