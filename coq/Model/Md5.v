(* MD5 (RFC 1321) on byte lists, used by Model/Routing.v to compute the real queue directory names
   in the correspondence run (util.MD5ToHexdigest = hex (crypto/md5)).  The theorems of C06 do not
   depend on this file: there md5 is a Section variable.  Modelled, compared with Go on every
   case that creates a queue directory, not verified against RFC 1321.  No proofs in this file. *)
From SV Require Import Model.Common.
Open Scope N_scope.

Definition w32 (x : N) : N := x mod 4294967296.

(* rotate left the 32-bit word x by c bits, 0 < c < 32 *)
Definition rotl32 (x c : N) : N := w32 (N.lor (N.shiftl x c) (N.shiftr x (32 - c))).

Definition not32 (x : N) : N := N.lxor x 4294967295.

Definition md5_K : list N :=
  [3614090360; 3905402710; 606105819; 3250441966; 4118548399; 1200080426; 2821735955; 4249261313;
   1770035416; 2336552879; 4294925233; 2304563134; 1804603682; 4254626195; 2792965006; 1236535329;
   4129170786; 3225465664; 643717713; 3921069994; 3593408605; 38016083; 3634488961; 3889429448;
   568446438; 3275163606; 4107603335; 1163531501; 2850285829; 4243563512; 1735328473; 2368359562;
   4294588738; 2272392833; 1839030562; 4259657740; 2763975236; 1272893353; 4139469664; 3200236656;
   681279174; 3936430074; 3572445317; 76029189; 3654602809; 3873151461; 530742520; 3299628645;
   4096336452; 1126891415; 2878612391; 4237533241; 1700485571; 2399980690; 4293915773; 2240044497;
   1873313359; 4264355552; 2734768916; 1309151649; 4149444226; 3174756917; 718787259; 3951481745].

Definition md5_S : list N :=
  [7; 12; 17; 22; 7; 12; 17; 22; 7; 12; 17; 22; 7; 12; 17; 22;
   5; 9; 14; 20; 5; 9; 14; 20; 5; 9; 14; 20; 5; 9; 14; 20;
   4; 11; 16; 23; 4; 11; 16; 23; 4; 11; 16; 23; 4; 11; 16; 23;
   6; 10; 15; 21; 6; 10; 15; 21; 6; 10; 15; 21; 6; 10; 15; 21].

Record md5_state := { md_a : N; md_b : N; md_c : N; md_d : N }.

Definition md5_init : md5_state :=
  {| md_a := 1732584193; md_b := 4023233417; md_c := 2562383102; md_d := 271733878 |}.

(* one of the 64 operations; [m] = the sixteen 32-bit words of the block *)
Definition md5_round (m : list N) (st : md5_state) (i : nat) : md5_state :=
  let a := md_a st in let b := md_b st in let c := md_c st in let d := md_d st in
  let iN := N.of_nat i in
  let '(f, g) :=
    if iN <? 16 then (N.lor (N.land b c) (N.land (not32 b) d), iN)
    else if iN <? 32 then (N.lor (N.land d b) (N.land (not32 d) c), (5 * iN + 1) mod 16)
    else if iN <? 48 then (N.lxor (N.lxor b c) d, (3 * iN + 5) mod 16)
    else (N.lxor c (N.lor b (not32 d)), (7 * iN) mod 16) in
  let f' := w32 (f + a + nth i md5_K 0 + nth (N.to_nat g) m 0) in
  {| md_a := d; md_d := c; md_c := b; md_b := w32 (b + rotl32 f' (nth i md5_S 0)) |}.

Definition le32 (b0 b1 b2 b3 : N) : N := b0 + 256 * b1 + 65536 * b2 + 16777216 * b3.

(* the little-endian 32-bit words of a byte list (length a multiple of 4) *)
Fixpoint words_le (s : bytes) : list N :=
  match s with
  | b0 :: b1 :: b2 :: b3 :: r => le32 b0 b1 b2 b3 :: words_le r
  | _ => []
  end.

Definition md5_block (st : md5_state) (block : bytes) : md5_state :=
  let m := words_le block in
  let st' := fold_left (md5_round m) (seq 0 64) st in
  {| md_a := w32 (md_a st + md_a st'); md_b := w32 (md_b st + md_b st');
     md_c := w32 (md_c st + md_c st'); md_d := w32 (md_d st + md_d st') |}.

(* fuel = number of 64-byte blocks *)
Fixpoint md5_blocks (fuel : nat) (st : md5_state) (s : bytes) : md5_state :=
  match fuel with
  | O => st
  | S f => md5_blocks f (md5_block st (firstn 64 s)) (skipn 64 s)
  end.

Definition le_bytes4 (x : N) : bytes := [x mod 256; (x / 256) mod 256; (x / 65536) mod 256; (x / 16777216) mod 256].

Definition le_bytes8 (x : N) : bytes := le_bytes4 (w32 x) ++ le_bytes4 (w32 (x / 4294967296)).

Definition md5_pad (s : bytes) : bytes :=
  let len := N.of_nat (length s) in
  let zeros := (55 + 64 - len mod 64) mod 64 in
  s ++ 128 :: repeat 0 (N.to_nat zeros) ++ le_bytes8 ((8 * len) mod 18446744073709551616).

Definition md5_digest (s : bytes) : bytes :=
  let p := md5_pad s in
  let st := md5_blocks (Nat.div (length p) 64) md5_init p in
  le_bytes4 (md_a st) ++ le_bytes4 (md_b st) ++ le_bytes4 (md_c st) ++ le_bytes4 (md_d st).

(* util.MD5ToHexdigest *)
Definition md5_hex (s : bytes) : bytes := hex (md5_digest s).
