(* Model of the UTF-8 code used by slog-agent:
     unicode/utf8.DecodeRune, utf8.Valid and strings.ToValidUTF8(s, "") of the Go
     standard library (go1.23), and util/utf8.go (findLastEndOfASCII, CleanUTF8)
     with util/strings.go OverwriteNTruncate.
   Everything is structural recursion on the byte list, linear time, no fuel.
   No proofs in this file (see Proofs/Utf8Proofs.v; the specification of
   well-formed UTF-8 the model is compared with is Spec/Utf8Spec.v). *)
From SV Require Import Model.Common.
Open Scope N_scope.

(* utf8.RuneError = U+FFFD, utf8.RuneSelf = 0x80 *)
Definition rune_error : N := 65533.
Definition rune_self : N := 128.

(* The table [first] of unicode/utf8 together with [acceptRanges]: what a first
   byte announces.  FLead sz lo hi: a sequence of sz bytes whose second byte
   must lie in lo..hi (every further byte in 0x80..0xBF). *)
Inductive first_class :=
| FAscii                                  (* as: 0x00-0x7F *)
| FInvalid                                (* xx: 0x80-0xC1, 0xF5-0xFF *)
| FLead (sz : nat) (lo hi : N).

Definition first (b : N) : first_class :=
  if b <? 128 then FAscii
  else if b <? 194 then FInvalid               (* 0x80-0xC1 *)
  else if b <? 224 then FLead 2 128 191        (* s1: 0xC2-0xDF *)
  else if b =? 224 then FLead 3 160 191        (* s2: 0xE0, second byte 0xA0-0xBF *)
  else if b <? 237 then FLead 3 128 191        (* s3: 0xE1-0xEC *)
  else if b =? 237 then FLead 3 128 159        (* s4: 0xED, second byte 0x80-0x9F *)
  else if b <? 240 then FLead 3 128 191        (* s3: 0xEE-0xEF *)
  else if b =? 240 then FLead 4 144 191        (* s5: 0xF0, second byte 0x90-0xBF *)
  else if b <? 244 then FLead 4 128 191        (* s6: 0xF1-0xF3 *)
  else if b =? 244 then FLead 4 128 143        (* s7: 0xF4, second byte 0x80-0x8F *)
  else FInvalid.                               (* 0xF5-0xFF *)

(* locb <= b <= hicb *)
Definition is_cont (b : N) : bool := (128 <=? b) && (b <=? 191).

(* utf8.DecodeRune / DecodeRuneInString: (rune, size).
   (rune_error, 0) for the empty string, (rune_error, 1) for an invalid or
   truncated encoding.  The masks p0&mask2 etc. are written as [mod]. *)
Definition decode_rune (p : bytes) : N * nat :=
  match p with
  | [] => (rune_error, 0%nat)
  | p0 :: t =>
    match first p0 with
    | FAscii => (p0, 1%nat)
    | FInvalid => (rune_error, 1%nat)
    | FLead sz lo hi =>
      match t with
      | [] => (rune_error, 1%nat)                                     (* n < sz *)
      | b1 :: t1 =>
        if (b1 <? lo) || (hi <? b1) then (rune_error, 1%nat)
        else if (sz <=? 2)%nat then ((p0 mod 32) * 64 + b1 mod 64, 2%nat)
        else
          match t1 with
          | [] => (rune_error, 1%nat)                                 (* n < sz *)
          | b2 :: t2 =>
            if negb (is_cont b2) then (rune_error, 1%nat)
            else if (sz <=? 3)%nat then ((p0 mod 16) * 4096 + (b1 mod 64) * 64 + b2 mod 64, 3%nat)
            else
              match t2 with
              | [] => (rune_error, 1%nat)                             (* n < sz *)
              | b3 :: _ =>
                if negb (is_cont b3) then (rune_error, 1%nat)
                else ((p0 mod 8) * 262144 + (b1 mod 64) * 4096 + (b2 mod 64) * 64 + b3 mod 64, 4%nat)
              end
          end
      end
    end
  end.

(* Width of the valid rune at the head of [s]; 0 when [s] is empty or starts
   with a byte that DecodeRune reports as (RuneError, 1) (the test
   "c >= RuneSelf && wid == 1" of strings.ToValidUTF8 / utf8.Valid). *)
Definition rune_width (s : bytes) : nat :=
  match s with
  | [] => 0%nat
  | b :: _ =>
    let w := snd (decode_rune s) in
    if (rune_self <=? b) && (w =? 1)%nat then 0%nat else w
  end.

(* utf8.Valid.  [skip] = number of bytes still belonging to the rune that was
   accepted at an earlier position. *)
Fixpoint valid_aux (s : bytes) (skip : nat) : bool :=
  match s with
  | [] => true
  | _ :: s' =>
    match skip with
    | S k => valid_aux s' k
    | O =>
      match rune_width s with
      | O => false
      | S k => valid_aux s' k
      end
    end
  end.

Definition valid (s : bytes) : bool := valid_aux s 0.

(* strings.ToValidUTF8(s, ""): every byte that is not part of a valid rune is
   removed, everything else is copied.  (The Go function first looks for the
   first invalid byte and returns s itself when there is none; the result is the
   same string.) *)
Fixpoint to_valid_aux (s : bytes) (skip : nat) : bytes :=
  match s with
  | [] => []
  | b :: s' =>
    match skip with
    | S k => b :: to_valid_aux s' k          (* inside an accepted rune: b.WriteString(s[i:i+wid]) *)
    | O =>
      match rune_width s with
      | O => to_valid_aux s' 0               (* wid == 1, c >= RuneSelf: dropped *)
      | S k => b :: to_valid_aux s' k
      end
    end
  end.

Definition to_valid_utf8 (s : bytes) : bytes := to_valid_aux s 0.

(* util.findLastEndOfASCII: for i := n-1; i >= 0; i-- { if s[i] <= 0x7F { return i+1 } }; return 0.
   [r] is the string reversed (its head is s[i]), [n] = i+1. *)
Fixpoint last_ascii_scan (r : bytes) (n : nat) : nat :=
  match r with
  | [] => 0%nat
  | b :: r' => if b <=? 127 then n else last_ascii_scan r' (Nat.pred n)
  end.

Definition find_last_end_of_ascii (s : bytes) : nat :=
  last_ascii_scan (rev_append s []) (length s).

(* util.OverwriteNTruncate(main, start, tail): n := copy(main[start:], tail); return main[:start+n].
   copy transfers min(len(main)-start, len(tail)) bytes.  (start <= len(main) at the only call site.) *)
Definition overwrite_n_truncate (main : bytes) (start : nat) (tail : bytes) : bytes :=
  firstn start main ++ firstn (length main - start) tail.

(* util.CleanUTF8 *)
Definition clean_utf8 (s : bytes) : bytes :=
  match s with
  | [] => s
  | _ =>
    let end_pos := find_last_end_of_ascii s in
    let unclean_tail := skipn end_pos s in
    overwrite_n_truncate s end_pos (to_valid_utf8 unclean_tail)
  end.
