(* Start-up of the hybrid buffer as STEPS (bufferer.go Start / recoverExistingChunks), interleaved with the
   events of Model/Buffer.v.  No proofs in this file.

   Model/Buffer.v treats "newBufferer + Start" as ONE event, ERestart: directory listed, the first Q chunk
   files enqueued, feeder at its receive - all at once.  The real code does it in steps, and other goroutines
   run in between:

       func (buf *bufferer) Start() {
           buf.recoverExistingChunks()      // ScanChunks(); for each chunk: select { case inputChannel <- chunk ... default: break }
           go buf.feeder.Run()              // the feeder goroutine starts running some time later
       }                                    // Start returns: only now the caller hands the bufferer to its input

   This file makes the steps explicit:
     SBegin        newBufferer + the ScanChunks() call at the top of recoverExistingChunks (directory listed, sorted)
     SRecoverOne   one iteration of RECOVERY_LOOP: the next scanned chunk is enqueued (one stat, gauges), or the loop
                   ends ("too many chunk files, skip" / nothing left)
     SReturn       Start() returns to its caller
     SFeederGo     the goroutine created by "go buf.feeder.Run()" begins to run
     SEv e         any event of Model/Buffer.v (Accept, the feeder's steps, the consumers', Destroy, crash ...)

   [start_order] is the order of the code.  RecoverThenReturn = the tree: the recovery loop runs inside Start, Start
   returns afterwards.  ReturnThenRecover = the variant "Start lists the directory, returns, and a background
   goroutine enqueues the recovered chunks and then runs the feeder" (only for the *_variant_refuted theorem).

   Environment contract (gate): the caller uses the bufferer (Accept, RegisterNewConsumer, Destroy, consumer
   callbacks) only after Start() has returned - orchestrate/obase/pipelines.go starts the buffer before it
   launches the input; the feeder's steps need the feeder goroutine to run; a crash or a foreign file operation
   during the start-up steps is not modelled (start-up only reads the directory). *)
From SV Require Import Model.Common Model.FileWrite Model.Buffer.

Inductive start_order := RecoverThenReturn | ReturnThenRecover.

(* where the start-up is *)
Record phase := {
  ph_pending : option (list chunk);   (* Some l: RECOVERY_LOOP still has the scanned chunks l to go; None: loop finished / no start in progress *)
  ph_returned : bool;                 (* Start() has returned to its caller *)
  ph_feeder : bool                    (* the feeder goroutine runs *)
}.

Record sstate := { ss_b : state; ss_ph : phase }.

Definition idle : phase := {| ph_pending := None; ph_returned := true; ph_feeder := true |}.

Inductive sevent :=
| SBegin (Q M : nat) (maxb : Z) (dirok : bool)
| SRecoverOne
| SReturn
| SFeederGo
| SEv (e : event).

Section Start.
Variable matchf : name -> bool.
Variable dirsize : Z.

(* the state of Buffer.v's [restart] with an arbitrary list of enqueued chunks instead of "the first Q scanned" *)
Definition restart_with (rec : list chunk) (Q M : nat) (maxb : Z) (dirok : bool) (s : state) : state :=
  let m0 := if dirok then mets0 else add_ioerr 1 mets0 in
  let m := fold_left (recover_one dirsize (st_dir s)) rec m0 in
  {| st_dir := st_dir s; st_ever := st_ever s; st_gen := st_gen s + 1; st_up := true;
     st_dirok := dirok; st_Q := Q; st_M := M; st_max := maxb;
     st_queue := rec; st_closed := false; st_fpc := FRecv; st_win := []; st_hold := [];
     st_cons := 0; st_met := m;
     st_gh := gset_initbytes (m_pbytes m) (gset_rec (map c_id rec) (ghost0 (st_dir s))) |}.

(* case buf.inputChannel <- chunk:  OnChunkInputRecovered(chunk); queuedChunksPersistent.Inc() *)
Definition recover_push (c : chunk) (b : state) : state :=
  let m := recover_one dirsize (st_dir b) (st_met b) c in
  set_gh (gset_initbytes (m_pbytes m) (gset_rec (g_rec (st_gh b) ++ [c_id c]) (st_gh b)))
         (set_met m (set_queue (st_queue b ++ [c]) b)).

(* who may do what when *)
Definition gate (ph : phase) (e : event) : bool :=
  match e with
  | ERestart _ _ _ _ => false                       (* a start is SBegin ... *)
  | ECrash | ETamper _ _ => match ph_pending ph with None => true | Some _ => false end
  | _ => if is_hidden e then ph_feeder ph else ph_returned ph
  end.

Definition set_pending (v : option (list chunk)) (ph : phase) : phase :=
  {| ph_pending := v; ph_returned := ph_returned ph; ph_feeder := ph_feeder ph |}.

Definition sstep (order : start_order) (ss : sstate) (e : sevent) : option sstate :=
  let b := ss_b ss in
  let ph := ss_ph ss in
  match e with
  | SBegin Q M maxb dirok =>
    if down b && Nat.ltb 0 Q && Nat.ltb 0 M then
      Some {| ss_b := restart_with [] Q M maxb dirok b;
              ss_ph := {| ph_pending := Some (scan matchf dirok (st_dir b)); ph_returned := false; ph_feeder := false |} |}
    else None
  | SRecoverOne =>
    match ph_pending ph with
    | Some [] => Some {| ss_b := b; ss_ph := set_pending None ph |}
    | Some (c :: rest) =>
      if Nat.ltb (length (st_queue b)) (st_Q b)
      then Some {| ss_b := recover_push c b; ss_ph := set_pending (Some rest) ph |}
      else Some {| ss_b := b; ss_ph := set_pending None ph |}      (* "too many chunk files, skip": break *)
    | None => None
    end
  | SReturn =>
    if ph_returned ph then None else
    match order, ph_pending ph with
    | RecoverThenReturn, Some _ => None             (* the loop is inside Start *)
    | _, _ => Some {| ss_b := b; ss_ph := {| ph_pending := ph_pending ph; ph_returned := true; ph_feeder := ph_feeder ph |} |}
    end
  | SFeederGo =>
    if ph_feeder ph then None else
    match ph_pending ph with
    | Some _ => None                                (* feeder.Run() comes after the loop in both orders *)
    | None => Some {| ss_b := b; ss_ph := {| ph_pending := None; ph_returned := ph_returned ph; ph_feeder := true |} |}
    end
  | SEv ev =>
    if gate ph ev then
      match step matchf dirsize b ev with
      | Some b' => Some {| ss_b := b'; ss_ph := ph |}
      | None => None
      end
    else None
  end.

Fixpoint srun (order : start_order) (ss : sstate) (evs : list sevent) : option sstate :=
  match evs with
  | [] => Some ss
  | e :: evs' => match sstep order ss e with Some ss' => srun order ss' evs' | None => None end
  end.

Definition sinit (d : dirT) : sstate := {| ss_b := init d; ss_ph := idle |}.

(* the events of Buffer.v a start-up step stands for: the whole start-up collapses into the one ERestart *)
Definition collapse (e : sevent) : list event :=
  match e with
  | SBegin Q M maxb dirok => [ERestart Q M maxb dirok]
  | SEv ev => [ev]
  | _ => []
  end.

End Start.

(* ---------- correspondence entry point, kind 1: restart on a backlog, input arrives at once ----------
   zargs: dirsize B k Q M mode cons delay fgo gen1 idbase pfx
     B       chunk files in the queue directory at the start (names r<7 digits>.ff, idbase ..)
     k       chunks given to Accept right after Start() returned (names <pfx><7 digits>.ff, numbers idbase+B ..)
     Q M     capacities (Q >= B + k: nothing is dropped for lack of room; the size limit is 2^30)
     mode cons delay gen1   how the harness drives the real code (who calls Accept, when the consumer attaches, how
             many scheduler yields before the first Accept, who wrote the backlog): no influence on the model
     fgo     the interleaving the MODEL runs: the feeder goroutine starts running after fgo of the k Accepts
             (all interleavings give the same consumer-visible order: C03_startup_order_determined)
   The consumer then takes and confirms every chunk; Destroy; OnFinished.
   Output: number of chunks received, hash of their IDs and bytes in the order received, final directory, the
   schedule-independent metrics. *)

Definition pad7 (n : N) : bytes :=
  let d := dec_of_N n in repeat 48%N (7 - length d) ++ d.

Definition fam_id (pfx : N) (i : N) : name := pfx :: pad7 i ++ [46; 102; 102]%N.

Definition fam_data (i : N) : bytes :=
  map (fun j => (97 + (i + 3 * N.of_nat j) mod 26)%N) (seq 0 (N.to_nat (1 + (7 * i + 3) mod 11))).

Definition hash_chunk (h : Z) (c : chunk) : Z :=
  let h1 := fold_left (fun a v => mix a (Z.of_N v)) (c_id c) h in
  let h2 := mix h1 58 in
  fold_left (fun a v => mix a (Z.of_N v)) (match c_data c with Some d => d | None => [] end) h2.

Definition taken_by_consumer (g : ghost) : list chunk :=
  filter_map (fun cb : chunk * bool => if snd cb then Some (fst cb) else None) (g_out g).

Definition show_start (s : state) : bytes :=
  let m := st_met s in
  let tk := taken_by_consumer (st_gh s) in
  str_ok ++ colon ::
  [110; 61] (* n= *) ++ dec_of_Z (Z.of_nat (length tk)) ++ semicolon ::
  [111; 104; 61] (* oh= *) ++ dec_of_Z (fold_left hash_chunk tk 0%Z) ++ semicolon ::
  [100; 105; 114; 61] (* dir= *) ++ join comma (map show_entry (st_dir s)) ++ semicolon ::
  [109; 101; 116; 61] (* met= *) ++
    join comma (map dec_of_Z [m_pbytes m; m_pchunks m; m_ioerr m; m_pending m; (m_in_t m + m_in_p m)%Z;
                              m_consumed m; m_leftover m; m_dropped m; m_q_t m; m_q_p m]) ++ semicolon ::
  [102; 112; 99; 61] (* fpc= *) ++ (if st_up s then show_fpc (st_fpc s) else [120]).

Definition start_maxb : Z := 1073741824.

Definition start_case (dirsize : Z) (B k Q M fgo : nat) (idbase pfx : N) : bytes :=
  let num i := (idbase + N.of_nat i)%N in
  let d0 : dirT := map (fun i => (fam_id 114 (num i), EFile (fam_data (num i)))) (seq 0 B) in
  let acc := map (fun i => EAccept (fam_id pfx (num i)) (fam_data (num i)) ws_ok) (seq B k) in
  let evs := SBegin Q M start_maxb true :: repeat SRecoverOne (S B) ++ [SReturn] ++
             map SEv (firstn fgo acc) ++ [SFeederGo] in
  match srun match_ff dirsize RecoverThenReturn (sinit d0) evs with
  | None => str_reject ++ colon :: [115] (* "reject:s": a start-up step was not enabled *)
  | Some ss =>
    let ops := map ROp (skipn fgo acc) ++ [ROp ERegister] ++
               concat (repeat [ROp EConsTake; ROp (EConsumed 0)] (B + k)) ++
               [RProbe; ROp EDestroy; ROp EConsFinish] in
    match replay match_ff dirsize 0 ops None (ss_b ss) 0 with
    | inl (s, _) => show_start s
    | inr i => str_reject ++ colon :: dec_of_Z (Z.of_nat i)
    end
  end.

Definition start_limit : Z := 20000.

Definition run_case_start (c : case) : bytes :=
  match c_zargs c with
  | [dirsize; B; k; Q; M; mode; consm; delay; fgo; gen1; idbase; pfx] =>
    if ((0 <=? B) && (1 <=? k) && (B + k <=? start_limit) && (B + k <=? Q) && (Q <=? 2 * start_limit) &&
        (1 <=? M) && (M <=? 1000) && (0 <=? fgo) && (fgo <=? k) && (0 <=? idbase) && (idbase + B + k <=? 9999999) &&
        ((pfx =? 97) || (pfx =? 116)) && (0 <=? mode) && (mode <=? 1) && (0 <=? consm) && (consm <=? 2) &&
        (0 <=? delay) && (delay <=? 1000) && (0 <=? gen1) && (gen1 <=? 1))%Z
    then start_case dirsize (Z.to_nat B) (Z.to_nat k) (Z.to_nat Q) (Z.to_nat M) (Z.to_nat fgo) (Z.to_N idbase) (Z.to_N pfx)
    else bad_case_output
  | _ => bad_case_output
  end.

(* kind 0: operation list (Model/Buffer.v); kind 1: restart on a backlog with immediate input *)
Definition run_case_C03 (c : case) : bytes :=
  if (c_kind c =? 1)%N then run_case_start c else Buffer.run_case_C03 c.
