(* Variants of the multiLineReader model (Model/Framing.v) with a byte trimmed at the places where
   a record is handed to the consumer.  The reader has FOUR emission sites:

     processBuffer  - the previous record, when the next record start line is seen
     Flush          - the completed part of the buffer, at a flush tick
     FlushAll       - what is left, when the connection ends
     checkOverflow  - when less than softRecordLimit bytes of room are left

   Which site emits a given record is decided by TCP segmentation and by the flush timing, so the
   property (records independent of both) needs every site to hand over the SAME bytes: the text
   of the record's lines, nothing trimmed.  [trim_sites] says at which sites a variant strips one
   trailing CR ("CRLF tolerance"); [no_trim] is the real code, [seeded_trim] the variant that
   trims in processBuffer and FlushAll only.  Everything else is Model/Framing.v line for line.
   No proofs in this file. *)
From SV Require Import Model.Common Model.Framing.
Open Scope nat_scope.

Definition CR : N := 13%N.

(* trimCR: remove one trailing CR *)
Definition trim_cr (r : bytes) : bytes :=
  match rev r with
  | c :: r' => if N.eqb c CR then rev r' else r
  | [] => r
  end.

Record trim_sites := { ts_pb : bool; ts_flush : bool; ts_flush_all : bool }.

Definition no_trim : trim_sites := {| ts_pb := false; ts_flush := false; ts_flush_all := false |}.
Definition seeded_trim : trim_sites := {| ts_pb := true; ts_flush := false; ts_flush_all := true |}.
Definition all_trim : trim_sites := {| ts_pb := true; ts_flush := true; ts_flush_all := true |}.

Definition emit (on : bool) (r : bytes) : bytes := if on then trim_cr r else r.

Section ReaderV.
Variable test : bytes -> bool.
Variable ts : trim_sites.

Fixpoint pb_loop_v (fuel : nat) (buffer : bytes) (record_start search_start : nat) (out : list bytes)
  : outcome (nat * nat * list bytes) :=
  match fuel with
  | O => OutOfFuel
  | S fuel' =>
    rest <-- oslice 1 buffer search_start (length buffer) ;;
    match index_byte NL rest with
    | None => Ok (record_start, search_start, out)
    | Some next_end_rel =>
      let next_end := next_end_rel + search_start in
      if (0 <? search_start) && (search_start <? next_end) then
        next_line <-- oslice 2 buffer search_start next_end ;;
        if test next_line then
          prev_record <-- oslice 3 buffer record_start (search_start - 1) ;;
          pb_loop_v fuel' buffer search_start (next_end + 1) (out ++ [emit (ts_pb ts) prev_record])
        else pb_loop_v fuel' buffer record_start (next_end + 1) out
      else pb_loop_v fuel' buffer record_start (next_end + 1) out
    end
  end.

Definition process_buffer_v (st : mlr) (buffer : bytes) : outcome (mlr * list bytes) :=
  r <-- pb_loop_v (S (length buffer)) buffer 0 (m_search st) [] ;;
  let '(record_start, search_start, out) := r in
  st' <-- (if 0 <? record_start then
             tail <-- oslice 4 buffer record_start (length buffer) ;;
             Ok (set_buf st tail (search_start - record_start))
           else Ok (set_buf st buffer search_start)) ;;
  r2 <-- check_overflow test st' ;;
  let '(st'', out2) := r2 in
  Ok (st'', out ++ out2).

Definition read_once_v (st : mlr) (frag : bytes) : outcome (mlr * list bytes * bytes) :=
  if m_cap st <? length (m_buf st) then Panic 11 else
  let n := Nat.min (length frag) (m_cap st - length (m_buf st)) in
  if 0 <? n then
    r <-- process_buffer_v st (m_buf st ++ firstn n frag) ;;
    let '(st', out) := r in Ok (st', out, skipn n frag)
  else Ok (st, [], frag).

Fixpoint read_frag_v (fuel : nat) (st : mlr) (frag : bytes) (out : list bytes) : outcome (mlr * list bytes) :=
  match frag with
  | [] => Ok (st, out)
  | _ :: _ =>
    match fuel with
    | O => OutOfFuel
    | S fuel' =>
      r <-- read_once_v st frag ;;
      let '(st', o, rest) := r in
      read_frag_v fuel' st' rest (out ++ o)
    end
  end.

Definition read_v (st : mlr) (frag : bytes) : outcome (mlr * list bytes) :=
  read_frag_v (length frag) st frag [].

(* Flush: the variant would trim the record it emits (after the test, like the other sites) *)
Definition flush_v (st : mlr) : outcome (mlr * list bytes) :=
  let buffer := m_buf st in
  match last_index_byte NL buffer with
  | None => Ok (st, [])
  | Some n =>
    record <-- oslice 7 buffer 0 n ;;
    tail <-- oslice 8 buffer (n + 1) (length buffer) ;;
    Ok (set_buf st tail 0, if (0 <? length record) && test record then [emit (ts_flush ts) record] else [])
  end.

(* FlushAll: record = trimCR(record[:len(record)-1]) where the trailing newline is cut *)
Definition flush_all_v (st : mlr) : outcome (mlr * list bytes) :=
  let record := m_buf st in
  out <-- (if 0 <? length record then
             last <-- oidx 9 record (length record - 1) ;;
             record' <-- (if N.eqb last NL
                          then r0 <-- oslice 10 record 0 (length record - 1) ;; Ok (emit (ts_flush_all ts) r0)
                          else Ok record) ;;
             Ok (if test record' then [record'] else [])
           else Ok []) ;;
  Ok (set_buf st [] 0, out).

Definition run_op_v (st : mlr) (o : op) : outcome (mlr * list bytes) :=
  match o with
  | OpRead frag => read_v st frag
  | OpFlush => flush_v st
  | OpFlushAll => flush_all_v st
  end.

Fixpoint run_ops_v (ops : list op) (st : mlr) (out : list bytes) : outcome (mlr * list bytes) :=
  match ops with
  | [] => Ok (st, out)
  | o :: ops' =>
    r <-- run_op_v st o ;;
    let '(st', o') := r in
    run_ops_v ops' st' (out ++ o')
  end.

End ReaderV.
