(* Model of the queue directory and of util/files.go (WriteFileAt, ReadFileAt, UnlinkFileAt,
   StatFileAt) as used by buffer/hybridbuffer/chunkoperator.go.  No proofs in this file.

   A directory is a finite map  file name -> entry, kept as a list sorted by name
   (Go's sort.Strings order = byte-wise lexicographic), so that a directory scan followed by
   sort.Strings is just the list of names.

   WriteFileAt is modelled as the sequence of system calls of the code in the tree, with a
   script (the environment's choices) deciding the outcome of each call and the point at
   which the process may be killed:

       openat(tmp, O_WRONLY|O_CREAT|O_TRUNC)      kill point 1
       write(fd, data) -> (n, err), n <= len      kill point 2
       close(fd)                                  kill point 3
       renameat(tmp, name)                        kill point 4
       (on any error after the open: unlinkat(tmp))

   ASSUMED file-system behaviour (trusted base, not verified): a write that stops - short
   write, file-size or space limit, process killed - leaves a PREFIX of the data in the file;
   renameat is atomic (the name refers to the complete old state or the complete new file);
   what a killed process had already written stays as it is (no power loss, no torn pages). *)
From SV Require Import Model.Common.

Definition name := bytes.

(* byte-wise lexicographic order: Go string comparison *)
Fixpoint name_ltb (a b : name) : bool :=
  match a, b with
  | [], [] => false
  | [], _ :: _ => true
  | _ :: _, [] => false
  | x :: a', y :: b' => if x <? y then true else if y <? x then false else name_ltb a' b'
  end.

Definition name_eqb (a b : name) : bool := bytes_eqb a b.

Inductive entry :=
| EFile (content : bytes)   (* regular file *)
| EDir.                     (* a sub-directory: cannot be opened for writing, read, or unlinked *)

Definition dirT := list (name * entry).

Fixpoint dir_get (d : dirT) (n : name) : option entry :=
  match d with
  | [] => None
  | (k, v) :: d' => if name_eqb k n then Some v else dir_get d' n
  end.

Fixpoint dir_set (d : dirT) (n : name) (e : entry) : dirT :=
  match d with
  | [] => [(n, e)]
  | (k, v) :: d' =>
    if name_eqb k n then (n, e) :: d'
    else if name_ltb n k then (n, e) :: (k, v) :: d'
    else (k, v) :: dir_set d' n e
  end.

Definition dir_del (d : dirT) (n : name) : dirT :=
  filter (fun kv => negb (name_eqb (fst kv) n)) d.

Definition dir_names (d : dirT) : list name := map fst d.

Definition is_dir (e : option entry) : bool :=
  match e with Some EDir => true | _ => false end.

(* ---------- WriteFileAt ---------- *)

Definition tmp_suffix : bytes := [46; 116; 109; 112]. (* ".tmp" *)
Definition tmp_name (n : name) : name := n ++ tmp_suffix.

(* the environment's choices during one WriteFileAt *)
Record wscript := {
  ws_open_err : bool;    (* openat fails (EACCES, EROFS, ENOSPC for the inode ...) *)
  ws_n : option nat;     (* bytes stored by write(2), capped at len(data); None: all of them *)
  ws_write_err : bool;   (* write(2) returns an error (ENOSPC, EFBIG, EIO) after storing ws_n bytes *)
  ws_close_err : bool;   (* close(2) returns an error *)
  ws_rename_err : bool;  (* renameat fails *)
  ws_kill : nat          (* 0: never; k: the process is killed at kill point k *)
}.

(* no fault: the whole buffer is written *)
Definition ws_ok : wscript :=
  {| ws_open_err := false; ws_n := None; ws_write_err := false; ws_close_err := false;
     ws_rename_err := false; ws_kill := 0 |}.

Definition stored (ws : wscript) (data : bytes) : nat :=
  match ws_n ws with None => length data | Some n => Nat.min n (length data) end.

Inductive wres := WOk | WErr | WDied.

(* util.WriteFileAt as in the tree: temporary name, length check, rename *)
Definition write_file_at (ws : wscript) (d : dirT) (n : name) (data : bytes) : dirT * wres :=
  let t := tmp_name n in
  if ws_open_err ws || is_dir (dir_get d t) then (d, WErr) else
  let d1 := dir_set d t (EFile []) in
  if Nat.eqb (ws_kill ws) 1 then (d1, WDied) else
  let k := stored ws data in
  let written := firstn k data in
  let d2 := dir_set d t (EFile written) in
  if Nat.eqb (ws_kill ws) 2 then (d2, WDied) else
  let werr := ws_write_err ws || Nat.ltb k (length data) || ws_close_err ws in
  if Nat.eqb (ws_kill ws) 3 then (d2, WDied) else
  if werr then (dir_del d2 t, WErr) else
  let rename_fails := ws_rename_err ws || is_dir (dir_get d n) in
  let d3 := if rename_fails then d2 else dir_set (dir_del d2 t) n (EFile written) in
  if Nat.eqb (ws_kill ws) 4 then (d3, WDied) else
  if rename_fails then (dir_del d2 t, WErr) else (d3, WOk).

(* util.WriteFileAt as it was before the two fix: commits (open+truncate the final name,
   one write whose count is ignored, close).  Kept only to state what was wrong
   (Props/C04.v, the *_v0_refuted theorems); the buffer model does not use it. *)
Definition write_file_at_v0 (ws : wscript) (d : dirT) (n : name) (data : bytes) : dirT * wres :=
  if ws_open_err ws || is_dir (dir_get d n) then (d, WErr) else
  let d1 := dir_set d n (EFile []) in
  if Nat.eqb (ws_kill ws) 1 then (d1, WDied) else
  let k := stored ws data in
  let d2 := dir_set d n (EFile (firstn k data)) in
  if Nat.eqb (ws_kill ws) 2 then (d2, WDied) else
  if Nat.eqb (ws_kill ws) 3 then (d2, WDied) else
  if ws_write_err ws then (d2, WErr) else (d2, WOk).

(* ---------- ReadFileAt / UnlinkFileAt / StatFileAt ---------- *)

(* rerr: the environment makes the read fail (EIO ...).  A regular file is read completely
   (ASSUMED: read(2) on a regular file of the size reported by fstat returns all of it). *)
Definition read_file_at (rerr : bool) (d : dirT) (n : name) : option bytes :=
  if rerr then None else
  match dir_get d n with
  | Some (EFile c) => Some c
  | _ => None               (* ENOENT, or EISDIR from read(2) *)
  end.

Definition unlink_file_at (d : dirT) (n : name) : dirT * bool :=
  match dir_get d n with
  | Some (EFile _) => (dir_del d n, true)
  | _ => (d, false)         (* ENOENT, or EISDIR: unlinkat without AT_REMOVEDIR *)
  end.

(* dirsize: st_size of an (empty) sub-directory on the file system in use *)
Definition stat_size (dirsize : Z) (d : dirT) (n : name) : option Z :=
  match dir_get d n with
  | Some (EFile c) => Some (Z.of_nat (length c))
  | Some EDir => Some dirsize
  | None => None
  end.
