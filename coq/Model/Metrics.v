(* Model/Metrics.v — C19: the counter bookkeeping of slog-agent as state machines over abstract events.

   Every machine mirrors WHERE the Go code increments WHAT:

   A. input     base/loginputcounterset.go, base/logcustomcounterhost.go,
                input/syslogparser/syslogparser.go (Parse / onMalformed / onOverflow),
                input/sysloginput/compositeparser.go (extraction transforms)
   B. flow      base/bsupport/logparsingreceiver.go, orchestrate/obykeyset (sink buffer -> per-key
                buffer -> pipeline channel -> worker): records in flight, counted only
   C. worker    base/logprocesscounterset.go (SelectMetricKeySet, RegisterCustomCounter, CountChunk),
                base/bsupport/logprocessingworker.go (onInput)
   D. buffer    buffer/hybridbuffer/chunkmanager.go, chunkoperator.go, bufferer.go (Accept, Destroy,
                recoverExistingChunks), outputfeeder.go (Run, loadToOutput, saveEverything)
   E. client    output/baseoutput/clientmetrics.go, clientworker.go, clientsession.go
   F. system    one pipeline x output: buffer + client wired as orchestrate/obase/pipelines.go does
                (consumer args: OnChunkConsumed / OnChunkLeftover / OnFinished, output channel)

   A step function returns None when the event is not enabled in the state.  No proofs here.
   The last part is the correspondence entry point run_case_C19. *)
From SV Require Import Model.Common.
Local Open Scope Z_scope.

(* ------------------------------------------------------------------------------------------ *)
(* counters: (count, bytes) pairs and label maps                                               *)

Definition cnt := (Z * Z)%type.
Definition cnt0 : cnt := (0, 0).
Definition cnt_add (c : cnt) (len : Z) : cnt := (fst c + 1, snd c + len).

Definition labmap := list (bytes * cnt).

Fixpoint lab_add (m : labmap) (l : bytes) (len : Z) : labmap :=
  match m with
  | [] => [(l, cnt_add cnt0 len)]
  | (k, c) :: m' => if bytes_eqb k l then (k, cnt_add c len) :: m' else (k, c) :: lab_add m' l len
  end.

Fixpoint lab_add_all (m : labmap) (ls : list bytes) (len : Z) : labmap :=
  match ls with
  | [] => m
  | l :: ls' => lab_add_all (lab_add m l len) ls' len
  end.

Fixpoint lab_get (m : labmap) (l : bytes) : cnt :=
  match m with
  | [] => cnt0
  | (k, c) :: m' => if bytes_eqb k l then c else lab_get m' l
  end.

(* LogInputCounterSet: passed / dropped records and bytes *)
Record icount := IC { ic_pn : Z; ic_pb : Z; ic_dn : Z; ic_db : Z }.
Definition ic0 : icount := IC 0 0 0 0.
(* CountRecordPass *)
Definition ic_pass (c : icount) (len : Z) : icount := IC (ic_pn c + 1) (ic_pb c + len) (ic_dn c) (ic_db c).
(* CountRecordDrop *)
Definition ic_drop (c : icount) (len : Z) : icount := IC (ic_pn c) (ic_pb c) (ic_dn c + 1) (ic_db c + len).
(* CountRecordPassToDrop (the repair of the compositeParser "TODO: metrics"): a record the parser has
   just counted as passed is re-counted as dropped *)
Definition ic_pass_to_drop (c : icount) (len : Z) : icount :=
  IC (ic_pn c - 1) (ic_pb c - len) (ic_dn c + 1) (ic_db c + len).

(* ------------------------------------------------------------------------------------------ *)
(* A. input: one LogInputCounterSet fed by syslogParser.Parse + compositeParser.Parse           *)

Definition label_overflow : bytes := [111;118;101;114;102;108;111;119]%N. (* "overflow" *)

Inductive in_event :=
| InMalformed (len : Z)
    (* syslogParser.Parse -> onMalformed: CountRecordDrop *)
| InParsed (len : Z) (overflow : bool) (fired : list bytes) (xdrop : bool).
    (* Parse succeeds (onOverflow counts the label "overflow" when the message is cut), CountRecordPass;
       then compositeParser runs the extraction transforms: [fired] are the custom-counter labels they
       count (each with the raw length), [xdrop] says whether one of them returned DROP *)

Record in_state := INS {
  i_cnt : icount;            (* passed_records_total, passed_record_bytes_total, dropped_... *)
  i_lab : labmap;            (* logCustomCounterHost: labelled_records_total{label} *)
  i_msgs : Z; i_msgs_b : Z;  (* history: messages handed to the parser *)
  i_out : Z; i_out_b : Z     (* history: records returned to the receiver (not nil) *)
}.
Definition in_init : in_state := INS ic0 [] 0 0 0 0.

(* [counted] = the code variant: true = extraction drops are counted (after the fix), false = the
   original compositeParser ("TODO: metrics") *)
Definition in_step (counted : bool) (s : in_state) (e : in_event) : in_state :=
  match e with
  | InMalformed len =>
    INS (ic_drop (i_cnt s) len) (i_lab s) (i_msgs s + 1) (i_msgs_b s + len) (i_out s) (i_out_b s)
  | InParsed len ovf fired xdrop =>
    let lab1 := if ovf then lab_add (i_lab s) label_overflow len else i_lab s in
    let c1 := ic_pass (i_cnt s) len in
    let lab2 := lab_add_all lab1 fired len in
    if xdrop then
      INS (if counted then ic_pass_to_drop c1 len else c1) lab2 (i_msgs s + 1) (i_msgs_b s + len) (i_out s) (i_out_b s)
    else
      INS c1 lab2 (i_msgs s + 1) (i_msgs_b s + len) (i_out s + 1) (i_out_b s + len)
  end.

Definition in_run (counted : bool) (evs : list in_event) : in_state := fold_left (in_step counted) evs in_init.

(* ------------------------------------------------------------------------------------------ *)
(* B. flow: records between the parser and the pipeline workers (counts only).                 *)
(*    logParsingReceiverSink.bufferedLogs -> byKeySetOrchestratorSink per-key PendingLogs ->      *)
(*    pipeline channel -> LogProcessingWorker.onInput                                            *)

Inductive flow_event :=
| FDeliver                   (* Accept: a parsed record appended to bufferedLogs *)
| FSinkSend                  (* sendBuffer: the whole sink buffer appended to the per-key buffers *)
| FCacheFlush (n : Z)        (* channelInputBuffer.Flush of n records: channel send succeeded *)
| FCacheTimeout (n : Z)      (* ... the IntermediateChannelTimeout "BUG" branch: the batch is lost *)
| FWorkerTake (n : Z).       (* worker receives a batch of n records and runs onInput on each *)

Record flow := FL { f_sink : Z; f_cache : Z; f_chan : Z; f_worker : Z; f_lost : Z; f_delivered : Z }.
Definition flow_init : flow := FL 0 0 0 0 0 0.

Definition flow_step (s : flow) (e : flow_event) : option flow :=
  match e with
  | FDeliver => Some (FL (f_sink s + 1) (f_cache s) (f_chan s) (f_worker s) (f_lost s) (f_delivered s + 1))
  | FSinkSend => Some (FL 0 (f_cache s + f_sink s) (f_chan s) (f_worker s) (f_lost s) (f_delivered s))
  | FCacheFlush n =>
    if (0 <=? n) && (n <=? f_cache s) then
      Some (FL (f_sink s) (f_cache s - n) (f_chan s + n) (f_worker s) (f_lost s) (f_delivered s)) else None
  | FCacheTimeout n =>
    if (0 <=? n) && (n <=? f_cache s) then
      Some (FL (f_sink s) (f_cache s - n) (f_chan s) (f_worker s) (f_lost s + n) (f_delivered s)) else None
  | FWorkerTake n =>
    if (0 <=? n) && (n <=? f_chan s) then
      Some (FL (f_sink s) (f_cache s) (f_chan s - n) (f_worker s + n) (f_lost s) (f_delivered s)) else None
  end.

Fixpoint flow_run (s : flow) (evs : list flow_event) : option flow :=
  match evs with
  | [] => Some s
  | e :: evs' => match flow_step s e with Some s' => flow_run s' evs' | None => None end
  end.

Definition flow_quiet (s : flow) : bool := (f_sink s =? 0) && (f_cache s =? 0) && (f_chan s =? 0).

(* ------------------------------------------------------------------------------------------ *)
(* C. worker: LogProcessCounterSet + LogProcessingWorker.onInput                                 *)

(* keySetPairs entry: the label values copied when the entry was created (permKeys), the
   LogInputCounterSet of the key set and its custom counters *)
Record kcount := KC { kc_keys : list bytes; kc_in : icount; kc_lab : labmap }.

(* SelectMetricKeySet: the map key.  Two code variants:
     lp = false   the plain concatenation of the key values (original code)
     lp = true    every value preceded by its length as a uvarint (util.AppendMergedKey, the repair made by the
                  builder of C06; binary.AppendUvarint: 7 bits per byte, least significant group first,
                  0x80 set on all bytes but the last) *)
Fixpoint uvarint_fuel (fuel : nat) (n : N) : bytes :=
  match fuel with
  | O => []
  | S f => if (n <? 128)%N then [n] else ((n mod 128) + 128)%N :: uvarint_fuel f (n / 128)%N
  end.
Definition uvarint (n : N) : bytes := uvarint_fuel (S (N.to_nat (N.log2 n))) n.

Fixpoint merge_lp (ks : list bytes) : bytes :=
  match ks with
  | [] => []
  | k :: ks' => uvarint (N.of_nat (length k)) ++ k ++ merge_lp ks'
  end.

Definition merge_key (lp : bool) (ks : list bytes) : bytes := if lp then merge_lp ks else concat ks.

Fixpoint kmap_upd (m : list (bytes * kcount)) (mk : bytes) (ks : list bytes) (f : kcount -> kcount)
  : list (bytes * kcount) :=
  match m with
  | [] => [(mk, f (KC ks ic0 []))]
  | (k, v) :: m' => if bytes_eqb k mk then (k, f v) :: m' else (k, v) :: kmap_upd m' mk ks f
  end.

Fixpoint kmap_get (m : list (bytes * kcount)) (mk : bytes) : option kcount :=
  match m with
  | [] => None
  | (k, v) :: m' => if bytes_eqb k mk then Some v else kmap_get m' mk
  end.

Inductive p_event :=
| PRec (ks : list bytes) (len : Z) (fired : list bytes) (drop : bool)
    (* onInput for one record: SelectMetricKeySet(record); RunTransforms counts the labels [fired]
       on the CURRENT key set; DROP -> CountRecordDrop, else CountRecordPass *)
| PChunk (o : nat) (size : Z).
    (* CountChunk(o, chunk) immediately followed by output.AcceptChunk *)

Record pstate := PS {
  p_map : list (bytes * kcount);
  p_chunks : list cnt;             (* per output: chunks_total, chunk_bytes_total *)
  p_entered : Z; p_entered_b : Z   (* history: records given to onInput *)
}.
Definition p_init (nout : nat) : pstate := PS [] (repeat cnt0 nout) 0 0.

Fixpoint cnt_upd (l : list cnt) (o : nat) (size : Z) : list cnt :=
  match l, o with
  | [], _ => []
  | c :: l', O => cnt_add c size :: l'
  | c :: l', S o' => c :: cnt_upd l' o' size
  end.

Definition p_step_mg (mg : list bytes -> bytes) (s : pstate) (e : p_event) : pstate :=
  match e with
  | PRec ks len fired drop =>
    let f := fun kc => KC (kc_keys kc)
                          (if drop then ic_drop (kc_in kc) len else ic_pass (kc_in kc) len)
                          (lab_add_all (kc_lab kc) fired len) in
    PS (kmap_upd (p_map s) (mg ks) ks f) (p_chunks s) (p_entered s + 1) (p_entered_b s + len)
  | PChunk o size => PS (p_map s) (cnt_upd (p_chunks s) o size) (p_entered s) (p_entered_b s)
  end.

Definition p_step (lp : bool) : pstate -> p_event -> pstate := p_step_mg (merge_key lp).

Definition p_run_mg (mg : list bytes -> bytes) (nout : nat) (evs : list p_event) : pstate :=
  fold_left (p_step_mg mg) evs (p_init nout).
Definition p_run (lp : bool) (nout : nat) (evs : list p_event) : pstate := p_run_mg (merge_key lp) nout evs.

(* sums over all key sets *)
Fixpoint kmap_sum (f : kcount -> Z) (m : list (bytes * kcount)) : Z :=
  match m with [] => 0 | (_, v) :: m' => f v + kmap_sum f m' end.

(* ------------------------------------------------------------------------------------------ *)
(* D. buffer: chunkManager + chunkOperator + bufferer + outputFeeder                             *)

Record chunk := CH { ch_id : Z; ch_size : Z; ch_saved : bool; ch_loaded : bool }.

Record bmetrics := BM {
  m_pending : Z;       (* pending_chunks (gauge) *)
  m_in_t : Z;          (* input_chunks_total{state=transient} *)
  m_in_p : Z;          (* input_chunks_total{state=persistent} *)
  m_consumed : Z;      (* consumed_chunks_total *)
  m_leftover : Z;      (* leftover_chunks_total *)
  m_dropped : Z;       (* dropped_chunks_total *)
  m_pchunks : Z;       (* persistent_chunks (gauge) *)
  m_pbytes : Z;        (* persistent_chunk_bytes (gauge) *)
  m_ioerr : Z          (* io_errors_total *)
}.
Definition bm0 : bmetrics := BM 0 0 0 0 0 0 0 0 0.

Record bcfg := BC {
  bc_dir : bool;    (* the queue directory could be opened (maybeDir != nil) *)
  bc_quota : Z;     (* maxTotalBytes *)
  bc_qcap : nat;    (* defs.BufferMaxNumChunksInQueue *)
  bc_wcap : nat;    (* defs.BufferMaxNumChunksInMemory *)
  bc_fix5 : bool    (* code variant of chunkManager.OnChunkLeftover: false = result of UnloadChunk ignored
                       (original), true = a failed hand-back is counted as dropped (repair of C03's builder) *)
}.

Inductive bphase := BRun | BClosed | BSaving | BDone.

Record bstate := BS {
  b_m : bmetrics;
  b_queue : list chunk;      (* inputChannel *)
  b_hand : option chunk;     (* the chunk the feeder holds (in BSaving: lastInputChunk) *)
  b_window : list chunk;     (* outputChannel *)
  b_held : list chunk;       (* taken by the consumer, neither confirmed nor handed back yet *)
  b_parked : list chunk;     (* saved by saveEverything at shutdown: still counted in pending_chunks *)
  b_left : list chunk;       (* handed back by the consumer and on disk *)
  b_lost : list chunk;       (* handed back by the consumer but NOT stored (write refused) and counted leftover *)
  b_nfiles : Z;              (* chunk files in the directory *)
  b_orphans : Z;             (* history: files left behind: the chunk was counted dropped while saved (gauge decremented),
                                or its unlink failed (gauge not decremented: b_unlink_failed) *)
  b_phase : bphase;
  b_accepted : Z;            (* history: Accept calls *)
  b_recovered : Z            (* history: chunks enqueued by recoverExistingChunks *)
}.

Definition b_init (nfiles : Z) : bstate := BS bm0 [] None [] [] [] [] [] nfiles 0 BRun 0 0.

Definition bool_Z (b : bool) : Z := if b then 1 else 0.

(* chunkOperator.UnloadChunk: Some (chunk', metrics', files added) on success, None on failure
   (with the io error counted in the second component) *)
Definition op_unload (cfg : bcfg) (m : bmetrics) (c : chunk) (wr : bool) : option (chunk * bmetrics * Z) * bmetrics :=
  if ch_saved c then (Some (c, m, 0), m)
  else if negb (ch_loaded c) then (None, m)                       (* "BUG: cannot unload nil chunk" *)
  else if negb (bc_dir cfg) then (None, m)
  else if bc_quota cfg <? m_pbytes m + ch_size c then (None, m)   (* space limit reached *)
  else if wr then
    let m' := BM (m_pending m) (m_in_t m) (m_in_p m) (m_consumed m) (m_leftover m) (m_dropped m)
                 (m_pchunks m + 1) (m_pbytes m + ch_size c) (m_ioerr m) in
    (Some (CH (ch_id c) (ch_size c) true false, m', 1), m')
  else
    let m' := BM (m_pending m) (m_in_t m) (m_in_p m) (m_consumed m) (m_leftover m) (m_dropped m)
                 (m_pchunks m) (m_pbytes m) (m_ioerr m + 1) in
    (None, m').

(* len(chunk.Data) as the gauges see it *)
Definition data_len (c : chunk) : Z := if ch_loaded c then ch_size c else 0.

(* chunkManager.OnChunkDropped (+ chunkOperator.OnChunkDropped): the file of a saved chunk stays *)
Definition man_dropped (m : bmetrics) (c : chunk) : bmetrics :=
  BM (m_pending m - 1) (m_in_t m) (m_in_p m) (m_consumed m) (m_leftover m) (m_dropped m + 1)
     (if ch_saved c then m_pchunks m - 1 else m_pchunks m)
     (if ch_saved c then m_pbytes m - data_len c else m_pbytes m) (m_ioerr m).

(* chunkOperator.RemoveChunk: (metrics', files removed, orphans added) *)
Definition op_remove (cfg : bcfg) (m : bmetrics) (c : chunk) (ul : bool) : bmetrics * Z * Z :=
  if negb (ch_saved c) then (m, 0, 0)
  else if negb (bc_dir cfg) then (m, 0, 1)    (* "BUG: cannot remove chunk with nil dir" (unreachable: nothing is saved without a directory) *)
  else if ul then
    (BM (m_pending m) (m_in_t m) (m_in_p m) (m_consumed m) (m_leftover m) (m_dropped m)
        (m_pchunks m - 1) (m_pbytes m - data_len c) (m_ioerr m), 1, 0)
  else
    (BM (m_pending m) (m_in_t m) (m_in_p m) (m_consumed m) (m_leftover m) (m_dropped m)
        (m_pchunks m) (m_pbytes m) (m_ioerr m + 1), 0, 1).

Definition m_input (m : bmetrics) (loaded : bool) : bmetrics :=
  BM (m_pending m + 1) (if loaded then m_in_t m + 1 else m_in_t m) (if loaded then m_in_p m else m_in_p m + 1)
     (m_consumed m) (m_leftover m) (m_dropped m) (m_pchunks m) (m_pbytes m) (m_ioerr m).

Definition m_resolve (m : bmetrics) (dc dl dd : Z) : bmetrics :=
  BM (m_pending m - 1) (m_in_t m) (m_in_p m) (m_consumed m + dc) (m_leftover m + dl) (m_dropped m + dd)
     (m_pchunks m) (m_pbytes m) (m_ioerr m).

Inductive b_event :=
| BRecover (id size : Z)
    (* recoverExistingChunks: one scanned file enqueued; OnChunkInputRecovered *)
| BAccept (id size : Z) (spill wr : bool)
    (* bufferer.Accept; spill = the value read for NumOutput() >= M/2; wr = outcome of WriteFileAt if reached *)
| BFeedTake                 (* feeder receives from inputChannel *)
| BFeedLoad (rd ul : bool)  (* LoadOrDropChunk, then the zero-length test (OnChunkCorrupted) *)
| BFeedPush                 (* outputChannel <- chunk *)
| BDestroy                  (* bufferer.Destroy: close(inputChannel), inputClosed.Signal() *)
| BFeedAbort                (* loadToOutput's select takes inputClosed: the chunk becomes lastInputChunk *)
| BFeedEnd                  (* inputChannel closed and empty: close(outputChannel), outputClosed.Signal() *)
| BSaveQueue (wr : bool)    (* saveEverything, first loop *)
| BSaveLast (wr : bool)     (* saveEverything, lastInputChunk *)
| BSaveWindow (wr : bool)   (* saveEverything, third loop *)
| BTake                     (* the consumer receives from outputChannel *)
| BConsumed (id : Z) (ul : bool)   (* OnChunkConsumed *)
| BLeftover (id : Z) (wr : bool)   (* OnChunkLeftover *)
| BFinish.                  (* consumerCounter.Wait() returned; chunkMan.Close(); stopped *)

Fixpoint take_id (id : Z) (l : list chunk) : option (chunk * list chunk) :=
  match l with
  | [] => None
  | c :: l' => if ch_id c =? id then Some (c, l')
               else match take_id id l' with Some (x, r) => Some (x, c :: r) | None => None end
  end.

Definition set_m (s : bstate) (m : bmetrics) : bstate :=
  BS m (b_queue s) (b_hand s) (b_window s) (b_held s) (b_parked s) (b_left s) (b_lost s)
     (b_nfiles s) (b_orphans s) (b_phase s) (b_accepted s) (b_recovered s).

(* saving one chunk at shutdown (UnloadOrDropChunk): parked on success, dropped otherwise *)
Definition save_chunk (cfg : bcfg) (s : bstate) (c : chunk) (wr : bool)
  (queue : list chunk) (hand : option chunk) (window : list chunk) : bstate :=
  match op_unload cfg (b_m s) c wr with
  | (Some (c', m', df), _) =>
    BS m' queue hand window (b_held s) (b_parked s ++ [c']) (b_left s) (b_lost s)
       (b_nfiles s + df) (b_orphans s) (b_phase s) (b_accepted s) (b_recovered s)
  | (None, m') =>
    BS (man_dropped m' c) queue hand window (b_held s) (b_parked s) (b_left s) (b_lost s)
       (b_nfiles s) (b_orphans s + bool_Z (ch_saved c)) (b_phase s) (b_accepted s) (b_recovered s)
  end.

Definition running (p : bphase) : bool := match p with BRun => true | _ => false end.
Definition feeding (p : bphase) : bool := match p with BRun | BClosed => true | _ => false end.

Definition b_step (cfg : bcfg) (s : bstate) (e : b_event) : option bstate :=
  match e with
  | BRecover id size =>
    (* only at start: nothing accepted yet, feeder not started *)
    if running (b_phase s) && (b_accepted s =? 0) && (Nat.ltb (length (b_queue s)) (bc_qcap cfg))
       && bc_dir cfg && match b_hand s with None => true | Some _ => false end then
      let m := b_m s in
      let m' := BM (m_pending m + 1) (m_in_t m) (m_in_p m + 1) (m_consumed m) (m_leftover m) (m_dropped m)
                   (m_pchunks m + 1) (m_pbytes m + size) (m_ioerr m) in
      Some (BS m' (b_queue s ++ [CH id size true false]) (b_hand s) (b_window s) (b_held s) (b_parked s)
               (b_left s) (b_lost s) (b_nfiles s) (b_orphans s) (b_phase s) (b_accepted s) (b_recovered s + 1))
    else None
  | BAccept id size spill wr =>
    if running (b_phase s) then
      let c0 := CH id size false true in
      (* OnChunkInput, then (spill) UnloadOrDropChunk *)
      let m1 := m_input (b_m s) (negb spill) in
      let after_unload :=
        if spill then
          match op_unload cfg m1 c0 wr with
          | (Some (c', m', df), _) => (Some c', m', df)
          | (None, m') => (None, man_dropped m' c0, 0)
          end
        else (Some c0, m1, 0) in
      match after_unload with
      | (None, m2, _) =>
        Some (BS m2 (b_queue s) (b_hand s) (b_window s) (b_held s) (b_parked s) (b_left s) (b_lost s)
                 (b_nfiles s) (b_orphans s) (b_phase s) (b_accepted s + 1) (b_recovered s))
      | (Some c, m2, df) =>
        if Nat.ltb (length (b_queue s)) (bc_qcap cfg) then
          Some (BS m2 (b_queue s ++ [c]) (b_hand s) (b_window s) (b_held s) (b_parked s) (b_left s) (b_lost s)
                   (b_nfiles s + df) (b_orphans s) (b_phase s) (b_accepted s + 1) (b_recovered s))
        else
          (* queue overflow: OnChunkDropped (the file of an unloaded chunk stays) *)
          Some (BS (man_dropped m2 c) (b_queue s) (b_hand s) (b_window s) (b_held s) (b_parked s) (b_left s) (b_lost s)
                   (b_nfiles s + df) (b_orphans s + bool_Z (ch_saved c)) (b_phase s) (b_accepted s + 1) (b_recovered s))
      end
    else None
  | BFeedTake =>
    match b_phase s, b_hand s, b_queue s with
    | (BRun | BClosed), None, c :: q =>
      Some (BS (b_m s) q (Some c) (b_window s) (b_held s) (b_parked s) (b_left s) (b_lost s)
               (b_nfiles s) (b_orphans s) (b_phase s) (b_accepted s) (b_recovered s))
    | _, _, _ => None
    end
  | BFeedLoad rd ul =>
    match b_hand s with
    | Some c =>
      if feeding (b_phase s) && ch_loaded c then
        (* LoadChunk: nothing to do; a zero-length loaded chunk is "corrupted" as well *)
        if ch_size c =? 0 then
          let '(m1, rm, orph) := op_remove cfg (b_m s) c ul in
          Some (BS (m_resolve m1 0 0 1) (b_queue s) None (b_window s) (b_held s) (b_parked s) (b_left s) (b_lost s)
                   (b_nfiles s - rm) (b_orphans s + orph) (b_phase s) (b_accepted s) (b_recovered s))
        else Some s
      else if feeding (b_phase s) then
        (* LoadChunk *)
        if ch_saved c && bc_dir cfg && rd then
          let c' := CH (ch_id c) (ch_size c) true true in
          if ch_size c =? 0 then
            (* OnChunkCorrupted: RemoveChunk, pending--, dropped++ *)
            let '(m1, rm, orph) := op_remove cfg (b_m s) c' ul in
            Some (BS (m_resolve m1 0 0 1) (b_queue s) None (b_window s) (b_held s) (b_parked s) (b_left s) (b_lost s)
                     (b_nfiles s - rm) (b_orphans s + orph) (b_phase s) (b_accepted s) (b_recovered s))
          else
            Some (BS (b_m s) (b_queue s) (Some c') (b_window s) (b_held s) (b_parked s) (b_left s) (b_lost s)
                     (b_nfiles s) (b_orphans s) (b_phase s) (b_accepted s) (b_recovered s))
        else
          (* load failed: io error when the read was attempted; OnChunkDropped *)
          let m := b_m s in
          let m1 := if ch_saved c && bc_dir cfg then
                      BM (m_pending m) (m_in_t m) (m_in_p m) (m_consumed m) (m_leftover m) (m_dropped m)
                         (m_pchunks m) (m_pbytes m) (m_ioerr m + 1) else m in
          Some (BS (man_dropped m1 c) (b_queue s) None (b_window s) (b_held s) (b_parked s) (b_left s) (b_lost s)
                   (b_nfiles s) (b_orphans s + bool_Z (ch_saved c)) (b_phase s) (b_accepted s) (b_recovered s))
      else None
    | None => None
    end
  | BFeedPush =>
    match b_hand s with
    | Some c =>
      if feeding (b_phase s) && ch_loaded c && negb (ch_size c =? 0)
         && Nat.ltb (length (b_window s)) (bc_wcap cfg) then
        Some (BS (b_m s) (b_queue s) None (b_window s ++ [c]) (b_held s) (b_parked s) (b_left s) (b_lost s)
                 (b_nfiles s) (b_orphans s) (b_phase s) (b_accepted s) (b_recovered s))
      else None
    | None => None
    end
  | BDestroy =>
    if running (b_phase s) then
      Some (BS (b_m s) (b_queue s) (b_hand s) (b_window s) (b_held s) (b_parked s) (b_left s) (b_lost s)
               (b_nfiles s) (b_orphans s) BClosed (b_accepted s) (b_recovered s))
    else None
  | BFeedAbort =>
    match b_phase s, b_hand s with
    | BClosed, Some c =>
      if ch_loaded c && negb (ch_size c =? 0) then
        Some (BS (b_m s) (b_queue s) (b_hand s) (b_window s) (b_held s) (b_parked s) (b_left s) (b_lost s)
                 (b_nfiles s) (b_orphans s) BSaving (b_accepted s) (b_recovered s))
      else None
    | _, _ => None
    end
  | BFeedEnd =>
    match b_phase s, b_hand s, b_queue s with
    | BClosed, None, [] =>
      Some (BS (b_m s) [] None (b_window s) (b_held s) (b_parked s) (b_left s) (b_lost s)
               (b_nfiles s) (b_orphans s) BSaving (b_accepted s) (b_recovered s))
    | _, _, _ => None
    end
  | BSaveQueue wr =>
    match b_phase s, b_queue s with
    | BSaving, c :: q => Some (save_chunk cfg s c wr q (b_hand s) (b_window s))
    | _, _ => None
    end
  | BSaveLast wr =>
    match b_phase s, b_queue s, b_hand s with
    | BSaving, [], Some c => Some (save_chunk cfg s c wr [] None (b_window s))
    | _, _, _ => None
    end
  | BSaveWindow wr =>
    match b_phase s, b_queue s, b_hand s, b_window s with
    | BSaving, [], None, c :: w => Some (save_chunk cfg s c wr [] None w)
    | _, _, _, _ => None
    end
  | BTake =>
    match b_phase s, b_window s with
    | (BRun | BClosed | BSaving), c :: w =>
      Some (BS (b_m s) (b_queue s) (b_hand s) w (b_held s ++ [c]) (b_parked s) (b_left s) (b_lost s)
               (b_nfiles s) (b_orphans s) (b_phase s) (b_accepted s) (b_recovered s))
    | _, _ => None
    end
  | BConsumed id ul =>
    match b_phase s, take_id id (b_held s) with
    | (BRun | BClosed | BSaving), Some (c, held) =>
      let '(m1, rm, orph) := op_remove cfg (b_m s) c ul in
      Some (BS (m_resolve m1 1 0 0) (b_queue s) (b_hand s) (b_window s) held (b_parked s) (b_left s) (b_lost s)
               (b_nfiles s - rm) (b_orphans s + orph) (b_phase s) (b_accepted s) (b_recovered s))
    | _, _ => None
    end
  | BLeftover id wr =>
    match b_phase s, take_id id (b_held s) with
    | (BRun | BClosed | BSaving), Some (c, held) =>
      match op_unload cfg (b_m s) c wr with
      | (Some (c', m', df), _) =>
        Some (BS (m_resolve m' 0 1 0) (b_queue s) (b_hand s) (b_window s) held (b_parked s) (b_left s ++ [c']) (b_lost s)
                 (b_nfiles s + df) (b_orphans s) (b_phase s) (b_accepted s) (b_recovered s))
      | (None, m') =>
        if bc_fix5 cfg then
          (* repaired: UnloadOrDropChunk -> OnChunkDropped, leftover not counted *)
          Some (BS (man_dropped m' c) (b_queue s) (b_hand s) (b_window s) held (b_parked s) (b_left s) (b_lost s)
                   (b_nfiles s) (b_orphans s + bool_Z (ch_saved c)) (b_phase s) (b_accepted s) (b_recovered s))
        else
          (* original: the result is ignored; the chunk is gone and counted as leftover *)
          Some (BS (m_resolve m' 0 1 0) (b_queue s) (b_hand s) (b_window s) held (b_parked s) (b_left s) (b_lost s ++ [c])
                   (b_nfiles s) (b_orphans s) (b_phase s) (b_accepted s) (b_recovered s))
      end
    | _, _ => None
    end
  | BFinish =>
    match b_phase s, b_queue s, b_hand s, b_window s, b_held s with
    | BSaving, [], None, [], [] =>
      Some (BS (b_m s) [] None [] [] (b_parked s) (b_left s) (b_lost s)
               (b_nfiles s) (b_orphans s) BDone (b_accepted s) (b_recovered s))
    | _, _, _, _, _ => None
    end
  end.

Fixpoint b_run (cfg : bcfg) (s : bstate) (evs : list b_event) : option bstate :=
  match evs with
  | [] => Some s
  | e :: evs' => match b_step cfg s e with Some s' => b_run cfg s' evs' | None => None end
  end.

Definition len_opt {A} (o : option A) : Z := match o with Some _ => 1 | None => 0 end.
Definition zlen {A} (l : list A) : Z := Z.of_nat (length l).

(* chunks the buffer still owes an answer for *)
Definition b_holdings (s : bstate) : Z :=
  zlen (b_queue s) + len_opt (b_hand s) + zlen (b_window s) + zlen (b_held s) + zlen (b_parked s).

(* ------------------------------------------------------------------------------------------ *)
(* E. client: ClientWorker + clientSession + clientMetrics                                       *)

Record cmetrics := CM {
  k_attempts : Z;   (* forward_attempts_total     OnForwarding *)
  k_fwd_n : Z;      (* forwarded_chunks_total     OnForwarded *)
  k_fwd_b : Z;      (* forwarded_chunk_bytes_total *)
  k_ack_n : Z;      (* acknowledged_chunks_total  OnAcknowledged *)
  k_ack_b : Z;      (* acknowledged_chunk_bytes_total *)
  k_opened : Z;     (* opened_sessions_total      OnOpening *)
  k_errors : Z;     (* network_errors_total + nonnetwork_errors_total   OnError *)
  k_gleft : Z;      (* queued_chunks{type=leftover}   (gauge) *)
  k_gpack : Z       (* queued_chunks{type=pendingAck} (gauge) *)
}.
Definition cm0 : cmetrics := CM 0 0 0 0 0 0 0 0 0.

Inductive cphase :=
| CIdle                 (* run(): about to call runSession *)
| COpening              (* openConn running in the background *)
| CRecovery             (* resendLeftovers, between two chunks *)
| CNormal               (* processInput, waiting in the select *)
| CSending (rec : bool) (* conn.SendChunk in progress (rec: in the recovery stage) *)
| CSent (rec : bool)    (* SendChunk returned nil: select { ackerChan <- chunk | inputClosed | ackerEnded } *)
| CCollect (next : nat) (* collectLeftovers: ackerChan closed, abort signalled, waiting for ackerEnded;
                           next: 0 = noReconnect, 1 = reconnectWithDelay, 2 = reconnect *)
| CRetryWait            (* inputClosed.Wait(ForwarderRetryInterval) *)
| CFinal                (* loop left: leftovers closed, being handed back *)
| CStopped.

Inductive aphase :=
| ARun                  (* select { ackerChan | ackerAbort } *)
| AWait (cur : chunk)   (* conn.ReadChunkAck in progress; cur = nextChunk *)
| AEnded.               (* deferred snapshot stored, ackerEnded signalled *)

Record cstate := CS {
  c_m : cmetrics;
  c_phase : cphase;
  c_acker : aphase;
  c_left : list chunk;          (* the current leftovers channel *)
  c_last : option chunk;        (* session.lastChunk *)
  c_achan : list chunk;         (* ackerChan *)
  c_pmap : list chunk;          (* pendingChunksByID *)
  c_unacked : list chunk;       (* session.unacked snapshot (valid when the acker has ended) *)
  c_stop : bool;                (* inputClosed signalled *)
  (* history *)
  c_taken : Z;                  (* chunks received from the input channel *)
  c_completed : Z;              (* SendChunk calls that returned nil *)
  c_failed : Z;                 (* SendChunk calls that returned an error *)
  c_unacked_total : Z;          (* sum of the "unacked" argument of OnSessionEnded *)
  c_cb_consumed : Z;            (* onChunkAcked calls *)
  c_cb_left : Z;                (* onChunkLeft calls *)
  c_dups : Z;                   (* chunks removed as duplicates by newLeftoverChannel *)
  c_bug : Z                     (* collectLeftovers "BUG" branches taken (acknowledger not ended in time) *)
}.

Definition c_init : cstate := CS cm0 CIdle AEnded [] None [] [] [] false 0 0 0 0 0 0 0 0.

Record ccfg := CC { cc_ackcap : nat (* defs.ForwarderMaxPendingChunksForAck *) }.

(* newLeftoverChannel: sort by id, skip adjacent duplicates *)
Fixpoint insert_chunk (c : chunk) (l : list chunk) : list chunk :=
  match l with
  | [] => [c]
  | x :: l' => if ch_id c <=? ch_id x then c :: l else x :: insert_chunk c l'
  end.
Fixpoint sort_chunks (l : list chunk) : list chunk :=
  match l with [] => [] | c :: l' => insert_chunk c (sort_chunks l') end.
Fixpoint dedup_adj (l : list chunk) : list chunk :=
  match l with
  | [] => []
  | c :: l' => match l' with
               | [] => [c]
               | x :: _ => if ch_id c =? ch_id x then dedup_adj l' else c :: dedup_adj l'
               end
  end.
(* the Go loop keeps the FIRST of equal ids; dedup_adj keeps the last: the same ids and the same count *)
Definition new_leftover_channel (l : list chunk) : list chunk := dedup_adj (sort_chunks l).

Definition opt_list {A} (o : option A) : list A := match o with Some a => [a] | None => [] end.

Inductive c_event :=
| CStop                      (* inputClosed signalled (the feeder closed the output side) *)
| COpen                      (* runSession: start openConn *)
| COpenFail                  (* openConn returned an error: OnError, reconnectWithDelay *)
| COpenStop                  (* select took inputClosed while opening: noReconnect *)
| COpenOk                    (* connection established: OnOpening, new session, acknowledger started *)
| CRetryElapsed              (* retry interval elapsed *)
| CRetryStop                 (* stop during the retry wait *)
| CPopLeft                   (* recovery stage: next leftover popped (OnLeftoverPopped) and sendChunk begun (OnForwarding) *)
| CRecoveryDone              (* leftovers channel empty: go to the normal stage *)
| CRecoveryStop              (* recovery stage: select took inputClosed *)
| CTake (c : chunk)          (* normal stage: chunk received from the input channel, sendChunk begun (OnForwarding) *)
| CInputClosed               (* normal stage: input channel closed *)
| CReconnect                 (* max session duration / SIGUSR1: soft stop of the acknowledger, reconnect *)
| CPingFail                  (* sendPing failed: OnError *)
| CSendFail                  (* SendChunk returned an error: OnError, abort connection *)
| CSendOk                    (* SendChunk returned nil *)
| CQueue                     (* ackerChan <- chunk: OnForwarded *)
| CQueueStop                 (* the select after the send took inputClosed *)
| CQueueAckerEnded           (* ... took ackerEnded *)
| AckerTake                  (* acknowledger receives the next chunk from ackerChan *)
| AckRead (id : option Z)    (* ReadChunkAck returned an id (None = empty id) *)
| AckErr                     (* ReadChunkAck returned an error: OnError, abort, acknowledger ends *)
| AckerEnd                   (* acknowledger ends on closed-and-empty ackerChan or ackerAbort *)
| CCollectDone               (* collectLeftovers: acknowledger ended, merge, OnSessionEnded *)
| CCollectBug                (* collectLeftovers: timeout waiting for the acknowledger ("BUG": pending chunks not collected) *)
| CFinalPop                  (* run(): leftover popped after the loop: OnLeftoverPopped, onChunkLeft *)
| CFinish.                   (* run() returns: onFinished, stopped *)

Definition km_error (m : cmetrics) : cmetrics :=
  CM (k_attempts m) (k_fwd_n m) (k_fwd_b m) (k_ack_n m) (k_ack_b m) (k_opened m) (k_errors m + 1) (k_gleft m) (k_gpack m).
Definition km_opening (m : cmetrics) : cmetrics :=
  CM (k_attempts m) (k_fwd_n m) (k_fwd_b m) (k_ack_n m) (k_ack_b m) (k_opened m + 1) (k_errors m) (k_gleft m) (k_gpack m).
Definition km_forwarding (m : cmetrics) : cmetrics :=
  CM (k_attempts m + 1) (k_fwd_n m) (k_fwd_b m) (k_ack_n m) (k_ack_b m) (k_opened m) (k_errors m) (k_gleft m) (k_gpack m).
Definition km_forwarded (m : cmetrics) (c : chunk) : cmetrics :=
  CM (k_attempts m) (k_fwd_n m + 1) (k_fwd_b m + ch_size c) (k_ack_n m) (k_ack_b m) (k_opened m) (k_errors m) (k_gleft m) (k_gpack m + 1).
Definition km_acknowledged (m : cmetrics) (c : chunk) : cmetrics :=
  CM (k_attempts m) (k_fwd_n m) (k_fwd_b m) (k_ack_n m + 1) (k_ack_b m + ch_size c) (k_opened m) (k_errors m) (k_gleft m) (k_gpack m - 1).
Definition km_popped (m : cmetrics) : cmetrics :=
  CM (k_attempts m) (k_fwd_n m) (k_fwd_b m) (k_ack_n m) (k_ack_b m) (k_opened m) (k_errors m) (k_gleft m - 1) (k_gpack m).
Definition km_session_ended (m : cmetrics) (prev unacked newl : Z) : cmetrics :=
  CM (k_attempts m) (k_fwd_n m) (k_fwd_b m) (k_ack_n m) (k_ack_b m) (k_opened m) (k_errors m)
     (k_gleft m + (newl - prev)) (k_gpack m - unacked).

Definition set_cm (s : cstate) (m : cmetrics) : cstate :=
  CS m (c_phase s) (c_acker s) (c_left s) (c_last s) (c_achan s) (c_pmap s) (c_unacked s) (c_stop s)
     (c_taken s) (c_completed s) (c_failed s) (c_unacked_total s) (c_cb_consumed s) (c_cb_left s) (c_dups s) (c_bug s).
Definition set_phase (s : cstate) (p : cphase) : cstate :=
  CS (c_m s) p (c_acker s) (c_left s) (c_last s) (c_achan s) (c_pmap s) (c_unacked s) (c_stop s)
     (c_taken s) (c_completed s) (c_failed s) (c_unacked_total s) (c_cb_consumed s) (c_cb_left s) (c_dups s) (c_bug s).
Definition set_acker (s : cstate) (a : aphase) (pmap unacked : list chunk) : cstate :=
  CS (c_m s) (c_phase s) a (c_left s) (c_last s) (c_achan s) pmap unacked (c_stop s)
     (c_taken s) (c_completed s) (c_failed s) (c_unacked_total s) (c_cb_consumed s) (c_cb_left s) (c_dups s) (c_bug s).

Definition next_phase (n : nat) : cphase :=
  match n with O => CFinal | S O => CRetryWait | _ => CIdle end.

Definition in_session (p : cphase) : bool :=
  match p with CRecovery | CNormal | CSending _ | CSent _ | CCollect _ => true | _ => false end.

(* the merge of collectLeftovers, given what is taken from the acknowledger's snapshot *)
Definition collect (s : cstate) (next : nat) (from_pending : list chunk) (bug : Z) : cstate :=
  let newl := c_left s ++ c_achan s ++ from_pending ++ opt_list (c_last s) in
  let chan := new_leftover_channel newl in
  let unacked := zlen (c_achan s) + zlen from_pending in
  CS (km_session_ended (c_m s) (zlen (c_left s)) unacked (zlen newl))
     (next_phase next) AEnded chan None [] [] [] (c_stop s)
     (c_taken s) (c_completed s) (c_failed s) (c_unacked_total s + unacked) (c_cb_consumed s) (c_cb_left s)
     (c_dups s + (zlen newl - zlen chan)) (c_bug s + bug).

Definition c_step (cfg : ccfg) (s : cstate) (e : c_event) : option cstate :=
  match e with
  | CStop => Some (CS (c_m s) (c_phase s) (c_acker s) (c_left s) (c_last s) (c_achan s) (c_pmap s) (c_unacked s) true
                      (c_taken s) (c_completed s) (c_failed s) (c_unacked_total s) (c_cb_consumed s) (c_cb_left s) (c_dups s) (c_bug s))
  | COpen => match c_phase s with CIdle => Some (set_phase s COpening) | _ => None end
  | COpenFail => match c_phase s with COpening => Some (set_phase (set_cm s (km_error (c_m s))) CRetryWait) | _ => None end
  | COpenStop => match c_phase s with COpening => if c_stop s then Some (set_phase s CFinal) else None | _ => None end
  | COpenOk =>
    match c_phase s with
    | COpening =>
      Some (CS (km_opening (c_m s)) CRecovery ARun (c_left s) None [] [] [] (c_stop s)
               (c_taken s) (c_completed s) (c_failed s) (c_unacked_total s) (c_cb_consumed s) (c_cb_left s) (c_dups s) (c_bug s))
    | _ => None
    end
  | CRetryElapsed => match c_phase s with CRetryWait => Some (set_phase s CIdle) | _ => None end
  | CRetryStop => match c_phase s with CRetryWait => if c_stop s then Some (set_phase s CFinal) else None | _ => None end
  | CPopLeft =>
    match c_phase s, c_left s with
    | CRecovery, c :: l =>
      Some (CS (km_forwarding (km_popped (c_m s))) (CSending true) (c_acker s) l (Some c) (c_achan s) (c_pmap s) (c_unacked s) (c_stop s)
               (c_taken s) (c_completed s) (c_failed s) (c_unacked_total s) (c_cb_consumed s) (c_cb_left s) (c_dups s) (c_bug s))
    | _, _ => None
    end
  | CRecoveryDone => match c_phase s, c_left s with CRecovery, [] => Some (set_phase s CNormal) | _, _ => None end
  | CRecoveryStop => match c_phase s with CRecovery => if c_stop s then Some (set_phase s (CCollect 0)) else None | _ => None end
  | CTake c =>
    match c_phase s with
    | CNormal =>
      Some (CS (km_forwarding (c_m s)) (CSending false) (c_acker s) (c_left s) (Some c) (c_achan s) (c_pmap s) (c_unacked s) (c_stop s)
               (c_taken s + 1) (c_completed s) (c_failed s) (c_unacked_total s) (c_cb_consumed s) (c_cb_left s) (c_dups s) (c_bug s))
    | _ => None
    end
  | CInputClosed => match c_phase s with CNormal => if c_stop s then Some (set_phase s (CCollect 0)) else None | _ => None end
  | CReconnect => match c_phase s with CNormal => Some (set_phase s (CCollect 2)) | _ => None end
  | CPingFail => match c_phase s with CNormal => Some (set_phase (set_cm s (km_error (c_m s))) (CCollect 1)) | _ => None end
  | CSendFail =>
    match c_phase s with
    | CSending _ =>
      Some (CS (km_error (c_m s)) (CCollect 1) (c_acker s) (c_left s) (c_last s) (c_achan s) (c_pmap s) (c_unacked s) (c_stop s)
               (c_taken s) (c_completed s) (c_failed s + 1) (c_unacked_total s) (c_cb_consumed s) (c_cb_left s) (c_dups s) (c_bug s))
    | _ => None
    end
  | CSendOk =>
    match c_phase s with
    | CSending r =>
      Some (CS (c_m s) (CSent r) (c_acker s) (c_left s) (c_last s) (c_achan s) (c_pmap s) (c_unacked s) (c_stop s)
               (c_taken s) (c_completed s + 1) (c_failed s) (c_unacked_total s) (c_cb_consumed s) (c_cb_left s) (c_dups s) (c_bug s))
    | _ => None
    end
  | CQueue =>
    match c_phase s, c_last s with
    | CSent r, Some c =>
      if Nat.ltb (length (c_achan s)) (cc_ackcap cfg) then
        Some (CS (km_forwarded (c_m s) c) (if r then CRecovery else CNormal) (c_acker s) (c_left s) None (c_achan s ++ [c]) (c_pmap s) (c_unacked s) (c_stop s)
                 (c_taken s) (c_completed s) (c_failed s) (c_unacked_total s) (c_cb_consumed s) (c_cb_left s) (c_dups s) (c_bug s))
      else None
    | _, _ => None
    end
  | CQueueStop => match c_phase s with CSent _ => if c_stop s then Some (set_phase s (CCollect 0)) else None | _ => None end
  | CQueueAckerEnded =>
    match c_phase s, c_acker s with CSent _, AEnded => Some (set_phase s (CCollect 1)) | _, _ => None end
  | AckerTake =>
    match c_acker s, c_achan s with
    | ARun, c :: l =>
      if in_session (c_phase s) then
        Some (CS (c_m s) (c_phase s) (AWait c) (c_left s) (c_last s) l (c_pmap s ++ [c]) (c_unacked s) (c_stop s)
                 (c_taken s) (c_completed s) (c_failed s) (c_unacked_total s) (c_cb_consumed s) (c_cb_left s) (c_dups s) (c_bug s))
      else None
    | _, _ => None
    end
  | AckRead oid =>
    match c_acker s with
    | AWait cur =>
      if in_session (c_phase s) then
        let id := match oid with Some i => i | None => ch_id cur end in
        match take_id id (c_pmap s) with
        | Some (c, pm) =>
          (* delete from the map, onChunkAcked, OnAcknowledged *)
          Some (CS (km_acknowledged (c_m s) c) (c_phase s) ARun (c_left s) (c_last s) (c_achan s) pm (c_unacked s) (c_stop s)
                   (c_taken s) (c_completed s) (c_failed s) (c_unacked_total s) (c_cb_consumed s + 1) (c_cb_left s) (c_dups s) (c_bug s))
        | None =>
          (* "received ACK to unknown chunk ID": OnError(nil); continue *)
          Some (set_acker (set_cm s (km_error (c_m s))) ARun (c_pmap s) (c_unacked s))
        end
      else None
    | _ => None
    end
  | AckErr =>
    match c_acker s with
    | AWait _ => if in_session (c_phase s) then Some (set_acker (set_cm s (km_error (c_m s))) AEnded (c_pmap s) (c_pmap s)) else None
    | _ => None
    end
  | AckerEnd =>
    match c_acker s, c_phase s with
    | ARun, CCollect _ => Some (set_acker s AEnded (c_pmap s) (c_pmap s))
    | _, _ => None
    end
  | CCollectDone =>
    match c_phase s, c_acker s with
    | CCollect n, AEnded => Some (collect s n (c_unacked s) 0)
    | _, _ => None
    end
  | CCollectBug =>
    match c_phase s, c_acker s with
    | CCollect n, (ARun | AWait _) => Some (collect s n [] 1)
    | _, _ => None
    end
  | CFinalPop =>
    match c_phase s, c_left s with
    | CFinal, c :: l =>
      Some (CS (km_popped (c_m s)) CFinal (c_acker s) l (c_last s) (c_achan s) (c_pmap s) (c_unacked s) (c_stop s)
               (c_taken s) (c_completed s) (c_failed s) (c_unacked_total s) (c_cb_consumed s) (c_cb_left s + 1) (c_dups s) (c_bug s))
    | _, _ => None
    end
  | CFinish => match c_phase s, c_left s with CFinal, [] => Some (set_phase s CStopped) | _, _ => None end
  end.

Fixpoint c_run (cfg : ccfg) (s : cstate) (evs : list c_event) : option cstate :=
  match evs with
  | [] => Some s
  | e :: evs' => match c_step cfg s e with Some s' => c_run cfg s' evs' | None => None end
  end.

(* Which steps of the client machine remain possible once inputClosed has been signalled: Go's select takes a
   ready case, never "default", and Awaitable.Wait returns at once when the signal is already raised:
     CRetryElapsed   no: inputClosed.Wait(ForwarderRetryInterval) returns true immediately
     CRecoveryDone   no: select { inputClosed | leftover | default } has a ready case
     CReconnect      environment: no SIGUSR1 and no max-duration expiry during the shutdown
     CTake           only while chunks are left in the closed output channel (budget w)
     CStop           the signal is raised once *)
Definition post_stop_ok (w : Z) (e : c_event) : bool :=
  match e with
  | CRetryElapsed | CRecoveryDone | CReconnect | CStop => false
  | CTake _ => 0 <? w
  | _ => true
  end.

Definition budget_after (w : Z) (e : c_event) : Z := match e with CTake _ => w - 1 | _ => w end.


(* chunks the client holds *)
Definition c_holdings (s : cstate) : Z :=
  zlen (c_left s) + len_opt (c_last s) + zlen (c_achan s) + zlen (c_pmap s).

(* ------------------------------------------------------------------------------------------ *)
(* F. system: one buffer and its client (pipelines.go: RegisterNewConsumer -> NewForwarder)       *)

Inductive sys_event :=
| SB (e : b_event)   (* buffer-internal: everything except BTake / BConsumed / BLeftover / BFinish *)
| SC (e : c_event)   (* client-internal: everything except CStop / CTake / CInputClosed / AckRead / CFinalPop *)
| STake              (* client receives the head of the output channel *)
| SAck (id : option Z) (ul : bool)   (* ACK read; if it designates a pending chunk: OnChunkConsumed *)
| SHandBack (wr : bool)              (* final loop: onChunkLeft -> OnChunkLeftover *)
| SStop              (* client observes inputClosed (= outputClosed of the feeder) *)
| SInputClosed       (* client observes the closed and drained output channel *)
| SFinish.           (* the feeder finishes: consumerCounter.Wait() has returned, i.e. the client has called onFinished
                        (SC CFinish) before; whether the rest of the output channel is saved before or after that wait
                        does not matter here (both orders are runs of this machine) *)

Record sys := SYS { s_b : bstate; s_c : cstate }.

Definition b_internal (e : b_event) : bool :=
  match e with BTake | BConsumed _ _ | BLeftover _ _ | BFinish => false | _ => true end.
Definition c_internal (e : c_event) : bool :=
  match e with CStop | CTake _ | CInputClosed | AckRead _ | CFinalPop => false | _ => true end.

Definition closed_out (p : bphase) : bool := match p with BSaving | BDone => true | _ => false end.

Definition sys_step (bc : bcfg) (cc : ccfg) (s : sys) (e : sys_event) : option sys :=
  match e with
  | SB be => if b_internal be then option_map (fun b => SYS b (s_c s)) (b_step bc (s_b s) be) else None
  | SC ce => if c_internal ce then option_map (fun c => SYS (s_b s) c) (c_step cc (s_c s) ce) else None
  | STake =>
    match b_window (s_b s) with
    | c :: _ =>
      match b_step bc (s_b s) BTake, c_step cc (s_c s) (CTake c) with
      | Some b, Some c' => Some (SYS b c')
      | _, _ => None
      end
    | [] => None
    end
  | SAck oid ul =>
    match c_acker (s_c s) with
    | AWait cur =>
      let id := match oid with Some i => i | None => ch_id cur end in
      match take_id id (c_pmap (s_c s)), c_step cc (s_c s) (AckRead oid) with
      | Some _, Some c' =>
        match b_step bc (s_b s) (BConsumed id ul) with Some b => Some (SYS b c') | None => None end
      | None, Some c' => Some (SYS (s_b s) c')
      | _, None => None
      end
    | _ => None
    end
  | SHandBack wr =>
    match c_left (s_c s), c_step cc (s_c s) CFinalPop with
    | c :: _, Some c' =>
      match b_step bc (s_b s) (BLeftover (ch_id c) wr) with Some b => Some (SYS b c') | None => None end
    | _, _ => None
    end
  | SStop => if closed_out (b_phase (s_b s)) then option_map (fun c => SYS (s_b s) c) (c_step cc (s_c s) CStop) else None
  | SInputClosed =>
    match b_window (s_b s) with
    | [] => if closed_out (b_phase (s_b s)) then option_map (fun c => SYS (s_b s) c) (c_step cc (s_c s) CInputClosed) else None
    | _ => None
    end
  | SFinish =>
    match c_phase (s_c s) with
    | CStopped => match b_step bc (s_b s) BFinish with Some b => Some (SYS b (s_c s)) | None => None end
    | _ => None
    end
  end.

Fixpoint sys_run (bc : bcfg) (cc : ccfg) (s : sys) (evs : list sys_event) : option sys :=
  match evs with
  | [] => Some s
  | e :: evs' => match sys_step bc cc s e with Some s' => sys_run bc cc s' evs' | None => None end
  end.

Definition sys_init (nfiles : Z) : sys := SYS (b_init nfiles) c_init.

(* position of the first event that is not enabled (for the correspondence output) *)
Fixpoint sys_run_pos (bc : bcfg) (cc : ccfg) (s : sys) (evs : list sys_event) (pos : Z) : sys + Z :=
  match evs with
  | [] => inl s
  | e :: evs' => match sys_step bc cc s e with Some s' => sys_run_pos bc cc s' evs' (pos + 1) | None => inr pos end
  end.

(* ------------------------------------------------------------------------------------------ *)
(* correspondence: canonical text                                                               *)

Definition ch_semi : N := 59%N.   (* ; *)
Definition ch_eq : N := 61%N.     (* = *)
Definition ch_slash : N := 47%N.  (* / *)

Definition zs (z : Z) : bytes := dec_of_Z z.
Definition zlist (l : list Z) : bytes := join comma (map zs l).

Definition ic_text (c : icount) : bytes := zlist [ic_pn c; ic_pb c; ic_dn c; ic_db c].

(* lexicographic order on byte strings *)
Fixpoint bytes_leb (a b : bytes) : bool :=
  match a, b with
  | [], _ => true
  | _ :: _, [] => false
  | x :: a', y :: b' => if (x <? y)%N then true else if (y <? x)%N then false else bytes_leb a' b'
  end.

Fixpoint insert_by {A} (key : A -> bytes) (x : A) (l : list A) : list A :=
  match l with
  | [] => [x]
  | y :: l' => if bytes_leb (key x) (key y) then x :: l else y :: insert_by key x l'
  end.
Fixpoint sort_by {A} (key : A -> bytes) (l : list A) : list A :=
  match l with [] => [] | x :: l' => insert_by key x (sort_by key l') end.

Definition lab_text (m : labmap) : bytes :=
  join comma (map (fun kc : bytes * cnt => hex (fst kc) ++ colon :: zs (fst (snd kc)) ++ colon :: zs (snd (snd kc)))
                  (sort_by (fun kc : bytes * cnt => hex (fst kc)) m)).

Definition keys_text (ks : list bytes) : bytes := join 46%N (map hex ks).  (* hex.hex *)

(* ---- kind 1: records -> input and worker counters ----
   sargs: one descriptor per record (arrival order):
     byte 0      class: 0 good, 1 filtered (drop transform, label "marker"), 2 malformed, 3 bad time (label
                 "timeError"), 4 dropped by the extraction filter (label "xmarker"), 5 good with message overflow
     bytes 1-3   raw length (big endian)
     then        n, (len, bytes)*n  orchestration key values;  m, (len, bytes)*m  metric key values
   zargs: descriptor of the scenario (ignored by the model) *)

Definition label_marker : bytes := [109;97;114;107;101;114]%N.
Definition label_time_error : bytes := [116;105;109;101;69;114;114;111;114]%N.
Definition label_xmarker : bytes := [120;109;97;114;107;101;114]%N.

Fixpoint take_strings (n : nat) (s : bytes) : option (list bytes * bytes) :=
  match n with
  | O => Some ([], s)
  | S n' =>
    match s with
    | [] => None
    | l :: s' =>
      let k := N.to_nat l in
      if Nat.leb k (length s') then
        match take_strings n' (skipn k s') with
        | Some (r, rest) => Some (firstn k s' :: r, rest)
        | None => None
        end
      else None
    end
  end.

Record recdesc := RD { rd_class : N; rd_len : Z; rd_okeys : list bytes; rd_mkeys : list bytes }.

Definition parse_rec (s : bytes) : option recdesc :=
  match s with
  | cl :: l2 :: l1 :: l0 :: rest =>
    let len := Z.of_N (l2 * 65536 + l1 * 256 + l0)%N in
    match rest with
    | n :: rest1 =>
      match take_strings (N.to_nat n) rest1 with
      | Some (oks, rest2) =>
        match rest2 with
        | m :: rest3 =>
          match take_strings (N.to_nat m) rest3 with
          | Some (mks, []) => Some (RD cl len oks mks)
          | _ => None
          end
        | [] => None
        end
      | None => None
      end
    | [] => None
    end
  | _ => None
  end.

(* what the configuration of the harness makes of a record class *)
Definition in_event_of (r : recdesc) : in_event :=
  match rd_class r with
  | 2%N => InMalformed (rd_len r)
  | 4%N => InParsed (rd_len r) false [label_xmarker] true
  | 5%N => InParsed (rd_len r) true [] false
  | _ => InParsed (rd_len r) false [] false
  end.

(* the worker event, for records that reach a worker *)
Definition p_event_of (r : recdesc) : option p_event :=
  match rd_class r with
  | 0%N | 5%N => Some (PRec (rd_mkeys r) (rd_len r) [] false)
  | 1%N => Some (PRec (rd_mkeys r) (rd_len r) [label_marker] true)
  | 3%N => Some (PRec (rd_mkeys r) (rd_len r) [label_time_error] false)
  | _ => None
  end.

(* ---- composition of input and workers over a stream of records ----
   A record as the agent sees it: what happens at the input, and - for a record returned to the receiver -
   the pipeline (orchestration key tuple) it is routed to and what happens in that pipeline's worker. *)
Record rec_run := RR { rr_in : in_event; rr_pipe : list bytes; rr_p : option p_event }.

(* pipelines: orchestration key tuple -> worker state (keyed by the text of the tuple, which is injective) *)
Fixpoint pipes_upd (mg : list bytes -> bytes) (m : list (bytes * pstate)) (pk : bytes) (e : p_event) : list (bytes * pstate) :=
  match m with
  | [] => [(pk, p_step_mg mg (p_init 0) e)]
  | (k, v) :: m' =>
    if bytes_eqb k pk then (k, p_step_mg mg v e) :: m' else (k, v) :: pipes_upd mg m' pk e
  end.

Definition rec_step (counted : bool) (mg : list bytes -> bytes) (st : in_state * list (bytes * pstate)) (r : rec_run)
  : in_state * list (bytes * pstate) :=
  let i' := in_step counted (fst st) (rr_in r) in
  match rr_p r with
  | Some e => (i', pipes_upd mg (snd st) (keys_text (rr_pipe r)) e)
  | None => (i', snd st)
  end.

Definition run_records (counted : bool) (mg : list bytes -> bytes) (rs : list rec_run) : in_state * list (bytes * pstate) :=
  fold_left (rec_step counted mg) rs (in_init, []).

Definition rec_of_desc (r : recdesc) : rec_run := RR (in_event_of r) (rd_okeys r) (p_event_of r).

Definition entry_text (pk : bytes) (kc : kcount) : bytes :=
  pk ++ ch_slash :: keys_text (kc_keys kc) ++ ch_eq :: ic_text (kc_in kc)
  ++ match kc_lab kc with [] => [] | _ => ch_slash :: lab_text (kc_lab kc) end.

Definition pipes_text (ps : list (bytes * pstate)) : bytes :=
  let entries := flat_map (fun pv : bytes * pstate =>
                             map (fun kv : bytes * kcount => entry_text (fst pv) (snd kv)) (p_map (snd pv))) ps in
  join ch_semi (sort_by (fun x : bytes => x) entries).

(* the code variant the model mirrors: extraction drops are counted (see findings: C19-extraction-drop) *)
Definition code_counts_extraction_drops : bool := true.

Definition run_kind1 (c : case) : bytes :=
  match all_some (map parse_rec (c_sargs c)) with
  | None => bad_case_output
  | Some rs =>
    (* zargs[5]: bit 0 = light scenario (ignored), bit 1 = the implementation under test uses the
       length-prefixed merged key (observed by the harness on the real LogProcessCounterSet) *)
    let lp := Z.testbit (zarg c 5) 1 in
    let '(i, ps) := run_records code_counts_extraction_drops (merge_key lp) (map rec_of_desc rs) in
    str_ok ++ colon :: [105; 61]%N ++ ic_text (i_cnt i)
    ++ ch_semi :: [108; 61]%N ++ lab_text (i_lab i)
    ++ ch_semi :: [119; 61]%N ++ pipes_text ps
  end.

(* ---- kind 2: one buffer + client, observed events -> counters ----
   zargs: d0..d5 descriptor (ignored), then
     dir, quota, qcap, wcap, fix5, ackcap, nfiles0,
     nchunks, size_0 .. size_(n-1),          chunk table: ids are indices
     then the events:
       1 id          BRecover            2 id spill wr   BAccept
       3             BFeedTake           4 rd ul         BFeedLoad
       5             BFeedPush           6               BDestroy
       7             BFeedAbort          8               BFeedEnd
       9 wr          BSaveQueue          10 wr           BSaveLast
       11 wr         BSaveWindow
       20            STake               21 id ul        SAck (id = -1: empty id)
       22 wr         SHandBack           23              SStop
       24            SInputClosed        25              SFinish
       30 COpen 31 COpenFail 32 COpenStop 33 COpenOk 34 CRetryElapsed 35 CRetryStop 36 CPopLeft
       37 CRecoveryDone 38 CRecoveryStop 39 CReconnect 40 CPingFail 41 CSendFail 42 CSendOk 43 CQueue
       44 CQueueStop 45 CQueueAckerEnded 46 AckerTake 47 AckErr 48 AckerEnd 49 CCollectDone 50 CCollectBug 51 CFinish *)

Definition zb (z : Z) : bool := negb (z =? 0).

Definition size_of (sizes : list Z) (id : Z) : Z := nth (Z.to_nat id) sizes 0.

Fixpoint parse_events (fuel : nat) (sizes : list Z) (l : list Z) : option (list sys_event) :=
  match fuel with
  | O => None
  | S f =>
    let k := parse_events f sizes in
    let cons e r := option_map (cons e) r in
    match l with
    | [] => Some []
    | 1 :: id :: r => cons (SB (BRecover id (size_of sizes id))) (k r)
    | 2 :: id :: sp :: wr :: r => cons (SB (BAccept id (size_of sizes id) (zb sp) (zb wr))) (k r)
    | 3 :: r => cons (SB BFeedTake) (k r)
    | 4 :: rd :: ul :: r => cons (SB (BFeedLoad (zb rd) (zb ul))) (k r)
    | 5 :: r => cons (SB BFeedPush) (k r)
    | 6 :: r => cons (SB BDestroy) (k r)
    | 7 :: r => cons (SB BFeedAbort) (k r)
    | 8 :: r => cons (SB BFeedEnd) (k r)
    | 9 :: wr :: r => cons (SB (BSaveQueue (zb wr))) (k r)
    | 10 :: wr :: r => cons (SB (BSaveLast (zb wr))) (k r)
    | 11 :: wr :: r => cons (SB (BSaveWindow (zb wr))) (k r)
    | 20 :: r => cons STake (k r)
    | 21 :: id :: ul :: r => cons (SAck (if id <? 0 then None else Some id) (zb ul)) (k r)
    | 22 :: wr :: r => cons (SHandBack (zb wr)) (k r)
    | 23 :: r => cons SStop (k r)
    | 24 :: r => cons SInputClosed (k r)
    | 25 :: r => cons SFinish (k r)
    | 30 :: r => cons (SC COpen) (k r)
    | 31 :: r => cons (SC COpenFail) (k r)
    | 32 :: r => cons (SC COpenStop) (k r)
    | 33 :: r => cons (SC COpenOk) (k r)
    | 34 :: r => cons (SC CRetryElapsed) (k r)
    | 35 :: r => cons (SC CRetryStop) (k r)
    | 36 :: r => cons (SC CPopLeft) (k r)
    | 37 :: r => cons (SC CRecoveryDone) (k r)
    | 38 :: r => cons (SC CRecoveryStop) (k r)
    | 39 :: r => cons (SC CReconnect) (k r)
    | 40 :: r => cons (SC CPingFail) (k r)
    | 41 :: r => cons (SC CSendFail) (k r)
    | 42 :: r => cons (SC CSendOk) (k r)
    | 43 :: r => cons (SC CQueue) (k r)
    | 44 :: r => cons (SC CQueueStop) (k r)
    | 45 :: r => cons (SC CQueueAckerEnded) (k r)
    | 46 :: r => cons (SC AckerTake) (k r)
    | 47 :: r => cons (SC AckErr) (k r)
    | 48 :: r => cons (SC AckerEnd) (k r)
    | 49 :: r => cons (SC CCollectDone) (k r)
    | 50 :: r => cons (SC CCollectBug) (k r)
    | 51 :: r => cons (SC CFinish) (k r)
    | _ => None
    end
  end.

Definition bm_text (m : bmetrics) : bytes :=
  zlist [m_pending m; m_in_t m; m_in_p m; m_consumed m; m_leftover m; m_dropped m; m_pchunks m; m_pbytes m].
Definition cm_text (m : cmetrics) : bytes :=
  zlist [k_attempts m; k_fwd_n m; k_fwd_b m; k_ack_n m; k_ack_b m; k_opened m; k_gleft m; k_gpack m].

(* do the client's steps that follow the stop signal respect post_stop_ok?  (ties the assumption used for the
   termination argument of C18 to the traces of the real client) *)
Fixpoint post_stop_check (stopped : bool) (evs : list sys_event) : bool :=
  match evs with
  | [] => true
  | SStop :: r => post_stop_check true r
  | SC ce :: r => (negb stopped || post_stop_ok 1 ce) && post_stop_check stopped r
  | _ :: r => post_stop_check stopped r
  end.

Definition str_reject : bytes := [114;101;106;101;99;116]%N.

Definition run_kind2 (c : case) : bytes :=
  match skipn 6 (c_zargs c) with
  | dir :: quota :: qcap :: wcap :: fix5 :: ackcap :: nfiles0 :: nch :: rest =>
    let n := Z.to_nat nch in
    let sizes := firstn n rest in
    let evz := skipn n rest in
    if Nat.ltb (length rest) n then bad_case_output else
    match parse_events (S (length evz)) sizes evz with
    | None => bad_case_output
    | Some evs =>
      let bc := BC (zb dir) quota (Z.to_nat qcap) (Z.to_nat wcap) (zb fix5) in
      let cc := CC (Z.to_nat ackcap) in
      match sys_run_pos bc cc (sys_init nfiles0) evs 0 with
      | inr pos => str_reject ++ colon :: zs pos
      | inl s =>
        str_ok ++ colon :: [98; 61]%N ++ bm_text (b_m (s_b s))
        ++ ch_semi :: [99; 61]%N ++ cm_text (c_m (s_c s))
        ++ ch_semi :: [102; 61]%N ++ zs (b_nfiles (s_b s))
        ++ ch_semi :: [112; 115; 61]%N ++ zs (bool_Z (post_stop_check false evs))
      end
    end
  | _ => bad_case_output
  end.

(* ---- kind 3: the buffer alone (real bufferer, scripted consumer of the harness) ----
   zargs as for kind 2 (ackcap unused); events 1..11 as there (buffer-internal) and
     12 BTake   13 id ul BConsumed   14 id wr BLeftover   15 BFinish
   output: ok:b=<buffer counters>;f=<files> *)
Fixpoint b_run_pos (cfg : bcfg) (s : bstate) (evs : list b_event) (pos : Z) : bstate + Z :=
  match evs with
  | [] => inl s
  | e :: evs' => match b_step cfg s e with Some s' => b_run_pos cfg s' evs' (pos + 1) | None => inr pos end
  end.

Fixpoint parse_bevents (fuel : nat) (sizes : list Z) (l : list Z) : option (list b_event) :=
  match fuel with
  | O => None
  | S f =>
    let k := parse_bevents f sizes in
    let cons e r := option_map (cons e) r in
    match l with
    | [] => Some []
    | 1 :: id :: r => cons (BRecover id (size_of sizes id)) (k r)
    | 2 :: id :: sp :: wr :: r => cons (BAccept id (size_of sizes id) (zb sp) (zb wr)) (k r)
    | 3 :: r => cons BFeedTake (k r)
    | 4 :: rd :: ul :: r => cons (BFeedLoad (zb rd) (zb ul)) (k r)
    | 5 :: r => cons BFeedPush (k r)
    | 6 :: r => cons BDestroy (k r)
    | 7 :: r => cons BFeedAbort (k r)
    | 8 :: r => cons BFeedEnd (k r)
    | 9 :: wr :: r => cons (BSaveQueue (zb wr)) (k r)
    | 10 :: wr :: r => cons (BSaveLast (zb wr)) (k r)
    | 11 :: wr :: r => cons (BSaveWindow (zb wr)) (k r)
    | 12 :: r => cons BTake (k r)
    | 13 :: id :: ul :: r => cons (BConsumed id (zb ul)) (k r)
    | 14 :: id :: wr :: r => cons (BLeftover id (zb wr)) (k r)
    | 15 :: r => cons BFinish (k r)
    | _ => None
    end
  end.

Definition run_kind3 (c : case) : bytes :=
  match skipn 6 (c_zargs c) with
  | dir :: quota :: qcap :: wcap :: fix5 :: ackcap :: nfiles0 :: nch :: rest =>
    let n := Z.to_nat nch in
    let sizes := firstn n rest in
    let evz := skipn n rest in
    if Nat.ltb (length rest) n then bad_case_output else
    match parse_bevents (S (length evz)) sizes evz with
    | None => bad_case_output
    | Some evs =>
      let bc := BC (zb dir) quota (Z.to_nat qcap) (Z.to_nat wcap) (zb fix5) in
      match b_run_pos bc (b_init nfiles0) evs 0 with
      | inr pos => str_reject ++ colon :: zs pos
      | inl s =>
        str_ok ++ colon :: [98; 61]%N ++ bm_text (b_m s) ++ ch_semi :: [102; 61]%N ++ zs (b_nfiles s)
      end
    end
  | _ => bad_case_output
  end.

(* kind 9: a scenario descriptor; the implementation side runs the scenario and emits the cases of
   kind 1 and 2 derived from what it observed *)
Definition str_scn : bytes := [115;99;110]%N.

Definition run_case_C19 (c : case) : bytes :=
  match c_kind c with
  | 1%N => run_kind1 c
  | 2%N => run_kind2 c
  | 3%N => run_kind3 c
  | 9%N => str_scn
  | _ => bad_case_output
  end.
