(* C19 — Metrics balance with what actually happened.
   Only the property theorems; each is closed by [exact] of a lemma from Proofs/MetricsProofs.v.
   The machines (Model/Metrics.v) mirror where the Go code increments what; every theorem is an invariant
   over ARBITRARY event lists (all record streams, all schedules of feeder / consumer / acknowledger, all
   upstream fault scripts, all stop moments). *)
From SV Require Import Model.Common Model.Metrics Model.MetricsMem Proofs.MetricsProofs Proofs.MetricsMemProofs.
Local Open Scope Z_scope.

(* ---- input ---- *)

(* input passed + dropped = messages handed to the parser, records and bytes (both code variants) *)
Theorem C19_input_balance :
  forall (counted : bool) (evs : list in_event),
  let s := in_run counted evs in
  ic_pn (i_cnt s) + ic_dn (i_cnt s) = count_ev all_ev evs /\
  ic_pb (i_cnt s) + ic_db (i_cnt s) = sum_len all_ev evs.
Proof. exact in_balance_lemma. Qed.
Print Assumptions C19_input_balance.

(* the repaired code: input passed = the records returned to the receiver, input dropped = all the others
   (malformed, or dropped by an extraction transform), records and bytes *)
Theorem C19_input_passed_is_delivered :
  forall evs : list in_event,
  let s := in_run true evs in
  ic_pn (i_cnt s) = count_ev ev_delivered evs /\ ic_pb (i_cnt s) = sum_len ev_delivered evs /\
  ic_dn (i_cnt s) = count_ev (fun e => negb (ev_delivered e)) evs /\
  ic_db (i_cnt s) = sum_len (fun e => negb (ev_delivered e)) evs.
Proof. exact in_passed_is_delivered_lemma. Qed.
Print Assumptions C19_input_passed_is_delivered.

(* the code before the repair (compositeParser "TODO: metrics"): a record dropped by an extraction transform
   stayed counted as passed.  Finding C19-extraction-drop, fixed. *)
Theorem C19_extraction_drop_before_fix_refuted :
  exists evs, ic_pn (i_cnt (in_run false evs)) <> count_ev ev_delivered evs.
Proof. exact in_uncounted_refuted_lemma. Qed.
Print Assumptions C19_extraction_drop_before_fix_refuted.

(* ---- between parser and workers ---- *)

(* records in flight are conserved; at quiescence with no batch lost by the channel timeout ("BUG" branch of
   channelInputBuffer.Flush) every record returned by the parser has entered a worker *)
Theorem C19_flow_conservation :
  forall evs s, flow_run flow_init evs = Some s ->
  f_delivered s = f_sink s + f_cache s + f_chan s + f_worker s + f_lost s /\
  (flow_quiet s = true -> f_lost s = 0 -> f_worker s = f_delivered s).
Proof. exact flow_conservation_lemma. Qed.
Print Assumptions C19_flow_conservation.

(* ---- pipeline worker ---- *)

(* pipeline passed + dropped (summed over the key sets) = records entering the worker, for any map key *)
Theorem C19_pipeline_balance :
  forall (mg : list bytes -> bytes) (nout : nat) (evs : list p_event),
  let s := p_run_mg mg nout evs in
  kmap_sum g_n (p_map s) = p_entered s /\ kmap_sum g_b (p_map s) = p_entered_b s.
Proof. exact p_balance_lemma. Qed.
Print Assumptions C19_pipeline_balance.

(* input and workers together: for every stream of well-formed records, routed to any pipelines,
   the pipelines' passed + dropped = input passed (records and bytes) *)
Theorem C19_pipeline_equals_input :
  forall (mg : list bytes -> bytes) (rs : list rec_run), Forall rr_wf rs ->
  let st := run_records true mg rs in
  pipes_total_n (snd st) = ic_pn (i_cnt (fst st)) /\ pipes_total_b (snd st) = ic_pb (i_cnt (fst st)).
Proof. exact pipeline_equals_input_lemma. Qed.
Print Assumptions C19_pipeline_equals_input.

(* labelled counters are keyed by the record's own metric-key tuple.
   PARTIAL for the code of this tree (map key = plain concatenation): it holds when no two tuples that occur
   have the same concatenation; what is missing is exactly the refuted instance below (owner: C06). *)
Theorem C19_label_attribution_partial :
  forall (nout : nat) (evs : list p_event),
  (forall a b, In a (keys_of evs) -> In b (keys_of evs) -> concat a = concat b -> a = b) ->
  forall ks, In ks (keys_of evs) -> attributed (merge_key false) nout evs ks.
Proof. exact attribution_concat_lemma. Qed.
Print Assumptions C19_label_attribution_partial.

Theorem C19_label_attribution_refuted :
  exists evs ks, In ks (keys_of evs) /\ ~ attributed (merge_key false) 0 evs ks.
Proof. exact attribution_concat_refuted_lemma. Qed.
Print Assumptions C19_label_attribution_refuted.

(* with the length-prefixed map key (util.AppendMergedKey, the repair made for C06) the statement is full *)
Theorem C19_label_attribution_length_prefixed :
  forall (nout : nat) (evs : list p_event) (ks : list bytes),
  In ks (keys_of evs) -> attributed (merge_key true) nout evs ks.
Proof. exact attribution_lp_lemma. Qed.
Print Assumptions C19_label_attribution_length_prefixed.

(* ---- pipeline worker on POOLED records (Model/MetricsMem.v): strings are headers into buffers that the
   allocator recycles; [own_events] = the records as their messages said when they were parsed ---- *)

(* for every history of parses and worker steps the machine accepts - any buffer the pool hands out, any
   interleaving of parser and worker, any number of recyclings -, any map key function, and both code variants
   that keep COPIES (this tree: no fast path; a fast path remembering copies of the previous key values):
   a scrape shows exactly the counter sets of the value-level worker run on the records' OWN key values *)
Theorem C19_pooled_records_counted_by_own_values :
  forall (mg : list bytes -> bytes) (v : mvariant), mv_copy_keys v = true -> mv_cache v <> CacheTransient ->
  forall (evs : list m_event) (s : mstate), m_run mg v m_init evs = Some s ->
  m_view s = p_map (p_run_mg mg 0 (own_events evs)).
Proof. exact (fun mg v H1 H2 => mem_refines_lemma mg v (conj H1 H2)). Qed.
Print Assumptions C19_pooled_records_counted_by_own_values.

(* ... and every record the worker processed is counted exactly once (passed or dropped) in some counter set *)
Theorem C19_pooled_records_every_record_counted :
  forall (mg : list bytes -> bytes) (v : mvariant), mv_copy_keys v = true -> mv_cache v <> CacheTransient ->
  forall (evs : list m_event) (s : mstate), m_run mg v m_init evs = Some s ->
  kmap_sum g_n (m_view s) = works evs.
Proof. exact (fun mg v H1 H2 => mem_total_lemma mg v (conj H1 H2)). Qed.
Print Assumptions C19_pooled_records_every_record_counted.

(* the property for labelled counters, on pooled records, for the code of this tree (length-prefixed map key, no
   fast path): every metric-key tuple some processed record had when it was parsed has a counter set that carries
   exactly that tuple as label values and counts exactly the records whose own tuple it is *)
Theorem C19_pooled_records_label_attribution :
  forall (evs : list m_event) (s : mstate), m_run (merge_key true) mv_tree m_init evs = Some s ->
  forall ks, In ks (keys_of (own_events evs)) ->
  exists kc, kmap_get (m_view s) (merge_key true ks) = Some kc /\ kc_keys kc = ks /\
    ic_pn (kc_in kc) = psum (on (selk ks) w_pn) (own_events evs) /\
    ic_pb (kc_in kc) = psum (on (selk ks) w_pb) (own_events evs) /\
    ic_dn (kc_in kc) = psum (on (selk ks) w_dn) (own_events evs) /\
    ic_db (kc_in kc) = psum (on (selk ks) w_db) (own_events evs) /\
    forall l, lab_get (kc_lab kc) l =
              (psum (on (selk ks) (w_ln l)) (own_events evs), psum (on (selk ks) (w_lb l)) (own_events evs)).
Proof. exact (mem_attribution_lemma mv_tree faithful_tree). Qed.
Print Assumptions C19_pooled_records_label_attribution.

(* the theorem depends on the copies.  Variant: a fast path in SelectMetricKeySet that remembers the previous
   record's transient strings.  Witness: "aaaa" processed and released, "bbbb" parsed into the recycled buffer:
   the record with "bbbb" is counted under "aaaa" and no counter set carries "bbbb" *)
Theorem C19_transient_key_cache_variant_refuted :
  exists evs s, m_run (merge_key true) (MV true CacheTransient) m_init evs = Some s /\
    In [ex_b] (keys_of (own_events evs)) /\
    kmap_get (m_view s) (merge_key true [ex_b]) = None /\
    ~ mem_attributed (m_view s) (own_events evs) [ex_a].
Proof. exact transient_cache_refuted_lemma. Qed.
Print Assumptions C19_transient_key_cache_variant_refuted.

(* variant: the label values of a new counter set are not copied (no util.DeepCopyStrings): after the buffer is
   recycled the counter set created for "aaaa" shows the label value "bbbb" *)
Theorem C19_uncopied_label_values_variant_refuted :
  exists evs s kc, m_run (merge_key true) (MV false NoCache) m_init evs = Some s /\
    kmap_get (m_view s) (merge_key true [ex_a]) = Some kc /\ kc_keys kc = [ex_b].
Proof. exact uncopied_keys_refuted_lemma. Qed.
Print Assumptions C19_uncopied_label_values_variant_refuted.

(* non-vacuity: histories with a recycled buffer / two buffers in flight are accepted by the faithful variants *)
Theorem C19_pooled_records_example :
  (exists s, m_run (merge_key true) mv_tree m_init ex_recycle = Some s /\
             keys_of (own_events ex_recycle) = [[ex_a]; [ex_b]] /\ works ex_recycle = 2) /\
  (exists s, m_run (merge_key true) (MV true CacheCopies) m_init ex_two_buffers = Some s /\ works ex_two_buffers = 3).
Proof. exact mem_example_lemma. Qed.
Print Assumptions C19_pooled_records_example.

(* ---- buffer ---- *)

(* accepted = consumed + leftover + dropped + pending in every reachable state (both variants of OnChunkLeftover);
   pending_chunks = the chunks the buffer still owes an answer for *)
Theorem C19_buffer_balance :
  forall cfg n0 evs s, b_run cfg (b_init n0) evs = Some s ->
  m_in_t (b_m s) + m_in_p (b_m s) = m_consumed (b_m s) + m_leftover (b_m s) + m_dropped (b_m s) + m_pending (b_m s) /\
  m_in_t (b_m s) + m_in_p (b_m s) = b_accepted s + b_recovered s /\
  m_pending (b_m s) = b_holdings s.
Proof. exact buffer_balance_lemma. Qed.
Print Assumptions C19_buffer_balance.

(* after Destroy has completed: pending_chunks = the chunks saved by the feeder at shutdown, each one a file;
   accepted + recovered = consumed + leftover + dropped + saved-at-shutdown; the files in the directory are
   accounted for *)
Theorem C19_buffer_after_destroy :
  forall cfg n0 evs s, b_run cfg (b_init n0) evs = Some s -> b_phase s = BDone ->
  m_pending (b_m s) = zlen (b_parked s) /\ all_saved (b_parked s) /\
  b_accepted s + b_recovered s = m_consumed (b_m s) + m_leftover (b_m s) + m_dropped (b_m s) + zlen (b_parked s) /\
  b_nfiles s = (n0 - b_recovered s) + zlen (b_parked s) + zlen (b_left s) + b_orphans s.
Proof. exact buffer_done_lemma. Qed.
Print Assumptions C19_buffer_after_destroy.

(* the persistent_chunks gauge counts the files of the chunks the buffer still knows: in every reachable state, as
   long as no unlink failed, persistent_chunks = files in the directory - files never recovered - files left behind
   by chunks counted dropped *)
Theorem C19_persistent_gauge :
  forall cfg n0 evs s, forallb unlink_ok evs = true -> b_run cfg (b_init n0) evs = Some s ->
  m_pchunks (b_m s) = b_nfiles s - (n0 - b_recovered s) - b_orphans s.
Proof. exact persistent_gauge_lemma. Qed.
Print Assumptions C19_persistent_gauge.

(* boundary of the property, not a finding: "pending = 0 after Destroy" is false, the chunks saved at
   shutdown stay counted as pending (they are what "left on disk" means for chunks never handed out) *)
Theorem C19_pending_zero_after_destroy_refuted :
  exists evs s, b_run (bcfg_std false) (b_init 0) evs = Some s /\ b_phase s = BDone /\ m_pending (b_m s) <> 0.
Proof. exact pending_zero_after_destroy_refuted_lemma. Qed.
Print Assumptions C19_pending_zero_after_destroy_refuted.

(* original OnChunkLeftover (this tree): a hand-back that cannot be stored is counted as leftover although the
   chunk is neither on disk nor held by anyone.  Known finding, owner C03 (repaired there). *)
Theorem C19_leftover_counted_when_lost_refuted :
  exists cfg evs s, bc_fix5 cfg = false /\ b_run cfg (b_init 0) evs = Some s /\
    m_leftover (b_m s) = 1 /\ b_left s = [] /\ b_nfiles s = 0 /\ b_holdings s = 0.
Proof. exact leftover_lost_refuted_lemma. Qed.
Print Assumptions C19_leftover_counted_when_lost_refuted.

Theorem C19_leftover_on_disk_repaired :
  forall cfg n0 evs s, bc_fix5 cfg = true -> b_run cfg (b_init n0) evs = Some s ->
  m_leftover (b_m s) = zlen (b_left s) /\ all_saved (b_left s).
Proof. exact leftover_on_disk_lemma. Qed.
Print Assumptions C19_leftover_on_disk_repaired.

(* ---- client ---- *)

(* in every reachable state, under the connection contract (c_bug = 0: the acknowledger always ended in time):
   forwarded = acknowledged + unacknowledged-at-session-ends + waiting for ACK; the pendingAck gauge is what
   waits for ACK; attempts = completed + failed (+1 while sending); completed >= forwarded >= acknowledged;
   chunks taken = confirmed + handed back + held (+ duplicates removed) *)
Theorem C19_client_invariants :
  forall cfg evs s, c_run cfg c_init evs = Some s -> c_bug s = 0 ->
  k_fwd_n (c_m s) = k_ack_n (c_m s) + c_unacked_total s + zlen (c_achan s) + zlen (c_pmap s) /\
  k_gpack (c_m s) = zlen (c_achan s) + zlen (c_pmap s) /\
  k_gleft (c_m s) = zlen (c_left s) + c_dups s /\
  k_attempts (c_m s) = c_completed s + c_failed s + sending_Z (c_phase s) /\
  k_fwd_n (c_m s) <= c_completed s /\ k_ack_n (c_m s) <= k_fwd_n (c_m s) /\
  k_ack_n (c_m s) = c_cb_consumed s /\
  c_taken s = c_cb_consumed s + c_cb_left s + c_holdings s + c_dups s.
Proof. exact client_invariants_lemma. Qed.
Print Assumptions C19_client_invariants.

Theorem C19_client_final :
  forall cfg evs s, c_run cfg c_init evs = Some s -> c_phase s = CStopped -> c_bug s = 0 ->
  c_holdings s = 0 /\
  k_fwd_n (c_m s) = k_ack_n (c_m s) + c_unacked_total s /\
  k_gpack (c_m s) = 0 /\ k_gleft (c_m s) = c_dups s /\
  k_attempts (c_m s) = c_completed s + c_failed s /\
  c_taken s = c_cb_consumed s + c_cb_left s + c_dups s.
Proof. exact client_final_lemma. Qed.
Print Assumptions C19_client_final.

(* when the input channel never delivers an id the client already holds, no duplicate is ever removed *)
Theorem C19_client_no_duplicates :
  forall cfg evs s, c_run cfg c_init evs = Some s -> takes_fresh cfg c_init evs -> c_bug s = 0 -> c_dups s = 0.
Proof. exact client_no_dups_lemma. Qed.
Print Assumptions C19_client_no_duplicates.

(* the contract is needed: outside it (BUG branch) the pendingAck gauge never returns to zero and a chunk is
   neither confirmed nor handed back *)
Theorem C19_acker_stuck_refuted :
  exists evs s, c_run (CC 3) c_init evs = Some s /\ c_phase s = CStopped /\ c_bug s = 1 /\
                k_gpack (c_m s) = 1 /\ c_taken s = 1 /\ c_cb_consumed s + c_cb_left s = 0.
Proof. exact acker_stuck_refuted_lemma. Qed.
Print Assumptions C19_acker_stuck_refuted.

(* ---- one pipeline x output: buffer + client ---- *)

Theorem C19_system_invariants :
  forall bc cc n0 evs s, sys_run bc cc (sys_init n0) evs = Some s ->
  let b := s_b s in let c := s_c s in
  m_in_t (b_m b) + m_in_p (b_m b) = m_consumed (b_m b) + m_leftover (b_m b) + m_dropped (b_m b) + m_pending (b_m b) /\
  m_in_t (b_m b) + m_in_p (b_m b) = b_accepted b + b_recovered b /\
  k_ack_n (c_m c) = m_consumed (b_m b) /\
  zlen (b_held b) = c_taken c - c_cb_consumed c - c_cb_left c /\
  k_attempts (c_m c) >= c_completed c /\ c_completed c >= k_fwd_n (c_m c).
Proof. exact system_invariants_lemma. Qed.
Print Assumptions C19_system_invariants.

(* at quiescence: accepted = acknowledged + leftover + dropped + saved at shutdown; pending = saved at shutdown;
   acknowledged = consumed; the client's gauges are zero; forwarded = acknowledged + unacknowledged at session
   ends; attempts >= completed sends >= forwarded >= acknowledged *)
Theorem C19_system_final :
  forall bc cc n0 evs s, sys_run bc cc (sys_init n0) evs = Some s ->
  let b := s_b s in let c := s_c s in
  b_phase b = BDone -> c_bug c = 0 -> c_dups c = 0 ->
  b_accepted b + b_recovered b = k_ack_n (c_m c) + m_leftover (b_m b) + m_dropped (b_m b) + zlen (b_parked b) /\
  m_pending (b_m b) = zlen (b_parked b) /\ all_saved (b_parked b) /\
  k_ack_n (c_m c) = m_consumed (b_m b) /\
  k_gpack (c_m c) = 0 /\ k_gleft (c_m c) = 0 /\
  k_fwd_n (c_m c) = k_ack_n (c_m c) + c_unacked_total c /\
  k_attempts (c_m c) = c_completed c + c_failed c /\ c_completed c >= k_fwd_n (c_m c) /\ k_fwd_n (c_m c) >= k_ack_n (c_m c) /\
  c_taken c = k_ack_n (c_m c) + c_cb_left c /\
  (bc_fix5 bc = false -> m_leftover (b_m b) = c_cb_left c).
Proof. exact system_final_lemma. Qed.
Print Assumptions C19_system_final.

(* non-vacuity: a run with a spilled chunk, an acknowledged chunk, a failed send, a stop during the retry wait
   and a hand-back reaches quiescence inside the hypotheses of C19_system_final; a record stream with every
   kind of record satisfies the hypothesis of C19_pipeline_equals_input *)
Theorem C19_example :
  (exists s, sys_run (bcfg_std false) (CC 3) (sys_init 0) example_run = Some s /\
    b_phase (s_b s) = BDone /\ c_bug (s_c s) = 0 /\ c_dups (s_c s) = 0 /\
    b_accepted (s_b s) = 2 /\ k_ack_n (c_m (s_c s)) = 1 /\ m_leftover (b_m (s_b s)) = 1 /\
    k_attempts (c_m (s_c s)) = 2 /\ k_fwd_n (c_m (s_c s)) = 1) /\
  (Forall rr_wf example_records /\
   ic_pn (i_cnt (fst (run_records true (merge_key false) example_records))) = 2 /\
   ic_dn (i_cnt (fst (run_records true (merge_key false) example_records))) = 2).
Proof. exact (conj example_run_lemma example_records_lemma). Qed.
Print Assumptions C19_example.
